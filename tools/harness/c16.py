"""C16 harness: msgpack_serialize/msgpack_deserialize, SQLiteFederatedDataBuilder ->
SQLiteFederatedData, save_state/load_state and save_checkpoint/load_latest_checkpoint.

Cases are pure JSON "specs" of python values (arrays are given by dtype name, byte
order, memory layout, shape and the row-major list of element BIT PATTERNS), built
into real objects by `_build`.  The oracle compares the decoded object -- observed
element by element through numpy scalar indexing, never through tobytes/frombuffer
of the whole array -- with the spec itself (pure python, no fedjax helper)."""
import contextlib
import io
import itertools
import os
import shutil
import struct
import tempfile

import numpy as np
from lib import fw

PROP = 'C16'
COQ_HEADER = 'From FV Require Import Model.C16_Model.'
COQ_AGREE = 'C16_agree'
COQ_MODEL_TARGETS = ['Model/C16_Model']
RULE = ('exhaustive grid dtype(15) x byte order x layout(C,F,strided,reversed,broadcast) x shape(0-d, empty with a zero '
        'in each position, rank 1..4); nesting depth 0..3 dict/list mixes; bytes-object arrays; numpy / python scalars '
        'incl. NaN payloads, inf, -0.0, ints at and beyond the 64-bit limits; unsupported leaves; SQLite builder->reader; '
        'save_state/load_state, save_checkpoint/load_latest_checkpoint.  non-trivial = the value holds at least one '
        'array element / scalar / bytes item; distinct = distinct case JSON')
TRUSTED = ['msgpack.packb/unpackb are inverse on the document tree (tuples->lists; raw=True returns str as bytes)',
           'numpy.ndarray.tobytes("C") emits the logical row-major elements in the dtype\'s byte order; numpy.frombuffer is its inverse for a native dtype',
           'pickle.dump/load, zlib.compress/decompress are inverse pairs; SQLite returns rows in rowid = insertion order',
           'numpy dtype.name of a non-numeric dtype (strN, bytesN, voidN, recordN) is never the name of a numeric dtype']
ASSUMPTIONS = ['dict keys are str (the property\'s nesting); python ints outside [-2^63, 2^64) are outside msgpack\'s integer '
               'domain and are expected to be rejected (OverflowError), not round-tripped',
               'element values are compared as bit patterns (NaN payloads, -0.0 preserved)']
PARTIAL = ['the CONTENT of pickled states (save_state/load_state) is checked by the oracle only (pickle is opaque to the model); which state / round a '
           'save_checkpoint / load_latest_checkpoint sequence returns is modelled (ck_run) and proved (C16_checkpoint_last_save_wins)',
           'zlib and the SQLite engine are not modelled: the model stores the msgpack document tree per row']
CASE_TIMEOUT = 900

WIDTH = {'int8': 1, 'int16': 2, 'int32': 4, 'int64': 8, 'uint8': 1, 'uint16': 2, 'uint32': 4, 'uint64': 8,
         'float16': 2, 'bfloat16': 2, 'float32': 4, 'float64': 8, 'complex64': 8, 'complex128': 16, 'bool': 1}
COQ_DT = {'int8': 'I8', 'int16': 'I16', 'int32': 'I32', 'int64': 'I64', 'uint8': 'U8', 'uint16': 'U16',
          'uint32': 'U32', 'uint64': 'U64', 'float16': 'F16', 'bfloat16': 'BF16', 'float32': 'F32',
          'float64': 'F64', 'complex64': 'C64', 'complex128': 'C128', 'bool': 'BOOL'}
LAYOUTS = ('C', 'F', 'strided', 'reversed', 'broadcast', 'colslice', 'readonly')
SHAPES = [[], [0], [1], [3], [0, 2], [2, 0], [2, 3], [1, 1], [0, 2, 2], [2, 0, 2], [2, 2, 0], [2, 1, 3],
          [0, 1, 2, 2], [2, 1, 0, 2], [2, 1, 2, 0], [2, 1, 2, 3]]

# special bit patterns per dtype: zero, -0.0, inf, -inf, quiet/signalling NaN with payload, subnormal, extremes
SPECIAL = {
    'float16': [0x0000, 0x8000, 0x7c00, 0xfc00, 0x7e01, 0x7d55, 0x0001, 0x3c00, 0xfbff],
    'bfloat16': [0x0000, 0x8000, 0x7f80, 0xff80, 0x7fc1, 0x7fa5, 0x0001, 0x3f80, 0xff7f],
    'float32': [0x00000000, 0x80000000, 0x7f800000, 0xff800000, 0x7fc00001, 0x7fa12345, 0x00000001, 0x3f800000],
    'float64': [0x0, 0x8000000000000000, 0x7ff0000000000000, 0xfff0000000000000, 0x7ff8000000000001,
                0x7ff4000000012345, 0x1, 0x3ff0000000000000],
}


def _prod(shape):
  n = 1
  for s in shape:
    n *= s
  return n


def _pattern(dtype, k, rng=None):
  """k-th element bit pattern for a dtype (deterministic; distinct neighbours)."""
  w = WIDTH[dtype]
  if dtype == 'bool':
    return k % 2 if rng is None else rng.randrange(2)
  if dtype in SPECIAL and (k % 3 == 0):
    sp = SPECIAL[dtype]
    return sp[(k // 3) % len(sp)]
  if dtype == 'complex64':
    sp = SPECIAL['float32']
    return sp[k % len(sp)] | (sp[(k * 5 + 3) % len(sp)] << 32)
  if dtype == 'complex128':
    sp = SPECIAL['float64']
    return sp[k % len(sp)] | (sp[(k * 3 + 1) % len(sp)] << 64)
  if rng is not None:
    return rng.randrange(256 ** w)
  # small signed / unsigned values incl. the extremes
  vals = [0, 1, 256 ** w - 1, 256 ** w // 2, 256 ** w // 2 - 1, 0x0102030405060708 % 256 ** w, 200 % 256 ** w]
  return vals[k % len(vals)] if dtype[0] in 'iu' else (0x3c00 + 17 * k) % 256 ** w if w == 2 else \
      (0x3f800000 + 0x1234567 * k) % 256 ** w if w == 4 else (0x3ff0000000000000 + 0x123456789abcd * k) % 256 ** w


def arr_spec(dtype, order, layout, shape, rng=None, jax=False, salt=0):
  n = _prod(shape)
  if layout == 'broadcast' and shape:
    sub = _prod(shape[1:])
    base = [_pattern(dtype, salt + i, rng) for i in range(sub)]
    bits = base * shape[0]
  else:
    bits = [_pattern(dtype, salt + i, rng) for i in range(n)]
  return {'t': 'arr', 'dtype': dtype, 'order': order, 'layout': layout, 'shape': list(shape), 'bits': bits,
          **({'jax': True} if jax else {})}


# --------------------------------------------------------------------------
# spec -> python object

import collections as _collections
NT0 = _collections.namedtuple('NT0', [])                 # module level: picklable
NT1 = _collections.namedtuple('NT1', ['f0'])
NT2 = _collections.namedtuple('NT2', ['f0', 'f1'])
_NT = {0: NT0, 1: NT1, 2: NT2}


def _np_dtype(name):
  if name == 'bfloat16':
    import ml_dtypes
    return np.dtype(ml_dtypes.bfloat16)
  return np.dtype(name)


def _logical(dtype, shape, bits):
  """Native C array holding the given element bit patterns."""
  w = WIDTH[dtype]
  n = _prod(shape)
  assert len(bits) == n, 'bits/shape mismatch in the spec'
  if w <= 8:
    u = np.array([int(b) for b in bits], dtype={1: np.uint8, 2: np.uint16, 4: np.uint32, 8: np.uint64}[w])
  else:
    u = np.array([[int(b) & (2 ** 64 - 1), int(b) >> 64] for b in bits], dtype=np.uint64).reshape(-1)
  return u.view(_np_dtype(dtype)).reshape(shape)


def _build_arr(spec):
  dtype, shape, layout = spec['dtype'], tuple(spec['shape']), spec['layout']
  a = _logical(dtype, shape, spec['bits'])
  if spec.get('jax'):
    import jax
    import jax.numpy as jnp
    form = spec.get('jaxform')
    if form == 'weak':           # weakly typed 0-d array made from a python scalar
      return jnp.asarray(a[()].item())
    if form == 'jit':            # output buffer of a jitted computation
      return jax.jit(lambda v: v)(jnp.asarray(a))
    return jnp.asarray(a)
  if spec['order'] == 'swapped':
    a = a.byteswap().view(a.dtype.newbyteorder('>'))
  dt = a.dtype
  if layout == 'C' or not shape:
    out = np.array(a, order='C', copy=True)
    if layout == 'broadcast':
      out = np.broadcast_to(out, shape)
    if layout == 'readonly':
      out.flags.writeable = False
  elif layout == 'F':
    out = np.asfortranarray(a)
  elif layout == 'strided':
    big = np.zeros(tuple(2 * s + 1 for s in shape), dtype=dt)
    out = big[tuple(slice(1, 1 + 2 * s, 2) for s in shape)]
    out[...] = a
  elif layout == 'reversed':
    big = np.array(a[tuple(slice(None, None, -1) for _ in shape)], order='C', copy=True)
    out = big[tuple(slice(None, None, -1) for _ in shape)]
  elif layout == 'colslice':        # a non-contiguous column window of a wider (transposed) array
    big = np.zeros(tuple(s + 3 for s in shape), dtype=dt).T
    out = big[tuple(slice(2, 2 + s) for s in reversed(shape))].T if False else \
        np.zeros(tuple(s + 3 for s in reversed(shape)), dtype=dt).T[tuple(slice(1, 1 + s) for s in shape)]
    out[...] = a
  elif layout == 'readonly':        # read-only Fortran-ordered array
    out = np.asfortranarray(a)
    out.flags.writeable = False
  elif layout == 'broadcast':
    sub = np.array(a[0:1], order='C', copy=True).reshape(shape[1:]) if shape[0] > 0 else np.zeros(shape[1:], dtype=dt)
    out = np.broadcast_to(sub, shape)
  else:
    raise AssertionError(layout)
  assert out.dtype == dt and out.shape == shape
  return out


def _unhex(h):
  return bytes.fromhex(h)


def _build(spec):
  t = spec['t']
  if t == 'dict':
    return {(bytes.fromhex(k['b']) if isinstance(k, dict) else k): _build(v) for k, v in spec['items']}
  if t == 'list':
    return [_build(v) for v in spec['items']]
  if t == 'tuple':
    vals = tuple(_build(v) for v in spec['items'])
    if spec.get('cls') == 'namedtuple':
      return _NT[len(vals)](*vals)
    return vals
  if t == 'container':       # container kinds msgpack_serialize does not accept (pickle does)
    import collections
    import dataclasses
    inner = {k: _build(v) for k, v in spec['items']}
    k = spec['k']
    if k == 'OrderedDict':
      return collections.OrderedDict(inner)
    if k == 'defaultdict':
      return collections.defaultdict(int, inner)
    if k == 'FlatMapping':
      import haiku as hk
      return hk.data_structures.to_immutable_dict(inner)      # haiku FlatMap (a Mapping that is not a dict)
    if k == 'MappingProxy':
      import types
      return types.MappingProxyType(inner)
    if k == 'dataclass':
      return dataclasses.make_dataclass('DC', list(inner))(**inner)
    if k == 'dict_values':
      return inner.values()
    raise AssertionError(k)
  if t == 'set':
    return {1, 2}
  if t == 'arr':
    return _build_arr(spec)
  if t == 'obj':
    shape = tuple(spec['shape'])
    flat = np.empty(len(spec['elems']), dtype=object)
    for i, e in enumerate(spec['elems']):
      flat[i] = _unhex(e) if isinstance(e, str) else {'str': 'text', 'int': 7, 'none': None, 'bytearray': bytearray(b'x'),
                                                         'float': 1.5}[e['nb']]
    a = flat.reshape(shape)
    if spec.get('layout') == 'F':
      a = np.asfortranarray(a)
    elif spec.get('layout') == 'strided' and shape:
      big = np.empty(tuple(2 * s + 1 for s in shape), dtype=object)
      big[...] = 0
      v = big[tuple(slice(1, 1 + 2 * s, 2) for s in shape)]
      v[...] = a
      a = v
    return a
  if t == 'npscalar':
    return _logical(spec['dtype'], (), [spec['bits']])[()]
  if t == 'int':
    return int(spec['v'])
  if t == 'float':
    return struct.unpack('<d', struct.pack('<Q', spec['bits']))[0]
  if t == 'bool':
    return bool(spec['v'])
  if t == 'none':
    return None
  if t == 'str':
    return spec['v']
  if t == 'bytes':
    return _unhex(spec['hex'])
  if t == 'complex':
    f = lambda b: struct.unpack('<d', struct.pack('<Q', b))[0]
    return complex(f(spec['re']), f(spec['im']))
  if t == 'other':
    return _build_other(spec)
  if t == 'extra':
    return np.frombuffer(bytes.fromhex(spec['hex']), dtype=_extra_dtype(spec['dtype'])).reshape(spec['shape']).copy()
  if t == 'npother':
    k = spec['k']
    if k == 'str':
      return np.str_('ab')
    if k == 'bytes':
      return np.bytes_(b'ab')
    return np.zeros(1, dtype=_struct_dtype(k == 'void-aligned', False))[0]
  raise AssertionError('unknown spec ' + t)


def _struct_dtype(aligned, hasobj):
  fields = [('a', 'i1'), ('b', 'O' if hasobj else 'f4')]
  return np.dtype(fields, align=aligned)


def _build_other(spec):
  k, shape = spec['k'], tuple(spec['shape'])
  n = _prod(shape)
  if k == 'U':
    return np.array(['w%d' % i for i in range(n)], dtype='U3').reshape(shape)
  if k == 'S':
    return np.array([b'w%d' % i for i in range(n)], dtype='S3').reshape(shape)
  if k == 'V':
    return np.zeros(shape, dtype='V4')
  if k.startswith('struct'):
    return np.zeros(shape, dtype=_struct_dtype('aligned' in k, 'obj' in k))
  raise AssertionError(k)


# --------------------------------------------------------------------------
# python object -> observation (spec-like, JSON-able)

def _scalar_bits(s):
  """Bit pattern of a numpy scalar (numpy scalars are always native)."""
  return int.from_bytes(s.tobytes(), 'little')


def _arr_bits(a):
  return [_scalar_bits(a[idx]) for idx in np.ndindex(a.shape)]


def _observe(y):
  import collections.abc
  if isinstance(y, collections.abc.Mapping) and type(y) is not dict:      # dict subclasses / other mappings (pickle path)
    return {**_observe(dict(y)), 'cls': type(y).__name__}
  if isinstance(y, tuple) and type(y) is not tuple:
    return {'t': 'tuple', 'cls': 'namedtuple' if hasattr(y, '_fields') else type(y).__name__, 'items': [_observe(v) for v in y]}
  if isinstance(y, dict):
    items = []
    for k, v in y.items():
      items.append([k if isinstance(k, str) else {'b': k.hex()} if type(k) is bytes else {'nonstr': type(k).__name__}, _observe(v)])
    return {'t': 'dict', 'items': items}
  if isinstance(y, list):
    return {'t': 'list', 'items': [_observe(v) for v in y]}
  if isinstance(y, tuple):
    return {'t': 'tuple', 'items': [_observe(v) for v in y]}
  if isinstance(y, np.ndarray):
    if type(y) is not np.ndarray:
      return {'t': 'foreign', 'type': type(y).__name__}
    if y.dtype == object:
      elems = []
      for idx in np.ndindex(y.shape):
        e = y[idx]
        elems.append(e.hex() if type(e) is bytes else {'nb': type(e).__name__})
      return {'t': 'obj', 'shape': list(y.shape), 'elems': elems}
    if y.dtype.name not in WIDTH or y.dtype.names is not None:
      return {'t': 'other', 'name': y.dtype.name, 'shape': list(y.shape), 'dtype_str': str(y.dtype),
              'hex': (y.tobytes().hex() if not y.dtype.hasobject and y.dtype.isnative else None)}
    return {'t': 'arr', 'dtype': y.dtype.name, 'native': bool(y.dtype.isnative), 'shape': list(y.shape),
            'bits': _arr_bits(y)}
  if isinstance(y, np.generic):
    if y.dtype.name not in WIDTH:
      return {'t': 'npother', 'name': y.dtype.name}
    return {'t': 'npscalar', 'dtype': y.dtype.name, 'bits': _scalar_bits(y)}
  if isinstance(y, bool):
    return {'t': 'bool', 'v': y}
  if isinstance(y, int):
    return {'t': 'int', 'v': str(y)}
  if isinstance(y, float):
    return {'t': 'float', 'bits': struct.unpack('<Q', struct.pack('<d', y))[0]}
  if y is None:
    return {'t': 'none'}
  if isinstance(y, str):
    return {'t': 'str', 'v': y}
  if isinstance(y, bytes):
    return {'t': 'bytes', 'hex': y.hex()}
  if isinstance(y, complex):
    f = lambda v: struct.unpack('<Q', struct.pack('<d', v))[0]
    return {'t': 'complex', 're': f(y.real), 'im': f(y.imag)}
  try:
    import jax
    if isinstance(y, jax.Array):
      a = np.asarray(y)
      return {'t': 'jaxarr', 'dtype': a.dtype.name, 'shape': list(a.shape), 'bits': _arr_bits(a)}
  except ImportError:
    pass
  return {'t': 'foreign', 'type': type(y).__name__}


def _memory(a):
  """(order, strides in elements, element offset, buffer element values) of a real
  ndarray, read from its own memory (for the Coq model's explicit-memory arrays)."""
  item = a.dtype.itemsize
  order = 'native' if a.dtype.isnative else 'swapped'
  if a.size == 0:
    return order, [0] * a.ndim, 0, []
  lo = hi = 0
  for s, n in zip(a.strides, a.shape):
    if s < 0:
      lo += s * (n - 1)
    else:
      hi += s * (n - 1)
  assert all(s % item == 0 for s in a.strides) and lo % item == 0
  nel = (hi - lo) // item + 1
  # the element living at the lowest touched address, then a 1-d window of the whole
  # touched span from there (same dtype; values are read element by element)
  low = a[tuple(slice(n - 1, n) if st < 0 else slice(0, 1) for st, n in zip(a.strides, a.shape))]
  win = np.lib.stride_tricks.as_strided(low, shape=(nel,), strides=(item,), writeable=False)
  buf = [_scalar_bits(win[i]) for i in range(nel)]
  return order, [s // item for s in a.strides], (-lo) // item, buf


# --------------------------------------------------------------------------
# expected canonical value, from the spec alone

class Unsupp(Exception):
  def __init__(self, kind):
    super().__init__(kind)
    self.kind = kind


INT_LO, INT_HI = -2 ** 63, 2 ** 64


def _expect(spec, pickled=False):
  """pickled=True: what save_state/load_state must give back: every container kind and the arrays' byte order are kept."""
  t = spec['t']
  if t == 'dict':
    return {'t': 'dict', 'items': [[k, _expect(v, pickled)] for k, v in spec['items']]}
  if t == 'list':
    return {'t': 'list', 'items': [_expect(v, pickled) for v in spec['items']]}
  if pickled and t == 'tuple':
    return {'t': 'tuple', **({'cls': spec['cls']} if spec.get('cls') else {}), 'items': [_expect(v, True) for v in spec['items']]}
  if pickled and t == 'container' and spec['k'] in ('OrderedDict', 'defaultdict', 'FlatMapping'):
    # (haiku's FlatMap pickles itself as a plain dict: either class is accepted for it)
    return {'t': 'dict', **({'cls_any': True} if spec['k'] == 'FlatMapping' else {'cls': spec['k']}),
            'items': [[k, _expect(v, True)] for k, v in spec['items']]}
  if t == 'arr':
    return {'t': 'arr', 'dtype': spec['dtype'], 'native': True if not pickled else None,      # pickle: either byte order, same values
            'shape': list(spec['shape']), 'bits': [int(b) for b in spec['bits']]}
  if t == 'obj':
    if all(isinstance(e, str) for e in spec['elems']):
      return {'t': 'obj', 'shape': list(spec['shape']), 'elems': list(spec['elems'])}
    raise Unsupp('obj-nonbytes')
  if t == 'int':
    if not (INT_LO <= int(spec['v']) < INT_HI):
      raise Unsupp('bigint')
    return {'t': 'int', 'v': str(int(spec['v']))}
  if t in ('npscalar', 'float', 'bool', 'none', 'str', 'bytes', 'complex'):
    return {k: v for k, v in spec.items()}
  if t == 'container':
    raise Unsupp('container-' + spec['k'])
  if t == 'other':
    if 'obj' in spec['k'] and _prod(spec['shape']) == 0:
      raise Unsupp('struct-hasobject-empty')
    raise Unsupp('other-' + spec['k'])
  if t == 'npother':
    raise Unsupp('npother-' + spec['k'])
  raise Unsupp(t)


def _first_diff(e, o, path='$'):
  """None when equal; else (kind, path) with kind in type|dtype|shape|values|keys|length."""
  if e.get('t') != o.get('t') or (not e.get('cls_any') and e.get('cls') != o.get('cls')):
    return 'type', path
  t = e['t']
  if t in ('dict', 'list', 'tuple'):
    if len(e['items']) != len(o['items']):
      return 'length', path
    for i, (x, y) in enumerate(zip(e['items'], o['items'])):
      if t == 'dict':
        if x[0] != y[0]:
          return 'keys', path
        d = _first_diff(x[1], y[1], f'{path}[{x[0]!r}]')
      else:
        d = _first_diff(x, y, f'{path}[{i}]')
      if d:
        return d
    return None
  if t == 'arr':
    if e['dtype'] != o['dtype'] or (e.get('native', True) is not None and bool(o.get('native', True)) != bool(e.get('native', True))):
      return 'dtype', path
    if e['shape'] != o['shape']:
      return 'shape', path
    return None if e['bits'] == o['bits'] else ('values', path)
  if t == 'obj':
    if e['shape'] != o['shape']:
      return 'shape', path
    return None if e['elems'] == o['elems'] else ('values', path)
  if t == 'npscalar':
    if e['dtype'] != o['dtype']:
      return 'dtype', path
    return None if e['bits'] == o['bits'] else ('values', path)
  return None if e == o else ('values', path)


# --------------------------------------------------------------------------
# generation

def _leaf_grid(tier, salt0=0):
  dts = list(WIDTH)
  shapes = SHAPES
  for dt in dts:
    for order in ('native', 'swapped'):
      if order == 'swapped' and (WIDTH[dt] == 1 or dt == 'bfloat16'):
        continue
      for layout in LAYOUTS:
        for si, shape in enumerate(shapes):
          yield arr_spec(dt, order, layout, shape, salt=si + salt0)


def _obj_leaves():
  h = lambda b: b.hex()
  yield {'t': 'obj', 'shape': [0], 'elems': []}
  yield {'t': 'obj', 'shape': [0, 3], 'elems': []}
  yield {'t': 'obj', 'shape': [2, 0], 'elems': []}
  yield {'t': 'obj', 'shape': [], 'elems': [h(b'abc')]}
  yield {'t': 'obj', 'shape': [1], 'elems': [h(b'')]}
  yield {'t': 'obj', 'shape': [3], 'elems': [h(b''), h(b'\x00'), h(b'\xff\xfe')]}
  for layout in ('C', 'F', 'strided'):
    yield {'t': 'obj', 'shape': [2, 2], 'layout': layout, 'elems': [h(b''), h(b'a'), h(b'bc'), h(b'\x00')]}
    yield {'t': 'obj', 'shape': [2, 3], 'layout': layout, 'elems': [h(b'r%d' % i) for i in range(6)]}
  yield {'t': 'obj', 'shape': [2, 1, 2], 'elems': [h(b'x' * i) for i in range(4)]}


def _unsupported_leaves():
  h = lambda b: b.hex()
  yield {'t': 'tuple', 'items': []}
  yield {'t': 'tuple', 'items': [{'t': 'int', 'v': '1'}, {'t': 'int', 'v': '2'}]}
  yield {'t': 'tuple', 'items': [arr_spec('int32', 'native', 'C', [2])]}
  yield {'t': 'set'}
  for k in ('U', 'S', 'V', 'struct', 'struct-aligned', 'struct-obj', 'struct-aligned-obj'):
    for shape in ([2], [0], [2, 2], [2, 0], []):
      yield {'t': 'other', 'k': k, 'shape': shape}
  for nb in ('str', 'int', 'none', 'bytearray', 'float'):
    yield {'t': 'obj', 'shape': [1], 'elems': [{'nb': nb}]}
    yield {'t': 'obj', 'shape': [3], 'elems': [h(b'a'), h(b'b'), {'nb': nb}]}      # non-bytes after the first element
    yield {'t': 'obj', 'shape': [2, 2], 'elems': [h(b'a'), {'nb': nb}, h(b'c'), h(b'd')]}
  for k in ('str', 'bytes', 'void', 'void-aligned'):
    yield {'t': 'npother', 'k': k}
  for v in (2 ** 64, 2 ** 64 + 1, -2 ** 63 - 1, 2 ** 100, -2 ** 100, 10 ** 30):
    yield {'t': 'int', 'v': str(v)}
  one = [['a', arr_spec('int32', 'native', 'C', [2])], ['b', {'t': 'none'}]]
  for k in ('OrderedDict', 'defaultdict', 'FlatMapping', 'MappingProxy', 'dataclass', 'dict_values'):
    yield {'t': 'container', 'k': k, 'items': one}
    yield {'t': 'dict', 'items': [['outer', {'t': 'list', 'items': [{'t': 'container', 'k': k, 'items': one}]}]]}
  yield {'t': 'tuple', 'cls': 'namedtuple', 'items': [{'t': 'int', 'v': '1'}, arr_spec('float32', 'native', 'C', [1])]}
  yield {'t': 'list', 'items': [{'t': 'tuple', 'cls': 'namedtuple', 'items': []}]}


def _scalar_leaves():
  for dt in WIDTH:
    for k in range(4 if dt != 'bool' else 2):
      yield {'t': 'npscalar', 'dtype': dt, 'bits': _pattern(dt, k)}
  for v in (0, 1, -1, 127, 128, 255, 256, -32, -33, -128, -129, 2 ** 31 - 1, 2 ** 31, -2 ** 31, -2 ** 31 - 1, 2 ** 32,
            2 ** 63 - 1, 2 ** 63, 2 ** 64 - 1, -2 ** 63):
    yield {'t': 'int', 'v': str(v)}
  for b in SPECIAL['float64'] + [0x400921fb54442d18, 0xc00921fb54442d18]:
    yield {'t': 'float', 'bits': b}
  yield {'t': 'bool', 'v': True}
  yield {'t': 'bool', 'v': False}
  yield {'t': 'none'}
  for s in ('', 'a', 'hé', '中文', 'x' * 40, '\x00'):
    yield {'t': 'str', 'v': s}
  for b in (b'', b'\x00', b'\xff\xfe', b'a' * 40):
    yield {'t': 'bytes', 'hex': b.hex()}
  sp = SPECIAL['float64']
  for i in range(len(sp)):
    yield {'t': 'complex', 're': sp[i], 'im': sp[(i * 3 + 1) % len(sp)]}


KEYS = ['', 'x', 'y', 'kéy', 'a b', 'client_0']


def _nest(rng, depth, leaves):
  """A dict/list mix of the given depth whose leaves come from `leaves`."""
  if depth == 0:
    return rng.choice(leaves)
  n = rng.randrange(0, 4)
  kids = [_nest(rng, rng.randrange(depth), leaves) for _ in range(n)]
  if n:
    kids[rng.randrange(n)] = _nest(rng, depth - 1, leaves)   # one child of full depth
  else:
    kids = [_nest(rng, depth - 1, leaves)] if rng.random() < 0.7 else []
  if rng.random() < 0.5:
    ks = rng.sample(KEYS, len(kids))
    return {'t': 'dict', 'items': [[k, v] for k, v in zip(ks, kids)]}
  return {'t': 'list', 'items': kids}


def _small_arrays(rng, n=60):
  out = []
  for _ in range(n):
    dt = rng.choice(list(WIDTH))
    order = rng.choice(['native', 'swapped'])
    if WIDTH[dt] == 1 or dt == 'bfloat16':
      order = 'native'
    out.append(arr_spec(dt, order, rng.choice(LAYOUTS), rng.choice(SHAPES[:12]), rng=rng))
  return out


def _jax_leaves():
  for dt in ('int8', 'int32', 'uint8', 'uint32', 'float16', 'bfloat16', 'float32', 'complex64', 'bool'):
    for shape in ([], [0], [3], [2, 0], [2, 3]):
      yield arr_spec(dt, 'native', 'C', shape, jax=True)
  for dt, bits in (('float32', 0x3fc00000), ('float32', 0x80000000), ('int32', 7), ('int32', 0), ('bool', 1), ('complex64', 0x400000003fc00000)):
    yield {**arr_spec(dt, 'native', 'C', [], jax=True), 'bits': [bits], 'jaxform': 'weak'}
  for dt in ('int32', 'float32', 'bfloat16', 'bool'):
    for shape in ([], [0], [2, 3]):
      yield {**arr_spec(dt, 'native', 'C', shape, jax=True), 'jaxform': 'jit'}


EXTRA_DTYPES = ['datetime64[D]', 'datetime64[ns]', 'timedelta64[s]', 'float128', 'complex256', 'float8_e4m3fn', 'int4', 'uint4']


def _extra_dtype(name):
  import ml_dtypes
  return np.dtype(getattr(ml_dtypes, name)) if hasattr(ml_dtypes, name) else np.dtype(name)


def _extra_leaves():
  """dtypes outside the property's list: no claim that they are accepted, but whatever comes back must be unaltered."""
  for name in EXTRA_DTYPES:
    dt = _extra_dtype(name)
    for shape in ([], [0], [3], [2, 2]):
      n = _prod(shape)
      raw = bytes((17 * i + 3) % 251 for i in range(n * dt.itemsize))
      if name in ('int4', 'uint4'):
        raw = bytes(b % 8 for b in raw)
      if name in ('float128', 'complex256'):
        raw = np.arange(1, n * (2 if name == 'complex256' else 1) + 1).astype(np.longdouble).tobytes()
      yield {'t': 'extra', 'dtype': name, 'shape': shape, 'hex': raw.hex()}


def _falsy_trees():
  e = lambda: {'t': 'dict', 'items': []}
  l = lambda: {'t': 'list', 'items': []}
  yield e()
  yield l()
  yield {'t': 'dict', 'items': [['a', e()], ['b', l()], ['', {'t': 'list', 'items': [l()]}]]}
  yield {'t': 'list', 'items': [e(), l(), {'t': 'none'}, {'t': 'int', 'v': '0'}, {'t': 'float', 'bits': 0}, {'t': 'bool', 'v': False},
                                {'t': 'str', 'v': ''}, {'t': 'bytes', 'hex': ''}, arr_spec('int32', 'native', 'C', [0]),
                                {'t': 'obj', 'shape': [0], 'elems': []}]}


def _sentinel_trees():
  """Legal user values that look like the format's own markers / names / keys."""
  h = lambda b: b.hex()
  I = lambda v: {'t': 'int', 'v': str(v)}
  inner = b'\x93\x91\x02\xa4int8\xc4\x02\x01\x02'            # msgpack of ((2,), 'int8', b'\x01\x02'): an ndarray payload
  yield {'t': 'bytes', 'hex': h(inner)}
  yield {'t': 'bytes', 'hex': h(b'\xc7\x0b\x01' + inner)}        # a complete ext-type-1 frame as user bytes
  yield {'t': 'obj', 'shape': [2], 'elems': [h(inner), h(b'\xc1\xd4\x01\x00')]}
  yield {'t': 'list', 'items': [{'t': 'str', 'v': v} for v in ('bfloat16', 'float32', 'object', '__mask__', 'shape', 'dtype', 'None', '')]}
  yield {'t': 'dict', 'items': [[k, I(i)] for i, k in enumerate(['ndarray', 'native_complex', 'npscalar', 'bytes_ndarray', '__mask__',
                                                               'client_id', 'data', 'num_examples', 'x', 'x ', ' x', 'X', '1', '01',
                                                               'e\u0301', '\u00e9', 'None', 'True'])]}
  # keys that collide only after a str()/bytes conversion: 'a' and b'a', '1' and b'1' (bytes keys are legal msgpack map keys)
  yield {'t': 'dict', 'items': [['a', I(1)], [{'b': h(b'a')}, I(2)], ['1', I(3)], [{'b': h(b'1')}, I(4)], [{'b': ''}, I(5)], ['', I(6)]]}
  yield {'t': 'dict', 'items': [[{'b': h(b'k')}, arr_spec('int16', 'swapped', 'F', [2, 3])]]}
  # integers equal to the ext codes / msgpack markers, floats that are exactly those integers
  yield {'t': 'list', 'items': [I(v) for v in (1, 2, 3, 4, 0xc1, 0xc7, 0xd4, -32, -33)] + [{'t': 'float', 'bits': 0x3ff0000000000000}]}
  # numpy scalars of every kind next to the python scalar with the same value
  yield {'t': 'list', 'items': [{'t': 'npscalar', 'dtype': 'complex128', 'bits': (0x4000000000000000 << 64) | 0x3ff0000000000000},
                                {'t': 'complex', 're': 0x3ff0000000000000, 'im': 0x4000000000000000},
                                {'t': 'npscalar', 'dtype': 'float64', 'bits': 0x3ff0000000000000}, {'t': 'float', 'bits': 0x3ff0000000000000},
                                {'t': 'npscalar', 'dtype': 'int64', 'bits': 1}, I(1), {'t': 'npscalar', 'dtype': 'bool', 'bits': 1},
                                {'t': 'bool', 'v': True}, {'t': 'npscalar', 'dtype': 'complex64', 'bits': (0x40000000 << 32) | 0x3f800000}]}


def _order_trees(rng):
  """Keys NOT in sorted order, with a different value per key (a mis-association or re-ordering is visible)."""
  for keys in (['c02', 'c00', 'c10'], ['z', 'a', 'm', 'B', '_'], ['10', '9', '1', '01']):
    yield {'t': 'dict', 'items': [[k, arr_spec('int32', 'native', 'C', [2], salt=3 * i + 1)] for i, k in enumerate(keys)]}
    yield {'t': 'dict', 'items': [[k, {'t': 'dict', 'items': [[k2, {'t': 'int', 'v': str(10 * i + j)}] for j, k2 in enumerate(reversed(keys))]}]
                                  for i, k in enumerate(keys)]}


def _deep_tree(depth, leaf):
  t = leaf
  for d in range(depth):
    t = {'t': 'dict', 'items': [['k%d' % d, t]]} if d % 2 else {'t': 'list', 'items': [t]}
  return t


def _size_trees():
  """Lengths around msgpack's framing boundaries (fix / 8 / 16 / 32 bit headers).  Oracle only (too large for Coq terms)."""
  for n in (31, 32, 255, 256, 65535, 65536):
    yield {'t': 'str', 'v': 'x' * n}
    yield {'t': 'bytes', 'hex': '07' * n}
    yield {'t': 'arr', 'dtype': 'uint8', 'order': 'native', 'layout': 'C', 'shape': [n], 'bits': [i % 251 for i in range(n)]}
  for n in (15, 16, 17, 255, 256):
    yield {'t': 'list', 'items': [{'t': 'int', 'v': str(i)} for i in range(n)]}
    yield {'t': 'dict', 'items': [['k%d' % (n - i), {'t': 'int', 'v': str(i)}] for i in range(n)]}
    yield {'t': 'obj', 'shape': [n], 'elems': [(b'%d' % i).hex() for i in range(n)]}
  for n in (1023, 1024, 1025, 4095, 4096, 4097, 1000, 2000):
    yield {'t': 'list', 'items': [{'t': 'int', 'v': str(i % 7)} for i in range(n)]}
    yield {'t': 'obj', 'shape': [n], 'elems': ['%02x' % (i % 256) for i in range(n)]}
    yield {'t': 'arr', 'dtype': 'int8', 'order': 'native', 'layout': 'F', 'shape': [n], 'bits': [i % 256 for i in range(n)]}
  yield {'t': 'list', 'items': [{'t': 'int', 'v': str(i)} for i in range(65536)]}
  yield {'t': 'arr', 'dtype': 'uint16', 'order': 'swapped', 'layout': 'F', 'shape': [300, 130], 'bits': [i % 65536 for i in range(39000)]}
  yield {'t': 'arr', 'dtype': 'int8', 'order': 'native', 'layout': 'C', 'shape': [0, 70000], 'bits': []}


def _sqlite_cases(rng, n):
  for i in range(n):
    nclients = rng.choice([0, 1, 2, 3, 5])
    ids = []
    while len(ids) < nclients:
      cid = bytes(rng.randrange(256) for _ in range(rng.choice([0, 1, 2, 5]))) if rng.random() < 0.5 else b'c%03d' % rng.randrange(50)
      if cid not in ids:
        ids.append(cid)
    clients = []
    for cid in ids:
      m = rng.choice([0, 0, 1, 2, 4])       # examples in this client (0 = empty client)
      feats = []
      for name in rng.sample(['x', 'y', 'pixels', 'tokens'], rng.randrange(1, 4)):
        if name == 'tokens':
          feats.append([name, {'t': 'obj', 'shape': [m], 'elems': [(b't%d' % j * rng.randrange(3)).hex() for j in range(m)]}])
        else:
          dt = rng.choice(['int32', 'uint8', 'float32', 'float16', 'int64', 'bool', 'bfloat16'])
          tail = rng.choice([[], [2], [2, 2], [0]])
          order = 'swapped' if (WIDTH[dt] > 1 and dt != 'bfloat16' and rng.random() < 0.3) else 'native'
          feats.append([name, arr_spec(dt, order, rng.choice(('C', 'F', 'strided', 'reversed', 'colslice', 'readonly')), [m] + tail, rng=rng)])
      clients.append([cid.hex(), feats])
    yield {'kind': 'sqlite', 'clients': clients}
  # sentinel collisions: ids / feature names equal to SQL text, column names, internal keys, wildcards, prefixes of each
  # other, NUL bytes; presented in non-sorted order with a different value per client
  ids = [b'None', b"' OR '1'='1", b'client_id', b'%', b'_', b'a\x00', b'a', b'\x00', b'-1', b'0', b'', b'rowid', b'a\x00\x00']
  names = ['__mask__', 'client_id', 'data', 'num_examples', 'rowid', '', 'x ', 'X']
  yield {'kind': 'sqlite', 'clients': [[cid.hex(), [[names[(i + j) % len(names)], arr_spec('int32', 'native', 'C', [1 + i % 3], salt=5 * i + j)]
                                                    for j in range(1 + i % 3)]] for i, cid in enumerate(ids)]}
  yield {'kind': 'sqlite', 'clients': [[cid.hex(), [['tokens', {'t': 'obj', 'shape': [2], 'elems': [cid.hex(), (b'\xc7\x01' + cid).hex()]}]]]
                                       for cid in reversed(ids)]}
  # malformed: inconsistent leading dimensions, unsupported feature, no features
  yield {'kind': 'sqlite', 'clients': [[b'a'.hex(), [['x', arr_spec('int32', 'native', 'C', [2])],
                                                    ['y', arr_spec('int32', 'native', 'C', [3])]]]]}
  yield {'kind': 'sqlite', 'clients': [[b'a'.hex(), [['x', {'t': 'other', 'k': 'U', 'shape': [2]}]]]]}
  yield {'kind': 'sqlite', 'clients': [[b'a'.hex(), []]]}


def _tagged_state(tag, jaxy):
  """A small server-state-like tree whose content depends on `tag` (distinct tags -> distinct states)."""
  mk = lambda dt, shape, salt: arr_spec(dt, 'native', 'C', shape, jax=jaxy, salt=salt)
  return {'t': 'dict', 'items': [['params', {'t': 'dict', 'items': [['w', mk('float32', [2, 2], tag * 5)], ['b', mk('int32', [2], tag * 3 + 1)]]}],
                                 ['tag', {'t': 'int', 'v': str(tag)}]]}


def _ckptseq_cases(rng, n):
  """Sequences of save_checkpoint / load_latest_checkpoint in one fresh directory (state k = _tagged_state(k)),
  and of save_state / load_state on one path."""
  fixed = [
      [['save', None, None], ['save', None, None], ['load']],                 # default round_num = 0 twice
      [['save', 3, 1], ['save', 3, 1], ['load']],                             # same round, different state
      [['save', 3, 2], ['load'], ['save', 3, 2], ['load'], ['save', 3, 2], ['load']],
      [['save', 1, 1], ['save', 2, 1], ['save', 2, 1], ['load']],
      [['save', 1, 3], ['save', 2, 3], ['save', 1, 3], ['load'], ['save', 2, 3], ['load']],
      [['load'], ['save', 0, 1], ['load'], ['save', 0, 1], ['load']],
      [['save', 99999999, 1], ['save', 99999999, 1], ['load']],
      [['save', 5, 1], ['save', 3, 1], ['load'], ['save', 5, 1], ['load']],    # a lower round is cleaned up at once
      [['save', 9, 2], ['save', 10, 2], ['save', 11, 2], ['save', 10, 2], ['load'], ['save', 11, 2], ['load']],
  ]
  for i, ops in enumerate(fixed):
    yield {'kind': 'ckptseq', 'ops': ops, 'jax': False}
    if i % 2 == 0:
      yield {'kind': 'ckptseq', 'ops': ops, 'jax': False, 'strays': True}
  for i in range(n):
    rounds = rng.sample(range(0, 12), rng.choice([1, 2, 3]))
    keep = rng.choice([1, 1, 2, 3])
    ops = []
    for _ in range(rng.randrange(2, 8)):
      r = rng.random()
      if r < 0.7:
        ops.append(['save', rng.choice(rounds), keep if rng.random() < 0.8 else rng.choice([1, 2, 3])])
      else:
        ops.append(['load'])
    ops.append(['load'])
    yield {'kind': 'ckptseq', 'ops': ops, 'jax': i % 4 == 0, **({'strays': True} if i % 5 == 0 else {})}
  for i in range(max(3, n // 8)):
    k = rng.choice([2, 3, 4])
    yield {'kind': 'stateseq', 'n': k, 'jax': i % 2 == 0, 'reload_between': bool(i % 3)}


def _state_spec(rng, jaxy=True):
  mk = lambda dt, shape: arr_spec(dt, 'native' if (jaxy or dt == 'bfloat16') else rng.choice(['native', 'swapped']),
                                  'C' if jaxy else rng.choice(('C', 'F', 'strided', 'reversed', 'colslice', 'readonly')), shape, rng=rng, jax=jaxy)
  return {'t': 'dict', 'items': [
      ['params', {'t': 'dict', 'items': [['linear', {'t': 'dict', 'items': [['w', mk('float32', [3, 2])], ['b', mk('float32', [2])]]}],
                                         ['embed', {'t': 'dict', 'items': [['e', mk('bfloat16', [2, 2])]]}]]}],
      ['opt_state', {'t': 'list', 'items': [mk('int32', []), mk('float32', [3, 2]), {'t': 'none'}]}],
      ['round', {'t': 'int', 'v': str(rng.randrange(1000))}],
      ['flags', {'t': 'list', 'items': [{'t': 'bool', 'v': True}, {'t': 'float', 'bits': SPECIAL['float64'][rng.randrange(8)]}]}],
  ]}


def generate(tier, rng):
  n_rand = {'quick': 150, 'thorough': 3000, 'search': 600}[tier]
  leaves = list(_leaf_grid(tier))
  if tier == 'thorough':
    leaves += list(_leaf_grid(tier, 7)) + list(_leaf_grid(tier, 13))
  for s in leaves:
    yield {'kind': 'tree', 'tree': s}
  objs, unsup, scal, jaxl = list(_obj_leaves()), list(_unsupported_leaves()), list(_scalar_leaves()), list(_jax_leaves())
  for s in objs + unsup + scal + jaxl + list(_falsy_trees()):
    yield {'kind': 'tree', 'tree': s}
  for s in list(_sentinel_trees()) + list(_order_trees(rng)) + list(_size_trees()):
    yield {'kind': 'tree', 'tree': s}
  for depth in (4, 6, 9):
    yield {'kind': 'tree', 'tree': _deep_tree(depth, arr_spec('float16', 'swapped', 'reversed', [3]))}
    yield {'kind': 'tree', 'tree': _deep_tree(depth, {'t': 'tuple', 'items': []})}
  for s in _extra_leaves():
    yield {'kind': 'tree', 'tree': s}
    yield {'kind': 'tree', 'tree': {'t': 'dict', 'items': [['k', s], ['n', {'t': 'int', 'v': '1'}]]}}
  # nesting depth 1..3 over supported leaves, then with one unsupported leaf somewhere
  pool = _small_arrays(rng) + objs + scal + jaxl[:6]
  for i in range(n_rand):
    yield {'kind': 'tree', 'tree': _nest(rng, 1 + i % 3, pool)}
  for i in range(n_rand // 3):
    yield {'kind': 'tree', 'tree': _nest(rng, 1 + i % 3, pool + unsup * 2)}
  # random-pattern leaves (all bit patterns incl. random NaN payloads)
  for i in range(n_rand):
    dt = rng.choice(list(WIDTH))
    order = 'native' if (WIDTH[dt] == 1 or dt == 'bfloat16') else rng.choice(['native', 'swapped'])
    yield {'kind': 'tree', 'tree': arr_spec(dt, order, rng.choice(LAYOUTS), rng.choice(SHAPES), rng=rng)}
  for c in _sqlite_cases(rng, {'quick': 25, 'thorough': 150, 'search': 60}[tier]):
    yield c
  for c in _ckptseq_cases(rng, {'quick': 40, 'thorough': 250, 'search': 100}[tier]):
    yield c
  # size-driven chunking: client counts at / around powers of two and multiples of 256 / 1000 / 1024, in one call and
  # split over several calls in different orders (tiny payloads)
  if tier == 'quick':
    singles = [255, 256, 257, 512, 1000, 1024]
    splits = [[3, 256], [256, 3], [256, 256], [1, 255, 256], [256, 0], [0, 256], [512, 1]]
  else:
    pts = sorted({p + e for p in [2 ** i for i in range(0, 13)] + [1000, 2000, 3000, 4000, 768, 1280, 1536, 3072] for e in (-1, 0, 1) if p + e >= 0})
    singles = pts
    splits = [[a, b] for a in (1, 3, 255, 256, 257, 1024) for b in (256, 512, 1000, 1024, 4096)] + \
        [[256, 3], [512, 1], [256, 256, 256], [1, 255, 256, 512], [256, 0], [0, 256], [4096, 4096]]
  for i, n in enumerate(singles):
    yield {'kind': 'sqlite_big', 'counts': [n], 'form': i}
  for i, sp in enumerate(splits):
    yield {'kind': 'sqlite_big', 'counts': sp, 'form': i}
  # every order of saving rounds {1,2,3} x keep 1..3, loading after every save
  for perm in itertools.permutations([1, 2, 3]):
    for keep in (1, 2, 3):
      yield {'kind': 'ckptseq', 'ops': [op for r in perm for op in (['save', r, keep], ['load'])] + [['save', perm[0], keep], ['load']], 'jax': False}
  yield {'kind': 'handover', 'hashseed': 12345 if tier == 'quick' else rng.randrange(1, 2 ** 31),
         'tree': {'t': 'dict', 'items': [['c02', arr_spec('float16', 'swapped', 'F', [2, 3])], ['c00', {'t': 'obj', 'shape': [2], 'elems': ['', '6162']}],
                                         ['', {'t': 'list', 'items': [{'t': 'str', 'v': 'k\u00e9y'}, {'t': 'npscalar', 'dtype': 'complex128', 'bits': 5},
                                                                    {'t': 'dict', 'items': [['b', {'t': 'int', 'v': '1'}], ['a', {'t': 'none'}]]}]}]]}}
  if tier == 'thorough':
    yield {'kind': 'flags', 'env': {'JAX_ENABLE_X64': '1'}}
    yield {'kind': 'flags', 'env': {'JAX_ENABLE_X64': '0', 'JAX_NUMPY_RANK_PROMOTION': 'raise', 'JAX_DISABLE_JIT': '1'}}
  # falsy-but-valid states: they must come back (not be mistaken for "no checkpoint")
  for i, t in enumerate([{'t': 'none'}, {'t': 'int', 'v': '0'}, {'t': 'float', 'bits': 0}, {'t': 'bool', 'v': False}, {'t': 'str', 'v': ''},
                         {'t': 'bytes', 'hex': ''}, {'t': 'dict', 'items': []}, {'t': 'list', 'items': []},
                         arr_spec('float32', 'native', 'C', [0]), arr_spec('int32', 'native', 'C', [], jax=True)]):
    yield {'kind': 'ckpt', 'api': ('state', 'checkpoint')[i % 2], 'tree': t, 'round': (0, 3)[i % 3 == 0], 'keep': 1}
    yield {'kind': 'ckpt', 'api': ('checkpoint', 'state')[i % 2], 'tree': t, 'round': 0, 'keep': 2}
  # container kinds inside a checkpointed state (pickle keeps them all): the loaded tree has the same structure
  leaf = lambda i: arr_spec(('float32', 'int16', 'bfloat16')[i % 3], 'native', 'C', [2], salt=i, jax=(i % 2 == 0))
  kinds = [{'t': 'tuple', 'items': [leaf(0), {'t': 'none'}, {'t': 'tuple', 'items': []}]},
           {'t': 'tuple', 'cls': 'namedtuple', 'items': [leaf(1), {'t': 'int', 'v': '3'}]},
           {'t': 'container', 'k': 'OrderedDict', 'items': [['z', leaf(2)], ['a', leaf(3)]]},
           {'t': 'container', 'k': 'FlatMapping', 'items': [['linear', {'t': 'container', 'k': 'FlatMapping', 'items': [['w', leaf(4)]]}]]},
           {'t': 'container', 'k': 'defaultdict', 'items': [['k', {'t': 'list', 'items': [leaf(5), {'t': 'tuple', 'items': [leaf(6)]}]}]]},
           {'t': 'list', 'items': [{'t': 'none'}, {'t': 'dict', 'items': [['p', {'t': 'tuple', 'cls': 'namedtuple', 'items': [leaf(7)]}], ['n', {'t': 'none'}]]}]}]
  for i, t in enumerate(kinds):
    yield {'kind': 'ckpt', 'api': ('checkpoint', 'state')[i % 2], 'tree': t, 'round': i, 'keep': 1}
  for i in range({'quick': 6, 'thorough': 30, 'search': 10}[tier]):
    yield {'kind': 'ckpt', 'api': ('state', 'checkpoint')[i % 2], 'tree': _state_spec(rng, jaxy=(i % 3 != 2)),
           'round': rng.choice([0, 1, 7, 99999999]), 'keep': rng.choice([1, 2])}


# --------------------------------------------------------------------------
# running the implementation

def _err(ex):
  n = type(ex).__name__
  return n if n in ('TypeError', 'ValueError', 'OverflowError', 'KeyError') else 'Other:' + n


def _describe_input(spec, obj):
  """Spec of the input annotated with the real object's memory (arrays only)."""
  t = spec['t']
  if t == 'dict':
    return {'t': 'dict', 'items': [[k, _describe_input(v, obj[bytes.fromhex(k['b']) if isinstance(k, dict) else k])] for k, v in spec['items']]}
  if t in ('list', 'tuple'):
    return {'t': t, 'items': [_describe_input(v, o) for v, o in zip(spec['items'], obj)]}
  if t == 'container':
    return {'t': 'foreign'}
  if t == 'arr' and not spec.get('jax'):
    order, strides, off, buf = _memory(obj)
    return {'t': 'arr', 'dtype': spec['dtype'], 'order': order, 'shape': list(obj.shape), 'strides': strides,
            'offset': off, 'buf': buf}
  if t == 'other':
    return {**spec, 'name': obj.dtype.name, 'hasobject': bool(obj.dtype.hasobject),
            'aligned': bool(obj.dtype.isalignedstruct), 'raw': list(obj.tobytes()) if not obj.dtype.hasobject else []}
  if t == 'npother':
    return {**spec, 'name': obj.dtype.name, 'hasobject': bool(obj.dtype.hasobject),
            'aligned': bool(obj.dtype.isalignedstruct), 'raw': list(obj.tobytes())}
  return spec


def _check_built(spec, obj):
  """The generator's own contract: the built object holds the spec's content in the
  requested dtype / byte order / layout (otherwise the harness is wrong, not fedjax)."""
  t = spec['t']
  if t == 'dict':
    for k, v in spec['items']:
      _check_built(v, obj[bytes.fromhex(k['b']) if isinstance(k, dict) else k])
  elif t in ('list', 'tuple'):
    for v, o in zip(spec['items'], obj):
      _check_built(v, o)
  elif t == 'arr':
    a = np.asarray(obj) if spec.get('jax') else obj
    assert a.dtype.name == spec['dtype'] and list(a.shape) == spec['shape'], 'built dtype/shape'
    assert _arr_bits(a) == [int(b) for b in spec['bits']], 'built content'
    if not spec.get('jax'):
      assert a.dtype.isnative == (spec['order'] == 'native'), 'built byte order'
      if a.size > 1 and a.ndim >= 2 and min(a.shape) > 1:
        if spec['layout'] == 'F':
          assert a.flags.f_contiguous and not a.flags.c_contiguous
        if spec['layout'] in ('strided', 'reversed', 'broadcast', 'colslice'):
          assert not a.flags.c_contiguous


def _run_tree(case):
  from fedjax.core import serialization
  spec = case['tree']
  obj = _build(spec)
  _check_built(spec, obj)
  obs = {'input': _describe_input(spec, obj)}
  sink = io.StringIO()
  sig_before = _container_sig(obj)
  try:
    with contextlib.redirect_stdout(sink):
      data = serialization.msgpack_serialize(obj)
  except Exception as ex:  # pylint: disable=broad-except
    obs.update(status='ser-error', err=_err(ex))
    return obs
  if not isinstance(data, bytes):
    obs.update(status='ser-error', err='Other:not-bytes')
    return obs
  try:
    with contextlib.redirect_stdout(sink):
      back = serialization.msgpack_deserialize(data)
      again = serialization.msgpack_deserialize(data)
  except Exception as ex:  # pylint: disable=broad-except
    obs.update(status='des-error', err=_err(ex))
    return obs
  first = _observe(back)
  obs.update(status='ok', value=first, stable=(_observe(again) == first),
             input_after=(_observe_input_unchanged(spec, obj) and _container_sig(obj) == sig_before),
             aliases=_shares_memory(obj, back) or _shares_memory(back, again))
  # a result kept by the caller is unchanged by later calls (another value, and the same bytes again)
  try:
    with contextlib.redirect_stdout(sink):
      serialization.msgpack_deserialize(serialization.msgpack_serialize([obj, {'later': np.arange(3)}]))
      serialization.msgpack_deserialize(data)
  except Exception:  # pylint: disable=broad-except
    pass
  obs['kept_unchanged'] = (_observe(back) == first)
  # the round trip applied twice: a decoded value serialises to the same bytes and decodes to the same value
  try:
    with contextlib.redirect_stdout(sink):
      data2 = serialization.msgpack_serialize(back)
      obs['twice'] = bool(_observe(serialization.msgpack_deserialize(data2)) == first and data2 == data)
  except Exception as ex:  # pylint: disable=broad-except
    obs['twice'] = False
  return obs


def _has_jax_or_view(spec):
  return True      # byte-identical re-serialisation is required of every input kind (jax / views decode to plain arrays with the same bytes)



def _container_sig(o):
  """Identity / length / keys of every container and the identity of every leaf."""
  if isinstance(o, dict):
    return ('d', id(o), tuple(o.keys()), tuple(_container_sig(v) for v in o.values()))
  if isinstance(o, (list, tuple)):
    return ('l', id(o), len(o), tuple(_container_sig(v) for v in o))
  return ('x', id(o))


def _arrays_of(o, out):
  if isinstance(o, dict):
    for v in o.values():
      _arrays_of(v, out)
  elif isinstance(o, (list, tuple)):
    for v in o:
      _arrays_of(v, out)
  elif isinstance(o, np.ndarray) and o.dtype != object and o.nbytes >= 2:   # CPython shares its 1-byte bytes objects
    out.append(o)
  return out


def _shares_memory(a, b):
  xs, ys = _arrays_of(a, []), _arrays_of(b, [])
  return any(np.shares_memory(x, y) for x in xs for y in ys)


def _observe_input_unchanged(spec, obj):
  try:
    _check_built(spec, obj)
    return True
  except AssertionError:
    return False


def _run_sqlite(case):
  from fedjax.core import sqlite_federated_data as sfd
  d = tempfile.mkdtemp(prefix='C16-')
  sink = io.StringIO()
  try:
    path = os.path.join(d, 'data.sqlite')
    built = [(bytes.fromhex(cid), {k: _build(v) for k, v in feats}) for cid, feats in case['clients']]
    inputs = [[cid, [[k, _describe_input(v, ex[k])] for k, v in feats]]
              for (cid, feats), (_, ex) in zip(case['clients'], built)]
    obs = {'input': inputs}
    try:
      with contextlib.redirect_stdout(sink):
        before = [(cid, _container_sig(ex), {k: _observe(v) for k, v in ex.items()}) for cid, ex in built]
        form = len(case['clients']) * 7 + sum(len(f) for _, f in case['clients'])
        with sfd.SQLiteFederatedDataBuilder(path) as b:
          half = len(built) // 2
          forms = [lambda l: l, iter, tuple, lambda l: (x for x in l), lambda l: map(lambda kv: kv, l),
                   lambda l: dict(l).items(), lambda l: iter(tuple(l))]
          b.add_many(forms[form % len(forms)](built[:half]))
          b.add_many(forms[(form // 2 + 1) % len(forms)](built[half:]))
          b.add_many([])                      # nothing to add is not an error
          b.add_many(iter(()))
        obs['inputs_unchanged'] = all(_container_sig(ex) == sig and {k: _observe(v) for k, v in ex.items()} == ob
                                      for (cid, ex), (_, sig, ob) in zip(built, before))
    except Exception as ex:  # pylint: disable=broad-except
      obs.update(status='ser-error', err=_err(ex))
      return obs
    try:
      with contextlib.redirect_stdout(sink):
        fd = sfd.SQLiteFederatedData.new(path)
        ids = [i.hex() for i in fd.client_ids()]
        sizes = [[i.hex(), int(n)] for i, n in fd.client_sizes()]
        num = int(fd.num_clients())
        clients = [[i.hex(), _observe(dict(ds.all_examples()))] for i, ds in fd.clients()]
        single = []
        for cid, _ in built:
          single.append([cid.hex(), int(fd.client_size(cid)), _observe(dict(fd.get_client(cid).all_examples()))])
    except Exception as ex:  # pylint: disable=broad-except
      obs.update(status='des-error', err=_err(ex))
      return obs
    obs.update(status='ok', ids=ids, sizes=sizes, num=num, clients=clients, single=single)
    try:
      with contextlib.redirect_stdout(sink):
        obs['interleaved'] = _interleaved_reads(sfd, path, dict(clients), len(case['clients']))
    except Exception as ex:  # pylint: disable=broad-except
      obs['interleaved'] = {'error': _err(ex)}
    return obs
  finally:
    shutil.rmtree(d, ignore_errors=True)


def _interleaved_reads(sfd, path, full, salt):
  """Lazy listings of ONE SQLiteFederatedData object interleaved with other queries on the same
  object / on a slice of it.  Every entry is [client id, size or None, 'same' | observed examples]
  ('same' = identical to what the fully consumed clients() listing gave for that id)."""
  import sqlite3

  def open_(k):
    if (k + salt) % 2:
      return sfd.SQLiteFederatedData(sqlite3.connect(path), sfd.decompress_and_deserialize)
    return sfd.SQLiteFederatedData.new(path)

  def ex(cid, ds):
    o = _observe(dict(ds.all_examples()))
    return 'same' if full.get(cid.hex()) == o else o

  out = {}
  fd = open_(0)
  out['ids_then_size_and_get'] = [[c.hex(), int(fd.client_size(c)), ex(c, fd.get_client(c))] for c in fd.client_ids()]
  fd = open_(1)
  r = []
  for c, n in fd.client_sizes():
    got = list(fd.get_clients([c]))
    fd.num_clients()
    r.append([c.hex(), int(n), ex(c, got[0][1]) if len(got) == 1 and got[0][0] == c else {'t': 'foreign', 'type': 'get_clients'}])
  out['sizes_then_get_clients'] = r
  fd = open_(2)
  r = []
  for c, ds in fd.clients():
    n = int(fd.client_size(c))
    in_slice = list(fd.slice(start=c).client_ids())      # every id >= c, in insertion order
    r.append([c.hex(), n if (c in in_slice and all(i >= c for i in in_slice)) else None, ex(c, ds)])
  out['clients_then_size_and_slice'] = r
  fd = open_(3)
  out['zip_ids_clients'] = [[c.hex(), None, ex(c2, ds) if c2 == c else {'t': 'foreign', 'type': 'misaligned ' + c2.hex()}]
                            for c, (c2, ds) in zip(fd.client_ids(), fd.clients())]
  fd = open_(4)
  out['zip_sizes_ids'] = [[c.hex(), int(n) if c2 == c else None, 'same'] for (c, n), c2 in zip(fd.client_sizes(), fd.client_ids())]
  # the same listing twice on one object; one pass consumed in pieces with other queries in between
  fd = open_(6)
  first_pass = [c.hex() for c in fd.client_ids()]
  out['ids_twice'] = [[c.hex(), None, 'same'] for c in fd.client_ids()] if first_pass == [c.hex() for c in fd.client_ids()] else []
  fd = open_(7)
  g = fd.clients()
  head = list(itertools.islice(g, 1))
  fd.num_clients()
  iter(fd.client_ids())                 # a bare, never consumed iterator in between
  for c, _ in fd.client_sizes():
    break                               # a broken for loop in between
  out['clients_in_pieces'] = [[c.hex(), None, ex(c, ds)] for c, ds in head + list(g)]
  # two live iterators over the same listing of one object
  fd = open_(8)
  out['two_live_same_listing'] = [[c.hex(), int(n) if c2 == c else None, ex(c, ds) if c3 == c else {'t': 'foreign', 'type': 'misaligned'}]
                                  for (c, n), c2, (c3, ds) in zip(fd.client_sizes(), fd.client_ids(), fd.clients())]
  # two objects (two connections) on the same file, interleaved
  fa, fb = open_(9), open_(10)
  out['two_objects'] = [[c.hex(), int(fb.client_size(c)), ex(c, fb.get_client(c)) if c2 == c else {'t': 'foreign', 'type': 'misaligned'}]
                        for c, (c2, _) in zip(fa.client_ids(), fb.clients())]
  # get_clients: requested order (reversed, with a repeat), ids delivered as list / tuple / generator
  fd = open_(11)
  ids = [bytes.fromhex(h) for h in first_pass]
  req = list(reversed(ids)) + ids[:1]
  ok = True
  for deliver in (list, tuple, iter, lambda l: (x for x in l)):
    got = [(c, ex(c, ds)) for c, ds in fd.get_clients(deliver(req))]
    ok = ok and [c for c, _ in got] == req and all(e == 'same' for _, e in got)
  out['get_clients_forms'] = [[h, None, 'same'] for h in first_pass] if ok else []
  # shuffled_clients: every epoch is a permutation of the clients with the same examples; seeded = reproducible
  if ids:
    fd = open_(12)
    n = len(ids)
    ep = list(itertools.islice(fd.shuffled_clients(buffer_size=max(1, n // 2), seed=0), 2 * n))
    ep2 = [c for c, _ in itertools.islice(open_(13).shuffled_clients(buffer_size=max(1, n // 2), seed=0), 2 * n)]
    ok = sorted(c for c, _ in ep[:n]) == sorted(ids) and sorted(c for c, _ in ep[n:]) == sorted(ids) and \
        [c for c, _ in ep] == ep2 and all(ex(c, ds) == 'same' for c, ds in ep)
    out['shuffled_epochs'] = [[h, None, 'same'] for h in first_pass] if ok else []
  # identity preprocessors give the same examples; the raw blob parses with the public helper
  fd = open_(14).preprocess_client(lambda cid, e: dict(e)).preprocess_batch(lambda e: dict(e))
  out['identity_preprocess'] = [[c.hex(), int(fd.client_size(c)), ex(c, ds)] for c, ds in fd.clients()]
  conn = sqlite3.connect(path)
  rows = conn.execute('SELECT client_id, data, num_examples FROM federated_data ORDER BY rowid;').fetchall()
  conn.close()
  out['raw_blob_parse'] = [[c.hex(), int(n), 'same' if full.get(c.hex()) == _observe(sfd.decompress_and_deserialize(blob)) else 'different']
                           for c, blob, n in rows]
  # results kept by the caller are unchanged by later queries
  fd = open_(15)
  kept = [(c, ds, _observe(dict(ds.all_examples()))) for c, ds in fd.clients()]
  list(fd.client_ids()), list(fd.clients()), [fd.get_client(c) for c, _, _ in kept]
  out['kept_results'] = [[c.hex(), None, 'same' if _observe(dict(ds.all_examples())) == o and full.get(c.hex()) == o else 'changed']
                         for c, ds, o in kept]
  # argument plumbing of the derived views: a custom parser given to .new() and a slice / preprocess_client / preprocess_batch /
  # slice chain must ALL still be in force on the last view (parser, both preprocessors, the intersected range)
  parsed = []

  def custom(blob):
    parsed.append(1)
    return sfd.decompress_and_deserialize(blob)
  rows = lambda e: len(next(iter(e.values())))
  srt = sorted(ids)
  if len(srt) >= 3:
    lo, hi, lo2 = srt[0], srt[-1], srt[1]
    root = sfd.SQLiteFederatedData.new(path, custom) if salt % 2 else sfd.SQLiteFederatedData.new(path=path, parse_examples=custom)
    view = root.slice(start=lo, stop=hi).preprocess_client(lambda cid, e: {**e, '__pc__': np.full(rows(e), 1, np.int8)}) \
        .preprocess_batch(lambda e: {**e, '__pb__': np.full(rows(e), 2, np.int8)}).slice(start=lo2)
    got = [(c, dict(ds.all_examples())) for c, ds in view.clients()]
    want_ids = [c for c in ids if lo2 <= c < hi]
    ok = [c for c, _ in got] == want_ids and bool(parsed) and int(view.num_clients()) == len(want_ids)
    for c, e in got:
      n = rows(e)
      ok = ok and e.get('__pc__') is not None and e['__pc__'].tolist() == [1] * n and e.get('__pb__') is not None and e['__pb__'].tolist() == [2] * n
      ok = ok and full.get(c.hex()) == _observe({k: v for k, v in e.items() if k not in ('__pc__', '__pb__')})
    plain = dict(root.get_client(srt[1]).all_examples())
    ok = ok and '__pc__' not in plain and '__pb__' not in plain          # the parent view is not affected
    out['view_chain_forwarding'] = [[h, None, 'same'] for h in first_pass] if ok else []
  fd = open_(5)
  sl = fd.slice(start=b'')          # a view over every client, sharing the connection
  r = []
  for c in sl.client_ids():
    n = int(fd.client_size(c))
    r.append([c.hex(), n, ex(c, sl.get_client(c))])
    list(itertools.islice(fd.client_ids(), 1))
  out['slice_ids_then_parent_queries'] = r
  return out


def _run_ckpt(case):
  from fedjax.core import serialization
  from fedjax.training import checkpoint
  d = tempfile.mkdtemp(prefix='C16-')
  try:
    obj = _build(case['tree'])
    obs = {}
    try:
      if case['api'] == 'state':
        p = os.path.join(d, 'state.pkl')
        serialization.save_state(obj, p)
        back = serialization.load_state(p)
        obs.update(status='ok', value=_observe(back), round=case['round'], files=sorted(os.listdir(d)))
      else:
        # an older checkpoint first, then the one under test
        if case['round'] > 0:
          checkpoint.save_checkpoint(d, {'old': 1}, round_num=case['round'] - 1, keep=case['keep'])
        checkpoint.save_checkpoint(d, obj, round_num=case['round'], keep=case['keep'])
        got = checkpoint.load_latest_checkpoint(d)
        if got is None:
          obs.update(status='ok', value={'t': 'none'}, round=-1, files=sorted(os.listdir(d)))
        else:
          obs.update(status='ok', value=_observe(got[0]), round=int(got[1]), files=sorted(os.listdir(d)))
    except Exception as ex:  # pylint: disable=broad-except
      obs.update(status='error', err=_err(ex))
    return obs
  finally:
    shutil.rmtree(d, ignore_errors=True)


def _which_state(obs_value, nstates, jaxy):
  """Index of the tagged state equal to the loaded value (dtype / shape / bit patterns), -1 if none."""
  got = _jax_to_np(obs_value)
  for k in range(nstates):
    if _first_diff(_expect(_tagged_state(k, jaxy), pickled=True), got) is None:
      return k
  return -1


def _run_ckptseq(case):
  from fedjax.training import checkpoint
  d = tempfile.mkdtemp(prefix='C16-')
  try:
    loads, k = [], 0
    nsaves = sum(1 for op in case['ops'] if op[0] == 'save')
    strays = []
    if case.get('strays'):      # files that LOOK like checkpoints but are not: never loaded, never counted
      strays = ['checkpoint_0000001', 'checkpoint_000000012', 'checkpoint_00000077.tmp', 'checkpoint_abc', 'checkpoint_', 'xcheckpoint_00000099',
                'checkpoint_00000003.bak']
      for nm in strays:
        with open(os.path.join(d, nm), 'wb') as f:
          f.write(b'not a pickle')
    try:
      for op in case['ops']:
        if op[0] == 'save':
          state = _build(_tagged_state(k, case['jax']))
          kw = {}
          if op[1] is not None:
            kw['round_num'] = op[1]
          if op[2] is not None:
            kw['keep'] = op[2]
          form = (k + len(case['ops'])) % 5 if len(kw) == 2 else 0
          before = _observe(state)
          if form == 1:        # all positional
            checkpoint.save_checkpoint(d, state, op[1], op[2])
          elif form == 2:      # all keywords, numpy integer round number
            checkpoint.save_checkpoint(root_dir=d, state=state, round_num=np.int64(op[1]), keep=op[2])
          elif form == 3:      # directory with a trailing separator
            checkpoint.save_checkpoint(d + os.sep, state, round_num=np.int32(op[1]), keep=op[2])
          else:
            checkpoint.save_checkpoint(d, state, **kw)
          if _observe(state) != before:
            return {'status': 'ok', 'loads': loads + [[-2, -2]], 'files': []}     # the saved state was modified
          k += 1
        else:
          got = checkpoint.load_latest_checkpoint(d if len(loads) % 2 == 0 else d + os.sep)
          again = checkpoint.load_latest_checkpoint(root_dir=d)
          if (got is None) != (again is None) or (got is not None and (_observe(got[0]) != _observe(again[0]) or got[1] != again[1])):
            loads.append([-3, -3])          # two loads of the same directory disagree
          else:
            loads.append(None if got is None else [int(got[1]), _which_state(_observe(got[0]), nsaves, case['jax'])])
    except Exception as ex:  # pylint: disable=broad-except
      return {'status': 'error', 'err': _err(ex), 'loads': loads}
    left = sorted(os.listdir(d))
    return {'status': 'ok', 'loads': loads, 'files': [f for f in left if f not in strays],
            'strays_kept': all(f in left for f in strays)}
  finally:
    shutil.rmtree(d, ignore_errors=True)


def _run_stateseq(case):
  from fedjax.core import serialization
  d = tempfile.mkdtemp(prefix='C16-')
  try:
    p = os.path.join(d, 'state')
    loads = []
    try:
      for k in range(case['n']):
        serialization.save_state(_build(_tagged_state(k, case['jax'])), p)
        if case['reload_between'] or k == case['n'] - 1:
          loads.append([k, _which_state(_observe(serialization.load_state(p)), case['n'], case['jax'])])
    except Exception as ex:  # pylint: disable=broad-except
      return {'status': 'error', 'err': _err(ex), 'loads': loads}
    return {'status': 'ok', 'loads': loads, 'files': sorted(os.listdir(d))}
  finally:
    shutil.rmtree(d, ignore_errors=True)


def _ckpt_reference(ops):
  """What the property asks of a checkpoint directory: a save (over)writes its round and keeps the
  `keep` highest rounds; a load gives the highest round and the state LAST saved under it."""
  files, k, out = {}, 0, []
  for op in ops:
    if op[0] == 'save':
      r = 0 if op[1] is None else op[1]
      keep = 1 if op[2] is None else op[2]
      files[r] = k
      k += 1
      for old in sorted(files)[:-keep]:
        del files[old]
    else:
      out.append(None if not files else [max(files), files[max(files)]])
  return out


def _big_ids(n, salt):
  """n distinct ids in a non-sorted order."""
  return [b'%s%05d' % (bytes([97 + salt % 26]), (i * 7919 + salt) % 100003) for i in range(n)]


def _run_sqlite_big(case):
  """Many clients with tiny payloads, added in one or several add_many calls (counts = clients per call)."""
  from fedjax.core import sqlite_federated_data as sfd
  d = tempfile.mkdtemp(prefix='C16-')
  try:
    path = os.path.join(d, 'big.sqlite')
    calls, want, k = [], [], 0
    for ci, n in enumerate(case['counts']):
      ids = _big_ids(n, ci)
      rows = [(cid, {'x': np.array([(k + j) % 127] * ((k + j) % 3), dtype=np.int8)}) for j, cid in enumerate(ids)]
      k += n
      calls.append(rows)
      want += [(cid, len(ex['x']), ex['x'].tolist()) for cid, ex in rows]
    forms = [lambda l: l, iter, lambda l: (r for r in l), tuple]
    early = None
    try:
      if case.get('form', 0) % 2 == 1:
        # the builder is a plain object (its constructor opens the connection): used WITHOUT a `with` block, what
        # add_many has returned for must be readable while the builder is still alive (round-8 seed C16-z1)
        b = sfd.SQLiteFederatedDataBuilder(path)
        try:
          done = 0
          for ci, rows in enumerate(calls):
            b.add_many(forms[(ci + case.get('form', 0)) % len(forms)](rows))
            done += len(rows)
            seen = int(sfd.SQLiteFederatedData.new(path).num_clients())
            if seen != done and early is None:
              early = f'{seen} clients readable after add_many call {ci} returned, {done} written so far (builder still open)'
        finally:
          b.__exit__(None, None, None)
      else:
        with sfd.SQLiteFederatedDataBuilder(path) as b:
          for ci, rows in enumerate(calls):
            b.add_many(forms[(ci + case.get('form', 0)) % len(forms)](rows))
    except Exception as ex:  # pylint: disable=broad-except
      return {'status': 'ser-error', 'err': _err(ex)}
    try:
      fd = sfd.SQLiteFederatedData.new(path)
      num = int(fd.num_clients())
      ids = list(fd.client_ids())
      sizes = list(fd.client_sizes())
      exs = [(c, ds.all_examples()['x']) for c, ds in fd.clients()]
    except Exception as ex:  # pylint: disable=broad-except
      return {'status': 'des-error', 'err': _err(ex)}
    bad = early
    if bad is not None:
      pass
    elif num != len(want) or len(ids) != len(want):
      bad = f'{num} clients / {len(ids)} ids read back, {len(want)} written'
    elif ids != [w[0] for w in want]:
      bad = 'client ids / their order differ'
    elif [(c, int(n)) for c, n in sizes] != [(w[0], w[1]) for w in want]:
      bad = 'client sizes differ'
    elif any(c != w[0] or e.dtype != np.int8 or e.tolist() != w[2] for (c, e), w in zip(exs, want)):
      bad = 'examples differ'
    return {'status': 'ok', 'written': len(want), 'read': num, 'bad': bad}
  finally:
    shutil.rmtree(d, ignore_errors=True)


_FLAG_SCRIPT = '''
import json, sys
sys.path.insert(0, %r)
from harness import c16
import jax
x64 = bool(jax.config.jax_enable_x64)
out = []
wide = ('int64', 'uint64', 'float64', 'complex128') if x64 else ()
cases = [{'kind': 'tree', 'tree': c16.arr_spec(dt, 'native', 'C', shape, jax=True, salt=3)}
         for dt in wide + ('int32', 'float32', 'bfloat16', 'bool', 'complex64') for shape in ([], [0], [2, 3])]
weak = (('float64', 0x3ff8000000000000), ('int64', 7), ('complex128', (0x4000000000000000 << 64) | 0x3ff8000000000000)) if x64 else \
    (('float32', 0x3fc00000), ('int32', 7), ('complex64', (0x40000000 << 32) | 0x3fc00000))
cases += [{'kind': 'tree', 'tree': {**c16.arr_spec(dt, 'native', 'C', [], jax=True), 'bits': [b], 'jaxform': 'weak'}} for dt, b in weak]
cases += [{'kind': 'tree', 'tree': {**c16.arr_spec('float32', 'native', 'C', [2, 3], jax=True), 'jaxform': 'jit'}}]
cases += [{'kind': 'ckpt', 'api': 'checkpoint', 'tree': c16._tagged_state(2, True), 'round': 1, 'keep': 1}]
for c in cases:
  o = c16.run(c)
  for k, w in c16.oracle(c, o):
    out.append([k, w, c])
print('RESULT' + json.dumps({'n': len(cases), 'bad': out}))
'''


_HANDOVER_SCRIPT = '''
import json, sys, hashlib
sys.path.insert(0, %r)
from harness import c16
from fedjax.core import serialization, sqlite_federated_data as sfd
from fedjax.training import checkpoint
d, spec = sys.argv[1], json.loads(sys.argv[2])
out = {}
out['msgpack'] = c16._observe(serialization.msgpack_deserialize(open(d + '/tree.msgpack', 'rb').read()))
out['bytes'] = hashlib.sha256(serialization.msgpack_serialize(c16._build(spec))).hexdigest()
st, r = checkpoint.load_latest_checkpoint(d + '/ck')
out['ckpt'] = [c16._jax_to_np(c16._observe(st)), int(r)]
out['state'] = c16._jax_to_np(c16._observe(serialization.load_state(d + '/state.pkl')))
fd = sfd.SQLiteFederatedData.new(d + '/data.sqlite')
out['sqlite'] = [[c.hex(), int(fd.client_size(c)), c16._observe(dict(ds.all_examples()))] for c, ds in fd.clients()]
print('RESULT' + json.dumps(out))
'''


def _run_handover(case):
  """Everything this process writes (msgpack bytes, a checkpoint, a state file, a SQLite file) is read by a FRESH
  interpreter with another PYTHONHASHSEED; that process also serialises the same value: the bytes must be identical."""
  import hashlib
  import json
  import subprocess
  import sys
  from fedjax.core import serialization, sqlite_federated_data as sfd
  from fedjax.training import checkpoint
  d = tempfile.mkdtemp(prefix='C16-')
  try:
    spec = case['tree']
    obj = _build(spec)
    data = serialization.msgpack_serialize(obj)
    with open(os.path.join(d, 'tree.msgpack'), 'wb') as f:
      f.write(data)
    state = _build(_tagged_state(3, True))
    os.mkdir(os.path.join(d, 'ck'))
    checkpoint.save_checkpoint(os.path.join(d, 'ck'), state, round_num=7)
    serialization.save_state(state, os.path.join(d, 'state.pkl'))
    clients = [(b'c02', {'x': np.arange(3, dtype=np.int16)}), (b'c00', {'x': np.arange(0, dtype=np.int16)}), (b'', {'x': np.arange(1, dtype=np.int16)})]
    with sfd.SQLiteFederatedDataBuilder(os.path.join(d, 'data.sqlite')) as b:
      b.add_many(clients)
    env = dict(os.environ, PYTHONHASHSEED=str(case['hashseed']))
    p = subprocess.run([sys.executable, '-c', _HANDOVER_SCRIPT % os.path.dirname(os.path.dirname(os.path.abspath(__file__))), d, json.dumps(spec)],
                       env=env, capture_output=True, text=True, timeout=600)
    line = [l for l in p.stdout.split('\n') if l.startswith('RESULT')]
    if not line:
      return {'status': 'error', 'err': (p.stderr or p.stdout)[-400:]}
    got = json.loads(line[0][6:])
    bad = []
    if _first_diff(_expect(spec), got['msgpack']):
      bad.append(['msgpack', 'bytes serialised here decode to another value in a fresh process'])
    if got['bytes'] != hashlib.sha256(data).hexdigest():
      bad.append(['bytes', 'the same value serialises to different bytes in a process with another PYTHONHASHSEED'])
    exp_state = _expect(_tagged_state(3, True), pickled=True)
    if _first_diff(exp_state, got['ckpt'][0]) or got['ckpt'][1] != 7 or _first_diff(exp_state, got['state']):
      bad.append(['checkpoint', 'a checkpoint / state file written here loads differently in a fresh process'])
    want = [[c.hex(), len(e['x']), _observe(e)] for c, e in clients]
    if got['sqlite'] != want:
      bad.append(['sqlite', 'a SQLite file written here reads differently in a fresh process'])
    return {'status': 'ok', 'bad': bad}
  finally:
    shutil.rmtree(d, ignore_errors=True)


def _run_flags(case):
  """The jax-leaf cases again in a fresh process with a global jax flag set (64-bit jax dtypes exist only under x64)."""
  import subprocess
  import sys
  env = dict(os.environ, **case['env'])
  p = subprocess.run([sys.executable, '-c', _FLAG_SCRIPT % os.path.dirname(os.path.dirname(os.path.abspath(__file__)))],
                     env=env, capture_output=True, text=True, timeout=600)
  line = [l for l in p.stdout.split('\n') if l.startswith('RESULT')]
  if not line:
    return {'status': 'error', 'err': (p.stderr or p.stdout)[-400:]}
  import json
  return {'status': 'ok', **json.loads(line[0][6:])}


def run(case):
  k = case['kind']
  if k == 'sqlite_big':
    return _run_sqlite_big(case)
  if k == 'handover':
    return _run_handover(case)
  if k == 'flags':
    return _run_flags(case)
  if k == 'ckptseq':
    return _run_ckptseq(case)
  if k == 'stateseq':
    return _run_stateseq(case)
  if k == 'tree':
    return _run_tree(case)
  if k == 'sqlite':
    return _run_sqlite(case)
  return _run_ckpt(case)


# --------------------------------------------------------------------------
# oracle

def _has_extra(spec):
  if spec['t'] == 'extra':
    return True
  if spec['t'] == 'dict':
    return any(_has_extra(v) for _, v in spec['items'])
  if spec['t'] in ('list', 'tuple'):
    return any(_has_extra(v) for v in spec['items'])
  return False


def _has_bytes_key(spec):
  if spec['t'] == 'dict':
    return any(isinstance(k, dict) or _has_bytes_key(v) for k, v in spec['items'])
  if spec['t'] in ('list', 'tuple'):
    return any(_has_bytes_key(v) for v in spec['items'])
  return False


def _extra_oracle(spec, obs):
  """Leaves of dtypes outside the property's list: accepted or rejected, but never altered."""
  if obs['status'] != 'ok':
    return []

  def same(s, o):
    if s['t'] == 'extra':
      return o.get('t') == 'other' and o.get('dtype_str') == str(_extra_dtype(s['dtype'])) and o.get('shape') == s['shape'] \
          and o.get('hex') == s['hex']
    if s['t'] == 'dict':
      return o.get('t') == 'dict' and len(o['items']) == len(s['items']) and \
          all(a[0] == b[0] and same(a[1], b[1]) for a, b in zip(s['items'], o['items']))
    return _first_diff(_expect(s), o) is None
  if not same(spec, obs['value']):
    return [('extra-dtype-altered', 'a leaf of a dtype outside the supported list was accepted and came back altered')]
  return []


def _tree_oracle(spec, obs, prefix=''):
  out = []
  if _has_extra(spec):
    return _extra_oracle(spec, obs)
  try:
    exp = _expect(spec)
    unsupported = None
  except Unsupp as u:
    exp, unsupported = None, u.kind
  st = obs['status']
  if unsupported is None:
    if st != 'ok':
      return [(prefix + 'supported-rejected', f'a supported value was rejected at {st}: {obs.get("err")}')]
    d = _first_diff(exp, obs['value'])
    if d:
      out.append((prefix + 'altered-' + d[0], f'round trip changed the {d[0]} at {d[1]}'))
    if obs.get('stable') is False:
      out.append((prefix + 'unstable', 'deserialising the same bytes twice gave different values'))
    if obs.get('input_after') is False:
      out.append((prefix + 'input-mutated', 'serialisation modified its input (array bits, or a container\'s identity / keys / length)'))
    if obs.get('aliases'):
      out.append((prefix + 'result-aliases', 'a decoded array shares memory with the input or with another decoding of the same bytes'))
    if obs.get('twice') is False:
      out.append((prefix + 'second-roundtrip', 'serialising the decoded value again does not give the same bytes / the same value'))
    if obs.get('kept_unchanged') is False:
      out.append((prefix + 'result-changed-later', 'a decoded value kept by the caller changed after later (de)serialisation calls'))
  else:
    if st == 'ok':
      out.append((prefix + 'unsupported-altered:' + unsupported,
                  f'an unsupported leaf ({unsupported}) was accepted and came back as a different value instead of raising'))
    elif obs.get('err', '').startswith('Other:'):
      out.append((prefix + 'unsupported-odd-error', f'unsupported leaf rejected with an unexpected error {obs.get("err")}'))
  return out


def _jax_to_np(o):
  """A jax.Array leaf loads back as a jax array; values/dtype/shape must be equal."""
  if isinstance(o, dict) and o.get('t') == 'tuple':
    return {**o, 'items': [_jax_to_np(v) for v in o['items']]}
  if isinstance(o, dict) and o.get('t') == 'jaxarr':
    return {'t': 'arr', 'dtype': o['dtype'], 'native': True, 'shape': o['shape'], 'bits': o['bits']}
  if isinstance(o, dict) and 'items' in o:
    if o['t'] == 'dict':
      return {**o, 'items': [[k, _jax_to_np(v)] for k, v in o['items']]}
    return {**o, 'items': [_jax_to_np(v) for v in o['items']]}
  return o


def oracle(case, obs):
  k = case['kind']
  if k == 'sqlite_big':
    if obs['status'] != 'ok':
      return [('sqlite-error', f'builder / reader raised {obs.get("err")} on {case["counts"]} clients per add_many call')]
    return [('sqlite-count', f'add_many calls of {case["counts"]} clients: {obs["bad"]}')] if obs['bad'] else []
  if k == 'handover':
    if obs['status'] != 'ok':
      return [('handover-error', 'a fresh process could not read what this one wrote: ' + obs.get('err', ''))]
    return [('handover-' + b[0], b[1]) for b in obs['bad'][:1]]
  if k == 'flags':
    if obs['status'] != 'ok':
      return [('flags-error', 'the jax-leaf cases could not be run with ' + str(case['env']) + ': ' + obs.get('err', ''))]
    return [(key + '@' + ','.join(f'{a}={b}' for a, b in sorted(case['env'].items())), what) for key, what, _ in obs['bad'][:1]]
  if k in ('ckptseq', 'stateseq'):
    if obs['status'] != 'ok':
      return [('ckpt-error', f'saving / loading raised {obs.get("err")}')]
    want = _ckpt_reference(case['ops']) if k == 'ckptseq' else \
        [[i, i] for i in range(case['n']) if case['reload_between'] or i == case['n'] - 1]
    for i, (w, g) in enumerate(zip(want, obs['loads'])):
      if w != g:
        what = 'load_latest_checkpoint' if k == 'ckptseq' else 'load_state'
        return [('ckpt-stale' if (w and g and g[0] == w[0]) else 'ckpt-round',
                 f'{what} #{i + 1} returned (round/step, state) {g}; the state last saved there is {w} (-1 = no saved state)')]
    if any(f.endswith('.tmp') for f in obs['files']):
      return [('ckpt-tmp-left', 'a temporary file is left behind')]
    if obs.get('strays_kept') is False:
      return [('ckpt-foreign-removed', 'a file that is not a checkpoint (other name pattern) was removed by save_checkpoint')]
    return []
  if k == 'tree':
    return _tree_oracle(case['tree'], obs)
  if k == 'ckpt':
    if obs['status'] != 'ok':
      return [('ckpt-error', f'saving / loading a state raised {obs.get("err")}')]
    out = []
    d = _first_diff(_expect(case['tree'], pickled=True), _jax_to_np(obs['value']))
    if d:
      out.append(('ckpt-state', f'loaded state differs from the saved one: {d[0]} at {d[1]}'))
    if obs['round'] != case['round']:
      out.append(('ckpt-round', f'loaded round {obs["round"]}, saved {case["round"]}'))
    if any(f.endswith('.tmp') for f in obs['files']):
      out.append(('ckpt-tmp-left', 'a temporary file is left behind'))
    return out
  # sqlite
  clients = case['clients']
  bad = None
  for cid, feats in clients:
    try:
      for _, v in feats:
        _expect(v)
    except Unsupp as u:
      bad = u.kind
    lead = {tuple(v['shape'][:1]) for _, v in feats}
    if not feats or len(lead) != 1 or () in lead:
      bad = bad or 'malformed-examples'
  if bad:
    if obs['status'] == 'ok':
      return [('sqlite-unsupported-accepted:' + bad, 'a malformed / unsupported client dataset was written and read back without an error')]
    return []
  if obs['status'] != 'ok':
    return [('sqlite-error', f'builder / reader raised {obs.get("err")} at {obs["status"]} on a well-formed dataset'
             + (' with an empty client' if any(v['shape'][0] == 0 for _, f in clients for _, v in f) else ''))]
  out = []
  want_ids = [cid for cid, _ in clients]
  if obs['ids'] != want_ids or obs['num'] != len(want_ids):
    out.append(('sqlite-ids', 'client ids / their order / num_clients differ from what was written'))
  want_sizes = [[cid, feats[0][1]['shape'][0]] for cid, feats in clients]
  if obs['sizes'] != want_sizes or [[c, n] for c, n, _ in obs['single']] != want_sizes:
    out.append(('sqlite-sizes', 'client sizes differ from the number of examples written'))
  if obs.get('inputs_unchanged') is False:
    out.append(('sqlite-input-mutated', 'add_many modified the examples it was given'))
  inter = obs.get('interleaved', {})
  if 'error' in inter:
    out.append(('sqlite-interleaved', f'an interleaved read-back raised {inter["error"]}'))
  else:
    want_rows = [[cid, feats[0][1]['shape'][0]] for cid, feats in clients]
    for pat, rows in inter.items():
      got_rows = [[c, n if n is not None else w[1]] for (c, n, _), w in zip(rows, want_rows + [[None, None]] * len(rows))]
      no_size = ('zip_ids_clients', 'ids_twice', 'clients_in_pieces', 'get_clients_forms', 'shuffled_epochs', 'kept_results', 'view_chain_forwarding')
      if len(rows) != len(want_rows) or got_rows != want_rows or any(n is None and pat not in no_size for _, n, _ in rows) \
          or any(e != 'same' for _, _, e in rows):
        out.append(('sqlite-interleaved',
                    f'{pat}: a lazy listing interleaved with other queries on the same object gave '
                    f'{[[c, n, e if e == "same" else "different examples"] for c, n, e in rows]}; the fully consumed reading gives {want_rows}'))
        break
  for (cid, feats), got, one in zip(clients, obs['clients'], obs['single']):
    exp = {'t': 'dict', 'items': [[k, _expect(v)] for k, v in feats]}
    for g in (got[1], one[2]):
      d = _first_diff(exp, g) if got[0] == cid else ('keys', '$')
      if d:
        out.append(('sqlite-examples', f'client {cid}: examples differ ({d[0]} at {d[1]})'))
        break
  return out


# --------------------------------------------------------------------------
# Coq encoding

def _zs(b):
  return fw.zlist(list(b))


def _nats(xs):
  return fw.natlist(xs)


def _oarr(s):
  return (f'(mkOArr {_zs(s["name"].encode())} {fw.cbool(s["hasobject"])} {fw.cbool(s["aligned"])} '
          f'{_nats(s.get("shape", []))} {fw.zlist(s["raw"])})')


def _carr(dtype, shape, bits):
  return f'(mk_carr {COQ_DT[dtype]} {_nats(shape)} {fw.zlist(bits)})'


def _val(s):
  """Input (memory-annotated) spec or observed spec -> Gallina `value`."""
  t = s['t']
  if t == 'dict':
    if any(not isinstance(k, str) for k, _ in s['items']):
      return 'VForeign'
    return f'(VDict {fw.clist([_zs(k.encode("utf-8", "surrogatepass")) for k, _ in s["items"]])} {fw.clist([_val(v) for _, v in s["items"]])})'
  if t == 'list':
    return f'(VList {fw.clist([_val(v) for v in s["items"]])})'
  if t == 'tuple':
    return f'(VTuple {fw.clist([_val(v) for v in s["items"]])})'
  if t == 'set':
    return 'VSet'
  if t == 'arr':
    if 'buf' in s:     # real memory of an input array
      order = 'Native' if s['order'] == 'native' else 'Swapped'
      return (f'(VArr (mkArr {COQ_DT[s["dtype"]]} {order} {_nats(s["shape"])} {fw.zlist(s["strides"])} '
              f'{fw.zlit(s["offset"])} {fw.zlist(s["buf"])}))')
    if s.get('jax'):
      return f'(VJax {_carr(s["dtype"], s["shape"], s["bits"])})'
    if not s.get('native', True):
      return 'VForeign'
    return f'(VArr {_carr(s["dtype"], s["shape"], s["bits"])})'
  if t == 'obj':
    els = [f'(OBytes {_zs(bytes.fromhex(e))})' if isinstance(e, str) else 'ONotBytes' for e in s['elems']]
    return f'(VObj {_nats(s["shape"])} {fw.clist(els)})'
  if t == 'npscalar':
    return f'(VNpScalar {COQ_DT[s["dtype"]]} {fw.zlit(s["bits"])})'
  if t == 'other':
    return f'(VOther {_oarr(s)})' if 'raw' in s else 'VForeign'
  if t == 'npother':
    return f'(VNpOther {_oarr(s)})' if 'raw' in s else 'VForeign'
  if t == 'int':
    return f'(VInt {fw.zlit(int(s["v"]))})'
  if t == 'float':
    return f'(VFloat {fw.zlit(s["bits"])})'
  if t == 'bool':
    return f'(VBool {fw.cbool(s["v"])})'
  if t == 'none':
    return 'VNone'
  if t == 'str':
    return f'(VStr {_zs(s["v"].encode("utf-8", "surrogatepass"))})'
  if t == 'bytes':
    return f'(VBytes {_zs(bytes.fromhex(s["hex"]))})'
  if t == 'complex':
    return f'(VComplex {fw.zlit(s["re"])} {fw.zlit(s["im"])})'
  return 'VForeign'


def encode(case, obs):
  k = case['kind']
  if k == 'tree' and (_has_extra(case['tree']) or _has_bytes_key(case['tree'])):
    return None
  if k == 'tree':
    c = f'(CValue {_val(obs["input"])})'
    st = obs['status']
    o = 'ORejectSer' if st == 'ser-error' else 'ORejectDes' if st == 'des-error' else f'(OOk {_val(obs["value"])})'
    term = f'(({c}, {o}))%Z'
  elif k == 'sqlite':
    cs = []
    for cid, feats in obs['input']:
      cs.append(f'({_zs(bytes.fromhex(cid))}, ({fw.clist([_zs(kk.encode()) for kk, _ in feats])}, {fw.clist([_val(v) for _, v in feats])}))')
    c = f'(CDb {fw.clist(cs)})'
    st = obs['status']
    if st == 'ser-error':
      o = 'ORejectSer'
    elif st == 'des-error':
      o = 'ORejectDes'
    else:
      ids = fw.clist([_zs(bytes.fromhex(i)) for i in obs['ids']])
      sizes = fw.clist([f'({_zs(bytes.fromhex(i))}, {n}%nat)' for i, n in obs['sizes']])
      cl = fw.clist([f'({_zs(bytes.fromhex(i))}, {_val(v)})' for i, v in obs['clients']])
      o = f'(ODb {ids} {sizes} {cl})'
    term = f'(({c}, {o}))%Z'
  elif k == 'ckptseq':
    if obs['status'] != 'ok':
      return None
    ops, n = [], 0
    for op in case['ops']:
      if op[0] == 'save':
        ops.append(f'CkSave {0 if op[1] is None else op[1]} {n} {1 if op[2] is None else op[2]}')
        n += 1
      else:
        ops.append('CkLoad')
    loads = fw.clist(['None' if g is None else f'(Some ({g[0]}, {fw.zlit(g[1])}))' for g in obs['loads']])
    term = f'((CCkpt {fw.clist(ops)}, OCkpt {loads}))%Z'
  else:
    return None
  if len(term) > 12000:
    return None
  return term


# --------------------------------------------------------------------------

def _count(spec):
  t = spec['t']
  if t in ('dict',):
    return sum(_count(v) for _, v in spec['items'])
  if t in ('list', 'tuple'):
    return sum(_count(v) for v in spec['items'])
  if t == 'arr':
    return len(spec['bits'])
  if t == 'obj':
    return len(spec['elems'])
  return 1


def _depth(spec):
  if spec['t'] == 'dict':
    return 1 + max([_depth(v) for _, v in spec['items']] + [0])
  if spec['t'] in ('list', 'tuple'):
    return 1 + max([_depth(v) for v in spec['items']] + [0])
  return 0


def nontrivial(case, obs):
  if case['kind'] in ('ckptseq', 'stateseq', 'flags', 'sqlite_big', 'handover'):
    return True
  if case['kind'] == 'tree':
    return _count(case['tree']) > 0
  if case['kind'] == 'sqlite':
    return len(case['clients']) > 0
  return True


def describe(case, obs):
  d = {'kind': case['kind'], 'status': obs.get('status')}
  if case['kind'] == 'tree':
    s = case['tree']
    d['depth'] = _depth(s)
    d['leaf'] = s['t'] if s['t'] not in ('dict', 'list') else 'nested'
    if s['t'] == 'arr':
      d['dtype'] = s['dtype']
      d['layout'] = s['layout'] + '/' + s['order']
      d['shape_class'] = '0-d' if not s['shape'] else 'empty' if 0 in s['shape'] else f'rank{len(s["shape"])}'
  return d


def shrink(case):
  if case['kind'] == 'tree':
    s = case['tree']
    if s['t'] in ('dict', 'list', 'tuple'):
      for it in s['items']:
        yield {'kind': 'tree', 'tree': it[1] if s['t'] == 'dict' else it}
      for i in range(len(s['items'])):
        yield {'kind': 'tree', 'tree': {**s, 'items': s['items'][:i] + s['items'][i + 1:]}}
    if s['t'] == 'arr' and len(s['shape']) > 1:
      for shape in ([s['shape'][0]], s['shape'][1:]):
        yield {'kind': 'tree', 'tree': arr_spec(s['dtype'], s['order'], s['layout'], shape)}
    if s['t'] == 'arr' and s['layout'] != 'C':
      yield {'kind': 'tree', 'tree': {**s, 'layout': 'C'}} if s['layout'] != 'broadcast' else case
  elif case['kind'] == 'ckptseq':
    ops = case['ops']
    for i in range(len(ops) - 1):
      yield {**case, 'ops': ops[:i] + ops[i + 1:]}
  elif case['kind'] == 'sqlite':
    cl = case['clients']
    for i in range(len(cl)):
      yield {**case, 'clients': cl[:i] + cl[i + 1:]}
    for i, (cid, feats) in enumerate(cl):
      for j in range(len(feats)):
        if len(feats) > 1:
          yield {**case, 'clients': cl[:i] + [[cid, feats[:j] + feats[j + 1:]]] + cl[i + 1:]}
