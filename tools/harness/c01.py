"""C01 harness: fedjax.algorithms.fed_avg.federated_averaging on tiny in-memory
populations, all for_each_client backends, against (a) an independent float64
recomputation of the definition (oracle) and (b) the Gallina model (encode)."""
import json

import numpy as np

from lib import fw
from lib import fedsim as fs

PROP = 'C01'
COQ_HEADER = 'From FV Require Import Common.QVec Model.C01_Model.\nLocal Open Scope Q_scope.'
COQ_AGREE = 'C01_agree'
COQ_MODEL_TARGETS = ['Model/C01_Model']
CASE_TIMEOUT = 120
TOL = 2e-4          # relative-absolute tolerance |a-b| <= TOL*(1+|b|) for float32 vs exact / float64
TOL_ADAM = 2e-3
RULE = ('pool of (client optimizer, server optimizer, batching hparams, key-dependent loss) configurations x '
        'populations of 0..6 clients with 0..9 examples x 1..3 rounds with per-round client order and keys x '
        'backends jit/debug/pmap(1 device)/pmap(3 devices, subprocess); non-trivial = some round saw at least one '
        'example; distinct = distinct case JSON')
TRUSTED = ['XLA float32 numerics of the tiny least-squares task (compared with tolerance %g inside Coq on exact rationals)' % TOL,
           'jax.random split/randint (used to evaluate the key-path rule of the model; the nu values are model inputs)',
           'shuffle_repeat_batch index streams are recorded from the real implementation (their correctness is C04)',
           'optax.adam (server side: its input, the mean delta, is checked; its output against a numpy Adam)',
           'tools/lib/qfun.py reading of tree_util.py (Gen_tree_util)']
ASSUMPTIONS = ['client ids within a round are distinct (dict keys)',
               'the abstract client program preserves the parameter length and respects == on Q (proved for the evaluated instance)',
               'batches are non-empty (shuffle_repeat_batch always yields batch_size rows)']
PARTIAL = ['delta_l2_norm is compared through its square (sqrt is not modelled)',
           'Adam as CLIENT optimizer is judged by the oracle only (not evaluated in Coq)',
           'C01_backend_independent is stated for any for_each_client whose outputs are a permutation of the sequential outputs (the C02 specification); that the three backends satisfy it is C02 + the correspondence here']

SGD = lambda lr, mom=None, nest=False: {'kind': 'sgd', 'lr': lr, 'mom': mom, 'nest': nest}
ADAM = lambda lr: {'kind': 'adam', 'lr': lr}
# as CLIENT optimizer Adam gets a large eps: with the default 1e-8 the update g/(|g|+eps) of a coordinate whose gradient
# is zero up to rounding is +-lr depending on float noise, so no reference computation can agree with it
ADAM_C = lambda lr: {'kind': 'adam', 'lr': lr, 'eps': 0.125}

COPTS = [SGD(0.125), SGD(0.25, 0.5), SGD(0.125, 0.5, True), SGD(0.0625, 0.25), ADAM_C(0.05)]
SOPTS = [SGD(1.0), SGD(0.5), SGD(1.0, 0.5), SGD(0.5, 0.5, True), ADAM(0.125), SGD(2.0)]
HPS = [  # bs, epochs, steps, drop
    (2, 1, None, False), (3, 2, None, True), (4, None, 3, False), (1, 1, 2, False), (5, 1, None, False),
    (2, None, 1, False), (3, 1, None, True), (4, 2, 3, False), (5, 3, None, True), (1, 2, None, False),
    (2, 1, 0, False), (3, None, 2, True)]
SIZES = [[], [0], [0, 0], [3], [0, 4], [1, 2, 3], [5, 0, 2, 9], [4, 4, 4, 4, 4, 4], [7, 1, 0, 3, 6, 2], [2, 2], [9, 8, 1], [1, 0, 0, 1]]
BACKENDS = ['jit', 'debug', 'pmap', 'pmap3']
ALL_BACKENDS = BACKENDS + ['nojit']     # nojit: the jit backend run under jax.disable_jit()


def _hp(t, seed):
  return {'bs': t[0], 'epochs': t[1], 'steps': t[2], 'drop': t[3], 'seed': seed}


def _rounds(rng, ids, nrounds):
  out = []
  for _ in range(nrounds):
    k = rng.randint(0, len(ids)) if rng.random() < 0.3 else len(ids)
    sel = rng.sample(ids, k)
    out.append([[c, rng.randint(0, 50)] for c in sel])
  return out


def _case(rng, copt, sopt, hp, sizes, nrounds, backend, noise):
  pop = fs.gen_population(rng, sizes)
  ids = sorted(pop)
  rounds = _rounds(rng, ids, nrounds)
  perm = list(range(len(rounds[0])))
  rng.shuffle(perm)
  return {'copt': copt, 'sopt': sopt, 'hp': hp, 'noise': noise, 'backend': backend,
          'init': [rng.randint(-4, 4) / 4 for _ in range(fs.D)], 'pop': pop, 'rounds': rounds, 'perm': perm,
          'forms': fs.gen_forms(rng) if rng.random() < 0.5 else dict(fs.FORMS0),
          'xdtype': 'float16' if rng.random() < 0.1 else 'float32', 'fresh': False}


def generate(tier, rng):
  if tier != 'search':
    fs.prestart('c01', ['pmap3', 'rbg', 'hash1'] + ([] if tier == 'quick' else ['tfp0', 'tfp1', 'x64', 'rankraise', 'hash2']))
  n_cfg = {'quick': 28, 'thorough': 260, 'search': 400}[tier]
  # fixed corner cases first: all-empty rounds, zero clients, drop_remainder with n < bs, every backend
  for b in BACKENDS:
    yield _case(rng, SGD(0.125), SGD(1.0), _hp(HPS[0], 1), [0, 0], 2, b, True)
    yield _case(rng, SGD(0.25, 0.5), SGD(1.0, 0.5), _hp(HPS[0], 2), [5, 0, 2, 9], 3, b, True)
  yield _case(rng, SGD(0.125), SGD(1.0), _hp(HPS[0], 1), [], 1, 'jit', True)
  # WAVE3 item 2: falsy-but-valid values: seed 0, client id 0 as int, learning rate 0.0, momentum 0.0 (not None),
  # sizes one below / equal to / one above the batch size, weights exactly 0 and 1; item 7: jit backend under disable_jit
  for forms in ({'clients': 'tuple', 'ids': 'int', 'init': 'numpy', 'key': 'numpy'}, {'clients': 'list', 'ids': 'str', 'init': 'jax', 'key': 'jax'}):
    for b in ('jit', 'nojit', 'pmap3'):
      yield dict(_case(rng, SGD(0.125, 0.0), SGD(1.0, 0.0), _hp((3, 2, None, False), 0), [2, 3, 4, 0, 1], 2, b, True), forms=forms)
  yield dict(_case(rng, SGD(0.0), SGD(1.0), _hp(HPS[0], 0), [3, 2], 2, 'jit', True))
  yield dict(_case(rng, SGD(0.125), SGD(0.0, 0.5), _hp(HPS[0], 0), [3, 2], 3, 'jit', True), xdtype='float16')
  yield dict(_case(rng, SGD(0.25, 0.5), SGD(0.5, 0.5), _hp((2, None, 3, False), 0), [1, 2, 3], 2, 'debug', True), fresh=True)
  yield _case(rng, SGD(0.125), SGD(0.5), _hp(HPS[5], 1), [0, 3, 0], 2, 'jit', True)
  yield _case(rng, SGD(0.125), SGD(1.0), _hp(HPS[8], 4), [2, 7, 4], 2, 'jit', False)
  yield _case(rng, SGD(0.125), ADAM(0.125), _hp(HPS[1], 4), [4, 0, 6], 3, 'jit', True)
  yield _case(rng, ADAM_C(0.05), SGD(1.0), _hp(HPS[0], 4), [4, 0, 6], 2, 'jit', True)
  for i in range(n_cfg):
    copt = COPTS[i % len(COPTS)] if rng.random() < 0.7 else rng.choice(COPTS[:4])
    sopt = rng.choice(SOPTS)
    hp = _hp(HPS[i % len(HPS)], rng.randint(0, 9))
    noise = rng.random() < 0.8
    # the same configuration (one compiled algorithm per backend) on several populations
    bks = ['jit'] + ([rng.choice(BACKENDS[1:])] if tier != 'quick' or i % 2 == 0 else [])
    for j in range(3 if tier == 'quick' else 4):
      sizes = rng.choice(SIZES) if rng.random() < 0.6 else [rng.randint(0, 9) for _ in range(rng.randint(0, 6))]
      base = _case(rng, copt, sopt, hp, sizes, rng.randint(1, 3), 'jit', noise)
      for b in (bks if j == 0 else [rng.choice(bks)]):
        yield dict(base, backend=b)
  # WAVE4 item 1: a server / client optimizer made of several chained optax transforms (clip, then sgd)
  CLIP = {'kind': 'clipsgd', 'lr': 0.5, 'clip': 0.0625}
  yield _case(rng, SGD(0.125), CLIP, _hp(HPS[0], 3), [5, 3, 9], 2, 'jit', True)
  yield _case(rng, dict(CLIP, lr=0.125, clip=0.25), SGD(1.0), _hp(HPS[0], 3), [5, 3, 9], 2, 'pmap', True)
  # item 2: ids that look like sentinels (-1, None: the pmap backend pads with client id None); item 7: two-leaf params whose
  # keys are inserted in non-sorted order; cohorts not in id order (always)
  for ids, b in (('negint', 'pmap'), ('none0', 'pmap'), ('none0', 'jit'), ('negint', 'debug')):
    yield dict(_case(rng, SGD(0.125), SGD(1.0, 0.5), _hp(HPS[0], 5), [3, 9, 5, 0], 2, b, True),
               forms={'clients': 'list', 'ids': ids, 'init': 'jax', 'key': 'jax', 'leaves': 2})
  # item 3: magnitude sweep, jointly for the data scale (2**e) and the client learning rate (2**-2e keeps the dynamics),
  # and tiny / huge learning rates on their own
  for e in (-20, -10, 10, 20):
    yield dict(_case(rng, SGD(0.125 * 2.0 ** (-2 * e)), SGD(1.0), _hp(HPS[0], 4), [4, 0, 6, 3], 2, 'jit', False), scale=e, xdtype='float32')   # 2**20 overflows float16
  yield _case(rng, SGD(2.0 ** -100), SGD(2.0 ** 60), _hp(HPS[0], 4), [4, 6], 2, 'jit', False)
  yield _case(rng, SGD(2.0 ** -20), SGD(2.0 ** -30, 0.5), _hp(HPS[0], 4), [4, 6], 2, 'jit', True)
  # item 4: a non-finite value on a REAL example
  yield dict(_case(rng, SGD(0.125), SGD(1.0), _hp(HPS[0], 4), [4, 6, 0], 2, 'jit', False), poison=['1', 2],
             rounds=[[['0', 1], ['2', 2]], [['1', 3], ['0', 4]]], perm=[1, 0])
  yield dict(_case(rng, SGD(0.125), SGD(1.0), _hp(HPS[0], 4), [4, 6, 0], 1, 'pmap', False), poison=['0', 0],
             rounds=[[['2', 1], ['0', 2], ['1', 3]]], perm=[2, 0, 1])
  # item 6: global jax configuration flags, one subprocess per setting
  for flag in (['rbg'] if tier == 'quick' else ['rbg', 'tfp0', 'tfp1', 'x64', 'rankraise']):
    for k in range(2 if tier == 'quick' else 3):
      yield dict(_case(rng, SGD(0.125, 0.5), SGD(1.0), _hp(HPS[k], 4), [4, 2, 6, 0], 2, ['jit', 'pmap', 'debug'][k], True), flags=flag)
  # WAVE5 item 2: the step-count formula on an exhaustive grid (one case)
  yield {'grid': list(GRID['quick' if tier == 'quick' else 'thorough'])}
  # item 1: memory layouts of the dataset arrays (Fortran order, transposed view, strided, reversed, column slice of a wider
  # array, read-only) and of numpy params (read-only / strided); item 6: params in tuple / NamedTuple / list / nested dict /
  # haiku FlatMap containers
  for j, lay in enumerate(fs.LAYOUTS[1:]):
    yield dict(_case(rng, SGD(0.125, 0.5), SGD(1.0, 0.5), _hp(HPS[j % 3], j), [5, 3, 0, 4], 2, ['jit', 'pmap', 'debug'][j % 3], True), layout=lay,
               forms={'clients': 'list', 'ids': 'bytes', 'init': ['numpy_ro', 'numpy_nc'][j % 2], 'key': 'jax',
                      'leaves': ['tuple', 'named', 'list', 'nested', 'flatmap', 2][j]})
  # item 3: ill-conditioned data: parameters with a large offset (mean >> spread of the update; tolerance relative to the
  # parameter scale), and mirrored clients whose deltas cancel exactly in the mean
  yield dict(_case(rng, SGD(0.125), SGD(1.0), _hp(HPS[0], 4), [4, 6, 3], 2, 'jit', False), init=[256.0, -1024.0], tolscale=1024.0, cond='offset')
  yield dict(_case(rng, SGD(0.0625, 0.5), SGD(0.5), _hp(HPS[3], 4), [5, 2], 2, 'pmap', False), init=[-4096.0, 4096.25], tolscale=4096.0, cond='offset')
  m = _case(rng, SGD(0.25), SGD(1.0), _hp((4, None, 1, False), 4), [4], 1, 'jit', False)
  m['init'] = [0.0, 0.0]
  m['pop'] = {'0': m['pop']['0'], '1': {'x': m['pop']['0']['x'], 'y': [-v for v in m['pop']['0']['y']]}}
  m['rounds'], m['perm'], m['cond'] = [[['1', 3], ['0', 5]]], [1, 0], 'cancelling'
  yield m
  # item 4: the same case in a second interpreter with another PYTHONHASHSEED (bytes / str ids)
  for ids, tag in (('bytes', 'hash1'), ('str', 'hash1')) if tier == 'quick' else (('bytes', 'hash1'), ('str', 'hash1'), ('str', 'hash2'), ('int', 'hash2')):
    yield dict(_case(rng, SGD(0.125, 0.5), SGD(1.0, 0.5), _hp(HPS[0], 4), [4, 2, 6, 0, 3], 2, 'jit', True), hashcheck=tag,
               forms={'clients': 'list', 'ids': ids, 'init': 'jax', 'key': 'jax', 'leaves': 1})
  # item 5: coincidences that invite fast paths, each followed by further calls: a single client, a cohort that is the whole
  # population, weights exactly 1, one batch that holds the whole dataset
  yield _case(rng, SGD(0.125, 0.5), SGD(1.0, 0.5), _hp((4, 1, None, False), 4), [4], 3, 'jit', True)
  yield _case(rng, SGD(0.125, 0.5), SGD(1.0, 0.5), _hp((1, 1, None, False), 4), [1, 1, 1], 3, 'pmap', True)
  # round-6 seed C01-x1: batches that span more than one extra pass over a small dataset (1 < N < batch_size,
  # batch_size = 2N+1, 3N, 3N+1, several epochs / steps): the CONTENT of such batches, not only their shape
  for j, (n, bs) in enumerate(((2, 5), (2, 6), (2, 7), (3, 7), (3, 9), (3, 10), (5, 11), (4, 12), (5, 16))):
    hp = _hp((bs, 2, None, False) if j % 2 else (bs, None, 3, False), j)
    yield _case(rng, SGD(0.0625), SGD(1.0), hp, [n, 0, n + 1], 2, ['jit', 'pmap', 'debug'][j % 3], True)
  # federated_averaging is built many times per process from the SAME grad_fn object (fedsim.shared_grad) with different
  # optimizers / hparams; re-run the first-built algorithm objects after all the others exist (hidden shared state)
  for b in BACKENDS[:2]:
    yield dict(_case(rng, SGD(0.125), SGD(1.0), _hp(HPS[0], 1), [3, 1, 4], 2, b, True), fresh=True)
    yield dict(_case(rng, SGD(0.25, 0.5), SGD(1.0, 0.5), _hp(HPS[0], 2), [2, 6], 2, b, True), fresh=True)


# ----------------------------------------------------------------------------
# running the real implementation

_ALGS = {}


def _alg(case, fresh=False):
  """One algorithm object (compiled once) per configuration and backend; fresh=True builds a new, uncached one."""
  from fedjax.algorithms import fed_avg
  from fedjax.core import for_each_client as fec
  backend = {'pmap3': 'pmap', 'nojit': 'jit'}.get(case['backend'], case['backend'])
  key = json.dumps([case['copt'], case['sopt'], case['hp'], case['noise'], backend], sort_keys=True)
  if fresh or key not in _ALGS:
    if len(_ALGS) > 400:
      _ALGS.clear()
    rec = fs.Recorder(fs.make_optimizer(case['sopt']))
    grad_fn = fs.shared_grad(case['noise'])   # the SAME grad_fn object for every algorithm instance of the process
    with fec.for_each_client_backend(backend):
      alg = fed_avg.federated_averaging(grad_fn, fs.make_optimizer(case['copt']), rec.optimizer, fs.hparams(case['hp']))
    if fresh:
      return alg, rec
    _ALGS[key] = (alg, rec)
  return _ALGS[key]


def _apply(alg, rec, state, cds, rnd, case, watch=None):
  import contextlib
  import jax
  forms = case.get('forms', fs.FORMS0)
  rec.calls.clear()
  clients = [(fs.cid_form(c, forms['ids']), cds[c], fs.make_key(s, forms['key'])) for c, s in rnd]
  if forms['clients'] == 'tuple':
    clients = tuple(clients)
  if watch is not None:
    watch.watch_clients('clients', clients)
    for cid, _, k in clients:
      watch.watch(f'key of {cid!r}', k)
  ctx = jax.disable_jit() if case['backend'] == 'nojit' else contextlib.nullcontext()
  params_in = state.params
  with ctx:
    state, diag = alg.apply(state, clients)
  jax.block_until_ready(state.params)
  return state, {'params': fs.flat(state.params), 'trace': fs.trace_of(state.opt_state),
                 'diag': [[fs.cid_back(k), float(v['delta_l2_norm'])] for k, v in diag.items()],
                 'diag_key_types': sorted({type(k).__name__ for k in diag}),
                 'diag_extra_keys': sorted({kk for v in diag.values() for kk in v} - {'delta_l2_norm'}),
                 'structure_ok': bool(fs.same_structure(params_in, state.params)),
                 'calls': list(rec.calls)}


def _pop(case):
  """The population as the implementation sees it: scaled by 2**scale, optionally with one +inf feature."""
  pop = {c: fs.scaled(d, case.get('scale', 0)) for c, d in case['pop'].items()}
  if case.get('poison'):
    c, i = case['poison']
    pop[c] = {'x': [list(r) for r in pop[c]['x']], 'y': list(pop[c]['y'])}
    pop[c]['x'][i][0] = float('inf')
  return pop


def _oracle_poison(case, obs):
  """A real (unmasked) example with a +inf feature in a client of positive weight: the definition gives non-finite
  parameters from that round on (inf/NaN propagate through the mean); the implementation must not hide it."""
  if obs.get('err'):
    return [('apply-raised:' + obs['err'], 'federated_averaging raised %s on a non-finite example' % obs['err'])]
  c = case['poison'][0]
  first = next((r for r, rnd in enumerate(case['rounds']) if any(cc == c for cc, _ in rnd) and obs['streams'][c]), None)
  out = []
  for r, o in enumerate(obs['rounds']):
    bad = not fs.finite(o['params'])
    if first is not None and r >= first and not bad:
      out.append(('non-finite-hidden', f'round {r}: client {c} trained on a +inf feature but the server params are finite {o["params"]}'))
    if (first is None or r < first) and bad:
      out.append(('non-finite', f'round {r}: non-finite params before the poisoned client took a step'))
  return out


def run_local(case):
  alg, rec = _alg(case)
  forms = case.get('forms', fs.FORMS0)
  cds = {c: fs.client_dataset(d, case.get('xdtype', 'float32'), case.get('layout', 'c')) for c, d in _pop(case).items()}
  obs = {'err': None, 'rounds': [], 'perm': None, 'nozero': None, 'reinit': None, 'fresh': None, 'caller': []}
  obs['streams'] = {c: fs.record_stream(cds[c], case['hp']) for c in sorted(cds)}
  obs['nus'] = [[fs.nu_stream(s, len(obs['streams'][c])) if case['noise'] else [0.0] * len(obs['streams'][c])
                 for c, s in rnd] for rnd in case['rounds']]
  watch = fs.CallerData()
  try:
    leaves = forms.get('leaves', 1)
    w0 = fs.make_params(case['init'], forms['init'], leaves)
    watch.watch('initial params', fs.first_leaf(w0))
    for c, d in cds.items():
      for f, a in d.raw_examples.items():
        watch.watch(f'dataset {c}.{f}', a)
    init = alg.init(w0)
    state = init
    kept = []
    for rnd in case['rounds']:
      watch.watch('input server_state.params', fs.first_leaf(state.params))
      state, o = _apply(alg, rec, state, cds, rnd, case, watch)
      kept.append((state, o['params']))
      obs['rounds'].append(o)
    r0 = case['rounds'][0]
    _, o = _apply(alg, rec, init, cds, [r0[i] for i in case['perm']], case)
    obs['perm'] = {'params': o['params'], 'diag': o['diag']}
    _, o = _apply(alg, rec, init, cds, [cs for cs in r0 if len(case['pop'][cs[0]]['y']) > 0], case)
    obs['nozero'] = {'params': o['params']}
    # init() again after the applies, on the same object
    _, o = _apply(alg, rec, alg.init(fs.make_params(case['init'], forms['init'], leaves)), cds, r0, case)
    obs['reinit'] = {'params': o['params'], 'trace': o['trace']}
    if case.get('fresh'):            # a freshly built algorithm object must agree with the long-lived one
      alg2, rec2 = _alg(case, fresh=True)
      _, o = _apply(alg2, rec2, alg2.init(fs.make_params(case['init'], forms['init'], leaves)), cds, r0, case)
      obs['fresh'] = {'params': o['params'], 'trace': o['trace']}
    # results kept by the caller are still what they were; inputs are untouched
    for r, (st, params) in enumerate(kept):
      try:
        if fs.flat(st.params) != params:
          obs['caller'].append(f'state returned by round {r} changed after later calls')
      except Exception as ex:
        obs['caller'].append(f'state returned by round {r} unusable: {type(ex).__name__}')
    obs['caller'] += watch.check()
  except Exception as ex:  # mapped to a small enum; the oracle reports it
    obs['err'] = fs.err_name(ex)
  return obs


def worker_tag(case):
  """None: in-process; else the fedsim.WORKER_ENVS entry the case needs (3 devices or a global jax flag)."""
  return case.get('flags') or ('pmap3' if case['backend'] == 'pmap3' else None)


GRID = {'quick': (12, 5, 3, 4), 'thorough': (30, 9, 5, 7)}


def run_grid(g):
  """Observed number of batches of the REAL shuffle_repeat_batch view for every point of the grid (counted iteration;
  the totals are small), in the enumeration order of Model/C01_Model.grid_points."""
  import fedjax
  nmax, bmax, emax, smax = g
  out = []
  for n in range(nmax + 1):
    ds = fedjax.ClientDataset({'i': np.arange(n, dtype=np.int32)})
    for bs in range(1, bmax + 1):
      for e in [None] + list(range(emax + 1)):
        for st in [None] + list(range(smax + 1)):
          if e is None and st is None:
            continue
          for drop in (False, True):
            k = 0
            for _ in ds.shuffle_repeat_batch(batch_size=bs, num_epochs=e, num_steps=st, drop_remainder=drop, seed=0):
              k += 1
              if k > 10000:
                break
            out.append(k)
  return out


def run(case):
  if case.get('grid'):
    return {'err': None, 'grid': run_grid(case['grid']), 'rounds': []}
  tag = worker_tag(case)
  if tag is None and case.get('hashcheck'):
    # the same case in this process and in a second interpreter with another PYTHONHASHSEED: bit-identical results
    obs = run_local(case)
    other = fs.run_in_worker('c01', case['hashcheck'], dict(case, hashcheck=None))
    obs['other_process'] = {'rounds': [(o['params'], o['trace'], o['diag']) for o in other.get('rounds', [])],
                            'err': other.get('err') or other.get('worker_error')}
    return obs
  if tag is None:
    return run_local(case)
  obs = fs.run_in_worker('c01', tag, case)
  if 'worker_error' in obs:
    obs = {'err': 'worker:' + obs['worker_error'], 'rounds': [], 'worker': obs.get('worker')}
  return obs


# ----------------------------------------------------------------------------
# oracle: the definition, recomputed independently in float64

def _members(case, obs, r):
  pop = _pop(case)
  return [(len(pop[c]['y']), pop[c], obs['streams'][c], obs['nus'][r][j])
          for j, (c, _) in enumerate(case['rounds'][r])]


def _grid_expected(g):
  nmax, bmax, emax, smax = g
  out = []
  for n in range(nmax + 1):
    for bs in range(1, bmax + 1):
      for e in [None] + list(range(emax + 1)):
        for st in [None] + list(range(smax + 1)):
          if e is None and st is None:
            continue
          for drop in (False, True):
            out.append(fs.expected_num_steps(n, {'bs': bs, 'epochs': e, 'steps': st, 'drop': drop}))
  return out


def oracle(case, obs):
  out = []
  if case.get('grid'):
    want = _grid_expected(case['grid'])
    bad = [i for i, (a, b) in enumerate(zip(obs['grid'], want)) if a != b]
    if bad or len(want) != len(obs['grid']):
      return [('batch-count-grid', f'{len(bad)} of {len(want)} (N, batch_size, num_epochs, num_steps, drop_remainder) points have another '
               f'number of batches than documented; first index {bad[:1]}')]
    return []
  if obs.get('err'):
    return [('apply-raised:' + obs['err'], 'federated_averaging raised %s' % obs['err'])]
  if case['backend'] == 'pmap3' and (obs.get('worker') or {}).get('devices') != 3:
    out.append(('harness-devices', 'the pmap worker does not have 3 devices'))
  if case.get('flags') == 'x64' and not (obs.get('worker') or {}).get('x64'):
    out.append(('harness-flags', 'the x64 worker does not run with jax_enable_x64'))
  if case.get('poison'):
    return out + _oracle_poison(case, obs)
  tol = (TOL_ADAM if 'adam' in (case['copt']['kind'], case['sopt']['kind']) else TOL) * case.get('tolscale', 1.0)
  hp = case['hp']
  for c, st in obs['streams'].items():
    n = len(case['pop'][c]['y'])
    if len(st) != fs.expected_num_steps(n, hp) or any(len(b) != hp['bs'] or any(not 0 <= i < n for i in b) for b in st):
      out.append(('batch-stream', f'client {c} (n={n}): unexpected shuffle_repeat_batch stream'))
    elif not fs.stream_content_ok(n, st):
      out.append(('batch-stream-content', f'client {c} (n={n}): the batches {st} are not consecutive passes over the dataset (each window of n indices a permutation)'))
  prev_p = np.array(case['init'], dtype=np.float64)
  prev_t = []
  ref_srv = fs.RefOpt(case['sopt'], fs.D)
  for r, (rnd, o) in enumerate(zip(case['rounds'], obs['rounds'])):
    ids = [c for c, _ in rnd]
    members = _members(case, obs, r)
    mean, deltas = fs.ref_mean_delta(prev_p, members, case['copt'])
    if not (fs.finite(o['params']) and fs.finite(o['trace'])):
      out.append(('non-finite', f'round {r}: non-finite server state'))
      break
    # one server-optimizer call, on the round's own state, with the weighted mean delta
    if len(o['calls']) != 1:
      out.append(('server-update', f'round {r}: server optimizer called {len(o["calls"])} times'))
      break
    call = o['calls'][0]
    if not fs.close(call['params_in'], prev_p, 1e-7) or (prev_t and not fs.close(call['trace_in'], prev_t, 1e-7)):
      out.append(('server-update', f'round {r}: server optimizer applied to something else than the round\'s server state'))
    if not fs.close(call['grads'], mean, tol):
      out.append(('mean-delta', f'round {r}: server optimizer got {call["grads"]}, example-weighted mean of (initial - trained) is {mean.tolist()}'))
    if not fs.close(o['params'], call['params_out'], 1e-7) or not fs.close(o['trace'], call['trace_out'], 1e-7):
      out.append(('server-update', f'round {r}: returned state is not what the server optimizer returned'))
    # the server optimizer itself, from its definition, on the recorded mean
    if case['sopt']['kind'] == 'sgd':
      ref_srv.t = np.array(prev_t, dtype=np.float64) if prev_t else np.zeros(fs.D)
    want = ref_srv.apply(call['grads'], prev_p)
    if not fs.close(o['params'], want, tol):
      out.append(('server-optimizer', f'round {r}: params {o["params"]} != optimizer definition {want.tolist()}'))
    if case['sopt']['kind'] == 'sgd' and case['sopt'].get('mom') and not fs.close(o['trace'], ref_srv.t, tol):
      out.append(('server-optimizer', f'round {r}: momentum trace {o["trace"]} != {ref_srv.t.tolist()}'))
    # diagnostics: exactly one entry per participating client
    dk = [k for k, _ in o['diag']]
    if sorted(dk) != sorted(fs.cid_bytes(c).decode() for c in ids) or len(dk) != len(ids) or o.get('diag_extra_keys'):
      out.append(('diagnostics-keys', f'round {r}: diagnostics for {dk}, clients {ids}'))
    else:
      norm = {fs.cid_bytes(c).decode(): float(np.sqrt(np.sum(dl * dl))) for c, dl in zip(ids, deltas)}
      if any(not fs.close(v, norm[k], tol) for k, v in o['diag']):
        out.append(('diagnostics-values', f'round {r}: delta_l2_norm {o["diag"]} vs {norm}'))
    # a round that saw no example: unchanged under plain SGD
    if sum(m[0] for m in members) == 0:
      if fs.maxabs(call['grads']) != 0.0:
        out.append(('empty-round', f'round {r}: no examples but mean delta {call["grads"]}'))
      if case['sopt']['kind'] == 'sgd' and not case['sopt'].get('mom') and fs.maxabs(np.array(o['params']) - prev_p) != 0.0:
        out.append(('empty-round', f'round {r}: no examples, plain SGD, params changed'))
    prev_p = np.array(o['params'], dtype=np.float64)
    prev_t = o['trace']
  for what in obs.get('caller', []):
    out.append(('caller-data', what))
  if any(not o.get('structure_ok', True) for o in obs['rounds']):
    out.append(('tree-structure', 'the returned params do not have the tree structure / container type of the input params'))
  if case.get('hashcheck') and 'other_process' in obs:
    mine = [(o['params'], o['trace'], o['diag']) for o in obs['rounds']]
    if obs['other_process']['err'] or json.dumps(obs['other_process']['rounds']) != json.dumps(mine):
      out.append(('process-dependent', f'another interpreter (PYTHONHASHSEED of worker {case["hashcheck"]}) gives '
                  f'{str(obs["other_process"])[:200]} instead of {str(mine)[:200]}'))
  if len(obs['rounds']) == len(case['rounds']) and obs['rounds']:
    p0 = obs['rounds'][0]['params']
    want_type = {'bytes': ['bytes'], 'str': ['str'], 'int': ['int'], 'negint': ['int'], 'none0': ['NoneType', 'int']}[case.get('forms', fs.FORMS0)['ids']]
    if any(not set(o['diag_key_types']) <= set(want_type) for o in obs['rounds']):
      out.append(('diagnostics-keys', 'diagnostics are not keyed by the client ids as given'))
    for k in ('reinit', 'fresh'):
      if k == 'fresh' and not case.get('fresh'):
        continue
      if obs.get(k) is None or not fs.close(obs[k]['params'], p0, 1e-7) or not fs.close(obs[k]['trace'], obs['rounds'][0]['trace'], 1e-7):
        out.append((k + '-differs', f'round 0 from init() {"on a freshly built object" if k == "fresh" else "called again"}: {obs.get(k)} vs {p0}'))
    if obs['perm'] is None or not fs.close(obs['perm']['params'], p0, tol):
      out.append(('order-dependent', f'round 0 with clients reordered: {obs["perm"]} vs {p0}'))
    elif sorted(map(tuple, obs['perm']['diag'])) and sorted(k for k, _ in obs['perm']['diag']) != sorted(k for k, _ in obs['rounds'][0]['diag']):
      out.append(('order-dependent', 'diagnostics keys depend on the client order'))
    if obs['nozero'] is None or not fs.close(obs['nozero']['params'], p0, tol):
      out.append(('zero-weight', f'round 0 without its zero-example clients: {obs["nozero"]} vs {p0}'))
  return out


# ----------------------------------------------------------------------------
# Coq encoding

def _sgd(c):
  return f'(mkSgd {fw.qlit(c["lr"])} {fw.qlit(c.get("mom") or 0)} {fw.cbool(c.get("nest"))})'


def _optz(v):
  return 'None' if v is None else f'(Some ({int(v)})%Z)'


def _zid(c):
  return f'({int(c)})%Z'


def encode(case, obs):
  if case.get('grid'):
    g = case['grid']
    # chunks of 400: one flat list literal of tens of thousands of elements overflows Coq's stack
    chunks = [obs['grid'][i:i + 400] for i in range(0, len(obs['grid']), 400)]
    grid = (f'(Some (({g[0]})%Z, ({g[1]})%Z, ({g[2]})%Z, ({g[3]})%Z, (concat {fw.clist([fw.zlist(ch) for ch in chunks])})%Z))')
    return (f'(mkC01 (mkSgd 0 0 false) (mkSgd 0 0 false) false [] [] [] [] 0 (1%Z, None, None, false) {grid}, ([] : C01_obs))')
  if obs.get('err') or case['copt']['kind'] != 'sgd' or len(obs['rounds']) != len(case['rounds']) or case.get('poison'):
    return None
  opaque = case['sopt']['kind'] != 'sgd'
  pop = fw.clist([f'({_zid(c)}, {fw.clist(["(" + fw.qlist(x) + ", " + fw.qlit(y) + ")" for x, y in zip(d["x"], d["y"])])})'
                  for c, d in sorted(_pop(case).items())])
  streams = fw.clist([f'({_zid(c)}, {fw.clist([fw.natlist(b) for b in st])})' for c, st in sorted(obs['streams'].items())])
  rounds = fw.clist([fw.clist([f'({_zid(c)}, {fw.qlist(nus)})' for (c, _), nus in zip(rnd, obs['nus'][r])])
                     for r, rnd in enumerate(case['rounds'])])
  sopt = _sgd(case['sopt']) if not opaque else '(mkSgd 0 0 false)'
  tol = (TOL_ADAM if opaque else TOL) * case.get('tolscale', 1.0)
  cterm = (f'(mkC01 {_sgd(case["copt"])} {sopt} {fw.cbool(opaque)} {fw.qlist(case["init"])} {pop} {streams} {rounds} {fw.qlit(tol)} '
           f'(({case["hp"]["bs"]})%Z, {_optz(case["hp"]["epochs"])}, {_optz(case["hp"]["steps"])}, {fw.cbool(case["hp"]["drop"])}) None)')
  ors = []
  for o in obs['rounds']:
    if len(o['calls']) != 1:
      return None
    if not (fs.finite(o['params']) and fs.finite(o['trace']) and fs.finite(o['calls'][0]['grads']) and fs.finite([v for _, v in o['diag']])):
      return None     # non-finite observations are the oracle's business (keys non-finite / non-finite-hidden)
    diag = fw.clist([f'({_zid(k[1:])}, {fw.qlit(v)})' for k, v in o['diag']])
    ors.append(f'(mkR01 {fw.qlist(o["params"])} {fw.qlist(o["trace"])} {fw.qlist(o["calls"][0]["grads"])} {diag})')
  return f'({cterm}, {fw.clist(ors)})'


def nontrivial(case, obs):
  if case.get('grid'):
    return True
  return any(sum(len(case['pop'][c]['y']) for c, _ in rnd) > 0 for rnd in case['rounds'])


def describe(case, obs):
  if case.get('grid'):
    return {'kind': 'step-count grid', 'grid_points': len(obs['grid'])}
  tot = [sum(len(case['pop'][c]['y']) for c, _ in rnd) for rnd in case['rounds']]
  f = case.get('forms', fs.FORMS0)
  return {'backend': case['backend'], 'rounds': len(case['rounds']), 'forms': f"{f['clients']}/{f['ids']}/{f['init']}/{f['key']}/{f.get('leaves', 1)}leaf",
          'xdtype': case.get('xdtype', 'float32'), 'hparams_seed0': case['hp']['seed'] == 0,
          'layout': case.get('layout', 'c'), 'hashcheck': case.get('hashcheck') or 'no', 'conditioning': case.get('cond', 'plain'),
          'data_scale_log2': case.get('scale', 0), 'jax_flags': case.get('flags') or 'default', 'poisoned': bool(case.get('poison')),
          # hypothesis of the theorems: client ids of a cohort are distinct (a case violating it is judged by the oracle only)
          'hyp_nodup_ids': all(len({c for c, _ in rnd}) == len(rnd) for rnd in case['rounds']), 'clients_round0': len(case['rounds'][0]),
          'client_opt': case['copt']['kind'] + ('+mom' if case['copt'].get('mom') else '') + ('+nest' if case['copt'].get('nest') else ''),
          'server_opt': case['sopt']['kind'] + ('+mom' if case['sopt'].get('mom') else '') + ('+nest' if case['sopt'].get('nest') else ''),
          'batching': f'bs={case["hp"]["bs"]},ep={case["hp"]["epochs"]},st={case["hp"]["steps"]},drop={case["hp"]["drop"]}',
          'has_empty_client': any(len(d['y']) == 0 for d in case['pop'].values()),
          'has_all_empty_round': any(t == 0 for t in tot), 'key_dependent_loss': case['noise'],
          'err': obs.get('err')}


def shrink(case):
  if case.get('grid'):
    g = case['grid']
    for i in range(4):
      if g[i] > 1:
        yield {'grid': [v - (1 if j == i else 0) for j, v in enumerate(g)]}
    return
  if len(case['rounds']) > 1:
    yield dict(case, rounds=case['rounds'][:-1])
    yield dict(case, rounds=case['rounds'][1:], perm=list(range(len(case['rounds'][1]))))
  r0 = case['rounds'][0]
  for i in range(len(r0)):
    rr = [r0[:i] + r0[i + 1:]] + case['rounds'][1:]
    yield dict(case, rounds=rr, perm=list(range(len(rr[0]))))
  for c, d in case['pop'].items():
    n = len(d['y'])
    if n > 0:
      pop = dict(case['pop'])
      pop[c] = {'x': d['x'][:n - 1], 'y': d['y'][:n - 1]}
      yield dict(case, pop=pop)
  if case['noise']:
    yield dict(case, noise=False)
  if case['backend'] != 'jit':
    yield dict(case, backend='jit')
  if case.get('forms', fs.FORMS0) != fs.FORMS0:
    yield dict(case, forms=dict(fs.FORMS0))
  if case.get('xdtype', 'float32') != 'float32':
    yield dict(case, xdtype='float32')


def hang_key(case):
  return 'hang'
