"""C06 harness: masked gradients / losses and the dataset-level quantities derived
from padded batches, each computed by the REAL fedjax code over the same dataset
under several batch geometries.

oracle  = geometry-invariance on the implementation (all geometries agree pairwise)
          and agreement with the unpadded closed form computed in float64 numpy;
model   = Model/C06_Model.v evaluated in Coq on the exact per-example losses /
          partial derivatives (rationals) laid out as each geometry's batches.
Least-squares model  loss_i = (w.x_i + b - y_i)^2, L2 regulariser 1/4*|params|^2;
all data are multiples of 1/4 so sums are exact in float32 (only the final
divisions round)."""
import json
import math
from fractions import Fraction

import numpy as np
from lib import fw

PROP = 'C06'
COQ_HEADER = 'From FV Require Import Model.C06_Model.'
COQ_AGREE = 'C06_agree_all'
COQ_MODEL_TARGETS = ['Model/C06_Model']
RULE = ('datasets of 0..12 rows x every geometry in {padded_batch(bs in 1,2,3,4,8 x buckets 1..3), batch(bs) without mask, '
        'hand-made batches with real rows at arbitrary positions, garbage in padded rows and fully padded batches}, '
        'regulariser on/off, 1-2 clients; APIs: models.grad, model_grad, evaluate_average_loss, AverageLossEvaluator '
        '(global / per-client params), mime.create_grads_for_each_client (+ the server full-batch gradient), '
        'agnostic_fed_avg.create_domain_metrics_for_each_client, hyp_cluster._cluster_losses; plus algorithm-level cases: the real '
        'mime.mime / mime_lite.mime_lite (momentum base optimizer) and agnostic_federated_averaging (eg) run for 2 rounds on cohorts '
        'of empty / mixed / normal clients under 3 grads / domain batch geometries, every leaf of the new state finite and equal to the closed form; '
        'non-trivial = at least one real row and one padded row or >= 2 batches; distinct = distinct case JSON')
TRUSTED = ['tools/lib/c06tr.py + tools/lib/qfun.py: the reading of the mask / regulariser arithmetic (jnp.vdot, jnp.sum, jnp.mean, len, jax.ops.segment_sum, `KEY in batch`, `regularizer is not None`) as NanQ terms',
           'jax.grad is the gradient and is linear; it differentiates safe_div(a, n) with n constant as safe_div(grad a, n) (exercised on every case, not modelled)',
           'float32 sums of the generated dyadic values are exact; divisions round (compared within 2e-5*(1+|x|) inside Coq)',
           'harness-side exact per-example losses / partial derivatives of the least-squares model (Fractions)']
ASSUMPTIONS = ['per-example losses and gradients of real AND padded rows are finite (type Q in the model); a NaN/inf loss on a padded row would leak through the multiplicative mask',
               'mask and per-row values of a batch have the same length',
               'the gradient of the masked scalar loss is taken coordinatewise by linearity']
PARTIAL = ['C06_domain_sums_geometry_free holds without a regulariser only; with one the faithful model is geometry dependent (C06_domain_sums_regularizer_refuted, finding agnostic.domain-metrics.regularizer-per-batch)']
CASE_TIMEOUT = 300

ND = 3
LAM = Fraction(1, 4)
# regulariser kinds: False (none), True = l2(1/4), 'cw' = l2(1/2, center_params, params_weights); leaf order [w1, w2, b]
REG_SPECS = {True: (Fraction(1, 4), [Fraction(0)] * 3, [Fraction(1)] * 3),
             'cw': (Fraction(1, 2), [Fraction(1, 4), Fraction(-1, 2), Fraction(1, 4)], [Fraction(1), Fraction(2), Fraction(1, 2)])}


def _reg_terms(reg, theta, num=float):
  """(r, grad r) of the case's regulariser at theta = [w1, w2, b]; num = float (oracle) or Fraction (exact)."""
  if not reg:
    return (num(0), [num(0)] * 3)
  lam, c, pw = REG_SPECS[reg]
  d = [num(t) - num(ci) for t, ci in zip(theta, c)]
  return (num(lam) * sum(num(p) * x * x for p, x in zip(pw, d)), [2 * num(lam) * num(p) * x for p, x in zip(pw, d)])
TOL = 2e-5
PB_GRID = [(bs, nb) for bs in (1, 2, 3, 4, 8) for nb in (1, 2, 3)]
ALPHA = [0.5, 0.25, 0.25]

_API = {}


def _q(v, case=None):   # quarters -> Fraction (data / bias additionally scaled by 2^scale in the magnitude-sweep cases)
  return Fraction(int(v), 4) * (Fraction(2) ** (case or {}).get('scale', 0))


def _u(case):
  """Unit of the x / y / bias integers of a case: 1/4, times 2^scale (an exact power of two) in the sweep cases."""
  return 0.25 * 2.0 ** case.get('scale', 0)


_TOLSCALE = [1.0]


# --------------------------------------------------------------------------
# generation

def _garbage(rng):
  return [rng.randrange(-8, 9), rng.randrange(-8, 9), rng.randrange(-8, 9), rng.randrange(ND)]


def _hand_geometry(rng, n, sizes=(1, 2, 3, 4, 8)):
  """Partition rows 0..n-1 (in order or shuffled) into batches of allowed sizes, real rows at
  arbitrary positions, garbage in the padded rows, sometimes fully padded batches."""
  order = list(range(n))
  if rng.random() < 0.4:
    rng.shuffle(order)
  batches = []
  i = 0
  while i < n or not batches:
    size = rng.choice(sizes)
    k = min(n - i, rng.randrange(0 if rng.random() < 0.2 else 1, size + 1))
    cells = list(order[i:i + k]) + [_garbage(rng) if rng.random() < 0.7 else [0, 0, 0, 0] for _ in range(size - k)]
    rng.shuffle(cells)
    batches.append(cells)
    i += k
    if i >= n:
      break
  if rng.random() < 0.5:   # a fully padded batch somewhere
    size = rng.choice(sizes)
    batches.insert(rng.randrange(len(batches) + 1), [_garbage(rng) for _ in range(size)])
  return batches


def _case(rng, n, reg):
  x = [[rng.randrange(-6, 7), rng.randrange(-6, 7)] for _ in range(n)]
  y = [rng.randrange(-8, 9) for _ in range(n)]
  dom = [rng.randrange(ND) for _ in range(n)]
  if rng.random() < 0.2 and n:
    dom = [rng.choice([0, 2])] * n
  w = [rng.randrange(-4, 5), rng.randrange(-4, 5)]
  b = rng.choice([-3, -2, -1, 1, 2, 3, 0, 2])
  geos = []
  pbs = rng.sample(PB_GRID, 3)
  geos += [['pb', bs, nb] for bs, nb in pbs]
  geos.append(['plain', rng.choice([1, 2, 3, 4])])
  geos.append(['hand', _hand_geometry(rng, n)])
  if rng.random() < 0.5:
    geos.append(['hand', _hand_geometry(rng, n, sizes=(2, 4))])
  return {'x': x, 'y': y, 'dom': dom, 'w': w, 'b': b, 'w2': [w[0] + rng.choice([-2, 1, 3]), w[1] - 1], 'b2': b + rng.choice([-1, 2]),
          'reg': reg if reg == 'cw' else bool(reg), 'split': rng.randrange(0, n + 1), 'geos': geos}


HYP_REGS = {'none': None, 'l2': Fraction(1, 4), 'l2b': Fraction(1)}


def _hyp_case(rng, order):
  """3 clients x 3 rows; 2 clusters: a small-norm one that fits worse and a large-norm one that fits better, so
  that the regulariser decides the assignment."""
  c = _case(rng, 9, False)
  c['w'], c['b'] = [rng.choice([-1, 1]), rng.choice([-1, 0, 1])], rng.choice([-1, 0, 1])
  c['w2'], c['b2'] = [rng.choice([-7, -6, 6, 7]), rng.choice([-6, 5, 6])], rng.choice([-5, 4, 5])
  # targets generated by the large cluster (+ small noise): it fits better, but pays for its norm
  for i in range(9):
    x = c['x'][i]
    c['y'][i] = int(round((c['w2'][0] * x[0] + c['w2'][1] * x[1]) / 4 + c['b2'])) + rng.choice([-1, 0, 1])
  c.update({'kind': 'hyp', 'order': list(order)})
  del c['geos'], c['split'], c['reg']
  return c


ALGO_PATTERNS = ['empty1', 'empty2', 'empty-then-empty', 'mixed', 'normal', 'no-clients', 'uneven', 'uneven2', 'tie']
ALGO_PATTERNS_MORE = ['empty3', 'single', 'all', 'mixed-tail', 'normal-then-empty', 'single-then-all', 'normal-then-no-clients']


def _algo_case(rng, pattern, reg):
  """9 rows owned by clients A, B, C (3 rows each, so that shuffle_repeat_batch(batch_size=3, num_epochs=1) is
  exactly one pass in one step); two rounds of cohorts."""
  c = _case(rng, 9, reg)
  a, b, cc = list(range(0, 3)), list(range(3, 6)), list(range(6, 9))
  if rng.random() < 0.5:
    c['dom'] = [rng.choice([0, 1]) for _ in range(9)]   # a domain without any example
  r1 = {'empty1': [[]], 'empty2': [[], []], 'empty-then-empty': [[]], 'mixed': [[], a, []], 'normal': [a, b],
        'empty3': [[], [], []], 'single': [cc], 'all': [a, b, cc], 'mixed-tail': [a, b, []],
        'normal-then-empty': [b, a], 'single-then-all': [b], 'no-clients': [], 'normal-then-no-clients': [a, cc],
        'uneven': [a, [3], [4]], 'uneven2': [[3], a, [4]], 'tie': [a, b]}[pattern]   # 1-row clients: shuffle_repeat_batch(3) repeats the row, one step, weight 1 vs 3
  r2 = {'empty-then-empty': [[], []], 'mixed': [b, [], cc], 'empty3': [a], 'all': [cc, [], a], 'normal-then-empty': [[], []],
        'single-then-all': [a, b, cc], 'normal-then-no-clients': [], 'uneven': [[5], cc, [4]],
        'uneven2': [[5], [4], cc]}.get(pattern, [b, cc])
  if pattern == 'tie':     # identical cluster params: equal losses, the first cluster must win (argmin tie-break)
    c['w2'], c['b2'] = list(c['w']), c['b']
  c.update({'kind': 'algo', 'pattern': pattern, 'rounds': [r1, r2]})
  del c['geos'], c['split']
  return c


FLAG_SETTINGS = [{'JAX_ENABLE_X64': '1'}]


def _run_flags(case):
  import os
  import subprocess
  import sys
  env = dict(os.environ)
  env.update(case['env'])
  p = subprocess.run([sys.executable, os.path.join(os.path.dirname(os.path.abspath(__file__)), 'c14c06_flagworker.py'),
                      'c06', 'quick', str(case['seed']), str(case['limit'])], env=env, capture_output=True, text=True, timeout=1500)
  for line in p.stdout.split('\n'):
    if line.startswith('FLAGWORKER '):
      return json.loads(line[len('FLAGWORKER '):])
  return {'ran': 0, 'violations': [['flag-worker-failed', (p.stderr or p.stdout)[-400:], None]]}


def generate(tier, rng):
  if tier == 'thorough':
    for env in FLAG_SETTINGS:      # the harness's own quick cases in a fresh process under a non-default global flag
      yield {'kind': 'flags', 'env': env, 'seed': rng.randrange(1000), 'limit': 14}
  if tier == 'quick':
    ns = [0, 1, 2, 3, 5, 8, 9, 12]
    reps = 3
  elif tier == 'search':
    ns = list(range(0, 13))
    reps = 8
  else:
    ns = list(range(0, 13)) + [17, 24]
    reps = 24
  # a low-precision loss dtype with many rows of one domain in a batch: the per-domain COUNTS must stay exact
  yield {'kind': 'lowp', 'n': [700, 300, 0], 'geos': [[1024, 1], [64, 2], [512, 3]], 'dtype': 'bfloat16'}
  if tier != 'quick':
    yield {'kind': 'lowp', 'n': [2500, 0, 40], 'geos': [[4096, 1], [128, 1]], 'dtype': 'float16'}
  # several HypCluster evaluators / initializers for the SAME Model object with different regularisers
  for order in ([['l2', 'none', 'l2b'], ['none', 'l2', 'none']] if tier == 'quick' else
                [['l2', 'none', 'l2b'], ['none', 'l2', 'none'], ['l2b', 'l2', 'none'], ['none', 'none', 'l2b'],
                 ['l2', 'l2b', 'l2'], ['l2b', 'none', 'l2']]):
    yield _hyp_case(rng, order)
  # algorithm-level cases first: the REAL mime / mime_lite / agnostic_federated_averaging for 2 rounds
  for rep in range({'quick': 1, 'search': 6}.get(tier, 4)):
    for pattern in ALGO_PATTERNS + ([] if tier == 'quick' else ALGO_PATTERNS_MORE):
      for reg in (False, True):
        yield _algo_case(rng, pattern, reg)
    if tier != 'quick':
      yield _algo_case(rng, rng.choice(['normal', 'uneven', 'mixed']), 'cw')
      for backend in ('debug', 'pmap'):     # every algorithm under the other for_each_client backends
        c = _algo_case(rng, ['uneven2', 'mixed', 'all', 'empty2'][rep % 4], rep % 2 == 1)
        c['backend'] = backend
        yield c
  for rep in range(reps):
    for n in ns:
      for reg in (False, True):
        yield _case(rng, n, reg)
      if (rep + n) % 3 == 0:
        yield _case(rng, n, 'cw')            # l2 with center_params and params_weights
  # exhaustive grid over masks x domain ids of one small batch (wave 5 item 2)
  yield {'kind': 'grid', 'lmax': 3 if tier == 'quick' else 4, 'b': rng.choice([1, 2, 3]), 'y': [0, 3, -2, 5]}
  # params as other pytree containers (tuple, list, NamedTuple, nested dict with a None sub-tree): wave 5 item 6
  for i in range(1 if tier == 'quick' else 6):
    c = _case(rng, rng.choice([3, 5, 8]), i % 2 == 0)
    c.update({'kind': 'tree', 'structs': ['tuple', 'nested'] if tier == 'quick' else ['tuple', 'list', 'namedtuple', 'nested', 'dict']})
    c['geos'] = c['geos'][:2]
    yield c
  # offset data: targets and bias share a large common offset, the residuals stay small (wave 5 item 3)
  for i, off in enumerate([2**8, -2**12, 2**14, 2**10] if tier == 'quick' else [2**6, 2**8, -2**10, 2**12, -2**14, 2**14, 2**10, -2**8]):
    c = _case(rng, rng.choice([3, 5, 8, 9]), i % 4 == 3)
    c['y'] = [v + off for v in c['y']]
    c['b'], c['b2'] = c['b'] + off, c['b2'] + off
    c['offset'] = off
    yield c
  # magnitude sweep: data and bias scaled by an exact power of two (all sums stay exact in float32)
  for i, k in enumerate([-20, -8, 8, 20] if tier == 'quick' else [-40, -20, -12, -8, -3, 3, 8, 12, 20, 40, 50, -50]):
    c = _case(rng, rng.choice([3, 5, 8, 9]), False if k < 0 else i % 2 == 1)
    c['scale'] = k
    yield c
  # non-finite losses on REAL rows: the padded evaluation must give the same non-finite answer as the unpadded one
  for i in range(6 if tier == 'quick' else 30):
    c = _case(rng, rng.choice([2, 3, 5, 8, 9]), i % 2 == 1)
    for j in rng.sample(range(len(c['y'])), rng.choice([1, 1, 2])):
      c['y'][j] = rng.choice(['nan', 'inf', '-inf', 'nan'])
    c['nonfinite'] = True
    yield c
  for i, backend in enumerate(['debug', 'pmap'] * (1 if tier == 'quick' else 4)):
    c = _case(rng, [5, 0, 8, 3, 1, 12, 2, 9][i], i % 4 >= 2)
    c['backend'] = backend                    # the for_each_client helpers built under another backend
    yield c
  # all rows padded: a dataset with rows, but geometries made of padding only are covered by n = 0 + hand


# --------------------------------------------------------------------------
# the implementation under test

def _shared_model():
  """ONE Model object and ONE per-example-loss function object for every regulariser kind and backend of the process
  (object reuse: a cache keyed by the loss / model alone would leak one regulariser into another object)."""
  if 'model' not in _API:
    from fedjax.core import models

    def apply_for_train(params, batch, rng):
      del rng
      return batch['x'] @ params['w'] + params['b']

    def train_loss(batch, pred):
      return (pred - batch['y'])**2

    model = models.Model(init=lambda rng: None, apply_for_train=apply_for_train,
                         apply_for_eval=lambda params, batch: apply_for_train(params, batch, None),
                         train_loss=train_loss, eval_metrics={})
    _API['model'] = (model, models.model_per_example_loss(model))
  return _API['model']


def _regf(reg):
  import jax.numpy as jnp
  from fedjax.core import regularizers
  if not reg:
    return None
  lam, c, pw = REG_SPECS[reg]
  if reg is True:
    return regularizers.l2_regularizer(float(lam))
  tree = lambda v: {'w': jnp.array([float(v[0]), float(v[1])], jnp.float32), 'b': jnp.array(float(v[2]), jnp.float32)}
  return regularizers.l2_regularizer(weight=float(lam), center_params=tree(c), params_weights=tree(pw))


def _api(reg, backend='jit'):
  key = ('api', reg, backend)
  if key in _API:
    return _API[key]
  from fedjax.core import models, for_each_client
  from fedjax.algorithms import mime, agnostic_fed_avg
  model, pel = _shared_model()
  regf = _regf(reg)
  grad_fn = models.grad(pel, regf)
  with for_each_client.for_each_client_backend(None if backend == 'jit' else backend):
    api = {
        'model': model, 'pel': pel, 'regf': regf, 'grad': grad_fn, 'mgrad': models.model_grad(model, regf),
        'evaluator': models.AverageLossEvaluator(pel, regf),
        'mime': mime.create_grads_for_each_client(grad_fn),
        'domain': agnostic_fed_avg.create_domain_metrics_for_each_client(pel, ND, regf),
    }
  _API[key] = api
  return api


def _rows(case, cells):
  """numpy batch for a list of cells (int = real row index, list = padded row content in quarters)."""
  n = len(cells)
  x = np.zeros((n, 2), np.float32)
  y = np.zeros((n,), np.float32)
  d = np.zeros((n,), np.int32)
  idx = np.full((n,), -1, np.int32)
  mask = np.zeros((n,), np.bool_)
  for k, c in enumerate(cells):
    if isinstance(c, list):
      x[k] = [c[0] * _u(case), c[1] * _u(case)]
      y[k] = c[2] * _u(case)
      d[k] = c[3]
    else:
      x[k] = [case['x'][c][0] * _u(case), case['x'][c][1] * _u(case)]
      y[k] = float(case['y'][c]) if isinstance(case['y'][c], str) else case['y'][c] * _u(case)
      d[k] = case['dom'][c]
      idx[k] = c
      mask[k] = True
  return {'x': x, 'y': y, 'domain_id': d, 'idx': idx}, mask


def _dataset(case, rows):
  import fedjax
  b, _ = _rows(case, list(rows))
  return fedjax.ClientDataset(b)


def _layout(batches):
  """Observed arrangement: per batch, per row either the real row index or the padded row's content (quarters)."""
  out = []
  for b in batches:
    n = len(b['y'])
    mask = np.asarray(b['__mask__']) if '__mask__' in b else np.ones(n, bool)
    cells = []
    for k in range(n):
      if mask[k]:
        cells.append(int(b['idx'][k]))
      else:
        cells.append([int(round(float(b['x'][k][0]) * 4)), int(round(float(b['x'][k][1]) * 4)),
                      int(round(float(b['y'][k]) * 4)), int(b['domain_id'][k])])
    out.append(cells)
  return out


def _materialise(case, geo, rows):
  """Batches (numpy dicts) of one client holding `rows` under geometry `geo`."""
  if geo[0] == 'pb':
    return [dict(b) for b in _dataset(case, rows).padded_batch(batch_size=geo[1], num_batch_size_buckets=geo[2])]
  if geo[0] == 'plain':
    return [dict(b) for b in _dataset(case, rows).batch(batch_size=geo[1])]
  out = []
  for cells in geo[1]:
    b, mask = _rows(case, cells)
    b['__mask__'] = mask
    out.append(b)
  return out


DELIVERY = ('list', 'view', 'generator', 'iter', 'map')


def _deliver(batches, form, view):
  """The same batches handed over as a list, the view object itself, a generator, iter(list) or a map object
  (every entry point documents `Iterable[BatchExample]`; one-shot iterators must give the same result)."""
  if form == 'view' and view is not None:
    return view
  if form == 'generator':
    return (b for b in batches)
  if form == 'iter':
    return iter(batches)
  if form == 'map':
    return map(dict, batches)
  return batches


def _view(case, geo, rows):
  if geo[0] == 'pb':
    return _dataset(case, rows).padded_batch(batch_size=geo[1], num_batch_size_buckets=geo[2])
  if geo[0] == 'plain':
    return _dataset(case, rows).batch(batch_size=geo[1])
  return None


def _fl(x):
  return float(np.asarray(x))


def _vec(g):
  return [_fl(g['w'][0]), _fl(g['w'][1]), _fl(g['b'])]


def _params(case, which=1, as_numpy=False):
  import jax.numpy as jnp
  w, b = (case['w'], case['b']) if which == 1 else (case['w2'], case['b2'])
  if as_numpy:
    return {'w': np.array([w[0] / 4, w[1] / 4], np.float32), 'b': np.float32(b * _u(case))}
  return {'w': jnp.array([w[0] / 4, w[1] / 4], jnp.float32), 'b': jnp.array(b * _u(case), jnp.float32)}


LAYOUTS = ['C', 'F', 'T', 'step2', 'neg', 'col', 'ro']


def _relayout(a, kind):
  """The same values in another memory layout (wave 5 item 1)."""
  a = np.ascontiguousarray(a)
  if a.ndim == 0 or kind == 'C':
    return a
  if kind == 'F':
    return np.asfortranarray(a)
  if kind == 'T':
    return np.ascontiguousarray(a.T).T
  if kind == 'step2':
    big = np.zeros((2 * a.shape[0],) + a.shape[1:], a.dtype)
    big[::2] = a
    big[1::2] = 1
    return big[::2]
  if kind == 'neg':
    return np.ascontiguousarray(a[::-1])[::-1]
  if kind == 'col':
    big = np.ones(a.shape[:-1] + (2 * a.shape[-1] + 1,), a.dtype)
    big[..., 1::2] = a
    return big[..., 1::2]
  a = a.copy()
  a.setflags(write=False)
  return a


CIDS = [b'c', 'c', 0, b'', '', None, -1, b'__mask__']


def _clients(items, form):
  """The clients argument as a list, a tuple or a one-shot generator."""
  if form == 1:
    return tuple(items)
  if form == 2:
    return (x for x in items)
  return items


def _snapshot(tree):
  import jax
  return [np.array(x) for x in jax.tree_util.tree_leaves(tree)]


def _unchanged(tree, snap):
  import jax
  try:
    now = [np.array(x) for x in jax.tree_util.tree_leaves(tree)]
  except RuntimeError:      # a deleted (donated) buffer
    return False
  return len(now) == len(snap) and all(a.dtype == b.dtype and a.shape == b.shape and np.array_equal(a, b, equal_nan=a.dtype.kind == 'f')
                                   for a, b in zip(now, snap))


ALGO_GEOS = [(1, 1), (4, 2), (8, 3)]
LR, MOM, SLR, DLR = 0.125, 0.5, 1.0, 0.0625
ATOL = 1e-4


def _algo(kind, reg, geo, backend='jit'):
  key = (kind, reg, geo, backend)
  if key in _API:
    return _API[key]
  from fedjax.core import for_each_client
  with for_each_client.for_each_client_backend(None if backend == 'jit' else backend):
    _API[key] = _build_algo(kind, reg, geo)
  return _API[key]


def _build_algo(kind, reg, geo):
  from fedjax.core import optimizers, client_datasets
  from fedjax.algorithms import mime, mime_lite, agnostic_fed_avg
  api = _api(reg)
  cb = client_datasets.ShuffleRepeatBatchHParams(batch_size=3, num_epochs=1, seed=0)
  pb = client_datasets.PaddedBatchHParams(batch_size=geo[0], num_batch_size_buckets=geo[1])
  if kind in ('mime', 'mime_lite'):
    build = mime.mime if kind == 'mime' else mime_lite.mime_lite
    alg = build(per_example_loss=api['pel'], base_optimizer=optimizers.sgd(LR, momentum=MOM), client_batch_hparams=cb,
                grads_batch_hparams=pb, server_learning_rate=SLR, regularizer=api['regf'])
  elif kind == 'hypc':
    from fedjax.algorithms import hyp_cluster
    alg = hyp_cluster.hyp_cluster(per_example_loss=api['pel'], client_optimizer=optimizers.sgd(LR),
                                  server_optimizer=optimizers.sgd(1.0), maximization_batch_hparams=pb,
                                  expectation_batch_hparams=cb, regularizer=api['regf'])
  else:
    alg = agnostic_fed_avg.agnostic_federated_averaging(
        per_example_loss=api['pel'], client_optimizer=optimizers.sgd(LR), server_optimizer=optimizers.sgd(1.0),
        client_batch_hparams=cb, domain_batch_hparams=pb, init_domain_weights=ALPHA, domain_learning_rate=DLR,
        domain_algorithm='eg', regularizer=api['regf'])
  return alg


def _leaves(tree):
  import jax
  out = []
  for leaf in jax.tree_util.tree_leaves(tree):
    out += [float(v) for v in np.asarray(leaf, dtype=np.float64).ravel()]
  return out


def _run_algo(case):
  import jax
  obs = {'algos': {}, 'caller_owned': []}
  for kind in ('mime', 'mime_lite', 'agnostic', 'hypc'):
    per_geo = []
    for gj, geo in enumerate(ALGO_GEOS if 'backend' not in case else [(4, 2)]):
      alg = _algo(kind, case['reg'], geo, case.get('backend', 'jit'))
      init_arg = [_params(case), _params(case, 2)] if kind == 'hypc' else _params(case)
      state = alg.init(init_arg)
      init_snap = _snapshot(state)
      rounds = []
      kept = []
      for cohort in case['rounds']:
        ids = [(b'c%d' % i) if gj % 2 == 0 else ('c%d' % i) for i in range(len(cohort))]     # bytes / str client ids
        if gj == 2 or 'backend' in case:
          ids = [b'c02', b'c00', b'c10', b'c01'][:len(cohort)]                              # NOT in sorted order
        clients = [(cid, _dataset(case, rows), jax.random.PRNGKey(i)) for i, (cid, rows) in enumerate(zip(ids, cohort))]
        if gj == 1:
          clients = tuple(clients)                                                          # a tuple instead of a list
        before, snap = state, _snapshot(state)
        state, diag = alg.apply(state, clients)
        if not _unchanged(before, snap):
          obs['caller_owned'].append(f'{kind}: the input server state changed (or was deleted) during apply')
        kept.append((state, _snapshot(state)))
        if kind == 'hypc':
          o = {'params': _vec(state.cluster_params[0]) + _vec(state.cluster_params[1]), 'all_leaves': _leaves(state),
               'cluster_ids': [int(diag[cid]['cluster_id']) for cid in ids]}
          rounds.append(o)
          continue
        o = {'params': _vec(state.params), 'all_leaves': _leaves(state)}
        if kind == 'agnostic':
          o['domain_weights'] = [float(v) for v in np.asarray(state.domain_weights)]
        else:
          tr = jax.tree_util.tree_leaves(state.opt_state)
          # optax sgd+momentum: one trace tree shaped like params ({'b': (), 'w': (2,)} in key order)
          o['trace'] = ([float(v) for v in np.asarray(tr[1])] + [float(np.asarray(tr[0]))]) if len(tr) == 2 else None
        rounds.append(o)
      for t, (st, sn) in enumerate(kept):
        if not _unchanged(st, sn):
          obs['caller_owned'].append(f'{kind}: the server state returned by round {t + 1} changed after later calls')
      if not _unchanged(alg.init(init_arg), init_snap):
        obs['caller_owned'].append(f'{kind}: init() after the applies differs from the first init()')
      entry = {'geo': list(geo), 'rounds': rounds}
      if kind == 'mime':
        entry['layout1'] = [_layout(_materialise(case, ['pb', geo[0], geo[1]], rows)) for rows in case['rounds'][0]]
      per_geo.append(entry)
    obs['algos'][kind] = per_geo
  return obs


def _closed_at(case, p, rows):
  """Per-example losses / gradients of the given rows at params p = [w1, w2, b]; r and grad r."""
  X = np.array([case['x'][i] for i in rows], np.float64).reshape(-1, 2) * _u(case)
  Y = np.array([_yq(case['y'][i], _u(case)) for i in rows], np.float64)
  w, b = np.array(p[:2], np.float64), float(p[2])
  e = X @ w + b - Y
  G = np.stack([2 * e * X[:, 0], 2 * e * X[:, 1], 2 * e], axis=1) if len(rows) else np.zeros((0, 3))
  r, dr = _reg_terms(case['reg'], [float(w[0]), float(w[1]), float(b)])
  return e * e, G, r, np.array(dr)


def _anear(a, b):
  return math.isfinite(a) and abs(a - b) <= ATOL * (1 + abs(b))


def _oracle_algo(case, obs):
  out = []

  def add(key, msg):
    if key not in [k for k, _ in out]:
      out.append((key, msg))

  p0 = [case['w'][0] / 4, case['w'][1] / 4, case['b'] / 4]
  for kind in ('mime', 'mime_lite'):
    ref = None
    for entry in obs['algos'][kind]:
      p, tr = np.array(p0), np.zeros(3)
      for t, (cohort, o) in enumerate(zip(case['rounds'], entry['rounds'])):
        rows = [i for c in cohort for i in c]
        if not all(math.isfinite(v) for v in o['all_leaves']):
          add(f'{kind}.algorithm.nonfinite-state',
              f'round {t + 1} over clients of sizes {[len(c) for c in cohort]} (grads batch {entry["geo"]}): non-finite leaf in the new server state {o["all_leaves"]}')
          break
        _, G, _, dr = _closed_at(case, p, rows)
        g = (G.mean(axis=0) + dr) if rows else np.zeros(3)          # full-batch gradient: 0 without real examples
        delta = LR * (g + MOM * tr) if rows else np.zeros(3)        # one full-client step per non-empty client
        p, tr = p - SLR * delta, g + MOM * tr
        if o['trace'] is None or not all(_anear(a, b) for a, b in zip(o['trace'], tr)):
          add(f'{kind}.algorithm.opt-state', f'round {t + 1} (grads batch {entry["geo"]}): momentum buffer {o["trace"]}, closed form {tr.tolist()}')
        if not all(_anear(a, b) for a, b in zip(o['params'], p)):
          add(f'{kind}.algorithm.params', f'round {t + 1} (grads batch {entry["geo"]}): params {o["params"]}, closed form {p.tolist()}')
      last = entry['rounds'][-1]
      if ref is None:
        ref = (entry['geo'], last)
      elif not all(_anear(a, b) for a, b in zip(last['all_leaves'], ref[1]['all_leaves'])):
        add(f'{kind}.algorithm.geometry', f'final state under grads batch {entry["geo"]} {last["all_leaves"]} differs from {ref[0]} {ref[1]["all_leaves"]}')
  for msg in obs.get('caller_owned', [])[:1]:
    add('algorithm.caller-owned-state', msg)
  ref = None
  for entry in obs['algos'].get('hypc', []):
    ps = [np.array(p0), np.array([case['w2'][0] / 4, case['w2'][1] / 4, case['b2'] / 4])]
    judge = True
    for t, (cohort, o) in enumerate(zip(case['rounds'], entry['rounds'])):
      if not all(math.isfinite(v) for v in o['all_leaves']):
        add('hyp-cluster.algorithm.nonfinite-state', f'round {t + 1} (maximization batch {entry["geo"]}): non-finite leaf in the new server state')
        break
      acc = [[np.zeros(3), 0] for _ in ps]
      for ci, rows in enumerate(cohort):
        ls = []
        for k, p in enumerate(ps):
          loss, G, r, dr = _closed_at(case, p, rows)
          ls.append(((loss.mean() if rows else 0.0) + r, (G.mean(axis=0) + dr) if rows else None))
        if abs(ls[0][0] - ls[1][0]) < 1e-3 and not (case.get('pattern') == 'tie' and t == 0):
          judge = False                     # a numerical near-tie between the clusters: assignment not judged
          break
        k = 0 if ls[0][0] <= ls[1][0] else 1   # an exact tie (identical cluster params): the first cluster wins
        if o['cluster_ids'][ci] != k:
          add('hyp-cluster.algorithm.assignment', f'round {t + 1} (maximization batch {entry["geo"]}): client {ci} assigned to cluster {o["cluster_ids"][ci]}, average losses incl. regulariser {[v[0] for v in ls]}')
        if rows:
          acc[k][0] += len(rows) * LR * ls[k][1]
          acc[k][1] += len(rows)
      if not judge:
        break
      ps = [p - a / n if n else p for p, (a, n) in zip(ps, acc)]
      if not all(_anear(a, b) for a, b in zip(o['params'], list(ps[0]) + list(ps[1]))):
        add('hyp-cluster.algorithm.params', f'round {t + 1} (maximization batch {entry["geo"]}): cluster params {o["params"]}, closed form {list(ps[0]) + list(ps[1])}')
    last = entry['rounds'][-1]
    if ref is None:
      ref = (entry['geo'], last)
    elif not all(_anear(a, b) for a, b in zip(last['all_leaves'], ref[1]['all_leaves'])) or last['cluster_ids'] != ref[1]['cluster_ids']:
      add('hyp-cluster.algorithm.geometry', f'final state under maximization batch {entry["geo"]} {last["all_leaves"]} differs from {ref[0]} {ref[1]["all_leaves"]}')
  ref = None
  for entry in obs['algos']['agnostic']:
    p, w = np.array(p0), np.array(ALPHA, np.float64)
    for t, (cohort, o) in enumerate(zip(case['rounds'], entry['rounds'])):
      rows = [i for c in cohort for i in c]
      if not all(math.isfinite(v) for v in o['all_leaves']):
        add('agnostic.algorithm.nonfinite-state', f'round {t + 1} (domain batch {entry["geo"]}): non-finite leaf in the new server state')
        break
      loss, _, _, _ = _closed_at(case, p, rows)
      dom = np.array([case['dom'][i] for i in rows], int)
      mean = np.array([loss[dom == d].mean() if (dom == d).any() else 0.0 for d in range(ND)])
      w = w * np.exp(DLR * mean)
      w = w / w.sum()
      if not all(_anear(a, b) for a, b in zip(o['domain_weights'], w)):
        add('agnostic.algorithm.domain-weights-closed-form',
            f'round {t + 1} (domain batch {entry["geo"]}): domain weights {o["domain_weights"]}, EG update with the mean real per-domain losses {w.tolist()}')
      p, w = np.array(o['params']), np.array(o['domain_weights'])
    if ref is None:
      ref = entry
    else:
      for t, (o, q) in enumerate(zip(entry['rounds'], ref['rounds'])):
        if not all(_anear(a, b) for a, b in zip(o['domain_weights'], q['domain_weights'])):
          add('agnostic.algorithm.domain-weights-geometry',
              f'round {t + 1}: domain weights {o["domain_weights"]} under domain batch {entry["geo"]}, {q["domain_weights"]} under {ref["geo"]} (same clients and seeds)')
        if not all(_anear(a, b) for a, b in zip(o['params'], q['params'])):
          add('agnostic.algorithm.params-geometry',
              f'round {t + 1}: params {o["params"]} under domain batch {entry["geo"]}, {q["params"]} under {ref["geo"]}')
  return out


def _encode_algo(case, obs):
  """Round 1 from a fresh state: the momentum buffer IS Mime's full-batch server gradient."""
  real, row, r, dr = _exact(case)
  items = []
  for kind, lite in (('mime', 'false'), ('mime_lite', 'true')):
    for entry, lay in zip(obs['algos'][kind], obs['algos']['mime']):
      tr = entry['rounds'][0]['trace']
      if tr is None or not all(math.isfinite(v) for v in tr):
        return None
      for j in range(3):
        cl = fw.clist([fw.clist([f'({fw.qlist(_cell_vals(case, real, row, cells, j + 1))}, {_mask(cells)})' for cells in clay])
                       for clay in lay['layout1']])
        items.append(f'(KMime {lite} {_oq(dr[j])} {cl}, {fw.qlist([tr[j]])})')
  return f'({fw.clist(items)}, tt)'


def _hyp_model():
  from fedjax.core import models, metrics

  class PredMean(metrics.Metric):   # reveals which cluster's params evaluated a client
    def zero(self):
      return metrics.MeanStat.new(0., 0.)

    def evaluate_example(self, example, prediction):
      return metrics.MeanStat.new(prediction, 1.)

  def apply_for_train(params, batch, rng):
    del rng
    return batch['x'] @ params['w'] + params['b']

  import jax.numpy as jnp
  return models.Model(init=lambda rng: {'w': jnp.array([0.25, -0.25], jnp.float32), 'b': jnp.array(0.5, jnp.float32)},
                      apply_for_train=apply_for_train, apply_for_eval=lambda params, batch: apply_for_train(params, batch, None),
                      train_loss=lambda batch, pred: (pred - batch['y'])**2, eval_metrics={'pm': PredMean()})


def _run_hyp(case):
  import jax
  from fedjax.core import regularizers, optimizers, client_datasets
  from fedjax.algorithms import hyp_cluster
  model = _hyp_model()                      # ONE Model object shared by every evaluator / initializer of this case
  rows = [[0, 1, 2], [3, 4, 5], [6, 7, 8]]
  cluster_params = [_params(case, 1), _params(case, 2)]
  hp = client_datasets.PaddedBatchHParams(batch_size=4, num_batch_size_buckets=2)
  thp = client_datasets.ShuffleRepeatBatchHParams(batch_size=3, num_epochs=1, seed=0)

  def regf(name):
    lam = HYP_REGS[name]
    return None if lam is None else regularizers.l2_regularizer(float(lam))

  def clients():
    return [(b'c%d' % i, _dataset(case, r), jax.random.PRNGKey(i)) for i, r in enumerate(rows)]

  def use(ev, init):
    o = {}
    cl = hyp_cluster._cluster_losses(ev._maximization_step_evaluator, cluster_params, clients(), hp)
    o['losses'] = [[_fl(v) for v in cl[b'c%d' % i]] for i in range(3)]
    res = dict(ev.evaluate_clients(cluster_params, clients(), [(cid, ds) for cid, ds, _ in clients()], hp))
    o['pm'] = [_fl(res[b'c%d' % i]['pm']) for i in range(3)]
    centers = init.cluster_params(3, jax.random.PRNGKey(5), clients(), thp, hp)
    o['centers'] = [_vec(c) for c in centers]
    return o

  built, obs = [], {'shared': [], 'again_first': None, 'fresh': []}
  for name in case['order']:
    ev = hyp_cluster.HypClusterEvaluator(model, regf(name))
    init = hyp_cluster.ModelKMeansInitializer(model, optimizers.sgd(LR), regf(name))
    built.append((ev, init))
    obs['shared'].append(use(ev, init))
  obs['again_first'] = use(*built[0])       # the first-built objects must be unaffected by the later ones
  for name in sorted(set(case['order'])):   # baseline: a fresh Model object per regulariser
    m2 = _hyp_model()
    o = use(hyp_cluster.HypClusterEvaluator(m2, regf(name)), hyp_cluster.ModelKMeansInitializer(m2, optimizers.sgd(LR), regf(name)))
    obs['fresh'].append([name, o['centers']])
  return obs


def _oracle_hyp(case, obs):
  out = []
  rows = [[0, 1, 2], [3, 4, 5], [6, 7, 8]]
  fresh = dict((n, c) for n, c in obs['fresh'])
  runs = list(zip(case['order'], obs['shared'], [f'object {i + 1} of {len(case["order"])}' for i in range(len(case['order']))]))
  runs.append((case['order'][0], obs['again_first'], 'the first-built objects, used again at the end'))
  for name, o, who in runs:
    lam = float(HYP_REGS[name] or 0)
    for ci, r in enumerate(rows):
      want = []
      for k in (1, 2):
        w = np.array(case['w'] if k == 1 else case['w2'], np.float64) / 4
        b = (case['b'] if k == 1 else case['b2']) / 4
        X = np.array([case['x'][i] for i in r], np.float64) / 4
        Y = np.array([_yq(case['y'][i]) for i in r], np.float64)
        e = X @ w + b - Y
        want.append((float((e * e).mean() + lam * (w @ w + b * b)), float((X @ w + b).mean())))
      got = o['losses'][ci]
      if not all(_anear(a, b[0]) for a, b in zip(got, want)) and not [k for k, _ in out if k == 'hyp-cluster.regularizer']:
        out.append(('hyp-cluster.regularizer',
                    f'{who} (regulariser {name}, built in the order {case["order"]} for ONE Model): per-cluster average losses of client {ci} '
                    f'{got}, closed form with this regulariser exactly once {[v[0] for v in want]}'))
      if abs(want[0][0] - want[1][0]) > 0.05:
        k = 0 if want[0][0] < want[1][0] else 1
        if not _anear(o['pm'][ci], want[k][1]) and not [kk for kk, _ in out if kk == 'hyp-cluster.assignment']:
          out.append(('hyp-cluster.assignment',
                      f'{who} (regulariser {name}): evaluate_clients evaluated client {ci} with a cluster other than cluster {k} '
                      f'(mean prediction {o["pm"][ci]}, expected {want[k][1]}; losses incl. regulariser {[v[0] for v in want]})'))
    ref = fresh[name]
    if not all(_anear(a, b) for ca, cb in zip(o['centers'], ref) for a, b in zip(ca, cb)) \
        and not [k for k, _ in out if k == 'hyp-cluster.kmeans-init']:
      out.append(('hyp-cluster.kmeans-init',
                  f'{who} (regulariser {name}): ModelKMeansInitializer.cluster_params {o["centers"]} differs from the same call on a fresh Model object {ref}'))
  return out


def _run_grid(case):
  import itertools
  import jax
  import jax.numpy as jnp
  from fedjax.core import models
  api = _api(False)
  params = {'w': jnp.zeros(2, jnp.float32), 'b': jnp.array(case['b'] / 4, jnp.float32)}
  shared = {'params': params, 'alpha': jnp.array(ALPHA, jnp.float32)}
  rng = jax.random.PRNGKey(0)
  out = []
  for l in range(1, case['lmax'] + 1):
    y = np.array(case['y'][:l], np.float32) / 4
    for m in itertools.product([False, True], repeat=l):
      for ids in itertools.product([0, 1, 2], repeat=l):
        b = {'x': np.zeros((l, 2), np.float32), 'y': y, 'domain_id': np.array(ids, np.int32), 'idx': np.arange(l, dtype=np.int32),
             '__mask__': np.array(m, np.bool_)}
        (_, dm), = list(api['domain'](shared, [(b'c', [b], rng)]))
        out += [float(v) for v in np.asarray(dm['domain_loss'])] + [float(v) for v in np.asarray(dm['domain_num'])]
        out.append(_fl(models.evaluate_average_loss(params, [b], rng, api['pel'], None)))
  return {'grid': out}


def _ref_grid(case):
  import itertools
  out = []
  b = case['b'] / 4
  for l in range(1, case['lmax'] + 1):
    loss = [(b - v / 4) ** 2 for v in case['y'][:l]]
    for m in itertools.product([False, True], repeat=l):
      for ids in itertools.product([0, 1, 2], repeat=l):
        out += [sum(x for x, mm, i in zip(loss, m, ids) if mm and i == d) for d in range(ND)]
        out += [sum(1 for mm, i in zip(m, ids) if mm and i == d) for d in range(ND)]
        real = [x for x, mm in zip(loss, m) if mm]
        out.append(sum(real) / len(real) if real else 0.0)
  return out


def _tree_params(case, struct):
  import collections
  import jax.numpy as jnp
  w = jnp.array([case['w'][0] / 4, case['w'][1] / 4], jnp.float32)
  b = jnp.array(case['b'] * _u(case), jnp.float32)
  if struct == 'tuple':
    return (w, b)
  if struct == 'list':
    return [w, b]
  if struct == 'namedtuple':
    return _API.setdefault('WB', collections.namedtuple('WB', ['w', 'b']))(w, b)
  if struct == 'nested':
    return {'dense': {'w': w, 'bias': {'b': b}}, 'unused': None}
  return {'w': w, 'b': b}


def _run_tree(case):
  """grad / model_grad / evaluator / Mime helper with the parameters held in other pytree containers; the loss finds
  the weight vector (1-d leaf) and the bias (0-d leaf) among the leaves."""
  import jax
  from fedjax.core import models, tree_util
  from fedjax.algorithms import mime
  key = ('tree', case['reg'])
  if key not in _API:
    def leaves(params):
      ls = jax.tree_util.tree_leaves(params)
      return [x for x in ls if x.ndim == 1][0], [x for x in ls if x.ndim == 0][0]

    def apply_for_train(params, batch, rng):
      del rng
      w, b = leaves(params)
      return batch['x'] @ w + b
    model = models.Model(init=lambda rng: None, apply_for_train=apply_for_train,
                         apply_for_eval=lambda p, b: apply_for_train(p, b, None),
                         train_loss=lambda batch, pred: (pred - batch['y'])**2, eval_metrics={})
    pel = models.model_per_example_loss(model)
    from fedjax.core import regularizers
    regf = regularizers.l2_regularizer(float(LAM)) if case['reg'] else None
    grad_fn = models.grad(pel, regf)
    _API[key] = {'leaves': leaves, 'pel': pel, 'regf': regf, 'grad': grad_fn, 'mgrad': models.model_grad(model, regf),
                 'evaluator': models.AverageLossEvaluator(pel, regf), 'mime': mime.create_grads_for_each_client(grad_fn)}
  api = _API[key]
  rng = jax.random.PRNGKey(3)
  allrows = list(range(len(case['y'])))
  obs = {'structs': []}

  def vec(g):
    w, b = api['leaves'](g)
    return [_fl(w[0]), _fl(w[1]), _fl(b)]
  for struct in case['structs']:
    params = _tree_params(case, struct)
    td = jax.tree_util.tree_structure(params)
    o = {'struct': struct, 'geos': []}
    for geo in case['geos']:
      batches = _materialise(case, geo, allrows)
      g0 = api['grad'](params, batches[0], rng) if batches else None
      m0 = api['mgrad'](params, batches[0], rng) if batches else None
      outs = list(api['mime'](params, [(b'c', batches, rng)]))
      gs, ns = outs[0][1]
      sg = tree_util.tree_inverse_weight(gs, ns)
      o['geos'].append({
          'layout': _layout(batches),
          'same_structure': bool(all(jax.tree_util.tree_structure(t) == td for t in (g0, m0, gs, sg) if t is not None)),
          'grad0': vec(g0) if g0 is not None else None, 'mgrad0': vec(m0) if m0 is not None else None,
          'mime_server': vec(sg), 'num': _fl(ns),
          'avg': [_fl(models.evaluate_average_loss(params, batches, rng, api['pel'], api['regf']))] +
                 [_fl(v) for _, v in api['evaluator'].evaluate_global_params(params, [(b'c', batches, rng)])] +
                 [_fl(v) for _, v in api['evaluator'].evaluate_per_client_params([(b'c', batches, rng, params)])]})
    obs['structs'].append(o)
  return obs


def _oracle_tree(case, obs):
  out = []
  loss, G, r, dr = _closed(case)
  n = len(loss)
  z3 = np.zeros(3)
  for o in obs['structs']:
    for geo, g in zip(case['geos'], o['geos']):
      tag = f'params as {o["struct"]}, {geo[0]}'
      if not g['same_structure']:
        out.append(('grad.tree-structure', f'{tag}: a gradient / gradient sum does not have the tree structure of the parameters'))
      real0 = [c for c in g['layout'][0] if not isinstance(c, list)] if g['layout'] else []
      want0 = (_mean_rows(G, real0, z3) + dr) if real0 else dr
      for name in ('grad0', 'mgrad0'):
        if g[name] is not None and not all(_near(a, b) for a, b in zip(g[name], want0)):
          out.append(('grad.closed-form', f'{tag}: {name} {g[name]}, closed form {want0.tolist()}'))
      want = (G.mean(axis=0) + dr) if n else z3
      if not all(_near(a, b) for a, b in zip(g['mime_server'], want)) or g['num'] != n:
        out.append(('mime.fullbatch-grad', f'{tag}: full-batch gradient {g["mime_server"]} / num {g["num"]}, closed form {want.tolist()} / {n}'))
      exp_avg = (loss.mean() if n else 0.0) + r
      if not all(_near(v, exp_avg) for v in g['avg']):
        out.append(('avg-loss.closed-form.tree', f'{tag}: average losses {g["avg"]}, closed form {exp_avg}'))
  return out[:3]


def _run_lowp(case):
  import fedjax
  import jax
  import jax.numpy as jnp
  from fedjax.algorithms import agnostic_fed_avg
  dt = getattr(jnp, case['dtype'])
  key = ('lowp', case['dtype'])
  if key not in _API:
    _API[key] = agnostic_fed_avg.create_domain_metrics_for_each_client(
        lambda params, batch, rng: (batch['x'] * params).astype(dt), ND, None)
  dom = np.concatenate([np.full(k, d, np.int32) for d, k in enumerate(case['n'])])
  ds = fedjax.ClientDataset({'x': np.ones(len(dom), np.float32), 'domain_id': dom})
  out = []
  for bs, nb in case['geos']:
    shared = {'params': jnp.array(0.5, jnp.float32), 'alpha': jnp.array(ALPHA, jnp.float32)}
    (_, dm), = list(_API[key](shared, [('c', ds.padded_batch(batch_size=bs, num_batch_size_buckets=nb), jax.random.PRNGKey(0))]))
    out.append([float(v) for v in np.asarray(dm['domain_num'], dtype=np.float64)])
  return {'domain_num': out}


def run(case):
  if case.get('kind') == 'grid':
    return _run_grid(case)
  if case.get('kind') == 'tree':
    return _run_tree(case)
  if case.get('kind') == 'flags':
    return _run_flags(case)
  if case.get('kind') == 'hyp':
    return _run_hyp(case)
  if case.get('kind') == 'lowp':
    return _run_lowp(case)
  if case.get('kind') == 'algo':
    return _run_algo(case)
  import jax
  import jax.numpy as jnp
  from fedjax.core import models, tree_util, client_datasets
  from fedjax.algorithms import hyp_cluster
  backend = case.get('backend', 'jit')
  api = _api(case['reg'], backend)
  rng = jax.random.PRNGKey(7)
  n = len(case['y'])
  allrows = list(range(n))
  obs = {'geos': [], 'inputs_unchanged': True}
  for gi, geo in enumerate(case['geos']):
    params = _params(case, as_numpy=(gi % 2 == 1))      # numpy and jax parameter arrays alternate
    cid = CIDS[(gi + n) % len(CIDS)]                     # bytes / str / int 0 / empty ids
    cform = gi % 3                                        # clients as list / tuple / generator
    batches = _materialise(case, geo, allrows)
    if geo[0] == 'hand' and gi % 2 == 0:                 # jax instead of numpy batch arrays
      batches = [{k: jnp.asarray(v) for k, v in b.items()} for b in batches]
    else:                                                # numpy arrays in another memory layout
      lay = LAYOUTS[(gi + n) % len(LAYOUTS)]
      batches = [{k: _relayout(v, lay) for k, v in b.items()} for b in batches]
      if (gi + n) % 5 == 1:      # domain ids in a narrow integer dtype (one geometry in five: every dtype change recompiles)
        batches = [{**b, 'domain_id': b['domain_id'].astype(np.uint8)} for b in batches]
      view = None
      if gi % 2 == 1:
        params = {'w': _relayout(params['w'], 'neg' if lay == 'C' else 'step2'), 'b': params['b']}
    snap = _snapshot((params, batches))
    view = _view(case, geo, allrows)
    form = DELIVERY[gi % len(DELIVERY)]
    masked = geo[0] != 'plain'
    g = {'layout': _layout(batches), 'masked': masked}
    # A. per-batch gradients, padded and (first batches) unpadded
    g['grad'] = [_vec(api['grad'](params, b, rng)) for b in batches]
    g['grad_unpadded'] = []
    for k, b in enumerate(batches[:3]):
      if not masked:
        g['grad_unpadded'].append(None)
        continue
      m = np.asarray(b['__mask__'])
      if m.sum() == 0:
        g['grad_unpadded'].append(None)
        continue
      ub = {key: np.asarray(v)[m] for key, v in b.items() if key != '__mask__'}
      g['grad_unpadded'].append(_vec(api['grad'](params, ub, rng)))
    g['mgrad'] = _vec(api['mgrad'](params, batches[0], rng)) if batches else None
    # C / D. average loss
    g['avg_forms'] = {}
    for f in DELIVERY:
      vals = [_fl(models.evaluate_average_loss(params, _deliver(batches, f, view), rng, api['pel'], api['regf']))]
      vals += [_fl(v) for _, v in api['evaluator'].evaluate_global_params(
          params, _clients([(cid, _deliver(batches, f, view), rng)], cform))]
      vals += [_fl(v) for _, v in api['evaluator'].evaluate_per_client_params(
          _clients([(cid, _deliver(batches, f, view), rng, params)], cform))]
      g['avg_forms'][f] = vals
    # two clients handed the SAME view / list object (interleaving) must both get the full result
    shared_obj = view if view is not None else batches
    g['shared_view'] = [_fl(v) for _, v in api['evaluator'].evaluate_global_params(
        params, [(b'a', shared_obj, rng), (b'b', shared_obj, rng)])]
    if gi == 0:
      with jax.disable_jit():
        g['nojit'] = [_fl(models.evaluate_average_loss(params, batches, rng, api['pel'], api['regf']))] + \
                     ([_vec(api['grad'](params, batches[0], rng))] if batches else [])
    g['avg'] = g['avg_forms']['list']
    g['delivery'] = form
    # E / F need the mask key
    if masked:
      if geo[0] == 'pb':
        s = case['split']
        client_rows = [allrows[:s], allrows[s:]]
        client_batches = [_materialise(case, geo, r) for r in client_rows]
        client_views = [_view(case, geo, r) for r in client_rows]
      else:
        client_batches = [batches]
        client_views = [None]
      outs = list(api['mime'](params, _clients([(i, _deliver(cb, form, cv), rng)
                                                 for i, (cb, cv) in enumerate(zip(client_batches, client_views))], cform)))
      g['mime_layout'] = [_layout(cb) for cb in client_batches]
      by_id = dict(outs)      # backends may yield the clients in another order: match by client id
      g['mime_clients'] = [_vec(by_id[i][0]) + [_fl(by_id[i][1])] for i in range(len(client_batches))]
      gsum, nsum = tree_util.tree_sum(co for _, co in outs)
      g['mime_server'] = _vec(tree_util.tree_inverse_weight(gsum, nsum))
      shared = {'params': params, 'alpha': jnp.array(ALPHA, jnp.float32)}
      (_, dm), = list(api['domain'](shared, _clients([(cid, _deliver(batches, form, view), rng)], cform)))
      g['domain'] = {'loss': [float(v) for v in np.asarray(dm['domain_loss'])],
                     'num': [float(v) for v in np.asarray(dm['domain_num'])], 'beta': _fl(dm['beta'])}
    # G. HypCluster per-cluster average losses (geometry through PaddedBatchHParams only)
    if geo[0] == 'pb':
      s = case['split']
      clients = [('a', _dataset(case, allrows[:s]), jax.random.PRNGKey(1)), ('b', _dataset(case, allrows[s:]), jax.random.PRNGKey(2))]
      cl = hyp_cluster._cluster_losses(api['evaluator'], [params, _params(case, 2)], clients,
                                       client_datasets.PaddedBatchHParams(batch_size=geo[1], num_batch_size_buckets=geo[2]))
      g['hyp'] = [[_fl(v) for v in cl['a']], [_fl(v) for v in cl['b']]]
    obs['inputs_unchanged'] = bool(obs['inputs_unchanged'] and _unchanged((params, batches), snap))
    obs['geos'].append(g)
  return obs


# --------------------------------------------------------------------------
# closed forms (float64 numpy, written from the property text)

def _closed(case, which=1):
  w = np.array(case['w'] if which == 1 else case['w2'], np.float64) / 4
  b = (case['b'] if which == 1 else case['b2']) * _u(case)
  X = np.array(case['x'], np.float64).reshape(-1, 2) * _u(case)
  Y = np.array([_yq(v, _u(case)) for v in case['y']], np.float64)
  e = X @ w + b - Y
  loss = e * e
  G = np.stack([2 * e * X[:, 0], 2 * e * X[:, 1], 2 * e], axis=1) if len(Y) else np.zeros((0, 3))
  r, dr = _reg_terms(case['reg'], [float(w[0]), float(w[1]), float(b)])
  return loss, G, r, np.array(dr)


def _yq(v, u=0.25):
  return float(v) if isinstance(v, str) else v * u


def _near(a, b):
  """Equal within tolerance; a non-finite expected value must be reproduced exactly (NaN by NaN, +-inf by itself)."""
  b = float(b)
  if math.isnan(b):
    return math.isnan(a)
  if math.isinf(b):
    return a == b
  return math.isfinite(a) and abs(a - b) <= TOL * (_TOLSCALE[0] + abs(b))


def _mean_rows(vals, rows, zero):
  return vals[rows].mean(axis=0) if len(rows) else zero


def oracle(case, obs):
  if case.get('kind') == 'tree':
    return _oracle_tree(case, obs)
  if case.get('kind') == 'grid':
    want = _ref_grid(case)
    bad = [i for i, (a, b) in enumerate(zip(obs['grid'], want)) if not _near(a, b)]
    if len(want) != len(obs['grid']) or bad:
      return [('grid.mask-domain', f'{len(bad)} of {len(want)} grid values (domain_loss x3, domain_num x3, average loss per mask x domain-id combination) differ from the definition, first at index {bad[:1]}: {obs["grid"][bad[0]] if bad else None} vs {want[bad[0]] if bad else None}')]
    return []
  if case.get('kind') == 'flags':
    return [(k, f'under {case["env"]}: {w} (case {json.dumps(c)[:300]})') for k, w, c in obs['violations']]
  if case.get('kind') == 'hyp':
    return _oracle_hyp(case, obs)
  if case.get('kind') == 'lowp':
    return [('agnostic.domain-num.low-precision-loss',
             f'domain_num {dn} under padded batch {geo} with a {case["dtype"]} loss; real counts {case["n"]}')
            for geo, dn in zip(case['geos'], obs['domain_num']) if dn != [float(k) for k in case['n']]][:1]
  if case.get('kind') == 'algo':
    return _oracle_algo(case, obs)
  out = []
  _TOLSCALE[0] = 4.0 ** case.get('scale', 0)     # the absolute part of the tolerance follows the magnitude of the summands (loss ~ scale^2)
  loss, G, r, dr = _closed(case)
  n = len(loss)
  z3 = np.zeros(3)
  exp_avg = (loss.mean() if n else 0.0) + r
  exp_full = (G.mean(axis=0) + dr) if n else z3
  dom = np.array(case['dom'], int)
  exp_dl = np.array([loss[dom == d].sum() for d in range(ND)])
  exp_dn = np.array([(dom == d).sum() for d in range(ND)], float)

  def add(key, msg):
    if key not in [k for k, _ in out]:
      out.append((key, msg))

  if obs.get('inputs_unchanged') is False:
    add('inputs-mutated', 'params or batch arrays handed to grad / evaluate_average_loss / the for_each_client helpers changed (or were deleted)')
  first_dom = None
  for gi, (geo, g) in enumerate(zip(case['geos'], obs['geos'])):
    tag = geo[0]
    # per-batch gradient = mean over the batch's real rows + grad r (exactly once); reg-only when nothing is real
    for k, (cells, gv) in enumerate(zip(g['layout'], g['grad'])):
      real = [c for c in cells if not isinstance(c, list)]
      want = (_mean_rows(G, real, z3) + dr) if real else dr
      if not all(_near(a, b) for a, b in zip(gv, want)):
        add('grad.all-padded' if not real else 'grad.closed-form',
            f'{tag} batch {k}: grad {gv}, unpadded closed form {want.tolist()}')
      if not all(math.isfinite(a) for a in gv) and all(math.isfinite(b) for b in want):
        add('grad.nan', f'{tag} batch {k}: non-finite gradient {gv}')
    for k, gu in enumerate(g['grad_unpadded']):
      if gu is not None and not all(_near(a, b) for a, b in zip(g['grad'][k], gu)):
        add('grad.padded-vs-unpadded', f'{tag} batch {k}: padded grad {g["grad"][k]} != grad of the real rows without padding {gu}')
    if g['mgrad'] is not None and not all(_near(a, b) for a, b in zip(g['mgrad'], g['grad'][0])):
      add('model_grad.differs-from-grad', f'{tag}: model_grad {g["mgrad"]} != grad {g["grad"][0]}')
    # average loss
    for name, v in zip(('evaluate_average_loss', 'evaluator.global', 'evaluator.per-client'), g['avg']):
      if not math.isfinite(v) and math.isfinite(exp_avg):
        add('avg-loss.nan', f'{tag}: {name} = {v} on {n} rows')
      elif not _near(v, exp_avg):
        add('avg-loss.empty' if n == 0 else f'avg-loss.closed-form.{name}', f'{tag}: {name} = {v}, closed form {exp_avg}')
      if not _near(v, obs['geos'][0]['avg'][0]):
        add('avg-loss.geometry', f'{name} under {geo[:1] + geo[1:3] if tag != "hand" else "hand"} = {v}, under the first geometry {obs["geos"][0]["avg"][0]}')
    for k2, v in enumerate(g.get('shared_view', [])):
      if not _near(v, exp_avg):
        add('avg-loss.shared-view', f'{tag}: two clients given the same batches object: client {k2} average loss {v}, closed form {exp_avg}')
    if 'nojit' in g:
      if not _near(g['nojit'][0], exp_avg):
        add('avg-loss.disable-jit', f'{tag}: evaluate_average_loss under jax.disable_jit() = {g["nojit"][0]}, closed form {exp_avg}')
      if len(g['nojit']) > 1 and not all(_near(a, b) for a, b in zip(g['nojit'][1], g['grad'][0])):
        add('grad.disable-jit', f'{tag}: grad under jax.disable_jit() {g["nojit"][1]} differs from the jitted {g["grad"][0]}')
    for f, vals in g['avg_forms'].items():
      for name, v in zip(('evaluate_average_loss', 'evaluator.global', 'evaluator.per-client'), vals):
        if not _near(v, exp_avg) or not _near(v, g['avg'][0]):
          add(f'avg-loss.delivery.{name}', f'{tag}: {name} with the batches delivered as {f} = {v}; as a list {g["avg"][0]}, closed form {exp_avg}')
    if 'mime_server' in g:
      if not all(_near(a, b) for a, b in zip(g['mime_server'], exp_full)):
        add('mime.fullbatch-grad' if n else 'mime.fullbatch-grad.empty', f'{tag}: full-batch gradient {g["mime_server"]}, closed form {exp_full.tolist()}')
      for lay, co in zip(g['mime_layout'], g['mime_clients']):
        real = [c for cells in lay for c in cells if not isinstance(c, list)]
        want = (G[real].sum(axis=0) + dr * len(real)) if real else z3
        if co[3] != len(real):
          add('mime.client-num', f'{tag}: client num_sum {co[3]}, real rows {len(real)}')
        if not all(_near(a, b) for a, b in zip(co[:3], want)):
          add('mime.client-grads-sum', f'{tag}: client grads_sum {co[:3]}, closed form {want.tolist()}')
    if 'domain' in g:
      d = g['domain']
      if [float(v) for v in d['num']] != exp_dn.tolist():
        add('agnostic.domain-num', f'{tag}: domain_num {d["num"]}, real counts {exp_dn.tolist()}')
      if not _near(d['beta'], float(np.dot(ALPHA, exp_dn))):
        add('agnostic.beta', f'{tag}: beta {d["beta"]}')
      if not case['reg']:
        if not all(_near(a, b) for a, b in zip(d['loss'], exp_dl)):
          add('agnostic.domain-loss', f'{tag}: domain_loss {d["loss"]}, per-domain sums of the real losses {exp_dl.tolist()}')
      else:
        # with a regulariser the documented requirement is independence of the batch geometry
        sig = all(_near(a, b + len(g['layout']) * r) for a, b in zip(d['loss'], exp_dl))
        if first_dom is None:
          first_dom = (tag, len(g['layout']), d['loss'], sig)
        elif not all(_near(a, b) for a, b in zip(d['loss'], first_dom[2])):
          msg = (f'domain_loss with a regulariser depends on the batch geometry: {d["loss"]} over {len(g["layout"])} batches, '
                 f'{first_dom[2]} over {first_dom[1]} batches (same dataset)')
          if sig and first_dom[3]:
            # exactly the known defect of this call site: (sum of the real losses) + (#batches) * r in every domain
            add('agnostic.domain-metrics.regularizer-per-batch', msg)
          else:
            add('agnostic.domain-loss.regularized-geometry', msg + f'; not of the form sums + (#batches)*r with sums {exp_dl.tolist()}, r {r}')
    if 'hyp' in g:
      s = case['split']
      for ci, rows in enumerate((list(range(0, s)), list(range(s, n)))):
        for k in (1, 2):
          lk, _, rk, _ = _closed(case, k)
          want = (lk[rows].mean() if rows else 0.0) + rk
          if not _near(g['hyp'][ci][k - 1], want):
            add('hyp-cluster.losses', f'{tag}: client {ci} cluster {k - 1} average loss {g["hyp"][ci][k - 1]}, closed form {want}')
  return out


# --------------------------------------------------------------------------
# Coq encoding

def _exact(case):
  """Exact per-row (loss, g1, g2, g3) for real rows; function for padded rows; r and grad r."""
  w = [Fraction(int(v), 4) for v in case['w']]
  b = _q(case['b'], case)

  def row(x1, x2, y):
    e = w[0] * x1 + w[1] * x2 + b - y
    return [e * e, 2 * e * x1, 2 * e * x2, 2 * e]
  if case['reg']:
    r, dr = _reg_terms(case['reg'], [w[0], w[1], b], Fraction)
  else:
    r, dr = None, [None] * 3
  real = [row(_q(x[0], case), _q(x[1], case), _q(y, case)) for x, y in zip(case['x'], case['y'])]
  return real, row, r, dr


def _oq(v):
  return 'None' if v is None else f'(Some {fw.qlit(v)})'


def _cell_vals(case, real, row, cells, coord):
  return [row(_q(c[0], case), _q(c[1], case), _q(c[2], case))[coord] if isinstance(c, list) else real[c][coord] for c in cells]


def _mask(cells):
  return fw.blist([not isinstance(c, list) for c in cells])


def encode(case, obs):
  if case.get('kind') == 'tree':
    return None
  if case.get('kind') == 'grid':
    if not all(math.isfinite(v) for v in obs['grid']):
      return None
    vals = fw.qlist([(Fraction(case['b'], 4) - Fraction(v, 4)) ** 2 for v in case['y']])
    return f'({fw.clist([f"(KGrid {case["lmax"]}%nat {vals}, {fw.qlist(obs["grid"])})"])}, tt)'
  if case.get('kind') == 'flags':
    return None
  if case.get('nonfinite'):
    return None     # the Coq model is over finite rationals; these cases are judged by the oracle
  if case.get('scale', 0) > 0:
    return None     # large magnitudes: cancellation errors are relative to the summands, not to the result (oracle only)
  if case.get('kind') == 'hyp':
    return None
  if case.get('kind') == 'lowp':
    return None
  if case.get('kind') == 'algo':
    return _encode_algo(case, obs)
  real, row, r, dr = _exact(case)
  items = []

  def finite(vs):
    return all(v is not None and math.isfinite(v) for v in vs)

  for geo, g in zip(case['geos'], obs['geos']):
    masked = g['masked']
    lay = g['layout']
    # gradient of the first batches, coordinate by coordinate
    for k, cells in enumerate(lay[:2]):
      if not finite(g['grad'][k]):
        return None
      for j in range(3):
        vals = fw.qlist(_cell_vals(case, real, row, cells, j + 1))
        m = f'(Some {_mask(cells)})' if masked else 'None'
        items.append(f'(KGrad {vals} {m} {_oq(dr[j])}, {fw.qlist([g["grad"][k][j]])})')
    # average loss (three entry points, one model value)
    if not finite(g['avg']):
      return None
    bs = fw.clist([f'({fw.qlist(_cell_vals(case, real, row, cells, 0))}, {"Some " + _mask(cells) if masked else "None"})' for cells in lay])
    items.append(f'(KAvg {bs} {_oq(r)}, {fw.qlist(g["avg"])})')
    if 'mime_server' in g:
      if not finite(g['mime_server']) or not all(finite(c) for c in g['mime_clients']):
        return None
      for j in range(3):
        cl = fw.clist([fw.clist([f'({fw.qlist(_cell_vals(case, real, row, cells, j + 1))}, {_mask(cells)})' for cells in clay])
                       for clay in g['mime_layout']])
        items.append(f'(KMime false {_oq(dr[j])} {cl}, {fw.qlist([g["mime_server"][j]])})')
      clay, co = g['mime_layout'][0], g['mime_clients'][0]
      j = 2
      bl = fw.clist([f'({fw.qlist(_cell_vals(case, real, row, cells, j + 1))}, {_mask(cells)})' for cells in clay])
      items.append(f'(KMimeClient {_oq(dr[j])} {bl}, {fw.qlist([co[j], co[3]])})')
    if 'domain' in g:
      d = g['domain']
      if not finite(d['loss'] + d['num']):
        return None
      bl = fw.clist([f'({fw.qlist(_cell_vals(case, real, row, cells, 0))}, {_mask(cells)}, '
                     f'({fw.zlist([c[3] if isinstance(c, list) else case["dom"][c] for c in cells])})%Z)' for cells in lay])
      items.append(f'(KDomain {ND}%nat {_oq(r)} {bl}, {fw.qlist(d["loss"] + d["num"])})')
  return f'({fw.clist(items)}, tt)'


def nontrivial(case, obs):
  if case.get('kind') == 'flags':
    return obs.get('ran', 0) > 0
  if case.get('kind') in ('algo', 'lowp', 'hyp', 'grid', 'tree'):
    return True
  for g in obs['geos']:
    cells = [c for b in g['layout'] for c in b]
    if len(g['layout']) >= 2 or (any(isinstance(c, list) for c in cells) and any(not isinstance(c, list) for c in cells)):
      return True
  return False


def describe(case, obs):
  if case.get('kind') in ('grid', 'tree'):
    return {'kind': case['kind']}
  if case.get('kind') == 'flags':
    return {'flags': json.dumps(case['env']), 'flag_cases_ran': obs.get('ran', 0)}
  if case.get('kind') == 'hyp':
    return {'hyp_order': '-'.join(case['order'])}
  if case.get('kind') == 'lowp':
    return {'lowp_dtype': case['dtype']}
  if case.get('kind') == 'algo':
    return {'algo_pattern': case['pattern'], 'reg': case['reg']}
  n = len(case['y'])
  d = {'rows': n, 'reg': case['reg'], 'geometries': len(case['geos'])}
  fully = sum(1 for g in obs['geos'] for b in g['layout'] if all(isinstance(c, list) for c in b))
  d['fully_padded_batches'] = min(fully, 3)
  d['split'] = 'empty-client' if case['split'] in (0, n) else 'two-clients'
  return d


def shrink(case):
  if case.get('kind') in ('grid', 'tree'):
    return
  if case.get('kind') == 'flags':
    return
  if case.get('kind') in ('lowp', 'hyp'):
    return
  if case.get('kind') == 'algo':
    if len(case['rounds']) > 1:
      yield {**case, 'rounds': case['rounds'][:1]}
    return
  n = len(case['y'])
  if len(case['geos']) > 2:
    for i in range(len(case['geos'])):
      yield {**case, 'geos': case['geos'][:i] + case['geos'][i + 1:]}
  # dropping a row is only safe for geometries that do not name rows
  if n > 0 and all(g[0] != 'hand' for g in case['geos']):
    for i in range(n):
      yield {**case, 'x': case['x'][:i] + case['x'][i + 1:], 'y': case['y'][:i] + case['y'][i + 1:],
             'dom': case['dom'][:i] + case['dom'][i + 1:], 'split': min(case['split'], n - 1)}
