"""C03 harness: ClientDataset.batch / padded_batch against the translated loops."""
import numpy as np
from lib import fw

PROP = 'C03'
COQ_HEADER = 'From FV Require Import Common.Batch Model.C03_Model.'
COQ_AGREE = 'C03_agree'
COQ_MODEL_TARGETS = ['Model/C03_Model']
RULE = ('grid over (N, batch_size, buckets) + random large N; features of 5 dtypes / trailing shapes, '
        'preprocessor chains of length 0..2; non-trivial = N > 0 (at least one batch); distinct = distinct case JSON')
TRUSTED = ['numpy slicing / np.zeros / np.arange semantics (exercised, not modelled)']
ASSUMPTIONS = ['batch preprocessors are per-example (row-wise) functions, as the property states',
               'batch_size >= 1 and buckets >= 1 (batch_size = 0 raises in range())']
CASE_TIMEOUT = 20


def generate(tier, rng):
  if tier == 'quick':
    grid = [(n, bs, nb) for n in range(0, 25) for bs in range(1, 10) for nb in range(1, 5)]
    nrand = 60
  elif tier == 'search':
    grid = [(n, bs, nb) for n in range(0, 70) for bs in range(1, 34) for nb in range(1, 8)]
    nrand = 300
  else:
    grid = [(n, bs, nb) for n in range(0, 41) for bs in range(1, 18) for nb in range(1, 7)]
    nrand = 400
  for i, (n, bs, nb) in enumerate(grid):
    yield {'n': n, 'bs': bs, 'nb': nb, 'chain': i % 3, 'kw': i % 2}
  for i in range(nrand):
    bs = rng.choice([1, 2, 3, 7, 8, 16, 31, 32, 64, 100, 128])
    n = rng.choice([rng.randrange(0, 6 * bs + 2), rng.randrange(0, 700)])
    yield {'n': n, 'bs': bs, 'nb': rng.randrange(1, 10), 'chain': rng.randrange(3), 'kw': rng.randrange(2)}


def _dataset(case):
  import fedjax
  n = case['n']
  ex = {
      'x': np.arange(n, dtype=np.int32),
      'img': (np.arange(n * 6, dtype=np.int64).reshape(n, 3, 2) % 251 + 1).astype(np.uint8),
      'h': (np.arange(n) + 1).astype(np.float16),
      'flag': np.ones((n,), dtype=np.bool_),
      'obj': np.array([b'r%d' % i for i in range(n)], dtype=object),
  }
  fns = [lambda e: {**e, 'y': e['x'] * 3 + 1}, lambda e: {**e, 'y': e['y'] * e['y'], 'z': e['h'] + 1}][:case['chain']]
  pre = fedjax.BatchPreprocessor(fns)
  return fedjax.ClientDataset(ex, pre), ex


def _snap(ex):
  return {k: (v.copy(), v.dtype, v.shape) for k, v in ex.items()}


def _batches(view):
  return [{k: np.array(v) for k, v in b.items()} for b in view]


def _same(b1, b2):
  if len(b1) != len(b2):
    return False
  for x, y in zip(b1, b2):
    if set(x) != set(y):
      return False
    for k in x:
      if x[k].dtype != y[k].dtype or x[k].shape != y[k].shape or not np.array_equal(x[k], y[k]):
        return False
  return True


def run(case):
  import fedjax
  ds, ex = _dataset(case)
  snap = _snap(ex)
  bs, nb = case['bs'], case['nb']
  if case['kw']:
    v_plain = ds.batch(batch_size=bs)
    v_drop = ds.batch(batch_size=bs, drop_remainder=True)
    v_pad = ds.padded_batch(batch_size=bs, num_batch_size_buckets=nb)
  else:
    v_plain = ds.batch(fedjax.BatchHParams(batch_size=bs))
    v_drop = ds.batch(fedjax.BatchHParams(batch_size=bs), drop_remainder=True)
    v_pad = ds.padded_batch(fedjax.PaddedBatchHParams(batch_size=bs, num_batch_size_buckets=nb))
  plain, drop, pad = _batches(v_plain), _batches(v_drop), _batches(v_pad)
  again = _same(plain, _batches(v_plain)) and _same(drop, _batches(v_drop)) and _same(pad, _batches(v_pad))
  mutated = any(not (np.array_equal(ex[k], s[0]) and ex[k].dtype == s[1] and ex[k].shape == s[2])
                for k, s in snap.items())
  M = fedjax.EXAMPLE_MASK_KEY
  feat_ok = True   # all features follow x row-wise; pads are zero with dtype / trailing shape kept
  for b in plain + drop:
    feat_ok &= _features_follow(b, b['x'], None, case)
  for b in pad:
    feat_ok &= (M in b and b[M].dtype == np.bool_ and _features_follow(b, b['x'], b[M], case))
  return {
      'plain': [b['x'].tolist() for b in plain],
      'drop': [b['x'].tolist() for b in drop],
      'padded': [[b['x'].tolist(), [bool(t) for t in b[M].tolist()]] if M in b else [b['x'].tolist(), []] for b in pad],
      'again': bool(again), 'mutated': bool(mutated), 'features_ok': bool(feat_ok),
  }


def _features_follow(b, x, mask, case):
  """Every feature of the batch is the row-wise image of column x (real rows) and
  exactly zero / b'' / False on padded rows, with dtype and trailing shape unchanged."""
  n = len(x)
  real = np.ones(n, bool) if mask is None else np.asarray(mask)
  if real.shape != (n,):
    return False
  xi = x.astype(np.int64)
  exp = {
      'x': (xi.astype(np.int32), np.int32, ()),
      'img': (((xi[:, None] * 6 + np.arange(6)[None, :]) % 251 + 1).reshape(n, 3, 2).astype(np.uint8), np.uint8, (3, 2)),
      'h': ((xi + 1).astype(np.float16), np.float16, ()),
      'flag': (np.ones(n, bool), np.bool_, ()),
  }
  if case['chain'] >= 1:
    exp['y'] = ((xi * 3 + 1).astype(np.int32), np.int32, ())
  if case['chain'] >= 2:
    y = (xi * 3 + 1).astype(np.int32)
    exp['y'] = (y * y, np.int32, ())
    exp['z'] = ((xi + 1).astype(np.float16) + np.float16(1), np.float16, ())
  want = set(exp) | {'obj'} | ({'__mask__'} if mask is not None else set())
  if set(b) != want:
    return False
  for k, (v, dt, tr) in exp.items():
    a = b[k]
    if a.dtype != dt or a.shape != (n,) + tr:
      return False
    if not np.array_equal(a[real], v[real]):
      return False
    if mask is not None and np.any(a[~real] != 0):
      return False
  o = b['obj']
  if o.dtype != object or o.shape != (n,):
    return False
  for i in range(n):
    if real[i] and o[i] != b'r%d' % int(xi[i]):
      return False
    if not real[i] and o[i] not in (0, b'', None):
      return False
  return True


def _minimal_bucket(n, bs, nb):
  rem = n % bs
  if rem == 0:
    return bs
  cands = []
  v = bs
  for _ in range(nb):
    cands.append(v)
    v //= 2
  return min(c for c in cands if c >= rem)


def oracle(case, obs):
  n, bs, nb = case['n'], case['bs'], case['nb']
  out = []
  rows = list(range(n))
  if [i for b in obs['plain'] for i in b] != rows:
    out.append(('plain-partition', 'batch(): batches do not concatenate to the dataset in order'))
  if any(len(b) != bs for b in obs['plain'][:-1]) or any(not (1 <= len(b) <= bs) for b in obs['plain']):
    out.append(('plain-sizes', 'batch(): a non-final batch is not batch_size rows, or an empty / oversized batch'))
  full = [b for b in obs['plain'] if len(b) == bs]
  if obs['drop'] != full or (len(obs['plain']) - len(obs['drop']) not in (0, 1)):
    out.append(('drop-remainder', 'drop_remainder removed something other than one incomplete final batch'))
  real = []
  for x, m in obs['padded']:
    if len(m) != len(x):
      out.append(('mask-shape', 'mask and rows differ in length'))
      break
    k = sum(m)
    if m != [True] * k + [False] * (len(m) - k):
      out.append(('mask-prefix', 'mask is not True on a prefix'))
    if any(v != 0 for v, t in zip(x, m) if not t):
      out.append(('pad-zero', 'padded rows are not zero'))
    real += [v for v, t in zip(x, m) if t]
  if real != rows:
    out.append(('padded-partition', 'padded_batch(): real rows do not concatenate to the dataset in order'))
  if any(len(x) != bs for x, _ in obs['padded'][:-1]):
    out.append(('padded-sizes', 'a non-final padded batch is not batch_size rows'))
  if obs['padded']:
    want = _minimal_bucket(n, bs, nb)
    if len(obs['padded'][-1][0]) != want:
      out.append(('final-size', f'final padded batch has {len(obs["padded"][-1][0])} rows, minimal bucket is {want}'))
  if len(obs['padded']) != -(-n // bs):
    out.append(('padded-count', 'wrong number of padded batches'))
  if not obs['again']:
    out.append(('reiterate', 'iterating the same view again gave different batches'))
  if obs['mutated']:
    out.append(('mutated', 'iteration mutated the dataset arrays'))
  if not obs['features_ok']:
    out.append(('features', 'a feature / preprocessed column does not follow its row, changed dtype or shape, or a padded row is not zero'))
  return out


def encode(case, obs):
  plain = fw.clist([fw.zlist(b) for b in obs['plain']])
  drop = fw.clist([fw.zlist(b) for b in obs['drop']])
  padded = fw.clist([f'({fw.zlist(x)}, {fw.blist(m)})' for x, m in obs['padded']])
  return (f'(mkC03 {case["n"]}%nat {case["bs"]}%Z {case["nb"]}%Z, mkO03 ({plain})%Z ({drop})%Z ({padded})%Z)')


def nontrivial(case, obs):
  return case['n'] > 0


def describe(case, obs):
  n, bs = case['n'], case['bs']
  return {'N_vs_bs': 'empty' if n == 0 else 'lt' if n < bs else 'eq' if n == bs else 'multiple' if n % bs == 0 else 'gt',
          'buckets': min(case['nb'], 6), 'chain': case['chain']}


def shrink(case):
  for k in ('n', 'bs', 'nb'):
    lo = 0 if k == 'n' else 1
    v = case[k]
    for c in sorted({lo, v // 2, v - 1}):
      if lo <= c < v:
        yield {**case, k: c}
  if case['chain']:
    yield {**case, 'chain': 0}
