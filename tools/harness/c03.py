"""C03 harness: ClientDataset.batch / padded_batch against the translated loops."""
import numpy as np
from lib import fw

PROP = 'C03'
COQ_HEADER = 'From FV Require Import Common.Batch Model.C03_Model.'
COQ_AGREE = 'C03_agree_any'
COQ_MODEL_TARGETS = ['Model/C03_Model']
RULE = ('exhaustive sweep of the final-batch-size rule: batch_size 1..256 x remainder 0..bs-1 x buckets 1..10 (329k triples; public padded_batch() observation for bs <= 40 quick / 96 thorough) against an independent minimal-bucket computation and, in Coq, against the translated function; '
        'grid over (N, batch_size, buckets) + random large N + datasets obtained by slicing a larger parent '
        '(d[a:b:c]: prefixes, suffixes, negative bounds, steps, reversed, empty, full); three call forms (hparams object, '
        'keywords, hparams object overridden by keywords); features of 12 dtypes / trailing shapes (int32 incl. values > 2^24, uint8[.,3,2], int8[.,1], float16, bfloat16, bool, object, S4, U3, datetime64[D], complex64), '
        'four call forms (+ the view classes directly), ints as python / NumPy scalar / 0-d array, fns as list / tuple / generator / iter / append(), '
        'raw_examples as dict / OrderedDict / mappingproxy; per case: every view twice, interleaved iterators, other views in between, kept results, direct helper calls; '
        'preprocessor chains of length 0..4 (incl. one function registered twice, not zero-preserving); slices of slices; bucket-boundary cases bs = r*2^k; a float32 column with NaN / inf / -0.0 on real rows; every raw column in 8 memory layouts (C, Fortran, every-other-row, negative stride, column of a wider array, read-only, byte-swapped, transposed view); non-trivial = N > 0 (at least one batch); distinct = distinct case JSON')
TRUSTED = ['numpy slicing / np.zeros / np.arange / slice-store semantics as read by Common/NpArr.v (exercised by the correspondence)',
           'per-dtype behaviour of np.zeros(shape, dtype) (rows are abstract in Coq; judged by the oracle on 12 feature kinds incl. fixed-width bytes / unicode, datetime64, complex64)']
ASSUMPTIONS = ['batch preprocessors are per-example (row-wise) functions, as the property states',
               'batch_size >= 1 and buckets >= 1 (batch_size = 0 raises in range())']
CASE_TIMEOUT = 20


def _slices(rng, k):
  """k (parent size, a, b, c) slices: prefixes, suffixes, negative bounds, steps, reversed, empty, full."""
  out = []
  for _ in range(k):
    p = rng.choice([rng.randrange(1, 12), rng.randrange(1, 40)])
    kind = rng.randrange(9)
    a = b = c = None
    if kind == 0:
      b = rng.randrange(0, p + 2)                       # d[:b]
    elif kind == 1:
      a = rng.randrange(0, p + 2)                       # d[a:]
    elif kind == 2:
      a = -rng.randrange(1, p + 2)                      # d[-k:]
    elif kind == 3:
      b = -rng.randrange(1, p + 2)                      # d[:-k]
    elif kind == 4:
      c = rng.choice([2, 3, 5])                         # d[::c]
      a = rng.choice([None, 1, 2])
    elif kind == 5:
      c = -rng.choice([1, 2, 3])                        # reversed / negative step
      a = rng.choice([None, p - 1, p // 2])
    elif kind == 6:
      a = rng.randrange(0, p + 1)
      b = rng.randrange(0, a + 1)                       # empty: b <= a
    elif kind == 7:
      a, b = sorted([rng.randrange(-p, p + 1), rng.randrange(-p, p + 1)])
      c = rng.choice([None, 1, 2])
    out.append([p, a, b, c])                             # kind 8: the full slice d[:]
  return out


def _sel(sl, sl2=None):
  """Rows a slice (and a second slice of the sliced dataset) selects, computed on a plain
  python range (independent of numpy / fedjax)."""
  p, a, b, c = sl
  r = range(p)[slice(a, b, c)]
  if sl2:
    r = r[slice(*sl2)]
  return list(r)


def generate(tier, rng):
  if tier == 'quick':
    grid = [(n, bs, nb) for n in range(0, 25) for bs in range(1, 10) for nb in range(1, 5)]
    nrand, nslice = 60, 260
  elif tier == 'search':
    grid = [(n, bs, nb) for n in range(0, 70) for bs in range(1, 34) for nb in range(1, 8)]
    nrand, nslice = 300, 1500
  else:
    grid = [(n, bs, nb) for n in range(0, 41) for bs in range(1, 18) for nb in range(1, 7)]
    nrand, nslice = 400, 1500
  # exhaustive sweep of the final-batch-size rule: every batch_size up to 256, every remainder 0..bs-1,
  # every bucket count 1..10, in chunks of 16 batch sizes
  for lo in range(1, 257, 16):
    yield {'pick_sweep': [lo, lo + 15, 10, 40 if tier == 'quick' else 96]}
  # the smallest sliced datasets first (a cached parent length shows on d[:k] with batch_size < parent size)
  for p in range(1, 5):
    for b in range(0, p + 1):
      for bs in (1, 2, 3):
        yield {'n': len(_sel([p, None, b, None])), 'bs': bs, 'nb': 1 + (p + b) % 3, 'chain': (p + b + bs) % 3,
               'kw': (p + bs) % 4, 'slice': [p, None, b, None], 'deliv': p + 5 * b + bs, 'layout': (p + b + 3 * bs) % 8}
  for i, (n, bs, nb) in enumerate(grid):
    yield {'n': n, 'bs': bs, 'nb': nb, 'chain': i % 4, 'kw': (i // 4) % 4, 'deliv': i // 16, 'layout': (i // 3) % 8}
  for i in range(nrand):
    bs = rng.choice([1, 2, 3, 7, 8, 16, 31, 32, 64, 100, 128])
    n = rng.choice([rng.randrange(0, 6 * bs + 2), rng.randrange(0, 700)])
    yield {'n': n, 'bs': bs, 'nb': rng.randrange(1, 10), 'chain': rng.randrange(4), 'kw': rng.randrange(4),
           'deliv': rng.randrange(60), 'layout': rng.randrange(8)}
  for j, sl in enumerate(_slices(rng, nslice)):
    sl2 = None
    if j % 3 == 0:      # a view of a view: slice the sliced dataset again
      sl2 = rng.choice([[None, None, -1], [1, None, None], [None, -1, None], [None, None, 2], [0, 3, None]])
    n = len(_sel(sl, sl2))
    bs = rng.choice([1, 2, 3, rng.randrange(1, max(2, n + 3)), rng.randrange(1, sl[0] + 2)])
    yield {'n': n, 'bs': bs, 'nb': rng.randrange(1, 6), 'chain': rng.randrange(4), 'kw': rng.randrange(4), 'slice': sl,
           'deliv': rng.randrange(60), 'layout': rng.randrange(8), **({'slice2': sl2} if sl2 else {})}
  # bucket boundaries: batch_size = r * 2^k (r odd), remainder within one of r * 2^j, exactly enough buckets
  # to reach that bucket (a halving count computed in floating point is off exactly here)
  odd = [3, 5, 7, 13, 37, 69, 133] if tier == 'quick' else list(range(3, 152, 2))
  for r in odd:
    for k in (1, 2, 3):
      bs = r << k
      for jj in range(0, k + 1):
        for d in (-1, 0, 1):
          rem = (r << jj) + d
          if 0 < rem < bs:
            yield {'n': rem + (bs if (r + jj + d) % 4 == 0 else 0), 'bs': bs, 'nb': k - jj + 1 + (d + 1) // 2,
                   'chain': (r + d) % 4, 'kw': (r + k + jj) % 4, 'deliv': r + 7 * k + jj, 'layout': (r + k + d) % 8}


def _rows(case):
  """Row ids (values of column x) of the dataset under test, in order."""
  return _sel(case['slice'], case.get('slice2')) if case.get('slice') else list(range(case['n']))


def _scalar(v, form):
  """An int delivered as a python int / NumPy scalar / 0-d array (all have __index__)."""
  return [int(v), np.int64(v), np.array(v, dtype=np.int32)][form % 3]


_F1 = lambda e: {**e, 'y': e['x'] * 3 + 1}                                 # noqa: E731
_F2 = lambda e: {**e, 'y': e['y'] * e['y'], 'z': e['h'] + 1}               # noqa: E731


_G = lambda e: {**e, 'w': e.get('w', e['x']) * 2 + 1}                    # noqa: E731  (applied twice: w = 4x + 3)


class _Flaky:
  """Identity batch function that raises RuntimeError exactly once, on its j-th call."""

  def __init__(self, j):
    self.j, self.calls = j, 0

  def __call__(self, e):
    self.calls += 1
    if self.calls == self.j:
      raise RuntimeError('flaky preprocessor')
    return e


def _preprocessor(case, flaky=None):
  """The chain of `chain` functions, delivered as list / tuple / generator / iter(list) / built with append()."""
  import fedjax
  fns = [_F1, _F2, _G, _G][:case['chain'] + (case['chain'] == 3)] + ([flaky] if flaky else [])
  form = (case.get('deliv', 0) // 3) % 5
  if form == 0:
    return fedjax.BatchPreprocessor(fns), fns
  if form == 1:
    return fedjax.BatchPreprocessor(tuple(fns)), fns
  if form == 2:
    return fedjax.BatchPreprocessor(f for f in fns), fns
  if form == 3:
    return fedjax.BatchPreprocessor(iter(fns)), fns
  pre = fedjax.BatchPreprocessor()
  for f in fns:
    pre = pre.append(f)
  return pre, fns


LAYOUTS = ['C', 'fortran', 'every-other-row', 'negative-stride', 'column-of-wider', 'read-only', 'byte-swapped', 'transposed']


def _layout(a, mode):
  """The same values in another memory layout (WAVE5 item 1)."""
  n = a.shape[0]
  if mode == 1 and a.ndim >= 2:
    return np.asfortranarray(a)
  if mode == 2:
    big = np.zeros((2 * n,) + a.shape[1:], a.dtype)
    big[::2] = a
    return big[::2]
  if mode == 3:
    return np.ascontiguousarray(a[::-1])[::-1]
  if mode == 4:
    wide = np.zeros(a.shape + (3,), a.dtype)
    wide[..., 1] = a
    return wide[..., 1]
  if mode == 5:
    c = a.copy()
    c.flags.writeable = False
    return c
  if mode == 6 and _swappable(a.dtype):
    return a.astype(a.dtype.newbyteorder())
  if mode == 7 and a.ndim >= 2:
    rev = tuple(range(a.ndim))[::-1]
    return np.ascontiguousarray(a.transpose(rev)).transpose(rev)
  return a


def _swappable(dt):
  dt = np.dtype(dt)
  return dt.kind in 'iufc' and dt.itemsize > 1


def _raw_dt(case, dt):
  """dtype a RAW column must keep in every batch (byte order included)."""
  dt = np.dtype(dt)
  return dt.newbyteorder() if case.get('layout', 0) == 6 and _swappable(dt) else dt


def _nanf(i):
  """float32 column with non-finite values on real rows: i%5 == 0 NaN, 1 +inf, 2 -inf, 3 -0.0, 4 i+0.5."""
  i = np.asarray(i, dtype=np.int64)
  v = (i + 0.5).astype(np.float32)
  v[i % 5 == 0], v[i % 5 == 1], v[i % 5 == 2], v[i % 5 == 3] = np.nan, np.inf, -np.inf, -0.0
  return v


def _bf16():
  import jax.numpy as jnp
  return np.dtype(jnp.bfloat16)


_BIG = (1 << 24) + 1      # int32 values that float32 cannot represent


def _dataset(case, flaky=None):
  """Returns (dataset under test, arrays of the dataset it was built from, the mapping
  handed to the constructor).  With a `slice` the dataset under test is parent[a:b:c] of a
  parent with `slice[0]` rows.  The mapping is a dict / OrderedDict / read-only mappingproxy."""
  import collections
  import types
  import fedjax
  n = case['slice'][0] if case.get('slice') else case['n']
  ex = {
      'x': np.arange(n, dtype=np.int32),
      'img': (np.arange(n * 6, dtype=np.int64).reshape(n, 3, 2) % 251 + 1).astype(np.uint8),
      'h': (np.arange(n) + 1).astype(np.float16),
      'flag': np.ones((n,), dtype=np.bool_),
      'obj': np.array([b'r%d' % i for i in range(n)], dtype=object),
      # fixed-width string / datetime / complex columns: their zero value is b'' / '' / epoch / 0j, not "0"
      's4': np.array([b'r%d' % (i % 1000) for i in range(n)], dtype='S4'),
      'u3': np.array(['u%d' % (i % 100) for i in range(n)], dtype='U3'),
      'day': (np.arange(n) + 11000).astype('datetime64[D]'),
      'cplx': ((np.arange(n) + 1) + 2j).astype(np.complex64),
      'i8': (np.arange(n) % 100 - 50).astype(np.int8).reshape(n, 1),
      'bf': (np.arange(n) % 64 + 1).astype(_bf16()),
      'big': (np.arange(n, dtype=np.int64) + _BIG).astype(np.int32),
      'nanf': _nanf(np.arange(n)),       # NaN / +inf / -inf / -0.0 on REAL rows
  }
  ex = {k: _layout(v, case.get('layout', 0)) for k, v in ex.items()}
  pre, _ = _preprocessor(case, flaky)
  form = (case.get('deliv', 0) // 15) % 3
  given = ex if form == 0 else collections.OrderedDict(ex) if form == 1 else types.MappingProxyType(ex)
  ds = fedjax.ClientDataset(given, pre)
  if case.get('slice'):
    _, a, b, c = case['slice']
    ds = ds[slice(a, b, c)]
    if case.get('slice2'):
      ds = ds[slice(*case['slice2'])]
  return ds, ex, given


def _snap(ex):
  return {k: (v.copy(), v.dtype, v.shape) for k, v in ex.items()}


def _batches(view):
  return [{k: np.array(v) for k, v in b.items()} for b in view]


def _eq(a, b):
  """Array equality; bitwise for non-object dtypes (NaN == NaN, -0.0 != 0.0)."""
  a, b = np.asarray(a), np.asarray(b)
  if a.dtype != b.dtype or a.shape != b.shape:
    return False
  if a.dtype == object:
    return bool(np.array_equal(a, b))
  return np.ascontiguousarray(a).tobytes() == np.ascontiguousarray(b).tobytes()


def _same(b1, b2):
  if len(b1) != len(b2):
    return False
  for x, y in zip(b1, b2):
    if set(x) != set(y):
      return False
    for k in x:
      if not _eq(x[k], y[k]):
        return False
  return True


def _views(ds, case):
  """(plain, drop_remainder, padded) views of ds through the case's call form:
  0 hparams object, 1 keywords, 2 hparams object overridden by keywords, 3 the view classes directly.
  Returns the views and the hparams objects handed in (with copies taken before the call)."""
  import copy
  import fedjax
  from fedjax.core import client_datasets as cd
  f = case.get('deliv', 0)
  bs, nb = _scalar(case['bs'], f), _scalar(case['nb'], f + 1)
  kw = int(case['kw'])
  hps = []

  def hp(x):
    hps.append((x, copy.deepcopy(x)))
    return x
  if kw == 2:
    # override form: a base hparams object that differs in every field + keyword overrides
    v_plain = ds.batch(hp(fedjax.BatchHParams(batch_size=case['bs'] + 3, drop_remainder=True)), batch_size=bs, drop_remainder=False)
    v_drop = ds.batch(hp(fedjax.BatchHParams(batch_size=case['bs'] + 3, drop_remainder=False)), batch_size=bs, drop_remainder=True)
    v_pad = ds.padded_batch(hp(fedjax.PaddedBatchHParams(batch_size=case['bs'] + 3, num_batch_size_buckets=case['nb'] + 2)),
                            batch_size=bs, num_batch_size_buckets=nb)
  elif kw == 1:
    v_plain = ds.batch(batch_size=bs)                       # drop_remainder left to its default
    v_drop = ds.batch(batch_size=bs, drop_remainder=True)
    # a value equal to the documented default is left out, so the default itself is exercised
    v_pad = ds.padded_batch(batch_size=bs) if case['nb'] == 1 else ds.padded_batch(batch_size=bs, num_batch_size_buckets=nb)
  elif kw == 3:
    v_plain = cd.BatchView(ds, hp(fedjax.BatchHParams(batch_size=bs)))
    v_drop = cd.BatchView(ds, hp(fedjax.BatchHParams(batch_size=bs, drop_remainder=True)))
    v_pad = cd.PaddedBatchView(ds, hp(fedjax.PaddedBatchHParams(batch_size=bs, num_batch_size_buckets=nb)))
  else:
    shared = hp(fedjax.BatchHParams(batch_size=bs))       # one hparams object used for two views
    v_plain = ds.batch(shared)
    v_drop = ds.batch(shared, drop_remainder=True)
    v_pad = ds.padded_batch(hp(fedjax.PaddedBatchHParams(batch_size=bs) if case['nb'] == 1 else
                               fedjax.PaddedBatchHParams(batch_size=bs, num_batch_size_buckets=nb)))
  return v_plain, v_drop, v_pad, hps


def _keep(view):
  """The batches exactly as yielded (no copy) together with a deep snapshot."""
  raw = list(view)
  return raw, [{k: np.array(v, copy=True) for k, v in b.items()} for b in raw]


def _helpers_ok(ds, case):
  """pad_examples / attach_mask / slice_examples / num_examples called directly."""
  from fedjax.core import client_datasets as cd
  M = cd.EXAMPLE_MASK_KEY
  n = len(_rows(case))
  k = min(n, 3)
  if k == 0:
    return True
  ex = cd.slice_examples(ds.raw_examples, slice(0, k))
  if cd.num_examples(ex) != k or set(ex) != set(ds.raw_examples):
    return False
  ok = True
  for size in (k, k + 1, k + case['nb']):
    p = cd.pad_examples(ex, size)
    ok &= set(p) == set(ex) | {M} and p[M].dtype == np.bool_ and p[M].tolist() == [True] * k + [False] * (size - k)
    for name, v in ex.items():
      a = p[name]
      ok &= a.dtype == v.dtype and a.shape == (size,) + v.shape[1:] and _eq(a[:k], v)
      if v.dtype != object:
        ok &= bool(np.array_equal(a[k:], np.zeros((size - k,) + v.shape[1:], v.dtype)))
    for bad in (lambda: cd.pad_examples(p, size + 1), lambda: cd.attach_mask(p, p[M])):   # mask key already present
      try:
        bad()
        ok = False
      except ValueError:
        pass
  try:
    cd.pad_examples(ex, k - 1)       # more rows than the requested size
    ok = False
  except ValueError:
    pass
  # malformed inputs: columns with different row counts (shorter or longer than the first), no column at all
  for bad in ({'a': np.zeros(k), 'b': np.zeros(k + 1)}, {'a': np.zeros(k + 1), 'b': np.zeros(k), 'c': np.zeros(k + 1)}, {}):
    for call in (cd.assert_consistent_rows, cd.num_examples, cd.ClientDataset):
      try:
        call(bad)
        ok = False
      except ValueError:
        pass
  ok &= cd.num_examples({'a': np.zeros(k), 'b': np.zeros(k + 1)}, validate=False) == k
  m = np.arange(k) % 2 == 0
  am = cd.attach_mask(ex, m)
  ok &= set(am) == set(ex) | {M} and am[M] is m and all(am[name] is ex[name] for name in ex) and M not in ex
  return bool(ok)


def _rle(xs):
  out = []
  for v in xs:
    if out and out[-1][0] == v:
      out[-1][1] += 1
    else:
      out.append([v, 1])
  return out


def _run_pick_sweep(case):
  """_pick_final_batch_size(rem, bs, nb) for the whole chunk (the anchored function is called
  directly: stated use of a private function; the repository's own tests do the same), plus,
  for batch sizes up to `pub`, the PUBLIC observation: the number of rows of the last batch of
  padded_batch() over a dataset of `rem` rows.  If the private function is gone the public
  observation is used for the whole chunk."""
  import fedjax
  from fedjax.core import client_datasets as cd
  lo, hi, nbhi, pub = case['pick_sweep']
  f = getattr(cd, '_pick_final_batch_size', None)
  M = fedjax.EXAMPLE_MASK_KEY
  dss = {}

  def public(rem, bs, nb):
    if rem == 0:
      return bs      # no batch at all: nothing to observe, the rule says "no padding necessary"
    if rem not in dss:
      dss[rem] = fedjax.ClientDataset({'x': np.arange(rem, dtype=np.int32)})
    last = list(dss[rem].padded_batch(batch_size=bs, num_batch_size_buckets=nb))[-1]
    return int(last[M].shape[0]) if last[M].shape[0] == last['x'].shape[0] else -1
  rows, mismatch = [], None
  for bs in range(lo, hi + 1):
    for nb in range(1, nbhi + 1):
      row = []
      for rem in range(bs):
        v = int(f(rem, bs, nb)) if f is not None else public(rem, bs, nb)
        if f is not None and bs <= pub and mismatch is None:
          pv = public(rem, bs, nb)
          if pv != v:
            mismatch = [rem, bs, nb, v, pv]
        row.append(v)
      rows.append(_rle(row))
  return {'runs': rows, 'public_mismatch': mismatch}


def _oracle_pick_sweep(case, obs):
  lo, hi, nbhi, _ = case['pick_sweep']
  j = 0
  for bs in range(lo, hi + 1):
    for nb in range(1, nbhi + 1):
      got = [v for v, c in obs['runs'][j] for _ in range(c)] if j < len(obs['runs']) else []
      j += 1
      for rem in range(bs):
        want = _minimal_bucket(rem, bs, nb)
        if rem >= len(got) or got[rem] != want:
          g = got[rem] if rem < len(got) else None
          return [('final-size', f'remainder {rem}, batch_size {bs}, {nb} buckets: final batch size {g}, minimal bucket is {want}')]
  if obs['public_mismatch']:
    rem, bs, nb, v, pv = obs['public_mismatch']
    return [('final-size', f'remainder {rem}, batch_size {bs}, {nb} buckets: padded_batch() pads the last batch to {pv} rows, the size rule gives {v}')]
  return []


ABANDON = ['peek', 'break-after-1', 'break-after-k', 'close', 'raise-on-call-1', 'raise-on-call-2', 'two-abandons',
           'abandon-then-interleave']


def _abandon(view, how, k):
  """A first use of `view` that is abandoned early."""
  import itertools
  if how == 'peek':
    next(iter(view), None)
  elif how in ('break-after-1', 'break-after-k'):
    stop = 1 if how == 'break-after-1' else k
    for i, _ in enumerate(view):
      if i + 1 >= stop:
        break
  elif how == 'close':
    it = iter(view)
    next(it, None)
    it.close()
  elif how in ('raise-on-call-1', 'raise-on-call-2'):
    try:
      for _ in view:          # the dataset's flaky preprocessor raises on its 1st / 2nd call
        pass
    except RuntimeError:
      pass
  elif how == 'two-abandons':
    next(iter(view), None)
    list(itertools.islice(iter(view), k))
  elif how == 'abandon-then-interleave':
    next(iter(view), None)


def _abandoned_ok(case, plain, drop, pad):
  """Error recovery / abandoned passes (round 6): a FRESH view whose first use is abandoned after 0, 1, k
  batches (peek, break, generator close, an exception of the preprocessor caught by the caller, twice in a
  row, followed by interleaving) must afterwards give a complete pass equal to an undisturbed view's pass.
  Two scenarios per case (rotating with `deliv`), on the plain, drop_remainder and padded views."""
  ok = True
  refs = (plain, drop, pad)
  for j in range(2):
    how = ABANDON[(case.get('deliv', 0) + 4 * j + case['bs']) % len(ABANDON)]
    flaky = _Flaky(1 if how == 'raise-on-call-1' else 2) if how.startswith('raise') else None
    ds, _, _ = _dataset(case, flaky)
    views = _views(ds, case)[:3]
    for v, ref in zip(views, refs):
      if flaky:
        flaky.calls, flaky.j = 0, (1 if how == 'raise-on-call-1' else 2)
      _abandon(v, how, max(len(ref) // 2, 1))
      if flaky:
        flaky.j = -1          # disarmed: it raised (or the pass was too short to reach its j-th call)
      if how == 'abandon-then-interleave':
        z = list(zip(v, v))
        ok &= _same([dict(a) for a, _ in z], ref) and _same([dict(b) for _, b in z], ref)
      ok &= _same(_batches(v), ref)
    if flaky:       # the dataset entry point itself: all_examples after a caught exception
      flaky.calls, flaky.j = 0, 1
      try:
        ds.all_examples()
        ok = False
      except RuntimeError:
        pass
      ok &= ds.all_examples()['x'].tolist() == _rows(case)
  return bool(ok)


def _sentinel_ok(case):
  """A user feature named like the internal mask key is an ordinary feature for batch() / all_examples()."""
  import fedjax
  n = min(len(_rows(case)), 9)
  M = fedjax.EXAMPLE_MASK_KEY
  ex = {'x': np.arange(n, dtype=np.int32), M: np.arange(n, dtype=np.int32) + 5}
  ds = fedjax.ClientDataset(ex, fedjax.BatchPreprocessor([lambda e: {**e, 'y': e[M] * 2}]))
  got = list(ds.batch(batch_size=case['bs']))
  ok = [int(i) for b in got for i in b['x'].tolist()] == list(range(n))
  ok &= all(set(b) == {'x', M, 'y'} and np.array_equal(b[M], b['x'] + 5) and np.array_equal(b['y'], 2 * b[M]) for b in got)
  if n:
    a = ds.all_examples()
    ok &= np.array_equal(a[M], np.arange(n) + 5) and np.array_equal(a['x'], np.arange(n))
  return bool(ok)


def run(case):
  if 'pick_sweep' in case:
    return _run_pick_sweep(case)
  import itertools
  import fedjax
  ds, ex, given = _dataset(case)
  snap = _snap(ex)
  ids = {k: id(v) for k, v in ex.items()}
  v_plain, v_drop, v_pad, hps = _views(ds, case)
  raw_plain, plain = _keep(v_plain)
  raw_pad, pad = _keep(v_pad)
  drop = _batches(v_drop)
  again = _same(plain, _batches(v_plain)) and _same(drop, _batches(v_drop)) and _same(pad, _batches(v_pad))
  M = fedjax.EXAMPLE_MASK_KEY
  feat_ok, why = True, set()   # all features follow x row-wise; pads are zero with dtype / trailing shape kept
  for b in plain + drop:
    feat_ok &= _features_follow(b, b['x'], None, case, why)
  for b in pad:
    feat_ok &= (M in b and b[M].dtype == np.bool_ and _features_follow(b, b['x'], b[M], case, why))
  try:
    allx = {k: np.array(v) for k, v in ds.all_examples().items()}
    all_rows = allx['x'].tolist()
    feat_ok &= _features_follow(allx, allx['x'], None, case, why)
  except ValueError:     # an empty chain result etc. is not expected: reported by the oracle
    all_rows = None
  # -- interleaving (WAVE3 item 5): two live iterators over one view, iterators over different views of
  #    the same dataset advanced alternately, one pass consumed in pieces with a bare iter() in between
  inter = True
  za = list(zip(v_plain, v_plain))
  inter &= _same([dict(a) for a, _ in za], plain) and _same([dict(b) for _, b in za], plain)
  its = [iter(v_pad), iter(v_plain), iter(v_pad)]
  got = [[], [], []]
  for _ in range(max(len(pad), len(plain)) + 1):
    for it, g in zip(its, got):
      for b in itertools.islice(it, 1):
        g.append({k: np.array(v) for k, v in b.items()})
  inter &= _same(got[0], pad) and _same(got[1], plain) and _same(got[2], pad)
  it = iter(v_pad)
  first = [{k: np.array(v) for k, v in b.items()} for b in itertools.islice(it, 1)]
  iter(v_pad)                       # a bare iter() in between must not disturb the running pass
  next(iter(v_plain), None)
  rest = [{k: np.array(v) for k, v in b.items()} for b in it]
  inter &= _same(first + rest, pad)
  # -- hidden state (item 3): other views with other hparams from the same dataset, a second dataset over the
  #    same arrays and preprocessor, then the first-built views once more and fresh ones
  hidden = True
  other = _batches(ds.padded_batch(batch_size=case['bs'] + 1, num_batch_size_buckets=case['nb'] + 1))
  other2 = _batches(ds.batch(batch_size=case['bs'] + 2))
  hidden &= [i for b in other2 for i in b['x'].tolist()] == _rows(case)
  hidden &= [int(i) for b in other for i, t in zip(b['x'].tolist(), b[M].tolist()) if t] == _rows(case)
  hidden &= _same(plain, _batches(v_plain)) and _same(pad, _batches(v_pad)) and _same(drop, _batches(v_drop))
  ds2, _, _ = _dataset(case)
  f_plain, f_drop, f_pad, _ = _views(ds2, case)
  hidden &= _same(plain, _batches(f_plain)) and _same(pad, _batches(f_pad)) and _same(drop, _batches(f_drop))
  # -- caller-owned data (item 4): results kept by the caller, containers, hparams objects
  kept = _same([dict(b) for b in raw_plain], plain) and _same([dict(b) for b in raw_pad], pad)
  mutated = any(not (_eq(ex[k], s[0]) and ex[k].dtype == s[1] and ex[k].shape == s[2]) for k, s in snap.items())
  container = set(ex) == set(snap) and all(id(ex[k]) == ids[k] for k in ex) and list(given) == list(snap)
  if not case.get('slice'):
    container &= ds.raw_examples is given
  container &= all(a == b for a, b in hps)
  container &= len(_preprocessor(case)[1]) == case['chain'] + (case['chain'] == 3)
  return {
      'len': int(len(ds)), 'all': all_rows,
      'plain': [b['x'].tolist() for b in plain],
      'drop': [b['x'].tolist() for b in drop],
      'padded': [[b['x'].tolist(), [bool(t) for t in b[M].tolist()]] if M in b else [b['x'].tolist(), []] for b in pad],
      'again': bool(again), 'mutated': bool(mutated), 'features_ok': bool(feat_ok), 'feature_faults': sorted(why),
      'interleaved': bool(inter), 'hidden': bool(hidden), 'kept': bool(kept), 'container': bool(container),
      'abandoned': _abandoned_ok(case, plain, drop, pad),
      'helpers': _helpers_ok(ds, case), 'sentinel': _sentinel_ok(case) if case.get('deliv', 0) % 4 == 0 else True,
  }


def _features_follow(b, x, mask, case, why=None):
  """Every feature of the batch is the row-wise image of column x (real rows) and
  exactly zero / b'' / False on padded rows, with dtype and trailing shape unchanged.
  `why` collects which clause fails: 'keys', 'dtype-shape', 'value', 'pad'."""
  def no(reason):
    if why is not None:
      why.add(reason)
    return False
  n = len(x)
  real = np.ones(n, bool) if mask is None else np.asarray(mask)
  if real.shape != (n,):
    return no('dtype-shape')
  xi = x.astype(np.int64)
  raw = {
      'x': (xi.astype(np.int32), np.int32, ()),
      'img': (((xi[:, None] * 6 + np.arange(6)[None, :]) % 251 + 1).reshape(n, 3, 2).astype(np.uint8), np.uint8, (3, 2)),
      'h': ((xi + 1).astype(np.float16), np.float16, ()),
      'flag': (np.ones(n, bool), np.bool_, ()),
      's4': (np.array([b'r%d' % (int(i) % 1000) for i in xi], dtype='S4').reshape(n), np.dtype('S4'), ()),
      'u3': (np.array(['u%d' % (int(i) % 100) for i in xi], dtype='U3').reshape(n), np.dtype('U3'), ()),
      'day': ((xi + 11000).astype('datetime64[D]'), np.dtype('datetime64[D]'), ()),
      'cplx': (((xi + 1) + 2j).astype(np.complex64), np.complex64, ()),
      'i8': ((xi % 100 - 50).astype(np.int8).reshape(n, 1), np.int8, (1,)),
      'bf': ((xi % 64 + 1).astype(_bf16()), _bf16(), ()),
      'big': ((xi + _BIG).astype(np.int32), np.int32, ()),
      'nanf': (_nanf(xi), np.float32, ()),
  }
  exp = {k: (v, _raw_dt(case, dt), tr) for k, (v, dt, tr) in raw.items()}    # raw columns keep their byte order
  if case['chain'] >= 1:
    exp['y'] = ((xi * 3 + 1).astype(np.int32), np.dtype(np.int32), ())
  if case['chain'] >= 2:
    y = (xi * 3 + 1).astype(np.int32)
    exp['y'] = (y * y, np.dtype(np.int32), ())
    exp['z'] = ((xi + 1).astype(np.float16) + np.float16(1), np.dtype(np.float16), ())
  if case['chain'] >= 3:
    exp['w'] = ((xi * 4 + 3).astype(np.int32), np.dtype(np.int32), ())
  want = set(exp) | {'obj'} | ({'__mask__'} if mask is not None else set())
  if set(b) != want:
    return no('keys')
  ok = True
  for k, (v, dt, tr) in exp.items():
    a = b[k]
    if a.dtype != dt or a.shape != (n,) + tr:
      ok = no('dtype-shape')
      continue
    if k == 'nanf':      # bitwise: NaN, the infinities and the sign of zero must survive on real rows
      if not np.array_equal(np.ascontiguousarray(a[real]).astype(np.float32).view(np.uint32),
                            np.ascontiguousarray(v[real]).view(np.uint32)):
        ok = no('value')
    elif not np.array_equal(a[real], v[real]):
      ok = no('value')
    # padded rows hold the dtype's own zero value (0, False, b'', '', epoch, 0j): what np.zeros gives
    pad = a[~real]
    if mask is not None and not np.array_equal(pad, np.zeros(pad.shape, dt)):
      ok = no('pad')
    if mask is not None and k == 'nanf' and np.any(np.signbit(pad.astype(np.float32))):
      ok = no('pad')
  o = b['obj']
  if o.dtype != object or o.shape != (n,):
    return no('dtype-shape')
  for i in range(n):
    if real[i] and o[i] != b'r%d' % int(xi[i]):
      ok = no('value')
    if not real[i] and o[i] not in (0, b'', None):
      ok = no('pad')
  return ok


def _minimal_bucket(n, bs, nb):
  rem = n % bs
  if rem == 0:
    return bs
  cands = []
  v = bs
  for _ in range(nb):
    cands.append(v)
    v //= 2
  return min(c for c in cands if c >= rem)


def oracle(case, obs):
  if 'pick_sweep' in case:
    return _oracle_pick_sweep(case, obs)
  bs, nb = case['bs'], case['nb']
  out = []
  rows = _rows(case)
  n = len(rows)
  if obs.get('len', n) != n:
    out.append(('dataset-len', f'len(dataset) = {obs["len"]}, the dataset has {n} examples'))
  if 'all' in obs and obs['all'] != rows:
    out.append(('all-examples', 'all_examples() is not the preprocessed dataset in order'))
  if [i for b in obs['plain'] for i in b] != rows:
    out.append(('plain-partition', 'batch(): batches do not concatenate to the dataset in order'))
  if any(len(b) != bs for b in obs['plain'][:-1]) or any(not (1 <= len(b) <= bs) for b in obs['plain']):
    out.append(('plain-sizes', 'batch(): a non-final batch is not batch_size rows, or an empty / oversized batch'))
  full = [b for b in obs['plain'] if len(b) == bs]
  if obs['drop'] != full or (len(obs['plain']) - len(obs['drop']) not in (0, 1)):
    out.append(('drop-remainder', 'drop_remainder removed something other than one incomplete final batch'))
  real = []
  for x, m in obs['padded']:
    if len(m) != len(x):
      out.append(('mask-shape', 'mask and rows differ in length'))
      break
    k = sum(m)
    if m != [True] * k + [False] * (len(m) - k):
      out.append(('mask-prefix', 'mask is not True on a prefix'))
    if any(v != 0 for v, t in zip(x, m) if not t):
      out.append(('pad-zero', 'padded rows are not zero'))
    real += [v for v, t in zip(x, m) if t]
  if real != rows:
    out.append(('padded-partition', 'padded_batch(): real rows do not concatenate to the dataset in order'))
  if any(len(x) != bs for x, _ in obs['padded'][:-1]):
    out.append(('padded-sizes', 'a non-final padded batch is not batch_size rows'))
  if obs['padded']:
    want = _minimal_bucket(n, bs, nb)
    if len(obs['padded'][-1][0]) != want:
      out.append(('final-size', f'final padded batch has {len(obs["padded"][-1][0])} rows, minimal bucket is {want}'))
  if len(obs['padded']) != -(-n // bs):
    out.append(('padded-count', 'wrong number of padded batches'))
  if not obs['again']:
    out.append(('reiterate', 'iterating the same view again gave different batches'))
  if obs['mutated']:
    out.append(('mutated', 'iteration mutated the dataset arrays'))
  if not obs.get('interleaved', True):
    out.append(('interleaved-iterators', 'two live iterators over one view / iterators over several views of one dataset '
                'advanced alternately / a pass consumed in pieces do not reproduce the sequential pass'))
  if not obs.get('hidden', True):
    out.append(('hidden-state', 'after building and iterating other views (other hparams) of the same dataset, the first-built '
                'views, or fresh views over the same inputs, no longer give the same batches'))
  if not obs.get('kept', True):
    out.append(('kept-results', 'batches kept by the caller changed after later iterations'))
  if not obs.get('container', True):
    out.append(('container', 'the raw_examples mapping (keys / array identities), an hparams object or the function '
                'container handed in was changed'))
  if not obs.get('abandoned', True):
    out.append(('abandoned-pass', 'after a first use that was abandoned early (peek / break / close / a caught exception of the '
                'preprocessor / twice / followed by interleaving) a complete pass over the same view differs from an undisturbed pass'))
  if not obs.get('sentinel', True):
    out.append(('sentinel-feature', 'a user feature named like the internal mask key is not carried through batch() / all_examples() as an ordinary feature'))
  if not obs.get('helpers', True):
    out.append(('helpers', 'pad_examples / attach_mask / slice_examples / num_examples called directly misbehave'))
  faults = obs.get('feature_faults', [])
  if 'dtype-shape' in faults:
    out.append(('dtype-shape', 'a feature changed its dtype (byte order included) or its trailing shape in a batch'))
  if 'pad' in faults:
    out.append(('pad-zero', 'a padded row of some feature is not the zero value of its dtype'))
  if not obs['features_ok'] and not (set(faults) and set(faults) <= {'dtype-shape', 'pad'}):
    out.append(('features', 'a feature / preprocessed column does not follow its row, changed dtype or shape, or a padded row is not zero'))
  return out


def encode(case, obs):
  if 'pick_sweep' in case:
    lo, hi, nbhi, _ = case['pick_sweep']
    runs = fw.clist([fw.clist([f'({fw.zlit(v)}, {c})' for v, c in row]) for row in obs['runs']])
    return f'(CPick {lo}%Z {hi}%Z {nbhi}%Z, OPick ({runs})%Z)'
  plain = fw.clist([fw.zlist(b) for b in obs['plain']])
  drop = fw.clist([fw.zlist(b) for b in obs['drop']])
  padded = fw.clist([f'({fw.zlist(x)}, {fw.blist(m)})' for x, m in obs['padded']])
  rows = _rows(case)      # a slice of range(P) is an arithmetic progression
  start = rows[0] if rows else 0
  step = rows[1] - rows[0] if len(rows) > 1 else 1
  return (f'(CView (mkC03 {len(rows)}%nat {case["bs"]}%Z {case["nb"]}%Z {fw.zlit(start)}%Z {fw.zlit(step)}%Z), '
          f'OView (mkO03 ({plain})%Z ({drop})%Z ({padded})%Z))')


def nontrivial(case, obs):
  if 'pick_sweep' in case:
    return True
  return len(_rows(case)) > 0


def describe(case, obs):
  if 'pick_sweep' in case:
    lo, hi, nbhi, _ = case['pick_sweep']
    return {'kind': 'final-size-sweep', 'sweep_triples': sum(range(lo, hi + 1)) * nbhi}
  n, bs = len(_rows(case)), case['bs']
  sl = case.get('slice')
  kind = ('none' if not sl else 'empty' if n == 0 else 'full' if n == sl[0] and (sl[3] or 1) > 0 else
          'step' if (sl[3] or 1) != 1 else 'sub')
  return {'N_vs_bs': 'empty' if n == 0 else 'lt' if n < bs else 'eq' if n == bs else 'multiple' if n % bs == 0 else 'gt',
          'buckets': min(case['nb'], 6), 'chain': case['chain'], 'call_form': ['hparams', 'kwargs', 'override', 'view-class'][int(case['kw'])],
          'scalars': ['int', 'np.int64', '0-d array'][case.get('deliv', 0) % 3],
          'fns_as': ['list', 'tuple', 'generator', 'iter', 'append'][(case.get('deliv', 0) // 3) % 5],
          'mapping': ['dict', 'OrderedDict', 'mappingproxy'][(case.get('deliv', 0) // 15) % 3],
          'abandon': ABANDON[(case.get('deliv', 0) + case['bs']) % len(ABANDON)],
          'slice': kind + ('+nested' if case.get('slice2') else ''), 'layout': LAYOUTS[case.get('layout', 0)],
          'theorem_hypotheses': 'hold (bs >= 1, per-example chain)' if bs >= 1 else 'bs < 1'}


def shrink(case):
  if 'pick_sweep' in case:
    lo, hi, nbhi, pub = case['pick_sweep']
    mid = (lo + hi) // 2
    for cand in ([lo, mid, nbhi, pub], [mid + 1, hi, nbhi, pub], [lo, hi, nbhi - 1, pub]):
      if cand[0] <= cand[1] and cand[2] >= 1 and cand != case['pick_sweep']:
        yield {'pick_sweep': cand}
    return
  if case.get('slice'):
    p, a, b, c = case['slice']
    for cand in ([p - 1, a, b, c], [p, None, b, c], [p, a, None, c], [p, a, b, None]):
      if cand[0] >= 1 and cand != case['slice']:
        yield {**case, 'slice': cand, 'n': len(_sel(cand, case.get('slice2')))}
    if case.get('slice2'):
      yield {k: v for k, v in {**case, 'n': len(_sel(case['slice']))}.items() if k != 'slice2'}
    for k in ('bs', 'nb'):
      if case[k] > 1:
        yield {**case, k: case[k] - 1}
    if case['chain']:
      yield {**case, 'chain': 0}
    if case['kw']:
      yield {**case, 'kw': 0}
    return
  for k in ('n', 'bs', 'nb'):
    lo = 0 if k == 'n' else 1
    v = case[k]
    for c in sorted({lo, v // 2, v - 1}):
      if lo <= c < v:
        yield {**case, k: c}
  if case['chain']:
    yield {**case, 'chain': 0}
