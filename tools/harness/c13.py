"""C13 harness: UniformGetClientSampler over operation histories (Sample | SetRound r)
and UniformShuffledClientSampler over really shuffled client streams, against the
Coq state machines (NumPy's choice / randint answers and the JAX key table are
recomputed here, independently of the implementation, and handed to the model)."""
import itertools

import numpy as np
from lib import fw

PROP = 'C13'
COQ_HEADER = 'From FV Require Import Model.C13_Model.'
COQ_AGREE = 'C13_agree'
COQ_MODEL_TARGETS = ['Model/C13_Model']
RULE = ('histories (sequential, forward/backward jumps, repeated rounds, restarts) over in-memory, subset and SQLite datasets of 1..8 clients '
        'whose ids share prefixes and end in zero bytes, cohort sizes 1..number of clients, seeds incl. 0 and 2^32-1, '
        'rounds up to 2^31 (all evaluated in the model); streaming sampler over fd.shuffled_clients '
        'of all three implementations with buffer sizes 1..n+3 and seeds incl. 0, 1, 2^32-1, every comparison between independently '
        'created streams with numpy\'s global RNG perturbed in between; non-trivial = at least one sample() call returned; distinct = distinct case JSON')
TRUSTED = ['np.random.RandomState(s).choice(ids, size=n, replace=False): n distinct elements of ids, deterministic in s '
           '(asserted on every recomputed draw); RandomState(s).randint(a, b) in [a, b)',
           'distinct split paths give distinct JAX key data (threefry collision-freeness; checked on every key table built)']
ASSUMPTIONS = ['client ids are distinct python bytes; id equality is bytes equality',
               'cohort size between 0 and the number of clients; round numbers >= 0 for the seed-range theorem',
               'NumPy choice / randint contracts (section hypotheses of Props/C13.v)',
               'a JAX key is identified with its split path (round, index)']
PARTIAL = []
CASE_TIMEOUT = 180

M31 = 2 ** 31 - 1
MAX_MODEL_ROUND = 2 ** 31   # every round is evaluated in Coq (square-and-multiply, proved equal to the translated power)


# --------------------------------------------------------------------------

def _ids(nc, style):
  """nc distinct byte-string ids; many end in zero bytes and are prefixes of each other."""
  out = []
  stems = [b'a', b'b', b'ab', b'\x00', b'c\x00d', b'a\x00b']
  k = 0
  while len(out) < nc:
    stem = stems[(k // 3) % len(stems)] + (b'%d' % (k // 18) if k >= 18 else b'')
    cand = stem + b'\x00' * (k % 3) if style != 2 else b'id%03d' % k
    if style == 1 and k % 2:
      cand = cand + b'\x00'
    if cand not in out:
      out.append(cand)
    k += 1
  return [list(c) for c in out]


def _history(rng, kind, maxround):
  ops = []
  if kind == 'seq':
    ops = [['S']] * rng.randrange(1, 7)
  elif kind == 'jumps':
    for _ in range(rng.randrange(2, 6)):
      if rng.randrange(3) < 2:
        ops.append(['R', rng.randrange(0, maxround)])
      ops += [['S']] * rng.randrange(1, 3)
  elif kind == 'repeat':
    r = rng.randrange(0, maxround)
    for _ in range(rng.randrange(2, 4)):
      ops += [['R', r], ['S']] + ([['S']] if rng.randrange(2) else [])
  elif kind == 'back':
    r = rng.randrange(3, maxround)
    ops = [['R', r], ['S'], ['S'], ['R', r - rng.randrange(1, 4)], ['S'], ['S'], ['S'], ['R', r + 1], ['S']]
  elif kind == 'noop-set':
    ops = [['S'], ['R', 0], ['R', rng.randrange(0, maxround)], ['R', 5], ['S'], ['R', 5], ['S']]
  return ops


def generate(tier, rng):
  nget = {'quick': 260, 'search': 1200}.get(tier, 1000)
  nstream = {'quick': 80, 'search': 300}.get(tier, 300)
  kinds = ['seq', 'jumps', 'repeat', 'back', 'noop-set']
  for i in range(nget):
    nc = rng.choice([1, 2, 3, 4, 5, 6, 8])
    big = (i % 13 == 12)
    maxround = rng.choice([10 ** 6, 2 ** 31 - 2]) if big else rng.choice([4, 12, 60, 300, 5000])
    ids_i = _ids(nc, i % 3)
    if i % 7 == 3:
      ids_i = [[]] + ids_i[1:]        # the empty id b'' is a valid client id
    yield {'kind': 'get', 'ids': ids_i, 'n': rng.randrange(1, nc + 1), 'form': [0, 1, 2, 3, 4, 8, 5, 12][i % 8],
           'ins': [0, 1 + i, 0, 1 + i][i % 4] if i % 2 else 0,
           'seed': rng.choice([0, 1, 2 ** 32 - 1, rng.randrange(2 ** 32), rng.randrange(100)]),
           'start': rng.choice([0, 0, 1, rng.randrange(0, maxround)]),
           'ops': _history(rng, kinds[i % len(kinds)], maxround), 'fd': ['mem', 'subset', 'mem', 'sqlite'][i % 4]}
  # str client ids (InMemoryFederatedData accepts them) with trailing-NUL twins next to the bytes ones:
  # 'b' / 'b\x00' / 'b\x00\x00' must stay three different clients
  twins = [[98], [98, 0], [98, 0, 0], [97], [97, 0], [99, 0]]
  for j in range(30 if tier == 'quick' else 120):
    nc = rng.choice([2, 3, 4, 6])
    yield {'kind': 'get', 'ids': twins[:nc] if j % 2 == 0 else _ids(nc, j % 3), 'n': rng.randrange(1, nc + 1),
           'seed': rng.choice([0, 1, rng.randrange(2 ** 32)]), 'start': rng.randrange(0, 5),
           'ops': _history(rng, kinds[j % len(kinds)], 12), 'fd': ['mem', 'subset'][j % 2], 'idtype': 'str'}
  for j in range(10 if tier == 'quick' else 40):
    nc = rng.choice([2, 3, 6])
    yield {'kind': 'stream', 'ids': twins[:nc], 'n': rng.randrange(1, nc + 1), 'start': rng.choice([0, 1, 2]), 'k': 2,
           'B': rng.choice([1, 2, nc + 1]), 'seed': rng.choice([0, 1, rng.randrange(2 ** 32)]), 'src': 'fd',
           'fd': ['mem', 'subset'][j % 2], 'idtype': 'str'}
  # every cohort size of one dataset, same seed / round: 1..nc
  for nc in (3, 6):
    for n in range(1, nc + 1):
      yield {'kind': 'get', 'ids': _ids(nc, 0), 'n': n, 'seed': 5, 'start': 2, 'ops': [['S'], ['S'], ['R', 2], ['S']]}
  # get_pseudo_random_state called directly: the returned RandomState is RandomState(lehmer(seed, r))
  for j in range(40 if tier == 'quick' else 200):
    yield {'kind': 'prs', 'seed': rng.choice([0, 1, 2 ** 32 - 1, rng.randrange(2 ** 32)]),
           'r': rng.choice([0, 1, 2, rng.randrange(100), rng.randrange(10 ** 6), 2 ** 31 - 2, rng.randrange(2 ** 31)])}
  # streaming sampler: every implementation of shuffled_clients x the edge seeds 0, 1, 2^32-1
  # (a seed of 0 must be a seed, not "unseeded") x a few shapes, then random ones
  # a really repeating stream whose epoch length (5 clients) is NOT a multiple of the cohort (3): rounds
  # straddle epoch boundaries; restarts at rounds beyond the first boundary; several stream seeds
  for j, (impl, seed) in enumerate(itertools.product(('mem', 'subset', 'sqlite'), (0, 1, 7, 12345, 2 ** 32 - 1))):
    for start in ((2, 3, 5) if tier != 'quick' else (2 + j % 3,)):
      yield {'kind': 'stream', 'ids': _ids(5, j % 3), 'n': 3, 'start': start, 'k': 4, 'B': 5, 'seed': seed, 'src': 'fd',
             'fd': impl, 'ins': j}
  edge = []
  for impl in ('mem', 'subset', 'sqlite'):
    for seed in (0, 1, 2 ** 32 - 1):
      for nc, n, start, B in ((5, 2, 0, 3), (7, 1, 2, 4), (3, 3, 1, 1)):
        edge.append({'kind': 'stream', 'ids': _ids(nc, len(edge) % 3), 'n': n, 'start': start, 'k': 3, 'B': B,
                     'seed': seed, 'src': 'fd', 'fd': impl})
  for c in edge:
    yield c
  # exhaustive small grid: clients x cohort (1 .. clients, full participation included) x consecutive
  # rounds 0 .. R with a second / third call after every one, then a re-seat to round 0 and to the last round
  gmax, R = (5, 6) if tier == 'quick' else (7, 12)
  for nc in range(1, gmax + 1):
    for n in range(1, nc + 1):
      for seed in ([0] if tier == 'quick' else [0, 1, 2 ** 32 - 1]):
        yield {'kind': 'get', 'ids': _ids(nc, (nc + n) % 3), 'n': n, 'seed': seed, 'start': 0,
               'ops': [['S']] * R + [['R', 0], ['S'], ['R', R - 1], ['S'], ['S']], 'fd': ['mem', 'subset', 'sqlite'][(nc + n) % 3],
               'ins': nc * n % 2}
  # single-client and full-participation streams (source exactly one epoch per round), second call included
  for nc in (1, 2, 3, 4):
    yield {'kind': 'stream', 'ids': _ids(nc, nc % 3), 'n': nc, 'start': nc % 3, 'k': 3, 'B': nc, 'seed': nc - 1,
           'src': 'fd', 'fd': ['mem', 'subset', 'sqlite'][nc % 3]}
  # global JAX configuration: the keys are drawn by JAX; as split paths they must not depend on the flags;
  # another PYTHONHASHSEED in another interpreter process: ids AND key data must be the same
  settings = [{'JAX_DEFAULT_PRNG_IMPL': 'rbg'}, {'PYTHONHASHSEED': '4242'}]
  if tier != 'quick':
    settings += [{'JAX_THREEFRY_PARTITIONABLE': '0'}, {'JAX_THREEFRY_PARTITIONABLE': '1'}, {'JAX_ENABLE_X64': '1'},
                 {'JAX_DISABLE_JIT': '1'}, {'JAX_DEFAULT_PRNG_IMPL': 'unsafe_rbg'}, {'PYTHONHASHSEED': 'random'},
                 {'PYTHONHASHSEED': '1'}]
  for j, env in enumerate(settings):
    yield {'kind': 'flags', 'env': env, 'cases': [
        {'kind': 'get', 'ids': _ids(4, j % 3), 'n': 2, 'seed': 0, 'start': 0, 'ops': [['S'], ['S'], ['R', 0], ['S']], 'fd': 'mem'},
        {'kind': 'get', 'ids': _ids(5, (j + 1) % 3), 'n': 5, 'seed': rng.randrange(2 ** 32), 'start': 3,
         'ops': [['S'], ['R', 1000], ['S'], ['R', 3], ['S']], 'fd': 'subset', 'form': 3},
        {'kind': 'get', 'ids': [[98], [98, 0], [98, 0, 0], [97], [97, 0], [99, 0]], 'n': 3, 'seed': 1, 'start': 0,
         'ops': [['S'], ['S'], ['S']], 'fd': 'mem', 'idtype': 'str', 'ins': 5},
        {'kind': 'stream', 'ids': _ids(5, j % 3), 'n': 3, 'start': 2, 'k': 3, 'B': 5, 'seed': 0, 'src': 'fd', 'fd': 'sqlite',
         'ins': 3}]}
  for i in range(nstream):
    nc = rng.choice([1, 2, 3, 5, 7])
    yield {'kind': 'stream', 'ids': _ids(nc, i % 3), 'n': rng.randrange(1, nc + 2), 'start': rng.choice([0, 1, 2, 3, 7]),
           'k': rng.randrange(1, 5), 'B': rng.choice([1, 2, 3, nc, nc + 3]),
           'seed': rng.choice([0, 0, 1, 2 ** 32 - 1, rng.randrange(2 ** 32), rng.randrange(2 ** 31)]),
           'src': rng.choice(['fd', 'fd', 'handmade', 'iterlist', 'map', 'counted']), 'fd': ['mem', 'subset', 'sqlite'][i % 3],
           'ins': i % 2 * (i + 1)}


# --------------------------------------------------------------------------

def _pyid(codes, case):
  """The python client id for a list of code points: bytes, or str for idtype == 'str'."""
  return ''.join(chr(c) for c in codes) if case.get('idtype') == 'str' else bytes(codes)


def _codes(cid):
  return [ord(c) for c in cid] if isinstance(cid, str) else list(cid)


def _rows(k):
  return [100 * k + j for j in range(1 + k % 3)]


def _fd(case):
  """(federated data, sorted ids, ids in the order client_ids() must produce, cleanup): in-memory and
  subset datasets iterate in sorted id order whatever the insertion order, SQLite in insertion order."""
  import fedjax
  ids = sorted(_pyid(i, case) for i in case['ids'])
  rows = {cid: {'x': np.array(_rows(k), dtype=np.int32)} for k, cid in enumerate(ids)}
  ins = list(ids)
  if case.get('ins'):        # the mapping / the SQLite file is filled in an order that is NOT the sorted one
    import random
    random.Random(case['ins']).shuffle(ins)
  data = {cid: rows[cid] for cid in ins}
  if case.get('fd') == 'sqlite':
    import os
    import shutil
    import tempfile
    from fedjax.core import sqlite_federated_data as sq
    d = tempfile.mkdtemp(prefix='verif_c13_')
    path = os.path.join(d, 'fd.sqlite')
    with sq.SQLiteFederatedDataBuilder(path) as b:
      b.add_many([(cid, data[cid]) for cid in ins])
    return sq.SQLiteFederatedData.new(path), ids, ins, lambda: shutil.rmtree(d, ignore_errors=True)
  if case.get('fd') == 'subset':
    from fedjax.core import federated_data as fdm
    extra = {b'\x00extra': {'x': np.array([-1], dtype=np.int32)}, b'zz_extra\x00': {'x': np.array([-2, -3], dtype=np.int32)}}
    if case.get('idtype') == 'str':
      extra = {k.decode('latin1'): v for k, v in extra.items()}
    extra = {k: v for k, v in extra.items() if k not in data}
    sub = list(ins)
    return fdm.SubsetFederatedData(fedjax.InMemoryFederatedData({**extra, **data}), sub), ids, ids, lambda: None
  return fedjax.InMemoryFederatedData(data), ids, ids, lambda: None


def _key_table(rounds, n):
  """key data -> (round, index) for split(PRNGKey(r), n); second value: injective?"""
  import jax
  table, inj = {}, True
  for r in sorted(rounds):
    if r < 0:
      continue
    ks = np.asarray(jax.random.split(jax.random.PRNGKey(r), n)).tolist()
    for i, kd in enumerate(ks):
      t = tuple(kd)
      if t in table and table[t] != (r, i):
        inj = False
      table[t] = (r, i)
  return table, inj


def _clients(out):
  return [[_codes(cid), np.asarray(ds.raw_examples['x']).tolist(), [int(v) for v in np.asarray(key).ravel().tolist()]]
          for cid, ds, key in out]


def _snapshot(fd):
  """Caller-owned data: the id list and every client's rows, as plain python values."""
  return [[_codes(cid), np.asarray(ds.raw_examples['x']).tolist()] for cid, ds in fd.clients()]


def _perturb(k):
  """Moves numpy's process-global RNG to another state: a stream that (wrongly) draws from
  the global state instead of its own seeded RandomState then differs between creations."""
  np.random.seed(90001 + 7919 * k)
  np.random.rand(3 + k)


def _run_flags(case):
  """The embedded get-cases in a subprocess started with other global JAX flags, and here."""
  import json
  import os
  import subprocess
  import sys
  env = dict(os.environ)
  env.update(case['env'])
  p = subprocess.run([sys.executable, '-m', 'harness.c13'], input=json.dumps(case['cases']), capture_output=True,
                     text=True, env=env, timeout=170)
  if p.returncode != 0:
    return {'outs': [], 'sub_error': (p.stderr or '')[-400:], 'subs': [], 'here': [], 'key_table_injective': True}
  subs = json.loads(p.stdout.strip().split('\n')[-1])
  here = [run(c) for c in case['cases']]
  return {'outs': [o for so in subs for o in so['outs']], 'sub_error': None, 'subs': subs, 'here': here,
          'key_table_injective': all(so['key_table_injective'] for so in subs)}


def _sub_main():
  import json
  import sys
  cases = json.loads(sys.stdin.read())
  print(json.dumps([run(c) for c in cases]))


def run(case):
  if case['kind'] == 'flags':
    return _run_flags(case)
  if case['kind'] == 'prs':
    return _run(case, None, [], [])
  fd, ids, fd_ids, cleanup = _fd(case)
  saved = np.random.get_state()
  try:
    if list(fd.client_ids()) != fd_ids:
      raise RuntimeError('client_ids() is not in the documented order')
    return _run(case, fd, ids, fd_ids)
  finally:
    np.random.set_state(saved)
    cleanup()


def _run(case, fd, ids, fd_ids):
  from fedjax.core import client_samplers as cs
  n = case.get('n')
  if case['kind'] == 'get':
    import contextlib
    import jax
    seed = case['seed']
    snap = _snapshot(fd)
    form = case.get('form', 0)
    # argument delivery: positional / keyword construction, python ints / numpy scalars
    n_arg, seed_arg = (np.int64(n), np.int64(seed)) if form & 2 else (n, seed)
    if form & 1:
      sampler = cs.UniformGetClientSampler(fd=fd, num_clients=n_arg, seed=seed_arg, start_round_num=case['start'])
    else:
      sampler = cs.UniformGetClientSampler(fd, n_arg, seed_arg, case['start'])
    # a second sampler over the SAME dataset object, other cohort size / seed, sampled in between
    other = cs.UniformGetClientSampler(fd, 1 + (n % len(ids)), (seed + 1) % (2 ** 32), 3) if form & 4 else None
    ctx = jax.disable_jit if form & 8 else contextlib.nullcontext
    outs, rounds, restart_same, kept = [], [], [], []
    r = case['start']
    for o in case['ops']:
      if o[0] == 'R':
        sampler.set_round_num(o[1])
        r = o[1]
        continue
      try:
        if other is not None:
          other.sample()
          other.set_round_num(r + 7)
        with ctx():
          raw = sampler.sample()
        got = _clients(raw)
        kept.append((len(outs), raw))
      except Exception as ex:  # pylint: disable=broad-except
        outs.append(type(ex).__name__)
        rounds.append(r)
        restart_same.append(True)
        continue
      outs.append(got)
      rounds.append(r)
      try:
        _perturb(len(outs))
        fresh = _clients(cs.UniformGetClientSampler(fd, n, seed, start_round_num=r).sample())
      except Exception as ex:  # pylint: disable=broad-except
        fresh = type(ex).__name__
      restart_same.append(fresh == got)
      r += 1
    # every cohort handed out earlier must still read the same after the later rounds were sampled
    stable = [j for j, raw in kept if _clients(raw) != outs[j]]
    # the oracle answers, recomputed independently of the implementation
    start_val = int(np.random.RandomState(seed).randint(1, M31 - 1))
    table, contract = [], 1 <= start_val < M31 - 1
    arr = np.array(fd_ids, dtype=object)
    for rr in sorted(set(rounds)):
      s = pow(16807, rr, M31) * start_val % M31
      ch = list(np.random.RandomState(s).choice(arr, size=n, replace=False))
      idxs = [fd_ids.index(c) for c in ch]
      contract = contract and len(idxs) == n and len(set(idxs)) == n
      again = list(np.random.RandomState(s).choice(arr, size=n, replace=False))
      contract = contract and again == ch
      table.append([s, idxs])
    ktab, inj = _key_table(set(rounds) | {x + 1 for x in rounds} | {max(0, x - 1) for x in rounds} | {0, case['seed'] % (2 ** 31)}, n)
    paths = [[list(ktab.get(tuple(c[2]), (-1, -1))) for c in o] if isinstance(o, list) else None for o in outs]
    return {'outs': outs, 'rounds': rounds, 'restart_same': restart_same, 'start_val': start_val, 'table': table,
            'id_order': [_codes(c) for c in fd_ids],
            'numpy_contract': bool(contract), 'key_paths': paths, 'key_table_injective': inj, 'changed_later': stable,
            'fd_unchanged': _snapshot(fd) == snap}
  if case['kind'] == 'prs':
    start_val = int(np.random.RandomState(case['seed']).randint(1, M31 - 1))
    cand = pow(16807, case['r'], M31) * start_val % M31
    st = cs.get_pseudo_random_state(case['seed'], case['r']).get_state()
    ref = np.random.RandomState(cand).get_state()
    same = st[0] == ref[0] and np.array_equal(st[1], ref[1]) and st[2:] == ref[2:]
    again = cs.get_pseudo_random_state(case['seed'], case['r']).randint(1 << 30, size=4).tolist()
    return {'outs': [[1]], 'rs_seed': cand if same else -1, 'start_val': start_val, 'key_table_injective': True,
            'draws': again, 'ref_draws': np.random.RandomState(cand).randint(1 << 30, size=4).tolist()}
  # ---- streaming sampler
  start, k = case['start'], case['k']
  snap = _snapshot(fd)
  pulled = [0]

  def counted(it):
    for x in it:
      pulled[0] += 1
      yield x

  class Overrun(Exception):
    pass

  def limited(it):
    # the samplers need (start + k) * n items; far more means a sampler that keeps drawing
    for j, x in enumerate(it):
      if j >= 3 * (start + k) * n + 4 * len(ids) + 8:
        raise Overrun()
      yield x

  def stream():
    return limited(stream0())

  def stream0():
    if case['src'] == 'fd':
      return fd.shuffled_clients(case['B'], case['seed'])
    if case['src'] in ('iterlist', 'map', 'counted'):
      # a finite, exactly long enough prefix of the seeded stream, delivered as a one-shot iterator
      pre = list(itertools.islice(fd.shuffled_clients(case['B'], case['seed']), (start + k) * n))
      return {'iterlist': lambda: iter(pre), 'map': lambda: map(lambda x: x, pre), 'counted': lambda: counted(pre)}[case['src']]()
    rs = np.random.RandomState(case['seed'])   # a hand-made infinite stream: repeated seeded permutations

    def gen():
      while True:
        for j in rs.permutation(len(ids)):
          yield ids[j], fd.get_client(ids[j])
    return gen()
  # three independently created streams (restarted sampler, original sampler, raw prefix), each
  # consumed completely before the next is created, the global numpy RNG perturbed in between
  try:
    _perturb(1)
    a = cs.UniformShuffledClientSampler(stream(), n, start_round_num=start)
    outs_a = [_clients(a.sample()) for _ in range(k)]
    _perturb(2)
    b = cs.UniformShuffledClientSampler(stream(), n)
    outs_b = [_clients(b.sample()) for _ in range(start + k)]
    err = None
  except Exception as ex:  # pylint: disable=broad-except
    outs_a, outs_b, err = [], [], type(ex).__name__
  # (Hang from the watchdog is a BaseException and passes through)
  _perturb(3)
  prefix = [ids.index(cid) for cid, _ in itertools.islice(stream(), (start + k) * n)]
  _perturb(4)
  prefix2 = [ids.index(cid) for cid, _ in itertools.islice(stream(), (start + k) * n)]
  ktab, inj = _key_table(set(range(0, start + k + 2)), n)
  paths = [[list(ktab.get(tuple(c[2]), (-1, -1))) for c in o] for o in outs_a]
  return {'outs': outs_a, 'ref': outs_b, 'err': err, 'stream': prefix, 'stream_same': prefix == prefix2,
          'fd_unchanged': _snapshot(fd) == snap,
          'pulled': pulled[0] if case['src'] == 'counted' else None, 'expect_pulled': 4 * (start + k) * n,   # four consumers, each exactly (start + k) * n items
          'key_paths': paths, 'key_table_injective': inj}


# --------------------------------------------------------------------------
# property oracle

def _check_round(out, ids, n, tag):
  v = []
  got_ids = [tuple(c[0]) for c in out]
  if len(out) != n:
    v.append((tag + 'cohort-size', f'{len(out)} clients returned, cohort size is {n}'))
  if len(set(got_ids)) != len(got_ids):
    v.append((tag + 'repeated-client', 'a client occurs twice in one round'))
  for c in out:
    cid = tuple(c[0])
    if cid not in ids:
      v.append((tag + 'foreign-id', f'id {cid!r} is not an id of the dataset'))
    elif c[1] != _rows(ids.index(cid)):
      v.append((tag + 'wrong-dataset', f'id {cid!r} came with another dataset'))
  keys = [tuple(c[2]) for c in out]
  if len(set(keys)) != len(keys):
    v.append((tag + 'key-repeat-within-round', 'two clients of one round got the same key'))
  return v


def _keys_across(outs, rounds, tag):
  seen = {}
  for o, r in zip(outs, rounds):
    if not isinstance(o, list):
      continue
    for c in o:
      t = tuple(c[2])
      if t in seen and seen[t] != r:
        return [(tag + 'key-reused-across-rounds', f'rounds {seen[t]} and {r} hand out the same key')]
      seen[t] = r
  return []


def oracle(case, obs):
  if case['kind'] == 'flags':
    if obs['sub_error'] is not None:
      return [('flags-subprocess', f'sampling under {case["env"]} failed: {obs["sub_error"][-200:]}')]
    v = []
    for c, so, ho in zip(case['cases'], obs['subs'], obs['here']):
      v += [(k, f'under {case["env"]}: {m}') for k, m in oracle(c, so)]
      only_hash = set(case['env']) == {'PYTHONHASHSEED'}
      strip = lambda outs: [[cl if only_hash else cl[:2] for cl in o] if isinstance(o, list) else o for o in outs]
      if strip(so['outs']) != strip(ho['outs']) or so.get('stream') != ho.get('stream'):
        v.append(('process-dependent' if only_hash else 'flags-change-cohort',
                  f'client ids / datasets{" / key data" if only_hash else ""} differ in another interpreter process started with {case["env"]}'))
      if so['key_paths'] != ho['key_paths']:
        v.append(('flags-change-key-paths', f'the split paths of the keys depend on the JAX flags {case["env"]}'))
    return v
  if case['kind'] == 'prs':
    v = []
    if obs['rs_seed'] < 0 or obs['draws'] != obs['ref_draws']:
      v.append(('prs-not-lehmer', 'get_pseudo_random_state(seed, r) is not RandomState(16807^r * start mod (2^31-1))'))
    return v
  ids = sorted(tuple(i) for i in case['ids'])
  n = case['n']
  v = []
  if not obs.get('fd_unchanged', True):
    v.append(('fd-changed', 'sampling changed the federated dataset (ids or rows)'))
  if obs.get('pulled') is not None and obs['pulled'] != obs['expect_pulled']:
    v.append(('stream-consumption', f'{obs["pulled"]} items pulled from the client iterators, {obs["expect_pulled"]} expected'))
  if not obs['key_table_injective']:
    v.append(('threefry-collision', 'two distinct split paths gave the same key data'))
  if case['kind'] == 'get':
    if not obs['numpy_contract']:
      v.append(('numpy-contract', 'NumPy choice / randint violated the assumed contract'))
    by_round = {}
    for o, r, same in zip(obs['outs'], obs['rounds'], obs['restart_same']):
      if not isinstance(o, list):
        v.append(('sample-raised', f'sample() at round {r} raised {o}'))
        continue
      v += _check_round(o, ids, n, '')
      if r in by_round and by_round[r] != o:
        v.append(('history-dependent', f'round {r} sampled twice in one history gave different results'))
      by_round.setdefault(r, o)
      if not same:
        v.append(('restart-differs', f'a sampler restarted at round {r} does not reproduce the original round {r}'))
    v += _keys_across(obs['outs'], obs['rounds'], '')
    for o, kp, r in zip(obs['outs'], obs['key_paths'], obs['rounds']):
      if isinstance(o, list) and kp != [[r, i] for i in range(len(o))]:
        v.append(('key-not-split-of-round', f'the keys of round {r} are not split(PRNGKey({r}), cohort)[0..]'))
        break
    for j in obs.get('changed_later', []):
      v.append(('cohort-changed-later', f'the cohort returned for round {obs["rounds"][j]} (ids / datasets / keys) reads differently '
                'after other rounds were sampled'))
    return v
  if obs['err'] == 'Overrun':
    return v + [('stream-overconsumed', 'a streaming sampler drew far more items from the client stream than rounds * cohort')]
  if obs['err'] is not None:
    return v + [('stream-raised', f'the streaming sampler raised {obs["err"]}')]
  start = case['start']
  if not obs.get('stream_same', True):
    v.append(('stream-not-reproducible', f'two client streams created with seed {case["seed"]} differ'))
  if obs['outs'] != obs['ref'][start:]:
    v.append(('stream-restart-differs', f'sampler(start={start}) does not reproduce rounds {start}.. of sampler(start=0)'))
  for o in obs['ref']:
    # a stream round may legitimately repeat a client across a pass boundary
    v += [x for x in _check_round(o, ids, n, 'stream-') if x[0] != 'stream-repeated-client']
  v += _keys_across(obs['ref'], list(range(len(obs['ref']))), 'stream-')
  return v


# --------------------------------------------------------------------------
# Coq encoding

def _zl(xs):
  return '(' + fw.zlist(xs) + ')%Z'


def _pair(p):
  return f'({fw.zlit(p[0])}%Z, {fw.zlit(p[1])}%Z)'


def encode(case, obs):
  if case['kind'] == 'flags':
    return None        # the embedded cases are encoded where they run with default flags; here: oracle only
  if case['kind'] == 'prs':
    return f'(CPrs {case["seed"]}%Z {obs["start_val"]}%Z {case["r"]}%Z, OPrs {fw.zlit(obs["rs_seed"])}%Z)'
  ids = sorted(tuple(i) for i in case['ids'])
  n = case['n']
  if case['kind'] == 'get':
    if any(r > MAX_MODEL_ROUND for r in obs['rounds']) or not obs['outs']:
      return None
    ops = '[' + '; '.join('Sample' if o[0] == 'S' else f'SetRound {fw.zlit(o[1])}%Z' for o in case['ops']) + ']'
    table = '[' + '; '.join(f'({fw.zlit(s)}%Z, {fw.natlist(ix)})' for s, ix in obs['table']) + ']'
    order = [tuple(i) for i in obs['id_order']]       # client_ids() order = the order of the model's dataset
    idt = '[' + '; '.join(_zl(list(i)) for i in order) + ']'
    dat = '[' + '; '.join(_zl(_rows(ids.index(i))) for i in order) + ']'
    outs = []
    for o, kp in zip(obs['outs'], obs['key_paths']):
      if not isinstance(o, list):
        outs.append('None')
      else:
        outs.append('Some [' + '; '.join(f'({_zl(c[0])}, {_zl(c[1])}, {_pair(p)})' for c, p in zip(o, kp)) + ']')
    c = (f'CGet {idt} {dat} {n}%Z {case["seed"]}%Z {obs["start_val"]}%Z {table} {case["start"]}%Z {ops}')
    return f'({c}, OGet [{"; ".join(outs)}])'
  if obs['err'] is not None:
    return f'(CStream {n}%Z {case["start"]}%Z {_zl(obs["stream"])} {case["k"]}%nat, OGet [])'
  outs = '[' + '; '.join('[' + '; '.join(f'({ids.index(tuple(c[0])) if tuple(c[0]) in ids else -2}%Z, {_pair(p)})'
                                          for c, p in zip(o, kp)) + ']'
                         for o, kp in zip(obs['outs'], obs['key_paths'])) + ']'
  return f'(CStream {n}%Z {case["start"]}%Z {_zl(obs["stream"])} {case["k"]}%nat, OStream {outs})'


# --------------------------------------------------------------------------

def nontrivial(case, obs):
  if case['kind'] == 'flags':
    return bool(obs['subs'])
  return any(isinstance(o, list) and o for o in obs['outs'])


def describe(case, obs):
  if case['kind'] == 'flags':
    return {'kind': 'flags', 'flags': ','.join(f'{k}={v}' for k, v in sorted(case['env'].items()))}
  if case['kind'] == 'prs':
    return {'kind': 'prs', 'round': 'zero' if case['r'] == 0 else 'small' if case['r'] < 100 else 'big'}
  d = {'kind': case['kind'], 'fd': case.get('fd', 'mem'), 'idtype': case.get('idtype', 'bytes'), 'clients': len(case['ids']), 'cohort': 'all' if case['n'] >= len(case['ids']) else 'one' if case['n'] == 1 else 'some',
       'trailing_zero_ids': sum(1 for i in case['ids'] if i and i[-1] == 0) > 0}
  d['form'] = case.get('form', 0)
  if case['kind'] == 'get':
    rs = obs['rounds']
    d['samples'] = min(len(rs), 8)
    d['max_round'] = 'le12' if max(rs + [0]) <= 12 else 'le5000' if max(rs + [0]) <= 5000 else 'big'
    d['round_repeated'] = len(set(rs)) < len(rs)
    d['backward_jump'] = any(b < a for a, b in zip(rs, rs[1:]))
  else:
    d['start'] = case['start']
    d['src'] = case['src']
    d['stream_seed'] = {0: '0', 1: '1', 2 ** 32 - 1: '2^32-1'}.get(case['seed'], 'other')
  return d


def shrink(case):
  if case['kind'] == 'flags':
    for j in range(len(case['cases'])):
      if len(case['cases']) > 1:
        yield {**case, 'cases': case['cases'][:j] + case['cases'][j + 1:]}
    return
  if case['kind'] == 'prs':
    for k in ('seed', 'r'):
      for c in sorted({0, case[k] // 2, case[k] - 1}):
        if 0 <= c < case[k]:
          yield {**case, k: c}
    return
  if case.get('form'):
    yield {**case, 'form': 0}
  if case['kind'] == 'get':
    ops = case['ops']
    for j in range(len(ops)):
      yield {**case, 'ops': ops[:j] + ops[j + 1:]}
    for j, o in enumerate(ops):
      if o[0] == 'R' and o[1] > 0:
        for r in sorted({0, o[1] // 2, o[1] - 1}):
          yield {**case, 'ops': ops[:j] + [['R', r]] + ops[j + 1:]}
  if len(case['ids']) > max(1, case['n']) and not (case['kind'] == 'stream' and case['n'] > len(case['ids']) - 1):
    for j in range(len(case['ids'])):
      yield {**case, 'ids': case['ids'][:j] + case['ids'][j + 1:]}
  for k, lo in (('n', 1), ('start', 0), ('k', 1), ('B', 1), ('seed', 0)):
    if k in case:
      for c in sorted({lo, case[k] // 2, case[k] - 1}):
        if lo <= c < case[k]:
          yield {**case, k: c}


if __name__ == '__main__':
  _sub_main()
