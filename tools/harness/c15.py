"""C15 harness: padded_batch_client_datasets / buffered_shuffle /
buffered_shuffle_batch_client_datasets / RepeatableIterator (modelled in Coq, compared
inside Coq with the oracle recovered from a recording RandomState) and
padded_batch_federated_data / shuffle_repeat_batch_federated_data / shuffled_clients
(judged at property level)."""
import itertools

import numpy as np
from lib import fw

PROP = 'C15'
COQ_HEADER = 'From FV Require Import Common.Batch Model.C03_Model Model.C15_Model.'
COQ_AGREE = 'C15_agree'
COQ_MODEL_TARGETS = ['Model/C15_Model']
RULE = ('padded: all size-class patterns {0,<bs,=bs,>bs,k*bs} up to a length x batch sizes 1..5 x buckets 1..3 + random '
        'longer sequences + a malformed stream (preprocessor / feature mismatch at every position); shuffle: n x buffer '
        'size grid (1..n+2) x seeds with the oracle recorded through a RandomState subclass; repeatable iterator: 9 base '
        'kinds x n 0..4 x call counts; non-trivial = at least one row / item is emitted or an error is raised; '
        'distinct = distinct case JSON')
TRUSTED = ['numpy slicing / concatenate / zeros semantics (exercised, not modelled)',
           'np.random.RandomState contracts: shuffle(list) permutes in place, randint(B) in [0,B) (asserted on every recorded draw)']
ASSUMPTIONS = ['batch preprocessors are per-example (row-wise) functions',
               'batch_size >= 1, buffer_size >= 1',
               'the model abstracts a ClientDataset to (identity of its preprocessor object, its feature-name set, its rows)',
               'base iterables of RepeatableIterator produce the same finite item list whenever iter() is called on a builtin container']
PARTIAL = ['shuffle_repeat_batch_federated_data is an infinite stream: the theorem is about every finite prefix (C15_shuffle_repeat_prefix_exact), '
           'its body is pinned structurally by the translator, the model is compared on the first batches with the oracle recomputed by composing '
           'the real parts, and it is also judged at property level '
           '(prefix sub-multiset bounds, per-epoch permutation, reproducibility for seeds incl. 0 / 1 / 2^32-1 over the in-memory, '
           'subset and SQLite implementations, the two passes being separate creations with numpy\'s global RNG perturbed in between); its finite core '
           '(buffered_shuffle, buffered_shuffle_batch_client_datasets) and the pass structure of shuffled_clients are modelled, translated and proved',
           '"non-trivial order" is a statistical statement checked on seeds, not a theorem']
CASE_TIMEOUT = 90

M = '__mask__'
AFFS = [(1, 0), (2, 1), (3, 2)]
IMPLS = ['mem', 'subset', 'sqlite']


# --------------------------------------------------------------------------
# recording rng

class RecRng(np.random.RandomState):
  """RandomState that records the oracle the model needs: the Lehmer code of every
  shuffle and every randint draw; also asserts the NumPy contracts."""

  def __init__(self, seed):
    super().__init__(seed)
    self.codes, self.draws, self.contract = [], [], True

  def shuffle(self, x):
    before = list(x)
    super().shuffle(x)
    rem, code = list(before), []
    for v in list(x):
      k = next((j for j, u in enumerate(rem) if u is v), None)
      if k is None:
        self.contract = False
        break
      code.append(k)
      rem.pop(k)
    if rem:
      self.contract = False
    self.codes.append(code)

  def randint(self, low, high=None, size=None, dtype=int):
    r = super().randint(low, high, size, dtype)
    if size is None:
      self.draws.append([int(low), None if high is None else int(high), int(r)])
      lo, hi = (0, low) if high is None else (low, high)
      if not lo <= int(r) < hi:
        self.contract = False
    return r


# --------------------------------------------------------------------------
# generators

def _size_classes(bs, rng):
  out = [[0]]
  if bs > 1:
    out.append(sorted({1, bs - 1}))
  out.append([bs])
  out.append([bs + 1] if bs == 1 else sorted({bs + 1, 2 * bs - 1, 2 * bs + 1}))
  out.append([2 * bs, 3 * bs])
  return out


def _patterns(bs, maxlen, rng):
  classes = _size_classes(bs, rng)
  for ln in range(0, maxlen + 1):
    for combo in itertools.product(range(len(classes)), repeat=ln):
      yield [rng.choice(classes[c]) for c in combo]


def generate(tier, rng):
  if tier == 'quick':
    maxlen, nrand, nmis, shuf_n, nsb = 3, 250, 160, 11, 150
  elif tier == 'search':
    maxlen, nrand, nmis, shuf_n, nsb = 4, 1500, 600, 14, 600
  else:
    maxlen, nrand, nmis, shuf_n, nsb = 4, 1200, 500, 16, 500
  i = 0
  # -- exhaustive grid: total rows N x batch size x buckets (x three ways of splitting N over clients):
  #    number of batches and size of the last one; one case per (bs, buckets, split), all N inside
  gb, gn = (10, 40) if tier == 'quick' else (16, 70)
  for bs in range(1, gb + 1):
    for nb in range(1, 7):
      for split in range(3):
        if tier == 'quick' and (bs + nb + split) % 2:
          continue
        yield {'kind': 'padgrid', 'bs': bs, 'nb': nb, 'split': split, 'maxn': gn}
  # -- padded_batch_client_datasets: exhaustive size-class patterns
  for bs in range(1, 6):
    for nbi, sizes in enumerate(_patterns(bs, maxlen, rng)):
      nbs = [1, 2, 3] if tier != 'quick' else [1 + (nbi + bs) % 3]
      for nb in nbs:
        i += 1
        yield {'kind': 'padded', 'bs': bs, 'nb': nb, 'aff': list(AFFS[i % 3]), 'ds': [[0, 0, s] for s in sizes],
               'it': i % 5, 'kw': (i // 2) % 3, 'layout': (i % 7) if i % 3 == 0 else 0}
  # -- longer random sequences, larger batch sizes
  for _ in range(nrand):
    bs = rng.choice([1, 2, 3, 4, 5, 7, 8, 16])
    ln = rng.randrange(4, 9)
    sizes = [rng.choice([0, 0, rng.randrange(0, bs + 1), bs, rng.randrange(bs, 3 * bs + 2), bs * rng.randrange(1, 4),
                         bs - 1 if bs > 1 else 0]) for _ in range(ln)]
    yield {'kind': 'padded', 'bs': bs, 'nb': rng.randrange(1, 6), 'aff': list(rng.choice(AFFS)),
           'ds': [[0, 0, s] for s in sizes], 'it': rng.randrange(5), 'kw': rng.randrange(3)}
  # -- malformed stream: one dataset with another preprocessor object / feature set
  for _ in range(nmis):
    bs = rng.choice([1, 2, 3, 4])
    ln = rng.randrange(2, 6)
    ds = [[0, 0, rng.choice([0, 1, bs - 1, bs, bs + 1, 2 * bs])] for _ in range(ln)]
    pos = rng.randrange(1, ln)
    which = rng.randrange(3)
    if which == 0:
      ds[pos][0] = 1
    elif which == 1:
      ds[pos][1] = rng.choice([1, 2, 3])
    else:
      ds[pos][0], ds[pos][1] = 1, 1
    if rng.randrange(4) == 0:   # whole stream on other ids, still consistent among the rest
      ds[0][1] = 1
    kind = rng.choice(['padded', 'padded', 'shufbatch'])
    c = {'kind': kind, 'bs': bs, 'aff': list(rng.choice(AFFS)), 'ds': ds, 'it': rng.randrange(5)}
    if kind == 'padded':
      c.update(nb=rng.randrange(1, 4), kw=rng.randrange(2))
    else:
      c.update(B=rng.choice([1, 2, 3, 5, 50]), seed=rng.choice([0, rng.randrange(1 << 30)]), pos=rng.randrange(2))
    yield c
  # -- padded_batch_federated_data (clients in sorted id order)
  for _ in range(nrand // 5):
    bs = rng.choice([1, 2, 3, 4, 5])
    sizes = [rng.choice([0, 1, bs - 1, bs, bs + 1, 2 * bs, 2 * bs + 1]) for _ in range(rng.randrange(1, 6))]
    yield {'kind': 'pbfd', 'bs': bs, 'nb': rng.randrange(1, 4), 'aff': list(rng.choice(AFFS)), 'sizes': sizes,
           'kw': rng.randrange(3), 'idtype': rng.choice(['bytes', 'str'])}
  # -- buffered_shuffle: every buffer size 1..n+2
  for n in range(0, shuf_n + 1):
    for B in range(1, n + 3):
      for src in range(3):
        yield {'kind': 'shuffle', 'n': n, 'B': B, 'seed': rng.choice([0, 0, 1, 2 ** 32 - 1] + [rng.randrange(1 << 30)] * 6),
               'src': src + 3 * ((n + B) % 2)}
  for _ in range(nsb // 3):
    n = rng.randrange(10, 60)
    yield {'kind': 'shuffle', 'n': n, 'B': rng.choice([1, 2, 3, n // 2, n - 1, n, n + 5]), 'seed': rng.randrange(1 << 30),
           'src': rng.randrange(8)}
  for n in range(2, 9):
    for B in (1, 2, 3, n, n + 1):
      for src in (6, 7):      # equal elements
        yield {'kind': 'shuffle', 'n': n, 'B': B, 'seed': rng.randrange(1 << 30), 'src': src}
  for n, B in [(12, 3), (12, 4), (12, 12), (12, 30), (30, 5), (30, 29)]:
    yield {'kind': 'shuffle_seeds', 'n': n, 'B': B, 'seeds': [rng.randrange(1 << 30) for _ in range(6)]}
  # -- buffered_shuffle_batch_client_datasets
  for _ in range(nsb):
    bs = rng.choice([1, 2, 3, 4, 5])
    sizes = [rng.choice([0, 1, 2, bs, bs + 1, 2 * bs, 7]) for _ in range(rng.randrange(0, 6))]
    tot = sum(sizes)
    yield {'kind': 'shufbatch', 'bs': bs, 'B': rng.choice([1, 2, 3, max(1, tot // 2), max(1, tot - 1), max(1, tot), tot + 1, tot + 7]),
           'seed': rng.choice([0, 1, 2 ** 32 - 1] + [rng.randrange(1 << 30)] * 5), 'aff': list(rng.choice(AFFS)),
           'ds': [[0, 0, s] for s in sizes], 'it': rng.randrange(5), 'pos': rng.randrange(2), 'layout': rng.randrange(6)}
  # -- RepeatableIterator
  for base in range(10):
    for n in range(0, 5):
      for calls in sorted({0, 1, n, n + 1, n + 2, 2 * n + 2, 3 * n + 4, 4 * n + 5}):
        yield {'kind': 'repeat', 'base': base, 'n': n, 'calls': calls}
  # -- a pass consumed in pieces: iter() is called again in the middle of a pass (islice then list,
  #    a for loop that breaks then another for, next then list, bare iter()), in the first and in
  #    later passes, for container and one-shot bases
  for base in range(10):
    for n in range(1, 5):
      for prior in range(0, 3):
        pats = []
        for k in sorted({1, n // 2, n - 1, n} - {0}):
          pats += [[['S', k], ['L']], [['F', k], ['L']], [['S', k], ['F', 1], ['L']]]
        pats += [[['N'], ['L']], [['N'], ['I'], ['N'], ['I'], ['L']], [['I'], ['S', n + 2], ['L']]]
        if tier == 'quick':
          pats = [pt for j, pt in enumerate(pats) if (j + base + n + prior) % 3 == 0]
        for pt in pats:
          yield {'kind': 'repeat_ops', 'base': base, 'n': n, 'ops': [['L']] * prior + pt + [['L']]}
  # -- property-level: shuffle_repeat_batch_federated_data, shuffled_clients
  # seed 0 is a seed (not "unseeded"); both passes of the reproducibility clause are separate
  # creations with numpy's global RNG perturbed in between; all three FederatedData implementations
  EDGE = [0, 1, 2 ** 32 - 1]
  srb = []
  for impl in IMPLS:
    for seed in EDGE:
      srb.append({'kind': 'srbfd', 'sizes': [2, 0, 3, 1], 'bs': 2, 'cB': 2, 'eB': 3, 'seed': seed, 'take': 6, 'impl': impl})
  for j in range(12 if tier == 'quick' else 60):
    nc = rng.randrange(1, 7)
    sizes = [rng.choice([0, 1, 2, 3, 5]) for _ in range(nc)]
    if sum(sizes) == 0:
      sizes[rng.randrange(nc)] = rng.randrange(1, 4)
    srb.append({'kind': 'srbfd', 'sizes': sizes, 'bs': rng.choice([1, 2, 3, 4]), 'cB': rng.choice([1, 2, nc, nc + 3]),
                'eB': rng.choice([1, 2, 3, sum(sizes), 2 * sum(sizes) + 1]),
                'seed': rng.choice(EDGE + [rng.randrange(1 << 32), rng.randrange(1 << 30)]),
                'take': rng.randrange(1, 25), 'impl': IMPLS[j % 3]})
  for c in srb:
    yield c
  sc = []
  for impl in IMPLS:
    for seed in EDGE:
      for nc, B in ((6, 3), (4, 7)):
        sc.append({'kind': 'shufclients', 'nc': nc, 'B': B, 'seed': seed, 'epochs': 2, 'impl': impl})
  for j in range(12 if tier == 'quick' else 60):
    nc = rng.randrange(1, 9)
    sc.append({'kind': 'shufclients', 'nc': nc, 'B': rng.choice([1, 2, 3, nc, nc + 1, nc + 4]),
               'seed': rng.choice(EDGE + [rng.randrange(1 << 32), rng.randrange(1 << 30)]),
               'epochs': rng.randrange(1, 4), 'impl': IMPLS[j % 3], 'idtype': ['bytes', 'str'][j % 2]})
  for c in sc:
    yield c
  # -- "reproducibly for a fixed seed" across interpreter processes (another PYTHONHASHSEED)
  for env in ([{'PYTHONHASHSEED': '777'}] if tier == 'quick' else [{'PYTHONHASHSEED': '777'}, {'PYTHONHASHSEED': 'random'}]):
    yield {'kind': 'xproc', 'env': env, 'cases': [
        {'kind': 'shuffle', 'n': 9, 'B': 4, 'seed': 0, 'src': 5},
        {'kind': 'shuffle', 'n': 7, 'B': 3, 'seed': 12345, 'src': 2},
        {'kind': 'shufbatch', 'bs': 2, 'B': 3, 'seed': 0, 'aff': [2, 1], 'ds': [[0, 0, 3], [0, 0, 0], [0, 0, 4]], 'it': 1, 'pos': 1},
        {'kind': 'shufbatch', 'bs': 3, 'B': 50, 'seed': 7, 'aff': [1, 0], 'ds': [[0, 0, 2], [1, 0, 2]], 'it': 0, 'pos': 0},
        {'kind': 'shufclients', 'nc': 6, 'B': 3, 'seed': 0, 'epochs': 2, 'impl': 'mem', 'idtype': 'str'},
        {'kind': 'shufclients', 'nc': 5, 'B': 7, 'seed': 1, 'epochs': 2, 'impl': 'subset', 'idtype': 'bytes'},
        {'kind': 'shufclients', 'nc': 4, 'B': 2, 'seed': 2 ** 32 - 1, 'epochs': 2, 'impl': 'sqlite', 'idtype': 'bytes'},
        {'kind': 'srbfd', 'sizes': [2, 0, 3, 1], 'bs': 2, 'cB': 2, 'eB': 3, 'seed': 0, 'take': 5, 'impl': 'mem'},
        {'kind': 'padded', 'bs': 3, 'nb': 2, 'aff': [3, 2], 'ds': [[0, 0, 4], [0, 0, 0], [0, 1, 2]], 'it': 1, 'kw': 0}]}


# --------------------------------------------------------------------------
# running the implementation

def _rows(base, n):
  g = np.arange(base + 1, base + n + 1, dtype=np.int64)
  return g


def _columns(g):
  """The extra feature columns of a row with global number g (any integer array): float16, bool,
  uint8 image, fixed-width bytes / unicode, datetime64, complex64, object."""
  g = np.asarray(g, dtype=np.int64)
  n = len(g)
  obj = np.empty(n, dtype=object)
  for j, t in enumerate(g.tolist()):
    obj[j] = b'o%d' % t
  return {
      'h': (g % 2048).astype(np.float16),
      'nf': np.array([np.nan, np.inf, -np.inf, 1.5], dtype=np.float32)[g % 4],   # non-finite values on REAL rows
      'flag': (g % 2 == 1),
      'img': ((g[:, None] * 3 + np.arange(3)[None, :]) % 251 + 1).astype(np.uint8).reshape(n, 3),
      's4': np.array([b'r%d' % (t % 1000) for t in g.tolist()], dtype='S4').reshape(n),
      'u3': np.array(['u%d' % (t % 100) for t in g.tolist()], dtype='U3').reshape(n),
      'day': (g + 11000).astype('datetime64[D]'),
      'cplx': (g + 2j).astype(np.complex64),
      'obj': obj,
  }


def _examples(base, n, feat, flip):
  g = _rows(base, n)
  ex = {'x': g.astype(np.int32), 'v': np.stack([g * 10, g * 10 + 1], axis=1).astype(np.int64).reshape(n, 2)}
  ex.update(_columns(g))
  if feat == 1:
    ex['y'] = g.astype(np.float32)
  if feat == 2:
    del ex['v']
  if feat == 3:     # same number of features, another name
    ex['w'] = ex.pop('v')
  if flip:
    ex = dict(reversed(list(ex.items())))
  return ex


def _preprocessors(aff):
  import fedjax
  from fedjax.core import client_datasets as cdm
  a, b = aff
  pool = {}

  def get(i):
    if i not in pool:
      if (a, b) == (1, 0):
        pool[i] = cdm.NoOpBatchPreprocessor if i == 0 else fedjax.BatchPreprocessor()
      else:
        pool[i] = fedjax.BatchPreprocessor([lambda e: {**e, 'x': e['x'] * a + b}])
    return pool[i]
  return get


def _relayout(ex, how):
  """The same values in another memory layout: 1 Fortran order / every-other-row slice of a larger array,
  2 negative strides / non-contiguous column slice of a wider array, 3 read-only, 4 byte-swapped dtype."""
  if not how:
    return ex
  out = {}
  for k, v in ex.items():
    if v.dtype == object:
      out[k] = v
      continue
    if how == 1:
      if v.ndim > 1:
        w = np.asfortranarray(v)
      else:
        big = np.zeros((2 * len(v),) + v.shape[1:], v.dtype)
        big[::2] = v
        w = big[::2]
    elif how == 2:
      if v.ndim > 1:
        wide = np.zeros((v.shape[0], v.shape[1] + 2), v.dtype)
        wide[:, 1:-1] = v
        w = wide[:, 1:-1]
      else:
        w = np.ascontiguousarray(v[::-1])[::-1]
    elif how == 3:
      w = v.copy()
      w.setflags(write=False)
    else:
      w = v.astype(v.dtype.newbyteorder('S')) if v.dtype.kind in 'iufc' and v.dtype.itemsize > 1 else v
    assert w.shape == v.shape and (len(v) == 0 or np.array_equal(w, v, equal_nan=v.dtype.kind in 'fc'))
    out[k] = w
  return out


def _datasets(case):
  import fedjax
  get = _preprocessors(case['aff'])
  out, base = [], 0
  for j, (p, f, n) in enumerate(case['ds']):
    lay = (case.get('layout', 0) + j) % 5 if case.get('layout') else 0
    out.append(fedjax.ClientDataset(_relayout(_examples(base, n, f, j % 2 == 1), lay), get(p)))
    base += n
  return out


def _fd_impl(data, impl):
  """(FederatedData over `data` in the requested implementation, cleanup)."""
  import fedjax
  if impl == 'subset':
    from fedjax.core import federated_data as fdm
    extra = dict(data)
    extra['~not-in-subset' if any(isinstance(k, str) for k in data) else b'~not-in-subset'] = _examples(10 ** 6, 2, 0, False)
    return fdm.SubsetFederatedData(fedjax.InMemoryFederatedData(extra), list(reversed(sorted(data)))), lambda: None
  if impl == 'sqlite':
    import os
    import shutil
    import tempfile
    from fedjax.core import sqlite_federated_data as sq
    d = tempfile.mkdtemp(prefix='verif_c15_')
    path = os.path.join(d, 'fd.sqlite')
    # fedjax's msgpack serialization does not round-trip fixed-width 'S' / 'U' arrays (dtype names
    # 'bytes32' / 'str96' are not parseable; serialization is C16's subject): not stored in SQLite
    strip = lambda ex: {k: v for k, v in ex.items() if k not in ('s4', 'u3')}
    with sq.SQLiteFederatedDataBuilder(path) as b:
      keys = sorted(data)
      keys = keys[1::2] + keys[0::2]      # SQLite iterates in insertion (rowid) order: make it differ from the sorted order
      b.add_many([(cid, strip(data[cid])) for cid in keys])
    return sq.SQLiteFederatedData.new(path), lambda: shutil.rmtree(d, ignore_errors=True)
  keys = list(data)
  keys = keys[1::2] + keys[0::2]        # insertion order differs from the sorted order
  return fedjax.InMemoryFederatedData({k: data[k] for k in keys}), lambda: None


def _perturb(k):
  """Moves numpy's process-global RNG elsewhere, so that a stream drawing from the global
  state instead of its own seeded RandomState is not reproducible between two creations."""
  np.random.seed(70001 + 104729 * k)
  np.random.rand(2 + k)


def _repeat_base(kind, n):
  return [lambda: list(range(n)), lambda: tuple(range(n)), lambda: {k: -k for k in range(n)},
          lambda: ''.join(chr(48 + k) for k in range(n)), lambda: bytes(range(n)),
          lambda: (k for k in range(n)), lambda: iter(list(range(n))), lambda: range(n),
          lambda: map(lambda k: k, range(n)),
          lambda: __import__('fedjax').RepeatableIterator(k for k in range(n))][kind]()    # a wrapper of the wrapper


def _iterable(dsl, how, cnt=None):
  """Argument delivery forms: 0 list, 1 generator, 2 tuple, 3 iter(list), 4 map object.  The one-shot
  forms 1 and 4 count how many elements were pulled."""
  cnt = cnt if cnt is not None else [0]

  def gen():
    for d in dsl:
      cnt[0] += 1
      yield d

  def tick(d):
    cnt[0] += 1
    return d
  return [lambda: list(dsl), gen, lambda: tuple(dsl), lambda: iter(list(dsl)), lambda: map(tick, dsl)][how]()


def _eq(a, b):
  a, b = np.asarray(a), np.asarray(b)
  return a.dtype == b.dtype and a.shape == b.shape and np.array_equal(a, b, equal_nan=a.dtype.kind in 'fc')


def _snap_datasets(dsl):
  # (value copy, the array object itself): values, dtype, strides, flags and identity must survive the call
  return [[(k, (v.copy(order='K'), v, v.strides, v.flags.writeable)) for k, v in d.raw_examples.items()] for d in dsl]


def _datasets_unchanged(dsl, snap):
  if len(dsl) != len(snap):
    return False
  for d, sn in zip(dsl, snap):
    if list(d.raw_examples) != [k for k, _ in sn]:
      return False
    for k, (val, obj, strides, writeable) in sn:
      cur = d.raw_examples[k]
      if cur is not obj or cur.strides != strides or cur.flags.writeable != writeable or cur.dtype != val.dtype \
          or cur.shape != val.shape or not np.array_equal(cur, val, equal_nan=val.dtype.kind in 'fc'):
        return False
  return True


def _drain(gen, conv):
  out, err = [], None
  try:
    for b in gen:
      out.append(conv(b))
  except ValueError:
    err = 'ValueError'
  except Exception as ex:  # pylint: disable=broad-except
    err = type(ex).__name__
  return out, err


def _v_follows(b, aff, mask):
  """Every feature column follows its row (identified by x); padded rows hold the zero value of the
  column's dtype (0, False, b'', '', the epoch, 0j; 0 / b'' / None for object); dtypes and trailing
  shapes are kept."""
  a, c = aff
  x = np.asarray(b['x'])
  n = len(x)
  if x.dtype.newbyteorder('=') != np.dtype(np.int32):
    return False
  real = np.ones(n, bool) if mask is None else np.asarray(mask, bool)
  if real.shape != (n,):
    return False
  if mask is not None and np.asarray(b[M]).dtype != np.bool_:
    return False
  g = (x.astype(np.int64) - c) // a
  g = np.where(real, g, 0)
  exp = _columns(g)
  if 'v' in b:
    exp['v'] = np.stack([g * 10, g * 10 + 1], axis=1)
  if 'w' in b:
    exp['w'] = np.stack([g * 10, g * 10 + 1], axis=1)
  if 'y' in b:
    exp['y'] = g.astype(np.float32)
  want_dt = {'v': np.int64, 'w': np.int64, 'y': np.float32, 'h': np.float16, 'nf': np.float32, 'flag': np.bool_, 'img': np.uint8,
             's4': np.dtype('S4'), 'u3': np.dtype('U3'), 'day': np.dtype('datetime64[D]'), 'cplx': np.complex64,
             'obj': np.dtype(object)}
  for k in ('s4', 'u3'):        # absent from SQLite-backed datasets
    if k not in b:
      del exp[k]
  if set(b) - {M, 'x'} != set(exp):
    return False
  for k, e in exp.items():
    col = np.asarray(b[k])
    if col.dtype.newbyteorder('=') != np.dtype(want_dt[k]) or col.shape != np.asarray(e).shape:
      return False
    if k == 'obj':
      for j in range(n):
        if real[j] and col[j] != e[j]:
          return False
        if not real[j] and col[j] not in (0, b'', None):
          return False
      continue
    if not np.array_equal(col[real], np.asarray(e)[real], equal_nan=(k == 'nf')):
      return False
    pad = col[~real]
    zero = np.zeros(pad.shape, col.dtype.newbyteorder('='))
    if pad.size and not np.array_equal(pad, zero):
      return False
  return True


def _padded_gen(case, datasets):
  import fedjax
  bs, nb = case['bs'], case['nb']
  if case.get('kw') == 2:    # keyword arguments override an existing hparams object
    return fedjax.padded_batch_client_datasets(
        datasets, fedjax.PaddedBatchHParams(batch_size=bs + 3, num_batch_size_buckets=nb + 1), batch_size=bs,
        num_batch_size_buckets=nb)
  if case.get('kw'):
    return fedjax.padded_batch_client_datasets(datasets, batch_size=bs, num_batch_size_buckets=nb)
  return fedjax.padded_batch_client_datasets(datasets, fedjax.PaddedBatchHParams(batch_size=bs, num_batch_size_buckets=nb))


def _run_padded(case, dsl):
  """dsl: the list of ClientDataset objects (delivered in the form case['it'])."""
  feat_ok = [True]
  kept = []

  def conv(b):
    kept.append((b, {k: np.array(v, copy=True) for k, v in b.items()}))
    if M not in b:
      feat_ok[0] = False
      return [np.asarray(b['x']).tolist(), []]
    feat_ok[0] &= _v_follows(b, case['aff'], b[M])
    return [np.asarray(b['x']).tolist(), [bool(t) for t in np.asarray(b[M]).tolist()]]

  def plain(b):
    return [np.asarray(b['x']).tolist(), [bool(t) for t in np.asarray(b.get(M, [])).tolist()]]
  snap = _snap_datasets(dsl)
  cnt = [0]
  batches, err = _drain(_padded_gen(case, _iterable(dsl, case.get('it', 0), cnt)), conv)
  # object reuse: the same dataset objects again, first with another batch size, then as before
  _drain(_padded_gen({**case, 'bs': case['bs'] + 1, 'kw': 1}, list(dsl)), plain)
  again = _drain(_padded_gen(case, list(dsl)), plain)
  # two live generators over the same datasets, advanced alternately
  g1, g2 = _padded_gen(case, list(dsl)), _padded_gen(case, (d for d in dsl))
  o1, o2, e1, e2 = [], [], None, None
  live = [True, True]
  while any(live):
    for j, (g, o) in enumerate(((g1, o1), (g2, o2))):
      if not live[j]:
        continue
      try:
        o.append(plain(next(g)))
      except StopIteration:
        live[j] = False
      except Exception as ex:  # pylint: disable=broad-except
        live[j] = False
        if j == 0:
          e1 = 'ValueError' if isinstance(ex, ValueError) else type(ex).__name__
        else:
          e2 = 'ValueError' if isinstance(ex, ValueError) else type(ex).__name__
  kept_ok = all(set(b) == set(sn) and all(_eq(b[k], sn[k]) for k in sn) for b, sn in kept)
  pulled = cnt[0] if case.get('it', 0) in (1, 4) else None
  return {'batches': batches, 'err': err, 'feat_ok': feat_ok[0], 'again': again == (batches, err),
          'interleaved': (o1, e1) == (batches, err) and (o2, e2) == (batches, err), 'kept_ok': bool(kept_ok),
          'inputs_ok': _datasets_unchanged(dsl, snap), 'pulled': pulled}


def _run_xproc(case):
  """The embedded cases here and in another interpreter process (other PYTHONHASHSEED)."""
  import json
  import os
  import subprocess
  import sys
  env = dict(os.environ)
  env.update(case['env'])
  p = subprocess.run([sys.executable, '-m', 'harness.c15'], input=json.dumps(case['cases']), capture_output=True,
                     text=True, env=env, timeout=80)
  if p.returncode != 0:
    return {'sub_error': (p.stderr or '')[-400:], 'subs': [], 'here': []}
  return {'sub_error': None, 'subs': json.loads(p.stdout.strip().split('\n')[-1]), 'here': [run(c) for c in case['cases']]}


def _sub_main():
  import json
  import sys
  print(json.dumps([run(c) for c in json.loads(sys.stdin.read())]))


def _grid_sizes(split, n):
  return [[n], [n // 3, n - n // 3], [n // 2, 0, n - n // 2]][split]


def run(case):
  import fedjax
  from fedjax.core import client_datasets as cd
  from fedjax.core import federated_data as fdm
  kind = case['kind']
  if kind == 'xproc':
    return _run_xproc(case)
  if kind == 'padgrid':
    counts = []
    for n in range(case['maxn'] + 1):
      dsl, base = [], 0
      for sz in _grid_sizes(case['split'], n):
        dsl.append(fedjax.ClientDataset({'x': np.arange(base + 1, base + sz + 1, dtype=np.int32)}))
        base += sz
      k, last, real = 0, 0, 0
      try:
        for b in fedjax.padded_batch_client_datasets(dsl, batch_size=case['bs'], num_batch_size_buckets=case['nb']):
          k += 1
          last = len(b['x'])
          real += int(np.sum(b[M]))
      except Exception as ex:  # pylint: disable=broad-except
        return {'counts': counts, 'error': [n, type(ex).__name__]}
      counts.append([k, last, real])
    return {'counts': counts, 'error': None}
  if kind == 'padded':
    return _run_padded(case, _datasets(case))
  if kind == 'pbfd':
    ids = [b'c%02d' % j + (b'\x00' * (j % 3)) for j in range(len(case['sizes']))]
    if case.get('idtype') == 'str':
      ids = [i.decode('latin1') for i in ids]
    if len(ids) > 1:
      ids[-1] = ids[-1][:0]      # the empty id is a valid client id
    order = sorted(range(len(ids)), key=lambda j: ids[j])
    base, built = 0, {}
    for j in order:   # rows numbered in sorted-id order = the order clients() visits
      built[ids[j]] = _examples(base, case['sizes'][j], 0, False)
      base += case['sizes'][j]
    # ... but the mapping is filled in the given (unsorted) order
    data = {ids[j]: built[ids[j]] for j in range(len(ids))}
    fd = fedjax.InMemoryFederatedData(data)
    a, b = case['aff']
    if (a, b) != (1, 0):
      fd = fd.preprocess_batch(lambda e: {**e, 'x': e['x'] * a + b})
    feat_ok = [True]

    def conv(bt):
      feat_ok[0] &= M in bt and _v_follows(bt, case['aff'], bt.get(M))
      return [np.asarray(bt['x']).tolist(), [bool(t) for t in np.asarray(bt.get(M, [])).tolist()]]
    if case['kw'] == 2:
      gen = fedjax.padded_batch_federated_data(
          fd, fedjax.PaddedBatchHParams(batch_size=case['bs'] + 2, num_batch_size_buckets=case['nb'] + 2),
          batch_size=case['bs'], num_batch_size_buckets=case['nb'])
    elif case['kw']:
      gen = fedjax.padded_batch_federated_data(fd, batch_size=case['bs'], num_batch_size_buckets=case['nb'])
    else:
      gen = fedjax.padded_batch_federated_data(
          fd, fedjax.PaddedBatchHParams(batch_size=case['bs'], num_batch_size_buckets=case['nb']))
    batches, err = _drain(gen, conv)
    return {'batches': batches, 'err': err, 'feat_ok': feat_ok[0], 'sorted_sizes': [case['sizes'][j] for j in order]}
  if kind == 'shuffle':
    def source():
      n = case['n']
      return [lambda: range(n), lambda: list(range(n)), lambda: (k for k in range(n)), lambda: tuple(range(n)),
              lambda: iter(list(range(n))), lambda: {k: None for k in range(n)}.keys(),
              lambda: [k // 2 for k in range(n)], lambda: (7 for _ in range(n))][case['src']]()
    rng = RecRng(case['seed'])
    src_obj = source()
    out, err = _drain(cd.buffered_shuffle(src_obj, case['B'], rng), int)
    rng2 = np.random.RandomState(case['seed'])
    # second call: the SAME source object when it is a re-iterable (Sized) one, a fresh one otherwise
    out2, _ = _drain(cd.buffered_shuffle(src_obj if hasattr(src_obj, '__len__') else source(), case['B'], rng2), int)
    return {'out': out, 'err': err, 'codes': rng.codes, 'draws': rng.draws, 'contract': rng.contract, 'same': out == out2}
  if kind == 'shuffle_seeds':
    outs = []
    for s in case['seeds']:
      o, _ = _drain(cd.buffered_shuffle(range(case['n']), case['B'], np.random.RandomState(s)), int)
      outs.append(o)
    return {'outs': outs}
  if kind == 'shufbatch':
    feat_ok = [True]

    def conv(b):
      feat_ok[0] &= _v_follows(b, case['aff'], None) and M not in b
      return np.asarray(b['x']).tolist()
    dsl = _datasets(case)
    snap = _snap_datasets(dsl)
    cnt = [0]
    rng = RecRng(case['seed'])
    if case.get('pos'):
      gen = fedjax.buffered_shuffle_batch_client_datasets(_iterable(dsl, case['it'], cnt), case['bs'], case['B'], rng)
    else:
      gen = cd.buffered_shuffle_batch_client_datasets(
          _iterable(dsl, case['it'], cnt), batch_size=case['bs'], buffer_size=case['B'], rng=rng)
    batches, err = _drain(gen, conv)
    b2, _ = _drain(cd.buffered_shuffle_batch_client_datasets(
        dsl, batch_size=case['bs'], buffer_size=case['B'], rng=np.random.RandomState(case['seed'])), conv)
    return {'batches': batches, 'err': err, 'codes': rng.codes, 'draws': rng.draws, 'contract': rng.contract,
            'same': batches == b2, 'feat_ok': feat_ok[0], 'inputs_ok': _datasets_unchanged(dsl, snap),
            'pulled': cnt[0] if case['it'] in (1, 4) and err is None else None}
  if kind == 'repeat_ops':
    n = case['n']
    it = fedjax.RepeatableIterator(_repeat_base(case['base'], n))
    conv = lambda v: ord(v) - 48 if isinstance(v, str) else int(v)
    parts, prim, trace, iter_ok = [], [], [], True
    limit = 4 * n + 8        # a pass never has more than n items: a longer one is a runaway iterator

    def bounded(iterable):
      for j, v in enumerate(iterable):
        if j >= limit:
          raise OverflowError('runaway')
        yield v
    runaway = False
    for op in case['ops']:
      if runaway:
        break
      if op[0] == 'N':        # next(it)
        prim.append(True)
        try:
          got = [conv(next(it))]
          trace.append(got[0])
        except StopIteration:
          got = []
          trace.append(None)
      elif op[0] == 'I':      # iter(it)
        prim.append(False)
        iter_ok &= iter(it) is it
        got = []
      elif op[0] == 'S':      # list(itertools.islice(it, k)): iter(it), then k next() (fewer + StopIteration at the end)
        got = [conv(v) for v in itertools.islice(it, op[1])]
        prim += [False] + [True] * (len(got) + (1 if len(got) < op[1] else 0))
        trace += got + ([None] if len(got) < op[1] else [])
      elif op[0] == 'F':      # for v in it: ...; break after k items
        got = []
        broke = False
        for v in it:
          got.append(conv(v))
          if len(got) == op[1]:
            broke = True
            break
          if len(got) > limit:
            runaway = True
            break
        prim += [False] + [True] * (len(got) + (0 if broke or runaway else 1))
        trace += got + ([] if broke or runaway else [None])
      else:                   # list(it): iter(it), then next() until StopIteration
        got = []
        try:
          for v in bounded(it):
            got.append(conv(v))
        except OverflowError:
          runaway = True
        prim += [False] + [True] * (len(got) + (0 if runaway else 1))
        trace += got + ([] if runaway else [None])
      parts.append(got)
    return {'parts': parts, 'prim': prim, 'trace': trace, 'iter_is_self': iter_ok, 'runaway': runaway}
  if kind == 'repeat':
    n = case['n']
    base = _repeat_base(case['base'], n)
    it = fedjax.RepeatableIterator(base)
    trace = []
    for _ in range(case['calls']):
      try:
        v = next(it)
        trace.append(ord(v) - 48 if isinstance(v, str) else int(v))
      except StopIteration:
        trace.append(None)
    return {'trace': trace, 'iter_is_self': iter(it) is it}
  if kind in ('srbfd', 'shufclients'):
    saved = np.random.get_state()
    cleanup = lambda: None
    try:
      if kind == 'srbfd':
        sizes = case['sizes']
        base, data = 0, {}
        for j, s in enumerate(sizes):
          data[b'k%02d' % j] = _examples(base, s, 0, False)
          base += s
        fd, cleanup = _fd_impl(data, case.get('impl', 'mem'))

        def take(seed, k):
          _perturb(k)
          gen = fedjax.shuffle_repeat_batch_federated_data(fd, batch_size=case['bs'], client_buffer_size=case['cB'],
                                                           example_buffer_size=case['eB'], seed=seed)
          return [np.asarray(b['x']).tolist() for b in itertools.islice(gen, case['take'])]
        o1 = take(case['seed'], 1)
        same = o1 == take(case['seed'], 2)
        other = take((case['seed'] + 1) % (1 << 32), 3)
        # the oracle, recomputed independently by composing the parts as the docstring says: one
        # RandomState(seed); its first draw seeds the client stream; then it drives the example shuffle
        rec = RecRng(case['seed'])
        s2 = int(rec.randint(1 << 32))
        need = case['eB'] + case['take'] * case['bs']

        def items():
          for _, ds in fd.shuffled_clients(case['cB'], s2):
            for v in np.asarray(ds.raw_examples['x']).tolist():
              yield int(v)
        prefix = list(itertools.islice(items(), need))
        rec.draws.clear()
        list(cd.buffered_shuffle(iter(prefix), case['eB'], rec))
        return {'batches': o1, 'same': same, 'other': other, 'prefix': prefix,
                'codes': rec.codes, 'draws': rec.draws, 'contract': rec.contract}
      nc = case['nc']
      data = {b'id%02d' % j + b'\x00' * (j % 2): _examples(100 * j, 1 + j % 3, 0, False) for j in range(nc)}
      if case.get('idtype') == 'str' and case.get('impl', 'mem') != 'sqlite':
        data = {k.decode('latin1'): v for k, v in data.items()}
      fd, cleanup = _fd_impl(data, case.get('impl', 'mem'))
      created = {cid: j for j, cid in enumerate(sorted(data))}      # the rows of client j start at 100 * j + 1
      ids = [cid for cid, _ in fd.clients()]                        # stream positions refer to clients() order
      rank = lambda cid, ds: [ids.index(cid) if cid in ids else -1,
                              ids.index(cid) if created.get(cid) == int(np.asarray(ds.raw_examples['x'])[0]) // 100 else -2]

      def take(seed, k):
        _perturb(k)
        out = []
        for cid, ds in itertools.islice(fd.shuffled_clients(case['B'], seed), nc * case['epochs']):
          out.append(rank(cid, ds))
        return out
      o1 = take(case['seed'], 1)
      same = o1 == take(case['seed'], 2)
      # two live streams with the same seed, advanced alternately
      s1, s2 = fd.shuffled_clients(case['B'], case['seed']), fd.shuffled_clients(case['B'], case['seed'])
      i1, i2 = [], []
      for _ in range(nc * case['epochs']):
        for st, acc in ((s1, i1), (s2, i2)):
          cid, ds = next(st)
          acc.append(rank(cid, ds))
      same = same and i1 == o1 and i2 == o1
      # the oracle of every pass, recomputed independently: NumPy's answers for RandomState(seed)
      # when one buffered_shuffle per pass is run over the clients
      rec, oracles = RecRng(case['seed']), []
      for _ in range(case['epochs']):
        nco, ndr = len(rec.codes), len(rec.draws)
        list(cd.buffered_shuffle(list(range(nc)), case['B'], rec))
        oracles.append([rec.codes[nco] if len(rec.codes) > nco else [], [d[2] for d in rec.draws[ndr:]]])
      return {'stream': o1, 'same': same, 'oracles': oracles, 'contract': rec.contract}
    finally:
      np.random.set_state(saved)
      cleanup()
  raise ValueError('unknown case kind ' + kind)


# --------------------------------------------------------------------------
# property oracle (direct wording, independent of the Coq model)

def _consistent(ds):
  return all(d[0] == ds[0][0] and d[1] == ds[0][1] for d in ds)


def _minimal_bucket(real, bs, nb):
  rem = real % bs
  if rem == 0:
    return bs
  v, cands = bs, []
  for _ in range(max(1, nb)):
    cands.append(v)
    v //= 2
  return min(c for c in cands if c >= rem)


def _reuse_violations(obs, tag, expect_pulled):
  out = []
  if not obs.get('again', True):
    out.append((tag + 'reiterate', 'the same dataset objects batched again (after a call with other hyper-parameters) gave different batches'))
  if not obs.get('interleaved', True):
    out.append((tag + 'interleave', 'two generators over the same datasets advanced alternately differ from a single one'))
  if not obs.get('kept_ok', True):
    out.append((tag + 'kept-changed', 'a batch kept by the caller changed while later batches were produced'))
  if not obs.get('inputs_ok', True):
    out.append((tag + 'input-mutated', 'the call changed the client datasets (arrays or feature dict)'))
  if obs.get('pulled') is not None and expect_pulled is not None and obs['pulled'] != expect_pulled:
    out.append((tag + 'consumption', f'{obs["pulled"]} datasets pulled from the one-shot iterable, {expect_pulled} expected'))
  return out


def _oracle_padded(sizes, consistent, bs, nb, aff, obs, tag, first_bad=None):
  out = []
  a, b = aff
  if not consistent:
    if obs['err'] != 'ValueError':
      out.append((tag + 'mismatch-not-rejected', f'mismatching preprocessor / features not rejected with ValueError (got {obs["err"]})'))
    return out + _reuse_violations(obs, tag, None if first_bad is None else first_bad + 1)
  if obs['err'] is not None:
    out.append((tag + 'unexpected-error', f'consistent datasets raised {obs["err"]}'))
    return out
  n = sum(sizes)
  want = [a * g + b for g in range(1, n + 1)]
  real = []
  for x, m in obs['batches']:
    if len(m) != len(x):
      out.append((tag + 'mask-shape', 'mask and rows differ in length'))
      return out
    k = sum(m)
    if m != [True] * k + [False] * (len(m) - k):
      out.append((tag + 'mask-prefix', 'mask is not True on a prefix'))
    if any(v != 0 for v, t in zip(x, m) if not t):
      out.append((tag + 'pad-zero', 'padded rows are not zero'))
    real += [v for v, t in zip(x, m) if t]
  if real != want:
    lost = len(want) - len(real)
    out.append((tag + 'concat', f'stripped batches are not the concatenation of the datasets in client and row order ({lost} rows lost)'
                if lost > 0 else 'stripped batches are not the concatenation of the datasets in client and row order'))
  for x, m in obs['batches'][:-1]:
    if len(x) != bs or not all(m):
      out.append((tag + 'not-full', 'a non-final batch is not full'))
      break
  if obs['batches']:
    x, m = obs['batches'][-1]
    if len(x) != _minimal_bucket(sum(m), bs, nb):
      out.append((tag + 'final-size', f'final batch has {len(x)} rows for {sum(m)} real rows; bucket rule gives {_minimal_bucket(sum(m), bs, nb)}'))
  if not obs['feat_ok']:
    out.append((tag + 'features', 'a feature does not follow its row, changed dtype/shape, or a padded row is not the zero value of its dtype'))
  out += _reuse_violations(obs, tag, len(sizes))
  return out


def oracle(case, obs):
  kind = case['kind']
  out = []
  if kind == 'xproc':
    if obs['sub_error'] is not None:
      return [('xproc-subprocess', f'the cases failed in a subprocess with {case["env"]}: {obs["sub_error"][-200:]}')]
    for c, so, ho in zip(case['cases'], obs['subs'], obs['here']):
      out += [(k, f'in a process with {case["env"]}: {m}') for k, m in oracle(c, so)]
      for key in ('out', 'batches', 'stream', 'err', 'trace'):
        if so.get(key) != ho.get(key):
          out.append(('process-dependent', f'{c["kind"]}: `{key}` differs between two interpreter processes ({case["env"]}) for the same seed'))
    return out
  if kind == 'padgrid':
    bs, nb = case['bs'], case['nb']
    if obs.get('error'):
      return [('padded-grid-error', f'N={obs["error"][0]} bs={bs} buckets={nb} sizes={_grid_sizes(case["split"], obs["error"][0])}: raised {obs["error"][1]}')]
    for n, (k, last, real) in enumerate(obs['counts']):
      sizes = _grid_sizes(case['split'], n)
      rem = n % bs
      # exact integer arithmetic: ceil(n / bs) batches (+ one all-padding batch when the carry buffer holds
      # only empty pieces at the end), the last one of the bucket-rule size
      want_k = -(-n // bs)
      trailing_empty = (n == 0 and len(sizes) >= 1)
      want_last = _minimal_bucket(rem if rem else (bs if n else 0), bs, nb) if n else bs
      if real != n:
        out.append(('padded-grid-rows', f'N={n} bs={bs} buckets={nb} sizes={sizes}: {real} real rows'))
      if k != want_k + (1 if trailing_empty else 0):
        out.append(('padded-grid-count', f'N={n} bs={bs} buckets={nb} sizes={sizes}: {k} batches, expected {want_k}'))
      elif k and last != want_last:
        out.append(('padded-grid-final-size', f'N={n} bs={bs} buckets={nb} sizes={sizes}: last batch has {last} rows, bucket rule gives {want_last}'))
      if out:
        break
    return out
  if kind == 'padded':
    ds = case['ds']
    bad = next((j for j, d in enumerate(ds) if d[0] != ds[0][0] or d[1] != ds[0][1]), None)
    return _oracle_padded([d[2] for d in ds], _consistent(ds), case['bs'], case['nb'], case['aff'], obs, 'padded-', bad)
  if kind == 'pbfd':
    return _oracle_padded(case['sizes'], True, case['bs'], case['nb'], case['aff'], obs, 'fd-padded-')
  if kind == 'shuffle':
    if obs['err'] is not None:
      return [('shuffle-error', f'buffered_shuffle raised {obs["err"]}')]
    want = {6: sorted(k // 2 for k in range(case['n'])), 7: [7] * case['n']}.get(case['src'], list(range(case['n'])))
    if sorted(obs['out']) != want:
      out.append(('shuffle-not-permutation', 'buffered_shuffle lost or duplicated an item'))
    if not obs['same']:
      out.append(('shuffle-not-reproducible', 'same seed, different order'))
    if not obs['contract']:
      out.append(('numpy-contract', 'recorded shuffle / randint violated the assumed NumPy contract'))
    return out
  if kind == 'shuffle_seeds':
    ident = list(range(case['n']))
    if any(sorted(o) != ident for o in obs['outs']):
      out.append(('shuffle-not-permutation', 'buffered_shuffle lost or duplicated an item'))
    if case['B'] >= 3 and all(o == ident for o in obs['outs']):
      out.append(('shuffle-trivial-order', 'every seed gave the input order'))
    if case['B'] >= 3 and all(o == obs['outs'][0] for o in obs['outs']):
      out.append(('shuffle-seed-ignored', 'every seed gave the same order'))
    return out
  if kind == 'shufbatch':
    ds = case['ds']
    if not _consistent(ds):
      if obs['err'] != 'ValueError':
        out.append(('shufbatch-mismatch-not-rejected', f'mismatching preprocessor / features not rejected with ValueError (got {obs["err"]})'))
      return out
    if obs['err'] is not None:
      return [('shufbatch-unexpected-error', f'consistent datasets raised {obs["err"]}')]
    a, b = case['aff']
    n = sum(d[2] for d in ds)
    flat = [v for bt in obs['batches'] for v in bt]
    if sorted(flat) != [a * g + b for g in range(1, n + 1)]:
      out.append(('shufbatch-not-exactly-once', 'an item was lost or duplicated'))
    bs = case['bs']
    if any(len(bt) != bs for bt in obs['batches'][:-1]) or any(not 1 <= len(bt) <= bs for bt in obs['batches']):
      out.append(('shufbatch-sizes', 'a non-final batch is not batch_size rows, or an empty / oversized batch'))
    if not obs['same']:
      out.append(('shufbatch-not-reproducible', 'same seed, different batches'))
    if not obs['contract']:
      out.append(('numpy-contract', 'recorded shuffle / randint violated the assumed NumPy contract'))
    if not obs['feat_ok']:
      out.append(('shufbatch-features', 'a feature does not follow its row or a mask appeared'))
    return out + _reuse_violations(obs, 'shufbatch-', len(ds))
  if kind == 'repeat_ops':
    n = case['n']
    cyc = list(range(n)) + [None]
    want = [cyc[j % (n + 1)] for j in range(len(obs['trace']))]
    if obs.get('runaway'):
      out.append(('repeat-runaway', f'a pass over a base of {n} items did not end within {4 * n + 8} items'))
    if obs['trace'] != want:
      out.append(('repeat-split-pass', f'a pass consumed in pieces {obs["parts"]} (ops {case["ops"]}) is not the first pass '
                  f'{list(range(n))} replayed: an iter() call in the middle of a pass changed what next() returns'))
    if not obs['iter_is_self']:
      out.append(('repeat-iter', 'iter(it) is not it'))
    return out
  if kind == 'repeat':
    n = case['n']
    cyc = list(range(n)) + [None]
    want = [cyc[j % (n + 1)] for j in range(case['calls'])]
    if obs['trace'] != want:
      out.append(('repeat-not-first-pass', f'RepeatableIterator trace {obs["trace"]} is not the first pass repeated {want}'))
    if not obs['iter_is_self']:
      out.append(('repeat-iter', 'iter(it) is not it'))
    return out
  if kind == 'srbfd':
    n = sum(case['sizes'])
    bs, eB = case['bs'], case['eB']
    flat = [v for bt in obs['batches'] for v in bt]
    L = len(flat)
    if any(len(bt) != bs for bt in obs['batches']) or len(obs['batches']) != case['take']:
      out.append(('srb-sizes', 'a batch of the infinite training stream is not batch_size rows'))
    cnt = {}
    for v in flat:
      cnt[v] = cnt.get(v, 0) + 1
    if any(not 1 <= v <= n for v in flat):
      out.append(('srb-foreign', 'a row that is in no client'))
    hi = -(-(L + eB) // n)       # the L emitted items + the eB buffered ones are a prefix of whole passes
    lo = (L + eB) // n
    if any(c > hi for c in cnt.values()):
      out.append(('srb-duplicate', 'an item occurs more often than the number of passes started'))
    if sum(max(0, lo - cnt.get(g, 0)) for g in range(1, n + 1)) > eB:
      out.append(('srb-lost', 'more items are missing from completed passes than the shuffle buffer can hold'))
    if not obs['same']:
      out.append(('srb-not-reproducible', 'same seed, different stream'))
    if not obs.get('contract', True):
      out.append(('numpy-contract', 'recorded shuffle / randint violated the assumed NumPy contract'))
    return out
  if kind == 'shufclients':
    nc = case['nc']
    st = obs['stream']
    for e in range(case['epochs']):
      blk = st[e * nc:(e + 1) * nc]
      if sorted(i for i, _ in blk) != list(range(nc)):
        out.append(('clients-not-once-per-pass', 'a pass of shuffled_clients is not a permutation of the clients'))
        break
    if any(i != d for i, d in st):
      out.append(('clients-wrong-dataset', 'a client id came with another client\'s dataset'))
    if not obs['same']:
      out.append(('clients-not-reproducible', 'same seed, different client order'))
    if not obs.get('contract', True):
      out.append(('numpy-contract', 'recorded shuffle / randint violated the assumed NumPy contract'))
    return out
  return out


# --------------------------------------------------------------------------
# Coq encoding

def _zl(xs):
  return '(' + fw.zlist(xs) + ')%Z'


def _ds_term(ds):
  return '[' + '; '.join(f'({fw.zlit(p)}%Z, {fw.zlit(f)}%Z, {n}%nat)' for p, f, n in ds) + ']'


def _padded_obs(obs):
  bt = '[' + '; '.join(f'({_zl(x)}, {fw.blist(m)})' for x, m in obs['batches']) + ']'
  return f'OPadded {fw.cbool(obs["err"] == "ValueError")} {bt}'


BAD_OBS = 'ORepeat [Some 0%Z; Some 0%Z]'   # an observation no case agrees with (unexpected exception kinds)


def _oracle_args(case, obs):
  """(code, draws) for the model; None when the recording does not have the expected shape."""
  B = case['B']
  codes, draws = obs['codes'], obs['draws']
  if len(codes) > 1 or any(d[0] != B or d[1] is not None for d in draws):
    return None
  code = codes[0] if codes else []
  return fw.natlist(code), _zl([d[2] for d in draws])


def encode(case, obs):
  kind = case['kind']
  if kind == 'xproc':
    return None
  if kind == 'padgrid':
    cs = '[' + '; '.join(f'({k}, {last})' for k, last, _ in obs['counts']) + ']%nat'
    return f'(CPadGrid {case["bs"]}%Z {case["nb"]}%Z {case["split"]}%nat, OPadGrid {cs})'
  if kind in ('padded', 'pbfd'):
    ds = case['ds'] if kind == 'padded' else [[0, 0, s] for s in obs['sorted_sizes']]
    a, b = case['aff']
    c = f'CPadded {case["bs"]}%Z {case["nb"]}%Z {a}%Z {b}%Z {_ds_term(ds)}'
    o = _padded_obs(obs) if obs['err'] in (None, 'ValueError') else BAD_OBS
    return f'({c}, {o})'
  if kind == 'shuffle':
    args = _oracle_args(case, obs)
    if args is None or obs['err'] is not None:
      return f'(CShuffle {case["B"]}%Z [] []%Z {case["n"]}%nat, {BAD_OBS})'
    if case['src'] >= 6:
      src = [k // 2 for k in range(case['n'])] if case['src'] == 6 else [7] * case['n']
      return f'(CShuffleL {case["B"]}%Z {args[0]} {args[1]} {_zl(src)}, OShuffle {_zl(obs["out"])})'
    return f'(CShuffle {case["B"]}%Z {args[0]} {args[1]} {case["n"]}%nat, OShuffle {_zl(obs["out"])})'
  if kind == 'shufbatch':
    args = _oracle_args(case, obs)
    a, b = case['aff']
    if args is None or obs['err'] not in (None, 'ValueError'):
      return f'(CShufBatch {case["bs"]}%Z {case["B"]}%Z {a}%Z {b}%Z [] []%Z {_ds_term(case["ds"])}, {BAD_OBS})'
    bt = '[' + '; '.join(_zl(x) for x in obs['batches']) + ']'
    return (f'(CShufBatch {case["bs"]}%Z {case["B"]}%Z {a}%Z {b}%Z {args[0]} {args[1]} {_ds_term(case["ds"])}, '
            f'OShufBatch {fw.cbool(obs["err"] == "ValueError")} {bt})')
  if kind == 'srbfd':
    args = _oracle_args({'B': case['eB']}, obs)
    if args is None:
      return f'(CSrb {case["bs"]}%Z {case["eB"]}%Z [] []%Z []%Z 0%nat, {BAD_OBS})'
    bt = '[' + '; '.join(_zl(x) for x in obs['batches']) + ']'
    return (f'(CSrb {case["bs"]}%Z {case["eB"]}%Z {args[0]} {args[1]} {_zl(obs["prefix"])} {case["take"]}%nat, OSrb {bt})')
  if kind == 'shufclients':
    orc = '[' + '; '.join(f'({fw.natlist(c)}, {_zl(d)})' for c, d in obs['oracles']) + ']'
    return (f'(CShufClients {case["B"]}%Z {orc} {case["nc"]}%nat, OShufClients {_zl([i for i, _ in obs["stream"]])})')
  if kind == 'repeat_ops':
    tr = '[' + '; '.join('None' if v is None else f'Some {fw.zlit(v)}%Z' for v in obs['trace']) + ']'
    return f'(CRepeatOps {fw.cbool(case["base"] < 5)} {case["n"]}%nat {fw.blist(obs["prim"])}, ORepeat {tr})'
  if kind == 'repeat':
    tr = '[' + '; '.join('None' if v is None else f'Some {fw.zlit(v)}%Z' for v in obs['trace']) + ']'
    return f'(CRepeat {fw.cbool(case["base"] < 5)} {case["n"]}%nat {case["calls"]}%nat, ORepeat {tr})'
  return None


# --------------------------------------------------------------------------

def nontrivial(case, obs):
  kind = case['kind']
  if kind in ('padgrid', 'xproc'):
    return True
  if kind in ('padded', 'pbfd', 'shufbatch', 'srbfd'):
    return bool(obs.get('batches')) or obs.get('err') is not None
  if kind == 'shuffle':
    return case['n'] > 0
  if kind == 'repeat':
    return case['calls'] > 0
  if kind == 'repeat_ops':
    return bool(obs['trace'])
  return True


def describe(case, obs):
  kind = case['kind']
  d = {'kind': kind}
  if kind == 'padgrid':
    d['grid_points'] = len(obs['counts'])
    return d
  if kind == 'xproc':
    d['env'] = str(sorted(case['env'].items()))
    return d
  if kind in ('padded', 'pbfd'):
    sizes = [x[2] for x in case['ds']] if kind == 'padded' else case['sizes']
    bs = case['bs']
    d['n_clients'] = min(len(sizes), 6)
    d['has_empty_client'] = 0 in sizes
    d['total_vs_bs'] = 'zero' if sum(sizes) == 0 else 'multiple' if sum(sizes) % bs == 0 else 'remainder'
    if obs['err']:
      d['outcome'] = obs['err']
    elif not obs['batches']:
      d['outcome'] = 'no-batch'
    else:
      x, m = obs['batches'][-1]
      d['outcome'] = 'last-all-padding' if not any(m) else 'last-full' if all(m) and len(x) == bs else 'last-padded' if not all(m) else 'last-small-bucket'
  elif kind in ('shuffle', 'shufbatch'):
    n = case['n'] if kind == 'shuffle' else sum(x[2] for x in case['ds'])
    d['buffer_vs_stream'] = 'B=1' if case['B'] == 1 else 'B<n' if case['B'] < n else 'B=n' if case['B'] == n else 'B>n'
    if kind == 'shufbatch':
      d['outcome'] = obs['err'] or 'ok'
  elif kind in ('srbfd', 'shufclients'):
    d['impl'] = case.get('impl', 'mem')
    d['stream_seed'] = {0: '0', 1: '1', 2 ** 32 - 1: '2^32-1'}.get(case['seed'], 'other')
  elif kind == 'repeat_ops':
    d['base'] = ['list', 'tuple', 'dict', 'str', 'bytes', 'generator', 'list_iterator', 'range', 'map', 'RepeatableIterator'][case['base']]
    d['split_in_pass'] = min(sum(1 for o in case['ops'] if o == ['L']) - 1, 3)
  elif kind == 'repeat':
    d['base'] = ['list', 'tuple', 'dict', 'str', 'bytes', 'generator', 'list_iterator', 'range', 'map', 'RepeatableIterator'][case['base']]
    d['passes'] = min(case['calls'] // (case['n'] + 1), 4)
  return d


def shrink(case):
  kind = case['kind']
  if kind == 'xproc':
    for j in range(len(case['cases'])):
      if len(case['cases']) > 1:
        yield {**case, 'cases': case['cases'][:j] + case['cases'][j + 1:]}
    return
  if kind == 'padgrid':
    for k, lo in (('maxn', 0), ('bs', 1), ('nb', 1), ('split', 0)):
      for c in sorted({lo, case[k] // 2, case[k] - 1}):
        if lo <= c < case[k]:
          yield {**case, k: c}
    return
  if 'ds' in case:
    ds = case['ds']
    for j in range(len(ds)):
      yield {**case, 'ds': ds[:j] + ds[j + 1:]}
    for j in range(len(ds)):
      for s in sorted({0, ds[j][2] // 2, ds[j][2] - 1}):
        if 0 <= s < ds[j][2]:
          yield {**case, 'ds': ds[:j] + [[ds[j][0], ds[j][1], s]] + ds[j + 1:]}
  if kind == 'repeat_ops':
    for j in range(len(case['ops'])):
      yield {**case, 'ops': case['ops'][:j] + case['ops'][j + 1:]}
  if 'sizes' in case and len(case['sizes']) > 1:
    for j in range(len(case['sizes'])):
      yield {**case, 'sizes': case['sizes'][:j] + case['sizes'][j + 1:]}
  for k, lo in (('bs', 1), ('nb', 1), ('B', 1), ('n', 0), ('calls', 0), ('take', 1), ('eB', 1), ('cB', 1)):
    if k in case:
      v = case[k]
      for c in sorted({lo, v // 2, v - 1}):
        if lo <= c < v:
          yield {**case, k: c}
  if case.get('aff') not in (None, [1, 0]):
    yield {**case, 'aff': [1, 0]}


if __name__ == '__main__':
  _sub_main()
