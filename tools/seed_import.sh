#!/bin/bash
# tools/seed_import.sh <PROP> <worktree> <i> : verify a sub-agent's seeded change and keep it as seeded/<PROP>-s<i>/
set -u
P=$1; WT=$2; I=$3
SRC=$WT/seed_out
ID=$P-${4:-s}$I
D=/verif/seeded/$ID
[ -f $SRC/patch_$I.diff ] || { echo "no patch"; exit 2; }
COPY=$(mktemp -d /tmp/seedverify-XXXXXX)
git -C /repo worktree add -q --detach $COPY/wt HEAD
W=$COPY/wt
run_demo() { ( mkdir -p $1/seed_out && cp $SRC/demo_$I.py $1/seed_out/demo_$I.py && cd $1 && PYTHONPATH=$1 JAX_PLATFORMS=cpu TF_CPP_MIN_LOG_LEVEL=3 timeout 900 /venv/bin/python $1/seed_out/demo_$I.py >/dev/null 2>&1; echo $? ); }
CLEAN=$(run_demo $W)
( cd $W && git apply $SRC/patch_$I.diff ) || { echo "$ID: patch does not apply"; git -C /repo worktree remove --force $W; rm -rf $COPY; exit 2; }
PATCHED=$(run_demo $W)
TESTS=""
for f in $(grep '^+++ b/' $SRC/patch_$I.diff | sed 's#+++ b/##'); do t=${f%.py}_test.py; [ -f $W/$t ] && TESTS="$TESTS $t"; done
TP=$( cd $W && /venv/bin/python -m pytest -q -p no:cacheprovider $TESTS 2>&1 | tail -1 )
( cd $W && git checkout -q -- . )
TC=$( cd $W && /venv/bin/python -m pytest -q -p no:cacheprovider $TESTS 2>&1 | tail -1 )
git -C /repo worktree remove --force $W; rm -rf $COPY
echo "$ID: demo clean=$CLEAN patched=$PATCHED | tests patched: $TP | tests clean: $TC"
if [ "$CLEAN" = "0" ] && [ "$PATCHED" = "1" ]; then
  mkdir -p $D && cp $SRC/patch_$I.diff $D/patch.diff && cp $SRC/demo_$I.py $D/demo.py
  python3 - "$SRC/meta_$I.json" "$D/meta.json" "$P" "$TESTS" "$TP" "$TC" <<'PY'
import json,sys
src,dst,P,tests,tp,tc=sys.argv[1:7]
try: m=json.load(open(src))
except Exception: m={}
m['property']=P
m['verified_by_lead']={'demo_exit_clean':0,'demo_exit_patched':1,'tests':tests.split(),'pytest_patched':tp,'pytest_clean':tc}
json.dump(m,open(dst,'w'),indent=1)
PY
  echo "kept $D"
else
  echo "NOT kept"
fi
