"""`vfun` translation kind: vectorised jnp code over NanQ (coq/Common/NanVec.v).

Types: 'Q' scalar NanQ.t, 'V' vector (list NanQ.t), 'qbool' / 'vbool' comparison results,
'optQ' optional scalar parameter (python default None), 'U' the PRNG key parameter, read as
the vector of uniform draws it produces (the oracle argument of the model).

Reading (trusted, fail-closed: anything else raises Unsupported):
  number literal                     exact rational
  + - * /, unary -                   NanQ.add/sub/mul/div/opp, broadcasting scalar <-> vector
  < <= > >=                          NanQ.ltb/leb/gtb/geb, broadcasting
  jnp.where(c, a, b)                 NanQ.where_ (lazy), broadcasting over the 8 scalar/vector shapes
  jnp.maximum / jnp.minimum          NanQ.max / NanQ.min, broadcasting
  jnp.nan_to_num, ceil, floor, abs, sign     coordinate-wise NanQ.nan_to_num, nceil, nfloor, NanQ.abs, nsign
  jnp.power(x, 2)                    x * x
  jnp.amin / jnp.amax / jnp.sum      the reductions amin / amax / NanQ.sum of NanVec.v
  jnp.std(v)                         the section variable `std` applied to v (sqrt is not modelled)
  jax.random.uniform(key=k, shape=x.shape)   the draw vector of k (k must be the 'U' parameter)
  `if p is None: p = e`              for an 'optQ' parameter p
  calls in the anchor's call table
"""
import ast
from translate import Ctx, Unsupported, dotted, find_def
from lib.qfun import qconst, QBIN, QCMP, check_decorators

COQTY = {'Q': 'NanQ.t', 'V': '(list NanQ.t)', 'optQ': '(option NanQ.t)', 'U': '(list NanQ.t)',
         'qbool': '(option bool)', 'vbool': '(list (option bool))'}
UNARY = {'jnp.nan_to_num': 'NanQ.nan_to_num', 'jnp.ceil': 'nceil', 'jnp.floor': 'nfloor', 'jnp.abs': 'NanQ.abs',
         'jnp.sign': 'nsign'}
REDUCE = {'jnp.amin': 'amin', 'jnp.amax': 'amax', 'jnp.sum': 'NanQ.sum'}


class VCtx(Ctx):
  def __init__(self, names=None, calls=None):
    super().__init__(names, calls)

  def expr(self, e, env, want=None):
    t, ty = self._expr(e, env)
    if want is not None and ty != want:
      raise Unsupported(f'type {ty} where {want} expected: {ast.dump(e)[:160]}')
    return t, ty

  def binary(self, op, a, ta, b, tb, scalar_ret, vector_ret):
    if ta in ('Q',) and tb in ('Q',):
      return f'({op} {a} {b})', scalar_ret
    if ta == 'V' and tb == 'Q':
      return f'(bvs {op} {a} {b})', vector_ret
    if ta == 'Q' and tb == 'V':
      return f'(bsv {op} {a} {b})', vector_ret
    if ta == 'V' and tb == 'V':
      return f'(map2 {op} {a} {b})', vector_ret
    raise Unsupported(f'operand types {ta}, {tb}')

  def _expr(self, e, env):
    if isinstance(e, ast.Constant):
      if isinstance(e.value, bool) or not isinstance(e.value, (int, float)) or e.value != e.value:
        raise Unsupported('constant ' + repr(e.value))
      return qconst(e.value), 'Q'
    if isinstance(e, ast.Name):
      n = self.names.get(e.id, e.id)
      if n in env:
        ty = env[n]
        if ty == 'U':
          raise Unsupported('the PRNG key is used other than through jax.random.uniform')
        return n, ty
      raise Unsupported('unknown name ' + n)
    if isinstance(e, ast.UnaryOp) and isinstance(e.op, ast.USub):
      t, ty = self.expr(e.operand, env)
      if ty == 'Q':
        return f'(NanQ.opp {t})', 'Q'
      if ty == 'V':
        return f'(map NanQ.opp {t})', 'V'
      raise Unsupported('unary minus on ' + ty)
    if isinstance(e, ast.BinOp):
      if type(e.op) not in QBIN:
        raise Unsupported('binop ' + ast.dump(e.op))
      a, ta = self.expr(e.left, env)
      b, tb = self.expr(e.right, env)
      return self.binary(QBIN[type(e.op)], a, ta, b, tb, 'Q', 'V')
    if isinstance(e, ast.Compare):
      if len(e.ops) != 1 or type(e.ops[0]) not in QCMP:
        raise Unsupported('comparison ' + ast.dump(e)[:120])
      a, ta = self.expr(e.left, env)
      b, tb = self.expr(e.comparators[0], env)
      return self.binary(QCMP[type(e.ops[0])], a, ta, b, tb, 'qbool', 'vbool')
    if isinstance(e, ast.Call):
      return self.vcall(e, env)
    raise Unsupported('expression ' + ast.dump(e)[:160])

  def vcall(self, e, env):
    f = dotted(e.func)
    kw = {k.arg: k.value for k in e.keywords}
    if f in self.calls:
      fmt, kinds, ret = self.calls[f]
      if kw or len(e.args) != len(kinds):
        raise Unsupported(f'call {f}: arity / keywords')
      args = []
      for a, k in zip(e.args, kinds):
        if k == 'U':
          if not (isinstance(a, ast.Name) and env.get(a.id) == 'U'):
            raise Unsupported(f'call {f}: key argument is not the key parameter')
          args.append(a.id)
        else:
          args.append(self.expr(a, env, k)[0])
      return '(' + fmt.format(*args) + ')', ret
    if f in UNARY and len(e.args) == 1 and not kw:
      t, ty = self.expr(e.args[0], env)
      if ty == 'Q':
        return f'({UNARY[f]} {t})', 'Q'
      if ty == 'V':
        return f'(map {UNARY[f]} {t})', 'V'
      raise Unsupported(f'{f} on {ty}')
    if f in REDUCE and len(e.args) == 1 and not kw:
      t, _ = self.expr(e.args[0], env, 'V')
      return f'({REDUCE[f]} {t})', 'Q'
    if f == 'jnp.std' and len(e.args) == 1 and not kw:
      t, _ = self.expr(e.args[0], env, 'V')
      return f'(std {t})', 'Q'
    if f in ('jnp.maximum', 'jnp.minimum') and len(e.args) == 2 and not kw:
      a, ta = self.expr(e.args[0], env)
      b, tb = self.expr(e.args[1], env)
      return self.binary('NanQ.max' if f.endswith('maximum') else 'NanQ.min', a, ta, b, tb, 'Q', 'V')
    if f == 'jnp.power' and len(e.args) == 2 and not kw:
      if not (isinstance(e.args[1], ast.Constant) and e.args[1].value == 2 and not isinstance(e.args[1].value, bool)):
        raise Unsupported('jnp.power with an exponent other than 2')
      t, ty = self.expr(e.args[0], env)
      if ty == 'Q':
        return f'(NanQ.mul {t} {t})', 'Q'
      if ty == 'V':
        return f'(map (fun a => NanQ.mul a a) {t})', 'V'
      raise Unsupported('jnp.power on ' + ty)
    if f == 'jnp.where' and len(e.args) == 3 and not kw:
      c, tc = self.expr(e.args[0], env)
      a, ta = self.expr(e.args[1], env)
      b, tb = self.expr(e.args[2], env)
      if tc == 'qbool' and ta == 'Q' and tb == 'Q':
        return f'(NanQ.where_ {c} {a} {b})', 'Q'
      if tc == 'vbool' and {ta, tb} <= {'Q', 'V'}:
        return f'(where_v{ta.lower()}{tb.lower()} {c} {a} {b})', 'V'
      raise Unsupported(f'jnp.where on {tc}, {ta}, {tb}')
    if f == 'jax.random.uniform' and not e.args and set(kw) == {'key', 'shape'}:
      k, sh = kw['key'], kw['shape']
      if not (isinstance(k, ast.Name) and env.get(k.id) == 'U'):
        raise Unsupported('jax.random.uniform: key is not the key parameter')
      if not (isinstance(sh, ast.Attribute) and sh.attr == 'shape' and isinstance(sh.value, ast.Name)
              and env.get(sh.value.id) == 'V'):
        raise Unsupported('jax.random.uniform: shape is not <vector>.shape')
      return k.id, 'V'
    raise Unsupported('call to ' + f)


def vstmts(stmts, ctx, env, ret):
  stmts = [s for s in stmts if not (isinstance(s, ast.Expr) and isinstance(s.value, ast.Constant))]
  out = ''
  for i, s in enumerate(stmts):
    if isinstance(s, ast.Return):
      if i != len(stmts) - 1 or s.value is None:
        raise Unsupported('return is not the last statement')
      t, _ = ctx.expr(s.value, env, ret)
      return out + t
    if isinstance(s, ast.If):
      t = s.test
      ok = (isinstance(t, ast.Compare) and len(t.ops) == 1 and isinstance(t.ops[0], ast.Is) and
            isinstance(t.comparators[0], ast.Constant) and t.comparators[0].value is None and
            isinstance(t.left, ast.Name) and env.get(t.left.id) == 'optQ' and not s.orelse and len(s.body) == 1 and
            isinstance(s.body[0], ast.Assign) and len(s.body[0].targets) == 1 and
            isinstance(s.body[0].targets[0], ast.Name) and s.body[0].targets[0].id == t.left.id)
      if not ok:
        raise Unsupported('if-statement other than `if p is None: p = e` on an optional parameter')
      n = t.left.id
      v, _ = ctx.expr(s.body[0].value, env, 'Q')
      env = dict(env)
      env[n] = 'Q'
      out += f'let {n} := match {n} with Some {n} => {n} | None => {v} end in\n  '
      continue
    if isinstance(s, ast.Assign) and len(s.targets) == 1 and isinstance(s.targets[0], ast.Name):
      v, ty = ctx.expr(s.value, env)
      n = s.targets[0].id
      if env.get(n) in ('U', 'optQ'):
        raise Unsupported(f'assignment to parameter {n}')
      env = dict(env)
      env[n] = ty
      out += f'let {n} := {v} in\n  '
      continue
    raise Unsupported('statement ' + ast.dump(s)[:160])
  raise Unsupported('function does not end in a return')


def params_str(params):
  return ' '.join(f'({n} : {COQTY[t]})' for n, t in params)


def A_vfun(qual, coqname, pyparams, params, ret='V', calls=None):
  def emit(tree):
    fd = find_def(tree, qual)
    check_decorators(fd)
    a = fd.args
    got = [x.arg for x in a.args]
    if got != list(pyparams) or a.vararg or a.kwarg or a.kwonlyargs:
      raise Unsupported(f'{qual}: parameters {got}, expected {list(pyparams)}')
    # optional parameters must default to None
    defaults = dict(zip(got[len(got) - len(a.defaults):], a.defaults))
    for n, t in params:
      if t == 'optQ' and not (n in defaults and isinstance(defaults[n], ast.Constant) and defaults[n].value is None):
        raise Unsupported(f'{qual}: parameter {n} does not default to None')
    env = {n: t for n, t in params}
    body = vstmts(fd.body, VCtx(None, calls), env, ret)
    return f'Definition {coqname} {params_str(params)} : {COQTY[ret]} :=\n  {body}.'
  return emit


def A_vloop_body(qual, coqname, loop_var, param_ty, appended_to, ret='V'):
  """The body of the single `for <loop_var> in ...:` loop of `qual`: assignments followed by
  `<appended_to>.append(e)`; emitted as a function of the loop variable returning e."""
  def emit(tree):
    fd = find_def(tree, qual)
    check_decorators(fd)
    loops = [s for s in fd.body if isinstance(s, ast.For)]
    if len(loops) != 1 or not isinstance(loops[0].target, ast.Name) or loops[0].target.id != loop_var or loops[0].orelse:
      raise Unsupported(f'{qual}: expected exactly one `for {loop_var} in ...` loop')
    body = [s for s in loops[0].body if not (isinstance(s, ast.Expr) and isinstance(s.value, ast.Constant))]
    last = body[-1] if body else None
    ok = (isinstance(last, ast.Expr) and isinstance(last.value, ast.Call) and isinstance(last.value.func, ast.Attribute)
          and last.value.func.attr == 'append' and isinstance(last.value.func.value, ast.Name) and
          last.value.func.value.id == appended_to and len(last.value.args) == 1 and not last.value.keywords)
    if not ok:
      raise Unsupported(f'{qual}: loop body does not end in {appended_to}.append(e)')
    stmts = body[:-1] + [ast.Return(value=last.value.args[0])]
    text = vstmts(stmts, VCtx(), {loop_var: param_ty}, ret)
    return f'Definition {coqname} ({loop_var} : {COQTY[param_ty]}) : {COQTY[ret]} :=\n  {text}.'
  return emit
