"""Runs harness cases in a child process under non-default global jax configuration flags
(jax_enable_x64, jax_numpy_rank_promotion, jax_disable_jit, ...): the flags must be set before
fedjax / the jitted module-level functions are imported, hence one subprocess per flag setting."""
import json
import os
import subprocess
import sys
import tempfile

CODE = r'''
import json, sys
import jax
flags = json.loads(sys.argv[2])
for k, v in flags.items():
  jax.config.update(k, v)
import importlib
mod = importlib.import_module('harness.' + sys.argv[1])
cases = json.load(open(sys.argv[3]))
out = []
for c in cases:
  try:
    out.append(mod.run(c))
  except Exception as ex:  # pylint: disable=broad-except
    out.append({'error': type(ex).__name__, 'message': str(ex)[:200], 'uncovered': []})
json.dump(out, open(sys.argv[4], 'w'), default=str)
'''


def run_cases(module, cases, flags, timeout=1500):
  d = tempfile.mkdtemp(prefix='verif-flag-')
  try:
    fin, fout = os.path.join(d, 'in.json'), os.path.join(d, 'out.json')
    with open(fin, 'w') as f:
      json.dump(cases, f)
    p = subprocess.run([sys.executable, '-c', CODE, module, json.dumps(flags), fin, fout], env=dict(os.environ),
                       capture_output=True, text=True, timeout=timeout)
    if p.returncode != 0 or not os.path.exists(fout):
      return None, (p.stderr or '')[-400:]
    with open(fout) as f:
      return json.load(f), None
  finally:
    for fn in os.listdir(d):
      os.remove(os.path.join(d, fn))
    os.rmdir(d)
