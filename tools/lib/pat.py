"""Structural statement / expression patterns for fail-closed anchors: `match(node, 'python text')`
compares an ast node with the parsed pattern; names of the form H_x in the pattern are holes that
capture a Name (the same hole must capture the same identifier everywhere).  Anything that does
not match raises translate.Unsupported, so an edit of the anchored code breaks the tie instead of
being silently re-read."""
import ast
from translate import Unsupported


def _cmp(n, p, holes, where):
  if isinstance(p, ast.Name) and p.id.startswith('H_'):
    if not isinstance(n, ast.Name):
      raise Unsupported(f'{where}: expected a name for {p.id}, found {ast.dump(n)[:80]}')
    if holes.setdefault(p.id[2:], n.id) != n.id:
      raise Unsupported(f'{where}: {p.id[2:]} is {holes[p.id[2:]]} and {n.id}')
    return
  if isinstance(p, ast.arg) and p.arg.startswith('H_'):
    if not isinstance(n, ast.arg) or holes.setdefault(p.arg[2:], n.arg) != n.arg:
      raise Unsupported(f'{where}: parameter {p.arg[2:]}')
    return
  if type(n) is not type(p):
    raise Unsupported(f'{where}: expected {type(p).__name__}, found {type(n).__name__} ({ast.dump(n)[:80]})')
  for f in p._fields:
    if f in ('ctx', 'type_comment', 'annotation', 'returns', 'kind'):
      continue
    a, b = getattr(n, f, None), getattr(p, f, None)
    if isinstance(b, list):
      if f == 'body' and isinstance(p, (ast.FunctionDef,)):
        a = [s for s in a if not (isinstance(s, ast.Expr) and isinstance(s.value, ast.Constant))]
      if not isinstance(a, list) or len(a) != len(b):
        raise Unsupported(f'{where}: {type(p).__name__}.{f} has {len(a) if isinstance(a, list) else "?"} items, expected {len(b)}')
      for x, y in zip(a, b):
        _cmp(x, y, holes, where)
    elif isinstance(b, ast.AST):
      if not isinstance(a, ast.AST):
        raise Unsupported(f'{where}: missing {f}')
      _cmp(a, b, holes, where)
    elif a != b:
      raise Unsupported(f'{where}: {type(p).__name__}.{f} is {a!r}, expected {b!r}')


def match_stmts(stmts, text, where, holes=None):
  """stmts: list of ast statements (docstrings removed by the caller or here)."""
  holes = {} if holes is None else holes
  stmts = [s for s in stmts if not (isinstance(s, ast.Expr) and isinstance(s.value, ast.Constant))]
  pat = ast.parse(text).body
  if len(stmts) != len(pat):
    raise Unsupported(f'{where}: {len(stmts)} statements, expected {len(pat)}')
  for s, p in zip(stmts, pat):
    _cmp(s, p, holes, where)
  return holes


def match_def(fd, text, where, holes=None):
  holes = {} if holes is None else holes
  pat = ast.parse(text).body[0]
  _cmp(fd, pat, holes, where)
  return holes
