"""Additive translator helpers for the C20 anchors (packaged datasets / models).
Everything is fail-closed: a statement that does not have exactly the expected
structure raises translate.Unsupported (resolved lazily, the translator module is
reloaded by fw.translate)."""
import ast


def _T():
  import translate
  return translate


def _unsupported(msg):
  raise _T().Unsupported(msg)


def D(e):
  """dotted name of an expression, None when it is not one."""
  try:
    return _T().dotted(e)
  except Exception:  # pylint: disable=broad-except
    return None


def _body(fd):
  return [s for s in fd.body if not (isinstance(s, ast.Expr) and isinstance(s.value, ast.Constant))]


def _ctx(consts=None, names=None, lens=None):
  """Ctx that reads `len(<name>)` as the Z variable given by `lens[name]`."""
  T = _T()
  lens = dict(lens or {})

  class LenCtx(T.Ctx):
    def call(self, e, env):
      if isinstance(e.func, ast.Name) and e.func.id == 'len' and len(e.args) == 1 and not e.keywords \
          and isinstance(e.args[0], ast.Name) and e.args[0].id in lens:
        return lens[e.args[0].id], 'Z'
      return super().call(e, env)
  return LenCtx(names, None, consts)


def zdef(name, params, term):
  ps = ' '.join(f'({p} : Z)' for p in params)
  return f'Definition {name} {ps + " " if ps else ""}: Z := {term}.'


def _first_assign(stmts, name):
  for s in stmts:
    if isinstance(s, ast.Assign) and len(s.targets) == 1 and isinstance(s.targets[0], ast.Name) and s.targets[0].id == name:
      return s
  _unsupported(f'assignment to {name} not found')


def A_localconsts(qual, spec, params):
  """The leading integer constants of a function body, e.g. `pad = 0 ... oov = vocab_size + 3`.
  spec: [(pyname, coqname)] in source order; each may use the parameters and the earlier
  constants.  Emits one Definition per constant, a function of `params`."""
  def emit(tree):
    T = _T()
    fd = T.find_def(tree, qual)
    got = [a.arg for a in fd.args.args]
    for p in params:
      if p not in got:
        _unsupported(f'{qual}: parameter {p} missing')
    stmts = _body(fd)
    out, consts = [], {}
    app = ' '.join(params)
    for py, coq in spec:
      s = _first_assign(stmts, py)
      ctx = T.Ctx(consts=consts)
      t, ty = ctx.expr(s.value, {p: 'Z' for p in params})
      if ty != 'Z':
        _unsupported(f'{qual}.{py}: not an integer expression')
      out.append(zdef(coq, params, t))
      consts[py] = f'({coq} {app})' if params else coq
    return '\n'.join(out)
  return emit


def A_default(qual, argname, coqname):
  """Integer default of a parameter in a def's signature."""
  def emit(tree):
    fd = _T().find_def(tree, qual)
    args = fd.args.args
    defaults = [None] * (len(args) - len(fd.args.defaults)) + list(fd.args.defaults)
    pairs = list(zip(args, defaults)) + list(zip(fd.args.kwonlyargs, fd.args.kw_defaults))
    for a, d in pairs:
      if a.arg == argname:
        if isinstance(d, ast.Constant) and isinstance(d.value, int) and not isinstance(d.value, bool):
          return zdef(coqname, [], str(d.value))
        _unsupported(f'{qual}: default of {argname} is not an integer literal')
    _unsupported(f'{qual}: parameter {argname} not found')
  return emit


def A_classconsts(classqual, spec):
  """Class-level integer constants [(pyname, coqname)]."""
  def emit(tree):
    cd = _T().find_def(tree, classqual)
    out = []
    for py, coq in spec:
      s = _first_assign(cd.body, py)
      if not (isinstance(s.value, ast.Constant) and isinstance(s.value, ast.Constant) and
              isinstance(s.value.value, int) and not isinstance(s.value.value, bool)):
        _unsupported(f'{classqual}.{py}: not an integer literal')
      out.append(zdef(coq, [], str(s.value.value)))
    return '\n'.join(out)
  return emit


def A_modconst_expr(pyname, coqname, consts):
  """Module-level `NAME = <int expr over earlier module constants>`."""
  def emit(tree):
    T = _T()
    s = _first_assign(tree.body, pyname)
    t, ty = T.Ctx(consts=consts).expr(s.value, {})
    if ty != 'Z':
      _unsupported(f'{pyname}: not an integer expression')
    return zdef(coqname, [], t)
  return emit


def names_tuple(e, consts):
  """(a, b, c) of names -> list of coq terms."""
  if not isinstance(e, ast.Tuple):
    _unsupported('expected a tuple of names')
  out = []
  for x in e.elts:
    if not (isinstance(x, ast.Name) and x.id in consts):
      _unsupported('tuple element is not a known constant name')
    out.append(consts[x.id])
  return out


def A_metric_ids(qual, params, consts_spec, prefix):
  """The label ids a packaged language model hands to its loss / metrics:
  * the tuple iterated by `for i in (..): logits_mask[i] = -jnp.inf`,
  * for every entry of the `eval_metrics={...}` dict of the create_model_from_haiku call:
    masked_target_values / oov_target_values (tuples of names), eos_target_value (name),
    and whether a logits_mask is passed,
  * the value compared with `targets` in train_loss (`targets != pad`).
  consts_spec: [(pyname, coqname)] of the constants (Definitions emitted by A_localconsts)."""
  def emit(tree):
    T = _T()
    fd = T.find_def(tree, qual)
    app = ' '.join(params)
    consts = {py: (f'({coq} {app})' if params else coq) for py, coq in consts_spec}
    ps = ' '.join(f'({p} : Z)' for p in params)
    out = []

    def zl(name, terms):
      out.append(f'Definition {prefix}{name} {ps} : list Z := [{"; ".join(terms)}].')

    # logits mask loop
    loops = [s for s in fd.body if isinstance(s, ast.For)]
    if len(loops) != 1:
      _unsupported(f'{qual}: expected exactly one top-level for loop (logits mask)')
    lp = loops[0]
    ok = (isinstance(lp.target, ast.Name) and len(lp.body) == 1 and isinstance(lp.body[0], ast.Assign) and
          isinstance(lp.body[0].targets[0], ast.Subscript) and
          isinstance(lp.body[0].targets[0].value, ast.Name) and lp.body[0].targets[0].value.id == 'logits_mask' and
          isinstance(lp.body[0].targets[0].slice, ast.Name) and lp.body[0].targets[0].slice.id == lp.target.id)
    v = lp.body[0].value if ok else None
    ok = ok and isinstance(v, ast.UnaryOp) and isinstance(v.op, ast.USub) and isinstance(v.operand, ast.Attribute) \
        and v.operand.attr == 'inf'
    if not ok:
      _unsupported(f'{qual}: logits mask loop has an unexpected form')
    zl('logits_masked', names_tuple(lp.iter, consts))
    # logits_mask = [0. for _ in range(full_vocab_size)]
    s = _first_assign(fd.body, 'logits_mask')
    lc = s.value
    if not (isinstance(lc, ast.ListComp) and isinstance(lc.elt, ast.Constant) and lc.elt.value == 0 and
            len(lc.generators) == 1 and isinstance(lc.generators[0].iter, ast.Call) and
            isinstance(lc.generators[0].iter.func, ast.Name) and lc.generators[0].iter.func.id == 'range' and
            len(lc.generators[0].iter.args) == 1 and isinstance(lc.generators[0].iter.args[0], ast.Name) and
            lc.generators[0].iter.args[0].id in consts):
      _unsupported(f'{qual}: logits_mask initialisation has an unexpected form')
    out.append(zdef(prefix + 'logits_len', params, consts[lc.generators[0].iter.args[0].id]))
    # embedding / output layer sizes inside forward_pass
    fp = T.find_def(fd, 'forward_pass')
    sizes = {}
    for n in ast.walk(fp):
      if isinstance(n, ast.Call) and isinstance(n.func, ast.Attribute) and n.func.attr in ('Embed', 'Linear') and n.args \
          and isinstance(n.args[0], ast.Name) and n.args[0].id in consts:
        sizes.setdefault(n.func.attr, []).append(consts[n.args[0].id])
    if len(sizes.get('Embed', [])) != 1:
      _unsupported(f'{qual}: expected one hk.Embed(<const>, ..)')
    out.append(zdef(prefix + 'embed_rows', params, sizes['Embed'][0]))
    if len(sizes.get('Linear', [])) != 1:
      _unsupported(f'{qual}: expected one hk.Linear(<const>) output layer')
    out.append(zdef(prefix + 'logits_dim', params, sizes['Linear'][0]))
    # train_loss mask
    tl = T.find_def(fd, 'train_loss')
    cmp_ = [n for n in ast.walk(tl) if isinstance(n, ast.Compare) and isinstance(n.left, ast.Name) and n.left.id == 'targets']
    if len(cmp_) != 1 or len(cmp_[0].ops) != 1 or not isinstance(cmp_[0].ops[0], ast.NotEq) or \
        not (isinstance(cmp_[0].comparators[0], ast.Name) and cmp_[0].comparators[0].id in consts):
      _unsupported(f'{qual}.train_loss: expected exactly one `targets != <const>`')
    out.append(zdef(prefix + 'train_loss_masked', params, consts[cmp_[0].comparators[0].id]))
    # eval_metrics dict
    ret = [s for s in fd.body if isinstance(s, ast.Return)]
    if len(ret) != 1 or not isinstance(ret[0].value, ast.Call):
      _unsupported(f'{qual}: expected one return of a call')
    kw = {k.arg: k.value for k in ret[0].value.keywords}
    em = kw.get('eval_metrics')
    if not isinstance(em, ast.Dict):
      _unsupported(f'{qual}: eval_metrics is not a dict display')
    names = []
    for k, c in zip(em.keys, em.values):
      if not (isinstance(k, ast.Constant) and isinstance(k.value, str) and isinstance(c, ast.Call)):
        _unsupported(f'{qual}: eval_metrics entry has an unexpected form')
      if c.args:
        _unsupported(f'{qual}: metric {k.value} has positional arguments')
      mk = {a.arg: a.value for a in c.keywords}
      cls = c.func.attr if isinstance(c.func, ast.Attribute) else c.func.id
      names.append(k.value)
      for a, v in mk.items():
        if a in ('masked_target_values', 'oov_target_values'):
          zl(f'{k.value}_{a}', names_tuple(v, consts))
        elif a == 'eos_target_value':
          if not (isinstance(v, ast.Name) and v.id in consts):
            _unsupported(f'{qual}: {k.value}.{a} is not a constant name')
          out.append(zdef(f'{prefix}{k.value}_{a}', params, consts[v.id]))
        elif a == 'logits_mask':
          if not (isinstance(v, ast.Name) and v.id == 'logits_mask'):
            _unsupported(f'{qual}: {k.value}.logits_mask is not the logits_mask built above')
        else:
          _unsupported(f'{qual}: metric {k.value} has an unknown keyword {a}')
      out.append(f'Definition {prefix}{k.value}_uses_logits_mask : bool := {"true" if "logits_mask" in mk else "false"}.')
      out.append(f'Definition {prefix}{k.value}_class : list Z := [{"; ".join(str(b) for b in cls.encode())}]. (* {cls} *)')
    return '\n'.join(out)
  return emit


def A_train_loss(qual, coqname, pad_name='pad'):
  """Per-example training loss of a packaged language model:
       targets = batch['y']
       per_token_loss = metrics.unreduced_cross_entropy_loss(targets, preds)
       per_token_loss *= targets != pad            (or: mask = targets != pad; per_token_loss *= mask)
       <row-wise tail>
  The tail may only use reductions over the LAST axis (jnp.sum / jnp.mean with axis=-1),
  multiplication / division by float literals or the enclosing function's
  `expected_length`, and `if expected_length is not None`.  Anything else -- in
  particular a reduction without axis=-1, i.e. across the rows of the batch -- is
  refused.  Emits `coqname (expected_length : option Q) (masked : list Q) : Q`, a
  function of ONE row's masked per-token losses."""
  def emit(tree):
    T = _T()
    fd = T.find_def(T.find_def(tree, qual), 'train_loss')
    if [a.arg for a in fd.args.args] != ['batch', 'preds']:
      _unsupported(f'{qual}.train_loss: parameters changed')
    b = _body(fd)
    if len(b) < 4:
      _unsupported(f'{qual}.train_loss: too short')
    s = b[0]
    ok = isinstance(s, ast.Assign) and D(s.targets[0]) == 'targets' and isinstance(s.value, ast.Subscript) and \
        D(s.value.value) == 'batch' and isinstance(s.value.slice, ast.Constant) and s.value.slice.value == 'y'
    if not ok:
      _unsupported(f"{qual}.train_loss: first statement is not targets = batch['y']")
    s = b[1]
    ok = isinstance(s, ast.Assign) and D(s.targets[0]) == 'per_token_loss' and isinstance(s.value, ast.Call) and \
        D(s.value.func) == 'metrics.unreduced_cross_entropy_loss' and [D(a) for a in s.value.args] == ['targets', 'preds'] \
        and not s.value.keywords
    if not ok:
      _unsupported(f'{qual}.train_loss: per_token_loss is not unreduced_cross_entropy_loss(targets, preds)')
    s = b[2]

    def is_mask(e):
      return isinstance(e, ast.Compare) and D(e.left) == 'targets' and len(e.ops) == 1 and \
          isinstance(e.ops[0], ast.NotEq) and D(e.comparators[0]) == pad_name
    ok = isinstance(s, ast.AugAssign) and isinstance(s.op, ast.Mult) and D(s.target) == 'per_token_loss' and is_mask(s.value)
    if not ok:
      _unsupported(f'{qual}.train_loss: third statement is not `per_token_loss *= targets != {pad_name}`')

    def const(e):
      if isinstance(e, ast.Constant) and isinstance(e.value, (int, float)) and not isinstance(e.value, bool):
        from fractions import Fraction
        fr = Fraction(e.value)
        return f'({fr.numerator} # {fr.denominator})'
      if isinstance(e, ast.Name) and e.id == 'expected_length':
        return 'el'
      if isinstance(e, ast.BinOp) and isinstance(e.op, (ast.Div, ast.Mult)):
        return f'({const(e.left)} {"/" if isinstance(e.op, ast.Div) else "*"} {const(e.right)})'
      return None

    def row(e, env):
      """expression yielding one number per row"""
      if isinstance(e, ast.Name) and e.id in env:
        return env[e.id]
      if isinstance(e, ast.Call) and D(e.func) in ('jnp.sum', 'jnp.mean') and len(e.args) == 1:
        kw = {k.arg: k.value for k in e.keywords}
        ax = kw.get('axis')
        if set(kw) != {'axis'} or not (isinstance(ax, ast.UnaryOp) and isinstance(ax.op, ast.USub) and
                                       isinstance(ax.operand, ast.Constant) and ax.operand.value == 1):
          _unsupported(f'{qual}.train_loss: reduction that is not over axis=-1 only')
        if D(e.args[0]) != 'per_token_loss':
          _unsupported(f'{qual}.train_loss: reduction of something other than the masked per-token loss')
        return f'({"Qsum" if D(e.func) == "jnp.sum" else "Qmean"} masked)'
      if isinstance(e, ast.BinOp) and isinstance(e.op, (ast.Mult, ast.Div)):
        c = const(e.right)
        if c is not None:
          return f'({row(e.left, env)} {"*" if isinstance(e.op, ast.Mult) else "/"} {c})'
        c = const(e.left)
        if c is not None and isinstance(e.op, ast.Mult):
          return f'({c} * {row(e.right, env)})'
      _unsupported(f'{qual}.train_loss: expression outside the row-wise subset: ' + ast.dump(e)[:160])

    def block(stmts, env, has_el):
      if not stmts:
        _unsupported(f'{qual}.train_loss: falls off the end')
      s, rest = stmts[0], stmts[1:]
      if isinstance(s, ast.Return):
        return row(s.value, env)
      if isinstance(s, ast.Assign) and len(s.targets) == 1 and isinstance(s.targets[0], ast.Name) and \
          s.targets[0].id not in ('per_token_loss', 'targets'):
        v = row(s.value, env)
        return f'let {s.targets[0].id} := {v} in {block(rest, dict(env, **{s.targets[0].id: s.targets[0].id}), has_el)}'
      if isinstance(s, ast.If) and isinstance(s.test, ast.Compare) and D(s.test.left) == 'expected_length' and \
          len(s.test.ops) == 1 and isinstance(s.test.ops[0], ast.IsNot) and isinstance(s.test.comparators[0], ast.Constant) \
          and s.test.comparators[0].value is None and not has_el:
        a = block(s.body + rest, env, True)
        bb = block(s.orelse + rest, env, False)
        return f'match expected_length with Some el => {a} | None => {bb} end'
      _unsupported(f'{qual}.train_loss: statement outside the row-wise subset: ' + ast.dump(s)[:160])

    body = block(b[3:], {}, False)
    return (f'Definition {coqname} (expected_length : option Q) (masked : list Q) : Q :=\n  {body}.')
  return emit



def A_no_process_dependence(coqname, allow_np_random=False):
  """Fail-closed recogniser: the module does not call hash()/id() and does not touch time, uuid, random, secrets,
  os.environ (and np.random unless the module's training-time augmentation legitimately does)."""
  def emit(tree):
    for node in ast.walk(tree):
      if isinstance(node, ast.Call) and isinstance(node.func, ast.Name) and node.func.id in ('hash', 'id'):
        _unsupported(f'module calls {node.func.id}(): the result may differ between processes')
      if isinstance(node, ast.Attribute) and isinstance(node.value, ast.Name) and node.value.id in ('time', 'uuid', 'random', 'secrets'):
        _unsupported(f'module uses {node.value.id}.{node.attr}')
      if isinstance(node, ast.Attribute) and D(node) in ('os.environ', 'os.getpid') + (() if allow_np_random else ('np.random',)):
        _unsupported(f'module uses {D(node)}')
    return f'Definition {coqname} : bool := true.'
  return emit



def A_forwarding(outer_qual, callee, coqname, callee_params=None, callee_qual=None):
  """Fail-closed recogniser of argument plumbing: inside `outer_qual` every call of `callee` binds each of the
  outer function's parameters it passes on to the LIKE-NAMED parameter of the callee (by keyword, or by position
  against the callee's signature: `callee_qual` in the same module, or the explicit `callee_params`).  Expressions
  that are not bare outer-parameter names (examples['x'], literals, 'train') are not constrained."""
  def emit(tree):
    T = _T()
    fd = T.find_def(tree, outer_qual)
    outer = {a.arg for a in fd.args.args + fd.args.kwonlyargs} - {'self'}
    params = callee_params
    if params is None:
      cd = T.find_def(tree, callee_qual or callee)
      params = [a.arg for a in cd.args.args if a.arg != 'self']
    calls = [n for n in ast.walk(fd) if isinstance(n, ast.Call) and (D(n.func) or '').split('.')[-1] == callee.split('.')[-1]
             and (D(n.func) or '').endswith(callee)]
    if callee.startswith('super().'):
      calls = [n for n in ast.walk(fd) if isinstance(n, ast.Call) and isinstance(n.func, ast.Attribute) and n.func.attr == callee.split('.')[-1]
               and isinstance(n.func.value, ast.Call) and D(n.func.value.func) == 'super']
    if not calls:
      _unsupported(f'{outer_qual}: no call of {callee}')
    for c in calls:
      if any(isinstance(a, ast.Starred) for a in c.args) or any(k.arg is None for k in c.keywords):
        _unsupported(f'{outer_qual}: *args / **kwargs in the call of {callee}')
      if len(c.args) > len(params):
        _unsupported(f'{outer_qual}: too many positional arguments for {callee}')
      bound = list(zip(params, c.args)) + [(k.arg, k.value) for k in c.keywords]
      seen = set()
      for pname, e in bound:
        if pname in seen or pname not in params:
          _unsupported(f'{outer_qual}: {callee} parameter {pname} bound twice / unknown')
        seen.add(pname)
        if isinstance(e, ast.Name) and e.id in outer and e.id != pname:
          _unsupported(f'{outer_qual}: passes its parameter `{e.id}` as `{pname}` of {callee}')
        if pname in outer and not (isinstance(e, ast.Name) and e.id == pname):
          _unsupported(f'{outer_qual}: its parameter `{pname}` is not what {callee} receives as `{pname}`')
      for pname in params:
        if pname in outer and pname not in seen:
          _unsupported(f'{outer_qual}: its parameter `{pname}` is not passed on to {callee}')
    return f'Definition {coqname} : bool := true.'
  return emit
