"""`qfun` translation kind (DESIGN 2.3): scalar / coordinatewise jnp code -> Gallina
over NanQ.t := option Q (coq/Common/NanQ.v).  Built on translate.Ctx; fail-closed:
anything outside the subset below raises Unsupported.

Types: 'Q' (NanQ.t), 'qbool' (option bool: a comparison result, None = unknown),
'tree' (list NanQ.t: a pytree / array as its flattened coordinate list),
'otree' (option tree: a python variable that is None or a pytree),
'pairQ' (NanQ.t * NanQ.t), 'ptree' (tree * tree), 'cl' (list (tree * NanQ.t)), 'trees' (list tree).

Reading of the python / jnp constructs (trusted, listed in TRUSTED of the harnesses):
  int / float literal            exact rational
  + - * /                        NanQ.add/sub/mul/div  (div: None on a zero divisor)
  < <= > >= == !=                NanQ.ltb ... : option bool
  a if c else b, jnp.where       NanQ.where_ c a b   (lazy selection)
  jnp.maximum / jnp.minimum      NanQ.max / NanQ.min
  jnp.array(x, copy=False)       x
  jnp.sum(x, axis=axis)          NanQ.sum x          (x a 'tree')
  jax.tree.map / jax.tree_util.tree_map (lambda v: e, t)      map (fun v => e) t
  jax.tree_util.tree_map(jnp.add, a, b)                       map2 NanQ.add a b
  jax.tree_util.tree_map(jnp.array, t)                        copy_tree t  (identity on values)
  cls(a, b)                      the pair (a, b)
  a call in the anchor's call table
A function body is: docstring, single-name assignments, one final return.
A `fold` body (emit_qfold) is: initialisations, one `for` over a parameter, a final return.
"""
import ast
from fractions import Fraction

from translate import Ctx, Unsupported, dotted, find_def

COQTY = {'Q': 'NanQ.t', 'qbool': '(option bool)', 'tree': '(list NanQ.t)', 'otree': '(option (list NanQ.t))',
         'pairQ': '(NanQ.t * NanQ.t)', 'ptree': '(list NanQ.t * list NanQ.t)',
         'cl': '(list (list NanQ.t * NanQ.t))', 'trees': '(list (list NanQ.t))'}

QBIN = {ast.Add: 'NanQ.add', ast.Sub: 'NanQ.sub', ast.Mult: 'NanQ.mul', ast.Div: 'NanQ.div'}
QCMP = {ast.Lt: 'NanQ.ltb', ast.LtE: 'NanQ.leb', ast.Gt: 'NanQ.gtb', ast.GtE: 'NanQ.geb',
        ast.Eq: 'NanQ.eqb', ast.NotEq: 'NanQ.neb'}
TREE_MAPS = ('jax.tree.map', 'jax.tree_util.tree_map')
ALLOWED_DECORATORS = ('jax.jit', 'classmethod', 'staticmethod')


def qconst(v):
  fr = Fraction(v) if not isinstance(v, float) else Fraction(*v.as_integer_ratio())
  n = f'{fr.numerator}' if fr.numerator >= 0 else f'({fr.numerator})'
  return f'(NanQ.of_Q ({n} # {fr.denominator})%Q)'


class QCtx(Ctx):
  def expr(self, e, env, want=None):
    t, ty = self._expr(e, env)
    if want is not None and ty != want:
      if want == 'otree' and ty == 'tree':
        return f'(Some {t})', 'otree'
      raise Unsupported(f'type {ty} where {want} expected: {ast.dump(e)[:160]}')
    return t, ty

  def _expr(self, e, env):
    if isinstance(e, ast.Constant):
      if isinstance(e.value, bool) or not isinstance(e.value, (int, float)):
        if e.value is None:
          return 'None', 'otree'
        raise Unsupported('constant ' + repr(e.value))
      if isinstance(e.value, float) and e.value != e.value:
        raise Unsupported('nan literal')
      return qconst(e.value), 'Q'
    if isinstance(e, (ast.Name, ast.Attribute)):
      d = dotted(e)
      d = self.names.get(d, d)
      if d in env:
        return d, env[d]
      raise Unsupported('unknown name ' + d)
    if isinstance(e, ast.UnaryOp) and isinstance(e.op, ast.USub):
      t, _ = self.expr(e.operand, env, 'Q')
      return f'(NanQ.opp {t})', 'Q'
    if isinstance(e, ast.BinOp):
      if type(e.op) not in QBIN:
        raise Unsupported('binop ' + ast.dump(e.op))
      a, _ = self.expr(e.left, env, 'Q')
      b, _ = self.expr(e.right, env, 'Q')
      return f'({QBIN[type(e.op)]} {a} {b})', 'Q'
    if isinstance(e, ast.Compare):
      if len(e.ops) != 1 or type(e.ops[0]) not in QCMP:
        raise Unsupported('comparison ' + ast.dump(e)[:120])
      a, _ = self.expr(e.left, env, 'Q')
      b, _ = self.expr(e.comparators[0], env, 'Q')
      return f'({QCMP[type(e.ops[0])]} {a} {b})', 'qbool'
    if isinstance(e, ast.IfExp):
      c, _ = self.expr(e.test, env, 'qbool')
      a, _ = self.expr(e.body, env, 'Q')
      b, _ = self.expr(e.orelse, env, 'Q')
      return f'(NanQ.where_ {c} {a} {b})', 'Q'
    if isinstance(e, ast.Call):
      return self.qcall(e, env)
    raise Unsupported('expression ' + ast.dump(e)[:160])

  def qcall(self, e, env):
    f = dotted(e.func)
    kw = {k.arg: k.value for k in e.keywords}
    if f in self.calls:
      spec = self.calls[f]
      if callable(spec):
        return spec(self, e, env)
      fmt, kinds, ret = spec
      if e.keywords or len(e.args) != len(kinds):
        raise Unsupported(f'call {f}: arity / keywords')
      args = []
      lifted = None
      for i, (a, k) in enumerate(zip(e.args, kinds)):
        t, ty = self.expr(a, env)
        if ty != k:
          # None is the empty pytree: a tree function applied to an optional tree maps over it
          if k == 'tree' and ty == 'otree' and ret == 'tree' and lifted is None:
            lifted = (i, t)
            t = '__t'
          else:
            raise Unsupported(f'call {f}: argument {i} has type {ty}, expected {k}')
        args.append(t)
      body = '(' + fmt.format(*args) + ')'
      if lifted is not None:
        return f'(option_map (fun __t => {body}) {lifted[1]})', 'otree'
      return body, ret
    if f == 'jnp.where' and len(e.args) == 3 and not kw:
      c, _ = self.expr(e.args[0], env, 'qbool')
      a, _ = self.expr(e.args[1], env, 'Q')
      b, _ = self.expr(e.args[2], env, 'Q')
      return f'(NanQ.where_ {c} {a} {b})', 'Q'
    if f in ('jnp.maximum', 'jnp.minimum') and len(e.args) == 2 and not kw:
      a, _ = self.expr(e.args[0], env, 'Q')
      b, _ = self.expr(e.args[1], env, 'Q')
      return f'(NanQ.{"max" if f.endswith("maximum") else "min"} {a} {b})', 'Q'
    if f == 'jnp.array' and len(e.args) == 1 and set(kw) <= {'copy'}:
      if 'copy' in kw and not (isinstance(kw['copy'], ast.Constant) and kw['copy'].value is False):
        raise Unsupported('jnp.array copy=')
      return self.expr(e.args[0], env)
    if f == 'jnp.sum' and len(e.args) == 1 and set(kw) <= {'axis'}:
      a, _ = self.expr(e.args[0], env, 'tree')
      return f'(NanQ.sum {a})', 'Q'
    if f == 'cls' and len(e.args) == 2 and not kw:
      a, _ = self.expr(e.args[0], env, 'Q')
      b, _ = self.expr(e.args[1], env, 'Q')
      return f'({a}, {b})', 'pairQ'
    if f == 'cls' and len(e.args) == 1 and not kw:
      return self.expr(e.args[0], env, 'Q')
    if f in TREE_MAPS and not kw and len(e.args) >= 2:
      fn = e.args[0]
      if isinstance(fn, ast.Lambda) and len(e.args) == 2:
        a = fn.args
        if a.vararg or a.kwarg or a.kwonlyargs or a.defaults or len(a.args) != 1:
          raise Unsupported('tree_map lambda signature')
        v = a.args[0].arg
        env2 = dict(env)
        env2[v] = 'Q'
        body, _ = self.expr(fn.body, env2, 'Q')
        t, _ = self.expr(e.args[1], env, 'tree')
        return f'(map (fun {v} => {body}) {t})', 'tree'
      if isinstance(fn, (ast.Name, ast.Attribute)) and dotted(fn) == 'jnp.add' and len(e.args) == 3:
        a, _ = self.expr(e.args[1], env, 'tree')
        b, _ = self.expr(e.args[2], env, 'tree')
        return f'(map2 NanQ.add {a} {b})', 'tree'
      if isinstance(fn, (ast.Name, ast.Attribute)) and dotted(fn) == 'jnp.array' and len(e.args) == 2:
        t, _ = self.expr(e.args[1], env, 'tree')
        return f'(copy_tree {t})', 'tree'
      if isinstance(fn, (ast.Name, ast.Attribute)) and dotted(fn) == 'jnp.zeros_like' and len(e.args) == 2:
        t, _ = self.expr(e.args[1], env, 'tree')
        return f'(map (fun _ => NanQ.zero) {t})', 'tree'
    raise Unsupported('call to ' + f)


def check_decorators(fd):
  for d in fd.decorator_list:
    name = None
    try:
      name = dotted(d)
    except Unsupported:
      if isinstance(d, ast.Call) and dotted(d.func) == 'functools.partial' and d.args and dotted(d.args[0]) == 'jax.jit':
        name = 'jax.jit'
    if name not in ALLOWED_DECORATORS:
      raise Unsupported(f'{fd.name}: decorator not understood')


def params_str(params):
  return ' '.join(f'({n} : {COQTY[t]})' for n, t in params)


def qstmts(stmts, ctx, env, ret):
  """Assignments followed by one return -> a let-chain."""
  stmts = [s for s in stmts if not (isinstance(s, ast.Expr) and isinstance(s.value, ast.Constant))]
  out = ''
  for i, s in enumerate(stmts):
    if isinstance(s, ast.Return):
      if i != len(stmts) - 1 or s.value is None:
        raise Unsupported('return is not the last statement')
      t, _ = ctx.expr(s.value, env, ret)
      return out + t
    if isinstance(s, ast.Assign) and len(s.targets) == 1 and isinstance(s.targets[0], (ast.Name, ast.Attribute)):
      v, ty = ctx.expr(s.value, env)
      n = ctx.names.get(dotted(s.targets[0]), dotted(s.targets[0]))
      if '.' in n:
        raise Unsupported('assignment to attribute ' + n)
      env = dict(env)
      env[n] = ty
      out += f'let {n} := {v} in\n  '
      continue
    raise Unsupported('statement ' + ast.dump(s)[:160])
  raise Unsupported('function does not end in a return')


def A_qfun(qual, coqname, pyparams, params, ret, names=None, calls=None):
  """pyparams: the python parameter names expected, in order (self / cls included);
  params: [(coq name, type)] of the emitted definition (names maps python names to them)."""
  def emit(tree):
    fd = find_def(tree, qual)
    check_decorators(fd)
    a = fd.args
    got = [x.arg for x in a.args]
    if got != list(pyparams) or a.vararg or a.kwarg or a.kwonlyargs:
      raise Unsupported(f'{qual}: parameters {got}, expected {list(pyparams)}')
    ctx = QCtx(names, calls)
    env = {n: t for n, t in params}
    body = qstmts(fd.body, ctx, env, ret)
    return f'Definition {coqname} {params_str(params)} : {COQTY[ret]} :=\n  {body}.'
  return emit


def A_jit_alias(pyname, coqname, target_py, target_coq):
  """`pyname = jax.jit(target, donate_argnums=k)`: same function; the donated
  argument positions are emitted as `<coqname>_donates : list nat`."""
  def emit(tree):
    for n in tree.body:
      if isinstance(n, ast.Assign) and len(n.targets) == 1 and isinstance(n.targets[0], ast.Name) \
          and n.targets[0].id == pyname:
        v = n.value
        if not (isinstance(v, ast.Call) and dotted(v.func) == 'jax.jit' and len(v.args) == 1
                and dotted(v.args[0]) == target_py):
          raise Unsupported(f'{pyname}: not jax.jit({target_py}, ...)')
        don = []
        for k in v.keywords:
          if k.arg != 'donate_argnums':
            raise Unsupported(f'{pyname}: keyword {k.arg}')
          val = k.value
          elts = val.elts if isinstance(val, (ast.Tuple, ast.List)) else [val]
          for x in elts:
            if not (isinstance(x, ast.Constant) and isinstance(x.value, int) and x.value >= 0):
              raise Unsupported(f'{pyname}: donate_argnums')
            don.append(x.value)
        return (f'Definition {coqname} := {target_coq}.\n'
                f'Definition {coqname}_donates : list nat := [{"; ".join(f"{d}%nat" for d in don)}].')
    raise Unsupported(f'{pyname} not found')
  return emit


def A_donates_none(qual, coqname):
  """A @jax.jit function without donate_argnums donates nothing."""
  def emit(tree):
    fd = find_def(tree, qual)
    for d in fd.decorator_list:
      if isinstance(d, ast.Call):
        for k in d.keywords:
          if k.arg in ('donate_argnums', 'donate_argnames'):
            raise Unsupported(f'{qual}: donates')
    return f'Definition {coqname}_donates : list nat := [].'
  return emit


# ---- fold: `init...; for x in param: body; return e` -> fold_left -----------------

def _fold_body(stmts, ctx, env, state, k):
  """Compiles loop-body statements to a term producing the state tuple `k(env)`."""
  if not stmts:
    return k(env)
  s, rest = stmts[0], stmts[1:]
  if isinstance(s, ast.Delete):
    env = dict(env)
    for t in s.targets:
      n = dotted(t)
      if n in state:
        raise Unsupported('del of a state variable')
      env.pop(n, None)
    return _fold_body(rest, ctx, env, state, k)
  if isinstance(s, ast.Assign) and len(s.targets) == 1 and isinstance(s.targets[0], ast.Name):
    n = s.targets[0].id
    want = state.get(n)
    v, ty = ctx.expr(s.value, env, want)
    env = dict(env)
    env[n] = ty
    return f'let {n} := {v} in ' + _fold_body(rest, ctx, env, state, k)
  if isinstance(s, ast.AugAssign) and isinstance(s.target, ast.Name) and isinstance(s.op, ast.Add):
    n = s.target.id
    cur, _ = ctx.expr(s.target, env, 'Q')
    v, _ = ctx.expr(s.value, env, 'Q')
    return f'let {n} := (NanQ.add {cur} {v}) in ' + _fold_body(rest, ctx, env, state, k)
  if isinstance(s, ast.If):
    t = s.test
    if (isinstance(t, ast.Compare) and len(t.ops) == 1 and isinstance(t.ops[0], (ast.Is, ast.IsNot))
        and isinstance(t.comparators[0], ast.Constant) and t.comparators[0].value is None
        and isinstance(t.left, ast.Name) and env.get(t.left.id) == 'otree'):
      n = t.left.id
      some_env = dict(env)
      some_env[n] = 'tree'
      b_none, b_some = (s.body, s.orelse) if isinstance(t.ops[0], ast.Is) else (s.orelse, s.body)
      a = _fold_body(b_some + rest, ctx, some_env, state, k)
      b = _fold_body(b_none + rest, ctx, env, state, k)
      return f'(match {n} with Some {n} => {a} | None => {b} end)'
    raise Unsupported('if-test in a fold body: ' + ast.dump(t)[:120])
  raise Unsupported('fold body statement ' + ast.dump(s)[:160])


def A_qfold(qual, coqname, pyparam, seq_ty, elem, ret, calls=None):
  """elem: [(name, type)] bound by the for target (a name or a tuple of names)."""
  def emit(tree):
    fd = find_def(tree, qual)
    check_decorators(fd)
    a = fd.args
    if [x.arg for x in a.args] != [pyparam] or a.vararg or a.kwarg or a.kwonlyargs:
      raise Unsupported(f'{qual}: parameters')
    ctx = QCtx(None, calls)
    body = [s for s in fd.body if not (isinstance(s, ast.Expr) and isinstance(s.value, ast.Constant))]
    state, inits = {}, []
    while body and isinstance(body[0], ast.Assign):
      s = body.pop(0)
      if len(s.targets) != 1 or not isinstance(s.targets[0], ast.Name):
        raise Unsupported(f'{qual}: initialisation')
      v, ty = ctx.expr(s.value, {})
      state[s.targets[0].id] = ty
      inits.append(v)
    if len(body) != 2 or not isinstance(body[0], ast.For) or not isinstance(body[1], ast.Return) or not state:
      raise Unsupported(f'{qual}: expected initialisations, one for loop, one return')
    loop, retn = body
    if loop.orelse or dotted(loop.iter) != pyparam:
      raise Unsupported(f'{qual}: loop is not `for .. in {pyparam}`')
    tgt = loop.target
    tn = [x.id for x in tgt.elts] if isinstance(tgt, ast.Tuple) and all(isinstance(x, ast.Name) for x in tgt.elts) \
        else [tgt.id] if isinstance(tgt, ast.Name) else None
    if tn != [n for n, _ in elem]:
      raise Unsupported(f'{qual}: loop target {tn}, expected {[n for n, _ in elem]}')
    svars = list(state)
    # a name must not be used after the loop unless it is a state variable; the loop
    # body may not read the iterable again (single pass)
    for n in ast.walk(loop):
      if isinstance(n, ast.Name) and n.id == pyparam and n is not loop.iter:
        raise Unsupported(f'{qual}: the iterable is used inside the loop')
    for n in ast.walk(retn):
      if isinstance(n, ast.Name) and n.id == pyparam:
        raise Unsupported(f'{qual}: the iterable is used after the loop')
    env = dict(state)
    for n, t in elem:
      env[n] = t

    def k(env2):
      for v in svars:
        if env2.get(v) != state[v]:
          if state[v] == 'otree' and env2.get(v) == 'tree':
            continue
          raise Unsupported(f'{qual}: state variable {v} changes type')
      return '(' + ', '.join((f'Some {v}' if state[v] == 'otree' and env2[v] == 'tree' else v) for v in svars) + ')'
    step = _fold_body(loop.body, ctx, env, state, k)
    spat = "'(" + ', '.join(svars) + ')' if len(svars) > 1 else svars[0]
    epat = "'(" + ', '.join(n for n, _ in elem) + ')' if len(elem) > 1 else elem[0][0]
    sty = ' * '.join(COQTY[state[v]] for v in svars)
    ety = ' * '.join(COQTY[t] for _, t in elem)
    final, _ = ctx.expr(retn.value, dict(state), ret)
    return (f'Definition {coqname}_step (st : {sty}) (el : {ety}) : {sty} :=\n'
            f'  let {spat} := st in let {epat} := el in\n  {step}.\n'
            f'Definition {coqname}_init : {sty} := ({", ".join(inits)}).\n'
            f'Definition {coqname} ({pyparam} : {COQTY[seq_ty]}) : {COQTY[ret]} :=\n'
            f'  let {spat} := fold_left {coqname}_step {pyparam} {coqname}_init in\n  {final}.')
  return emit
