"""(C10 / C17) Runs a function of a harness module in ANOTHER interpreter process with a chosen PYTHONHASHSEED and
returns its JSON result: "a pure function of (state, clients)" must also hold across processes (Python salts
hash() of bytes / str per interpreter; ./check itself pins PYTHONHASHSEED=0, so only a second process can see it)."""
import json
import os
import subprocess
import sys
import tempfile

_CODE = r'''
import json, sys
sys.path.insert(0, sys.argv[1])
import importlib
h = importlib.import_module('harness.' + sys.argv[2])
payload = json.load(open(sys.argv[4]))
print('@@' + json.dumps(getattr(h, sys.argv[3])(payload)))
'''


def call(harness, func, payload, hashseed, timeout=600):
  tools = os.path.dirname(os.path.dirname(os.path.abspath(__file__)))
  d = tempfile.mkdtemp(prefix='xproc-')
  try:
    pf = os.path.join(d, 'payload.json')
    with open(pf, 'w') as f:
      json.dump(payload, f)
    env = dict(os.environ, PYTHONHASHSEED=str(hashseed))
    try:
      p = subprocess.run([sys.executable, '-c', _CODE, tools, harness, func, pf], capture_output=True, text=True,
                         timeout=timeout, env=env)
    except subprocess.TimeoutExpired:
      return {'err': 'timeout'}
    for line in p.stdout.split('\n'):
      if line.startswith('@@'):
        return {'err': None, 'result': json.loads(line[2:])}
    return {'err': 'no result: ' + p.stderr[-400:]}
  finally:
    import shutil
    shutil.rmtree(d, ignore_errors=True)
