"""`metric` translation kind (C14): the body of a Metric.evaluate_example of
fedjax/core/metrics.py -> Gallina over the primitives of coq/Model/C14_Prims.v.
Fail-closed: every statement / expression form outside the subset below raises
Unsupported (the generated module then does not compile and the tie is broken).

Value types (python side -> Coq):
  int   python / 0-d integer-valued number          Z
  bool  0-d boolean                                  bool
  zv    1-d integer-valued array (targets, weights)  list Z
  bv    1-d boolean array                            list bool
  zm    2-d integer array (index matrix, confusion)  list (list Z)
  fv/fm finite class scores (vector / matrix)        list Z / list (list Z)
  sv/sm extended class scores (after a +-inf mask)   list ext / list (list ext)
  ev    logits mask                                  list ext
  q/qv  cross-entropy value(s): opaque parameters    Q / list Q
  il    python tuple of ints (constructor argument)  list Z
  oev   Optional[logits mask]                        option (list ext)
  pb    python bool (constructor argument)           bool
  ms/msv/qs/qsv/ss/ssm   MeanStat / SumStat results  Z*Z, list (Z*Z), Q*Z, list (Q*Z), Z, list (list Z)

Reading of the constructs (trusted):
  jnp.argmax(x, axis=-1)            argmax_z (first index of the maximum)      [rows of a matrix: map]
  jnp.argsort(x[, axis=1])          argsort_z (stable ascending)               [rows of a matrix: map]
  -x                                map ext_neg
  x[:e] / x[:, :e]                  py_slice _ 0 e   (e an int expression, python clamping)
  max(a, b)                         Z.max
  ==, !=                            Z.eqb / negb, elementwise, scalar broadcast
  .astype(jnp.float32)              b2z
  jnp.any / jnp.all / jnp.sum       any_b | any_z / all_b / zsum | qsum | b2z
  jnp.any(jnp.transpose(r) == t, axis=0)   rows_any_eq r t
  *                                 elementwise product (bool as 0/1)
  jnp.ones_like / zeros_like        constant arrays of the same length
  jnp.maximum(zv, bv)               elementwise max with bool as 0/1
  pred += logits_mask               add_mask_mat (finite score + extended mask entry)
  jnp.zeros((n, n)), m.at[i, j].set(v)     zeros_mat, mat_set
  for v in <tuple attribute>: acc (op)= e  fold_left
  MeanStat.new / SumStat.new        mean_new / mean_newQ (elementwise on arrays) / identity
  unreduced_cross_entropy_loss(target, pred)   the parameter `ce`
  if self.per_position: return A ... return B     if per_position then A else B
  if self.logits_mask is not None: ...             match on the option
  if self.num_classes != len(pred): raise ...      None (the error outcome)
"""
import ast

from translate import Unsupported, dotted, find_def

COQ = {'int': 'Z', 'bool': 'bool', 'zv': '(list Z)', 'bv': '(list bool)', 'zm': '(list (list Z))',
       'fv': '(list Z)', 'fm': '(list (list Z))', 'sv': '(list ext)', 'sm': '(list (list ext))', 'ev': '(list ext)',
       'q': 'Q', 'qv': '(list Q)', 'il': '(list Z)', 'oev': '(option (list ext))', 'pb': 'bool',
       'ms': '(Z * Z)', 'msv': '(list (Z * Z))', 'qs': '(Q * Z)', 'qsv': '(list (Q * Z))', 'ss': 'Z',
       'ssm': '(list (list Z))'}
LISTED = {'ms': 'msv', 'qs': 'qsv'}   # scalar statistic -> its one-element array form


class M:
  """Translation of one function body."""

  def __init__(self, attrs, ce_type=None, int32_target=False):
    self.attrs = attrs        # 'self.k' -> (coq name, type)
    self.ce_type = ce_type
    self.int32_target = int32_target   # the target lookup must be widened with jnp.asarray(.., jnp.int32)

  # ---------------------------------------------------------------- expressions
  def score(self, t, ty):
    """Coerces finite scores to extended scores."""
    if ty == 'fv':
      return f'(fin_vec {t})', 'sv'
    if ty == 'fm':
      return f'(fin_mat {t})', 'sm'
    if ty in ('sv', 'sm'):
      return t, ty
    raise Unsupported('class scores expected, got ' + ty)

  def num(self, t, ty):
    """A 0-d value used as a number."""
    if ty == 'int':
      return t
    if ty in ('bool', 'pb'):
      return f'(b2z {t})'
    raise Unsupported('number expected, got ' + ty)

  def ex(self, e, env):
    if isinstance(e, ast.Constant):
      v = e.value
      if isinstance(v, bool) or not isinstance(v, (int, float)) or v != int(v):
        raise Unsupported('constant ' + repr(v))
      v = int(v)
      return (f'{v}%Z' if v >= 0 else f'({v})%Z'), 'int'
    if isinstance(e, ast.Name):
      if e.id in env:
        return env[e.id]
      raise Unsupported('unknown name ' + e.id)
    if isinstance(e, ast.Attribute):
      d = dotted(e)
      if d in self.attrs:
        return self.attrs[d]
      raise Unsupported('unknown attribute ' + d)
    if isinstance(e, ast.UnaryOp) and isinstance(e.op, ast.USub):
      t, ty = self.score(*self.ex(e.operand, env))
      return (f'(map ext_neg {t})', 'sv') if ty == 'sv' else (f'(map (map ext_neg) {t})', 'sm')
    if isinstance(e, ast.BinOp) and isinstance(e.op, ast.Mult):
      return self.mul(self.ex(e.left, env), self.ex(e.right, env))
    if isinstance(e, ast.Compare):
      if len(e.ops) != 1 or not isinstance(e.ops[0], (ast.Eq, ast.NotEq)):
        raise Unsupported('comparison ' + ast.dump(e)[:120])
      r = self.eq(self.ex(e.left, env), self.ex(e.comparators[0], env))
      if isinstance(e.ops[0], ast.NotEq):
        r = (f'(negb {r[0]})', 'bool') if r[1] == 'bool' else (f'(map negb {r[0]})', 'bv')
      return r
    if isinstance(e, ast.Subscript):
      return self.subscript(e, env)
    if isinstance(e, ast.Call):
      return self.call(e, env)
    raise Unsupported('expression ' + ast.dump(e)[:160])

  def eq(self, a, b):
    (ta, tya), (tb, tyb) = a, b
    if tya == 'int' and tyb == 'int':
      return f'(Z.eqb {ta} {tb})', 'bool'
    if tya == 'zv' and tyb == 'int':
      return f'(map (fun x_ => Z.eqb x_ {tb}) {ta})', 'bv'
    if tya == 'zv' and tyb == 'zv':
      return f'(map2 Z.eqb {ta} {tb})', 'bv'
    raise Unsupported(f'== between {tya} and {tyb}')

  def mul(self, a, b):
    (ta, tya), (tb, tyb) = a, b
    if tya == 'zv' and tyb == 'zv':
      return f'(map2 Z.mul {ta} {tb})', 'zv'
    if tya == 'zv' and tyb == 'bv':
      return f'(map2 (fun w_ b_ => (w_ * b2z b_)%Z) {ta} {tb})', 'zv'
    if tya == 'qv' and tyb == 'zv':
      return f'(map2 (fun v_ w_ => (v_ * inject_Z w_)%Q) {ta} {tb})', 'qv'
    if tya in ('int', 'bool') and tyb in ('int', 'bool'):
      return f'({self.num(ta, tya)} * {self.num(tb, tyb)})%Z', 'int'
    raise Unsupported(f'* between {tya} and {tyb}')

  def int_expr(self, e, env):
    """Python-level integer expression (slice bounds): names, constants, max(a, b)."""
    if isinstance(e, ast.Call) and dotted(e.func) == 'max' and len(e.args) == 2 and not e.keywords:
      return f'(Z.max {self.int_expr(e.args[0], env)} {self.int_expr(e.args[1], env)})'
    t, ty = self.ex(e, env)
    if ty != 'int':
      raise Unsupported('integer expression expected')
    return t

  def subscript(self, e, env):
    t, ty = self.ex(e.value, env)
    sl = e.slice

    def upto(s):
      if not isinstance(s, ast.Slice) or s.lower is not None or s.step is not None or s.upper is None:
        raise Unsupported('slice form other than [:e]')
      return self.int_expr(s.upper, env)

    def full(s):
      return isinstance(s, ast.Slice) and s.lower is None and s.upper is None and s.step is None
    if ty == 'zv' and isinstance(sl, ast.Slice):
      return f'(py_slice {t} 0%Z {upto(sl)})', 'zv'
    if ty == 'zm' and isinstance(sl, ast.Tuple) and len(sl.elts) == 2 and full(sl.elts[0]):
      return f'(map (fun r_ => py_slice r_ 0%Z {upto(sl.elts[1])}) {t})', 'zm'
    raise Unsupported('subscript ' + ast.dump(e)[:160])

  def kw(self, e, allowed):
    k = {x.arg: x.value for x in e.keywords}
    if not set(k) <= set(allowed):
      raise Unsupported(f'{dotted(e.func)}: keywords {sorted(k)}')
    return k

  def axis_is(self, k, name, value):
    v = k.get(name)
    if v is None:
      return False
    try:
      return ast.literal_eval(v) == value
    except ValueError:
      return False

  def call(self, e, env):
    # method calls first
    if isinstance(e.func, ast.Attribute) and e.func.attr == 'astype':
      if len(e.args) != 1 or e.keywords or dotted(e.args[0]) not in ('jnp.float32',):
        raise Unsupported('astype target')
      t, ty = self.ex(e.func.value, env)
      if ty == 'bool':
        return f'(b2z {t})', 'int'
      if ty == 'bv':
        return f'(map b2z {t})', 'zv'
      raise Unsupported('astype of ' + ty)
    if isinstance(e.func, ast.Attribute) and e.func.attr == 'set':
      # m.at[i, j].set(v)
      sub = e.func.value
      if not (isinstance(sub, ast.Subscript) and isinstance(sub.value, ast.Attribute) and sub.value.attr == 'at'
              and isinstance(sub.slice, ast.Tuple) and len(sub.slice.elts) == 2 and len(e.args) == 1 and not e.keywords):
        raise Unsupported('.set form')
      m, tm = self.ex(sub.value.value, env)
      i, ti = self.ex(sub.slice.elts[0], env)
      j, tj = self.ex(sub.slice.elts[1], env)
      v, tv = self.ex(e.args[0], env)
      if (tm, ti, tj, tv) != ('zm', 'int', 'int', 'int'):
        raise Unsupported('.at[i, j].set types')
      return f'(mat_set {m} {i} {j} {v})', 'zm'
    f = dotted(e.func)
    if f == 'jnp.argmax':
      k = self.kw(e, ['axis'])
      if len(e.args) != 1 or not self.axis_is(k, 'axis', -1):
        raise Unsupported('jnp.argmax form')
      t, ty = self.score(*self.ex(e.args[0], env))
      return (f'(argmax_z {t})', 'int') if ty == 'sv' else (f'(map argmax_z {t})', 'zv')
    if f == 'jnp.argsort':
      k = self.kw(e, ['axis'])
      if len(e.args) != 1:
        raise Unsupported('jnp.argsort form')
      t, ty = self.score(*self.ex(e.args[0], env))
      if ty == 'sv' and not k:
        return f'(argsort_z {t})', 'zv'
      if ty == 'sm' and self.axis_is(k, 'axis', 1):
        return f'(map argsort_z {t})', 'zm'
      raise Unsupported('jnp.argsort axis')
    if f == 'jnp.any':
      k = self.kw(e, ['axis'])
      if len(e.args) != 1:
        raise Unsupported('jnp.any form')
      a = e.args[0]
      if self.axis_is(k, 'axis', 0):
        # jnp.any(jnp.transpose(rows) == t, axis=0)
        if not (isinstance(a, ast.Compare) and len(a.ops) == 1 and isinstance(a.ops[0], ast.Eq)
                and isinstance(a.left, ast.Call) and dotted(a.left.func) == 'jnp.transpose'
                and len(a.left.args) == 1 and not a.left.keywords):
          raise Unsupported('jnp.any(..., axis=0) form')
        r, tr = self.ex(a.left.args[0], env)
        t, tt = self.ex(a.comparators[0], env)
        if (tr, tt) != ('zm', 'zv'):
          raise Unsupported('jnp.any(transpose == target) types')
        return f'(rows_any_eq {r} {t})', 'bv'
      if k:
        raise Unsupported('jnp.any axis')
      t, ty = self.ex(a, env)
      if ty == 'bv':
        return f'(any_b {t})', 'bool'
      if ty == 'zv':
        return f'(any_z {t})', 'bool'
      raise Unsupported('jnp.any of ' + ty)
    if f == 'jnp.all':
      if len(e.args) != 1 or e.keywords:
        raise Unsupported('jnp.all form')
      t, ty = self.ex(e.args[0], env)
      if ty != 'bv':
        raise Unsupported('jnp.all of ' + ty)
      return f'(all_b {t})', 'bool'
    if f == 'jnp.sum':
      if len(e.args) != 1 or e.keywords:
        raise Unsupported('jnp.sum form')
      t, ty = self.ex(e.args[0], env)
      if ty == 'zv':
        return f'(zsum {t})', 'int'
      if ty == 'qv':
        return f'(qsum {t})', 'q'
      if ty == 'bool':
        return f'(b2z {t})', 'int'
      raise Unsupported('jnp.sum of ' + ty)
    if f in ('jnp.ones_like', 'jnp.zeros_like'):
      k = self.kw(e, ['dtype'])
      if len(e.args) != 1 or ('dtype' in k and dotted(k['dtype']) != 'jnp.float32'):
        raise Unsupported(f + ' form')
      t, ty = self.ex(e.args[0], env)
      if ty != 'zv':
        raise Unsupported(f + ' of ' + ty)
      return f'(map (fun _ => {1 if f.endswith("ones_like") else 0}%Z) {t})', 'zv'
    if f == 'jnp.maximum':
      if len(e.args) != 2 or e.keywords:
        raise Unsupported('jnp.maximum form')
      (a, ta), (b, tb) = self.ex(e.args[0], env), self.ex(e.args[1], env)
      if (ta, tb) != ('zv', 'bv'):
        raise Unsupported(f'jnp.maximum between {ta} and {tb}')
      return f'(map2 (fun o_ b_ => Z.max o_ (b2z b_)) {a} {b})', 'zv'
    if f == 'jnp.array':
      if len(e.args) != 1 or e.keywords:
        raise Unsupported('jnp.array form')
      t, ty = self.ex(e.args[0], env)
      if ty != 'ev':
        raise Unsupported('jnp.array of ' + ty)
      return t, ty
    if f == 'jnp.zeros':
      if len(e.args) != 1 or e.keywords or not (isinstance(e.args[0], ast.Tuple) and len(e.args[0].elts) == 2):
        raise Unsupported('jnp.zeros form')
      r = self.int_expr(e.args[0].elts[0], env)
      c = self.int_expr(e.args[0].elts[1], env)
      return f'(zeros_mat {r} {c})', 'zm'
    if f == 'len':
      if len(e.args) != 1 or e.keywords:
        raise Unsupported('len form')
      t, ty = self.ex(e.args[0], env)
      if ty not in ('fv', 'sv', 'zv'):
        raise Unsupported('len of ' + ty)
      return f'(Z.of_nat (length {t}))', 'int'
    if f == 'get_target_weight':
      if len(e.args) != 2 or e.keywords:
        raise Unsupported('get_target_weight form')
      (a, ta), (b, tb) = self.ex(e.args[0], env), self.ex(e.args[1], env)
      if (ta, tb) != ('zv', 'il'):
        raise Unsupported('get_target_weight types')
      return f'(gen_get_target_weight {a} {b})', 'zv'
    if f == 'unreduced_cross_entropy_loss':
      if len(e.args) != 2 or e.keywords or [getattr(a, 'id', None) for a in e.args] != ['target', 'pred'] \
          or self.ce_type is None:
        raise Unsupported('unreduced_cross_entropy_loss form')
      want = {'int': 'q', 'zv': 'qv'}[env['target'][1]]
      if want != self.ce_type:
        raise Unsupported('cross-entropy rank')
      return 'ce', want
    if f == 'MeanStat.new':
      if len(e.args) != 2 or e.keywords:
        raise Unsupported('MeanStat.new form')
      (a, ta), (w, tw) = self.ex(e.args[0], env), self.ex(e.args[1], env)
      if ta in ('int', 'bool') and tw in ('int', 'bool'):
        return f'(mean_new {self.num(a, ta)} {self.num(w, tw)})', 'ms'
      if ta == 'zv' and tw == 'zv':
        return f'(map2 mean_new {a} {w})', 'msv'
      if ta == 'q' and tw in ('int', 'bool'):
        return f'(mean_newQ {a} {self.num(w, tw)})', 'qs'
      if ta == 'qv' and tw == 'zv':
        return f'(map2 mean_newQ {a} {w})', 'qsv'
      raise Unsupported(f'MeanStat.new({ta}, {tw})')
    if f == 'SumStat.new':
      if len(e.args) != 1 or e.keywords:
        raise Unsupported('SumStat.new form')
      t, ty = self.ex(e.args[0], env)
      if ty in ('int', 'bool'):
        return self.num(t, ty), 'ss'
      if ty == 'zm':
        return t, 'ssm'
      raise Unsupported('SumStat.new of ' + ty)
    raise Unsupported('call to ' + f)

  # ---------------------------------------------------------------- statements
  def aug(self, s, env):
    n = s.target.id if isinstance(s.target, ast.Name) else None
    if n is None or n not in env:
      raise Unsupported('augmented assignment target')
    cur = env[n]
    val = self.ex(s.value, env)
    if isinstance(s.op, ast.Mult):
      return n, self.mul(cur, val)
    if isinstance(s.op, ast.Add) and cur[1] == 'fm' and val[1] == 'ev':
      return n, (f'(add_mask_mat {cur[0]} {val[0]})', 'sm')
    raise Unsupported('augmented assignment ' + ast.dump(s)[:120])

  def block(self, stmts, env, ret):
    """stmts -> Gallina term of type `ret`; `ret` may be ('opt', ty) for the error outcome."""
    if not stmts:
      raise Unsupported('function does not end in a return')
    s, rest = stmts[0], stmts[1:]
    if isinstance(s, ast.Expr) and isinstance(s.value, ast.Constant) and isinstance(s.value.value, str):
      return self.block(rest, env, ret)
    if isinstance(s, ast.Delete):
      if [getattr(t, 'id', None) for t in s.targets] != ['prediction']:
        raise Unsupported('del of something other than prediction')
      env = {k: v for k, v in env.items() if k != 'pred'}
      return self.block(rest, env, ret)
    if isinstance(s, ast.Return):
      if rest or s.value is None:
        raise Unsupported('return is not last')
      return self.ret(self.ex(s.value, env), ret)
    if isinstance(s, ast.Assign) and len(s.targets) == 1 and isinstance(s.targets[0], ast.Name):
      n = s.targets[0].id
      pre = self.prelude(n, s.value, env)
      if pre is not None:
        return self.block(rest, pre, ret)
      t, ty = self.ex(s.value, env)
      env = dict(env)
      env[n] = (n, ty)
      return f'let {n} := {t} in\n  ' + self.block(rest, env, ret)
    if isinstance(s, ast.AugAssign):
      n, (t, ty) = self.aug(s, env)
      env = dict(env)
      env[n] = (n, ty)
      return f'let {n} := {t} in\n  ' + self.block(rest, env, ret)
    if isinstance(s, ast.For):
      n, term, ty = self.loop(s, env)
      env = dict(env)
      env[n] = (n, ty)
      return f'let {n} := {term} in\n  ' + self.block(rest, env, ret)
    if isinstance(s, ast.If):
      return self.cond(s, rest, env, ret)
    raise Unsupported('statement ' + ast.dump(s)[:160])

  def ret(self, val, ret):
    t, ty = val
    opt = isinstance(ret, tuple)
    want = ret[1] if opt else ret
    if ty != want:
      if LISTED.get(ty) == want:
        t = f'[{t}]'
      else:
        raise Unsupported(f'returns {ty}, declared {want}')
    return f'(Some {t})' if opt else t

  def prelude(self, n, v, env):
    """`target = example[self.target_key]` and
    `pred = prediction if self.pred_key is None else prediction[self.pred_key]`."""
    widened = (n == 'target' and isinstance(v, ast.Call) and dotted(v.func) == 'jnp.asarray' and len(v.args) == 2
               and not v.keywords and dotted(v.args[1]) == 'jnp.int32')
    if widened != bool(self.int32_target) and n == 'target' and (widened or isinstance(v, ast.Subscript)):
      raise Unsupported('target lookup: int32 widening ' + ('missing' if self.int32_target else 'unexpected'))
    if widened:
      v = v.args[0]      # jnp.asarray(x, jnp.int32): the identity on the integer value (Z model), required by the anchor
    if n == 'target' and isinstance(v, ast.Subscript) and isinstance(v.value, ast.Name) and v.value.id == 'example':
      if dotted(v.slice) != 'self.target_key' or 'arg:target' not in env:
        raise Unsupported('target lookup')
      e2 = dict(env)
      e2['target'] = env['arg:target']
      return e2
    if n == 'pred' and isinstance(v, ast.IfExp):
      ok = (isinstance(v.test, ast.Compare) and len(v.test.ops) == 1 and isinstance(v.test.ops[0], ast.Is)
            and dotted(v.test.left) == 'self.pred_key' and isinstance(v.test.comparators[0], ast.Constant)
            and v.test.comparators[0].value is None and isinstance(v.body, ast.Name) and v.body.id == 'prediction'
            and isinstance(v.orelse, ast.Subscript) and isinstance(v.orelse.value, ast.Name)
            and v.orelse.value.id == 'prediction' and dotted(v.orelse.slice) == 'self.pred_key')
      if not ok or 'arg:pred' not in env:
        raise Unsupported('pred lookup')
      e2 = dict(env)
      e2['pred'] = env['arg:pred']
      return e2
    return None

  def loop(self, s, env):
    """for v in <il attribute>: acc = e   |   acc op= e   -> fold_left over the tuple."""
    if s.orelse or not isinstance(s.target, ast.Name) or len(s.body) != 1:
      raise Unsupported('loop form')
    it, tit = self.ex(s.iter, env)
    if tit != 'il':
      raise Unsupported('loop over ' + tit)
    v = s.target.id
    b = s.body[0]
    env2 = dict(env)
    env2[v] = (v, 'int')
    if isinstance(b, ast.AugAssign):
      n, (t, ty) = self.aug(b, env2)
    elif isinstance(b, ast.Assign) and len(b.targets) == 1 and isinstance(b.targets[0], ast.Name) \
        and b.targets[0].id in env:
      n = b.targets[0].id
      t, ty = self.ex(b.value, env2)
    else:
      raise Unsupported('loop body')
    if env[n][1] != ty or env[n][0] != n:
      raise Unsupported('loop accumulator changes type')
    return n, f'(fold_left (fun {n} {v} => {t}) {it} {n})', ty

  def cond(self, s, rest, env, ret):
    t = s.test
    # if self.per_position: return A   (then the rest)
    if isinstance(t, ast.Attribute) and dotted(t) in self.attrs and self.attrs[dotted(t)][1] == 'pb' and not s.orelse:
      a = self.block(s.body, env, ret)
      b = self.block(rest, env, ret)
      return f'if {self.attrs[dotted(t)][0]} then {a}\n  else {b}'
    # if self.<optional> is not None: <assignments>
    if (isinstance(t, ast.Compare) and len(t.ops) == 1 and isinstance(t.ops[0], ast.IsNot)
        and isinstance(t.comparators[0], ast.Constant) and t.comparators[0].value is None
        and isinstance(t.left, ast.Attribute) and dotted(t.left) in self.attrs
        and self.attrs[dotted(t.left)][1] == 'oev' and not s.orelse):
      d = dotted(t.left)
      oname = self.attrs[d][0]
      inner = dict(self.attrs)
      inner[d] = (oname + '_', 'ev')
      sub = M(inner, self.ce_type, self.int32_target)
      env2 = dict(env)
      changed = None
      lets = ''
      for b in s.body:
        if isinstance(b, ast.Assign) and len(b.targets) == 1 and isinstance(b.targets[0], ast.Name):
          n = b.targets[0].id
          if n in env:
            raise Unsupported('optional branch rebinds ' + n)
          v, ty = sub.ex(b.value, env2)
          env2[n] = (n, ty)
          lets += f'let {n} := {v} in '
        elif isinstance(b, ast.AugAssign):
          n, (v, ty) = sub.aug(b, env2)
          if changed is not None:
            raise Unsupported('optional branch changes two variables')
          changed = (n, v, ty)
          env2[n] = (n, ty)
          lets += f'let {n} := {v} in '
        else:
          raise Unsupported('optional branch statement')
      if changed is None:
        raise Unsupported('optional branch changes nothing')
      n, _, ty = changed
      other, oty = env[n]
      if oty != ty:
        other, oty = self.score(other, oty)
        if oty != ty:
          raise Unsupported('optional branch type')
      env3 = dict(env)
      env3[n] = (n, ty)
      return (f'let {n} := match {oname} with Some {oname}_ => {lets}{n} | None => {other} end in\n  '
              + self.block(rest, env3, ret))
    # if self.num_classes != len(pred): raise ValueError(...)
    if (isinstance(t, ast.Compare) and len(t.ops) == 1 and isinstance(t.ops[0], ast.NotEq) and not s.orelse
        and len(s.body) == 1 and isinstance(s.body[0], ast.Raise) and isinstance(ret, tuple)):
      exc = s.body[0].exc
      if not (isinstance(exc, ast.Call) and dotted(exc.func) == 'ValueError'):
        raise Unsupported('raise of something other than ValueError')
      a, ta = self.ex(t.left, env)
      b, tb = self.ex(t.comparators[0], env)
      if (ta, tb) != ('int', 'int'):
        raise Unsupported('guard types')
      return f'if negb (Z.eqb {a} {b}) then None\n  else ' + self.block(rest, env, ret)
    raise Unsupported('if statement ' + ast.dump(t)[:160])


def A_metric(cls, coqname, attrs, target_ty, pred_ty, ret, ce_type=None, error=False, int32_target=False):
  """evaluate_example of metrics.<cls>.  attrs: [(python attribute, coq parameter, type)];
  target_ty / pred_ty: type of example[target_key] / the prediction (None = unused);
  ce_type: 'q' | 'qv' adds the parameter `ce` standing for unreduced_cross_entropy_loss(target, pred)."""
  def emit(tree):
    fd = find_def(tree, cls + '.evaluate_example')
    if [a.arg for a in fd.args.args] != ['self', 'example', 'prediction'] or fd.decorator_list:
      raise Unsupported(f'{cls}.evaluate_example: signature')
    # the dataclass fields must be exactly the declared attributes (+ the key names)
    cd = find_def(tree, cls)
    fields = [n.target.id for n in cd.body if isinstance(n, ast.AnnAssign) and isinstance(n.target, ast.Name)]
    want = [a for a, _, _ in attrs]
    if sorted(f for f in fields if f not in ('target_key', 'pred_key')) != sorted(want):
      raise Unsupported(f'{cls}: fields {fields}, anchored {want}')
    params = [(c, t) for _, c, t in attrs]
    env = {}
    if target_ty:
      params.append(('target', target_ty))
      env['arg:target'] = ('target', target_ty)
    if pred_ty:
      params.append(('pred', pred_ty))
      env['arg:pred'] = ('pred', pred_ty)
    if ce_type:
      params.append(('ce', ce_type))
    m = M({'self.' + a: (c, t) for a, c, t in attrs}, ce_type, int32_target)
    body = m.block(fd.body, env, ('opt', ret) if error else ret)
    ps = ' '.join(f'({n} : {COQ[t]})' for n, t in params)
    rt = f'option {COQ[ret]}' if error else COQ[ret]
    return f'Definition {coqname} {ps} : {rt} :=\n  {body}.'
  return emit


def A_target_weight(coqname):
  """get_target_weight(target, masked_target_values)."""
  def emit(tree):
    fd = find_def(tree, 'get_target_weight')
    if [a.arg for a in fd.args.args] != ['target', 'masked_target_values'] or fd.decorator_list:
      raise Unsupported('get_target_weight: signature')
    m = M({})
    env = {'target': ('target', 'zv'), 'masked_target_values': ('masked_target_values', 'il')}
    body = m.block(fd.body, env, 'zv')
    return (f'Definition {coqname} (target : list Z) (masked_target_values : list Z) : list Z :=\n  {body}.')
  return emit


def A_per_domain(coqname):
  """PerDomainMetric.evaluate_example, matched structurally:
       domain_mask = jax.nn.one_hot(jnp.asarray(example[self.domain_id_key], jnp.int32), self.num_domains, dtype=jnp.bool_)
         (the int32 widening is required: one_hot compares with arange(n) in the dtype of its input)
       def where(a, b): return apply_mask(domain_mask, jnp.expand_dims(a, 0), jnp.expand_dims(b, 0))
       return jax.tree_util.tree_map(where, self.base.evaluate_example(example, prediction), self.base.zero())
     and apply_mask(mask, a, b) = jnp.where(<mask expanded to the rank>, a, b)
     -> row j of the result is the base statistic where one_hot(domain_id)[j], else base.zero()."""
  def same(node, src):
    return ast.dump(node) == ast.dump(ast.parse(src, mode='eval').body)

  def emit(tree):
    fd = find_def(tree, 'PerDomainMetric.evaluate_example')
    body = [s for s in fd.body if not (isinstance(s, ast.Expr) and isinstance(s.value, ast.Constant))]
    if [a.arg for a in fd.args.args] != ['self', 'example', 'prediction'] or len(body) != 3:
      raise Unsupported('PerDomainMetric.evaluate_example: shape')
    a, w, r = body
    ok = (isinstance(a, ast.Assign) and len(a.targets) == 1 and dotted(a.targets[0]) == 'domain_mask'
          and same(a.value, 'jax.nn.one_hot(jnp.asarray(example[self.domain_id_key], jnp.int32), self.num_domains, dtype=jnp.bool_)')
          and isinstance(w, ast.FunctionDef) and w.name == 'where' and [x.arg for x in w.args.args] == ['a', 'b']
          and len(w.body) == 1 and isinstance(w.body[0], ast.Return)
          and same(w.body[0].value, 'apply_mask(domain_mask, jnp.expand_dims(a, 0), jnp.expand_dims(b, 0))')
          and isinstance(r, ast.Return)
          and same(r.value, 'jax.tree_util.tree_map(where, self.base.evaluate_example(example, prediction), self.base.zero())'))
    if not ok:
      raise Unsupported('PerDomainMetric.evaluate_example: statements')
    am = find_def(tree, 'apply_mask')
    ab = [s for s in am.body if not (isinstance(s, ast.Expr) and isinstance(s.value, ast.Constant))]
    ok = ([x.arg for x in am.args.args] == ['mask', 'a', 'b'] and len(ab) == 2
          and isinstance(ab[0], ast.Assign) and dotted(ab[0].targets[0]) == 'rank'
          and same(ab[0].value, 'max(len(a.shape), len(b.shape))')
          and isinstance(ab[1], ast.Return)
          and same(ab[1].value, 'jnp.where(jnp.expand_dims(mask, tuple(range(1, rank))), a, b)'))
    if not ok:
      raise Unsupported('apply_mask: statements')
    return (f'Definition {coqname} {{A : Type}} (num_domains : nat) (domain_id : Z) (base_zero base_stat : A) : list A :=\n'
            '  let domain_mask := (one_hot_b domain_id num_domains) in\n'
            '  (map (fun m_ : bool => if m_ then base_stat else base_zero) domain_mask).')
  return emit


def A_no_hidden_inputs(allowed=()):
  """Recogniser (fail-closed): the module does not call hash(), id(), anything of `time`, `uuid`, `random`,
  `np.random` / `numpy.random`, nor read `os.environ`, outside the functions named in `allowed` (qualified names)."""
  def emit(tree):
    bad = []

    def walk(node, qual):
      for ch in ast.iter_child_nodes(node):
        q = qual
        if isinstance(ch, (ast.FunctionDef, ast.ClassDef)):
          q = (qual + '.' if qual else '') + ch.name
        if q not in allowed:
          if isinstance(ch, ast.Call) and isinstance(ch.func, ast.Name) and ch.func.id in ('hash', 'id'):
            bad.append(f'{ch.func.id}() in {q or "<module>"}')
          if isinstance(ch, ast.Attribute):
            try:
              d = dotted(ch)
            except Unsupported:
              d = ''
            if d.split('.')[0] in ('time', 'uuid', 'random') or d.startswith(('np.random', 'numpy.random', 'os.environ')):
              bad.append(f'{d} in {q or "<module>"}')
        walk(ch, q)
    walk(tree, '')
    if bad:
      raise Unsupported('hidden input: ' + '; '.join(sorted(set(bad))[:4]))
    return '(* no hash() / id() / time / uuid / random / os.environ in this module (checked) *)'
  return emit


def A_ce_widens_targets():
  """Recogniser: unreduced_cross_entropy_loss one-hot encodes sparse targets only after widening them to int32
  (jax.nn.one_hot compares with arange(num_classes) in the dtype of its input: 8-bit targets would wrap at 256 classes)."""
  def emit(tree):
    fd = find_def(tree, 'unreduced_cross_entropy_loss')
    want = ast.dump(ast.parse('jax.nn.one_hot(jnp.asarray(targets, jnp.int32), num_classes)', mode='eval').body)
    hits = [n for n in ast.walk(fd) if isinstance(n, ast.Call) and dotted_or_none(n.func) == 'jax.nn.one_hot']
    if len(hits) != 1 or ast.dump(hits[0]) != want:
      raise Unsupported('unreduced_cross_entropy_loss: one_hot of targets that are not widened to int32')
    return '(* unreduced_cross_entropy_loss: sparse targets are widened to int32 before one_hot (checked) *)'
  return emit


def dotted_or_none(e):
  try:
    return dotted(e)
  except Unsupported:
    return None
