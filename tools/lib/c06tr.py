"""`maskfun` translation kind (C06): the mask / regulariser arithmetic of fedjax's
loss, gradient-accumulation and domain-metric steps -> Gallina over NanQ.t
(expressions through lib.qfun.QCtx, plus the statement forms below).  Fail-closed.

Types: 'Q' (NanQ.t), 'tree' (list NanQ.t: a vector over the rows of a batch, or a
pytree as its coordinate list), 'qbool'.

Statement forms accepted in a body:
  x = e ; x += e ; docstring ; `rng, use_rng = jax.random.split(..)` (ignored)
  d = {...} (a state dictionary literal, kept symbolically)
  if <MASK_KEY> in <batch>: A else: B      -> match mask with Some mask_ => A | None => B end
  if regularizer is not None: A            -> match reg with Some reg_ => A | None => (unchanged) end
  return e | return <dict name> | return a, b, c   (declared outputs only)
Expression forms added to QCtx:
  <loss fn>(params, batch, rng)        the parameter `loss_vals` (per-example values)
  grad_fn(params, batch, rng)          the parameter `grads`
  regularizer(params)                  reg_ (only under `regularizer is not None`)
  batch[MASK_KEY]                      the mask (0/1 vector)
  batch['domain_id']                   the parameter `ids`
  state['name']                        the parameter `st_name`
  jnp.vdot(a, b)  jnp.mean(x)  len(x)  nq_vdot, nq_mean, nq_len
  jax.ops.segment_sum(v, ids, n)       nq_segment_sum v ids n
  tree * tree, tree + tree, tree + Q   coordinatewise (scalar broadcast)
  x.astype(jnp.float32)                x
"""
import ast

from translate import Unsupported, dotted, find_def
from lib.qfun import QCtx, COQTY, check_decorators

MASK_KEY = 'client_datasets.EXAMPLE_MASK_KEY'
TY = dict(COQTY)
TY.update({'otree': '(option (list NanQ.t))', 'oQ': '(option NanQ.t)', 'ids': '(list Z)', 'nat': 'nat'})


class MCtx(QCtx):
  def __init__(self, spec, calls=None):
    super().__init__(None, calls)
    self.spec = spec            # dict: loss_fn, batch, state, params_exprs
    self.mask_bound = False
    self.reg_bound = False

  def _is_params(self, e):
    try:
      d = dotted(e)
    except Unsupported:
      d = None
    if d == 'params':
      return True
    st = self.spec.get('state')
    return (st is not None and isinstance(e, ast.Subscript) and isinstance(e.value, ast.Name) and e.value.id == st
            and isinstance(e.slice, ast.Constant) and e.slice.value == 'params')

  def _expr(self, e, env):
    if isinstance(e, ast.Subscript) and isinstance(e.value, ast.Name):
      base = e.value.id
      if base == self.spec['batch']:
        if isinstance(e.slice, ast.Constant) and e.slice.value == 'domain_id' and 'ids' in env:
          return 'ids', 'ids'
        if not isinstance(e.slice, ast.Constant) and dotted(e.slice) == MASK_KEY:
          if self.spec.get('mask_required'):
            return 'mask', 'tree'
          if not self.mask_bound:
            raise Unsupported('mask read outside `if MASK_KEY in batch`')
          return 'mask_', 'tree'
        raise Unsupported('batch feature ' + ast.dump(e.slice)[:80])
      if base == self.spec.get('state') and isinstance(e.slice, ast.Constant) and 'st_' + str(e.slice.value) in env:
        return 'st_' + e.slice.value, env['st_' + e.slice.value]
      raise Unsupported('subscript ' + ast.dump(e)[:120])
    if isinstance(e, ast.BinOp) and isinstance(e.op, (ast.Mult, ast.Add)):
      a, ta = self.expr(e.left, env)
      b, tb = self.expr(e.right, env)
      op = 'NanQ.mul' if isinstance(e.op, ast.Mult) else 'NanQ.add'
      if ta == 'tree' and tb == 'tree':
        return f'(map2 {op} {a} {b})', 'tree'
      if ta == 'tree' and tb == 'Q' and isinstance(e.op, ast.Add):
        return f'(map (fun x_ => NanQ.add x_ {b}) {a})', 'tree'
      if ta == 'Q' and tb == 'Q':
        return f'({op} {a} {b})', 'Q'
      raise Unsupported(f'binop between {ta} and {tb}')
    return super()._expr(e, env)

  def qcall(self, e, env):
    if isinstance(e.func, ast.Attribute) and e.func.attr == 'astype':
      if len(e.args) != 1 or e.keywords or dotted(e.args[0]) != 'jnp.float32':
        raise Unsupported('astype target')
      t, ty = self.expr(e.func.value, env)
      if ty != 'tree':
        raise Unsupported('astype of ' + ty)
      return t, ty
    f = dotted(e.func)
    if f == self.spec.get('loss_fn') or f == self.spec.get('grad_fn'):
      if e.keywords or len(e.args) != 3 or not self._is_params(e.args[0]) or dotted(e.args[1]) != self.spec['batch']:
        raise Unsupported(f'{f}: arguments')
      name = 'loss_vals' if f == self.spec.get('loss_fn') else 'grads'
      if name not in env:
        raise Unsupported(f'{f} is not available here')
      return name, 'tree'
    if f == 'regularizer':
      if e.keywords or len(e.args) != 1 or not self._is_params(e.args[0]):
        raise Unsupported('regularizer arguments')
      if not self.reg_bound:
        raise Unsupported('regularizer used outside `if regularizer is not None`')
      return 'reg_', 'Q'
    if f == 'jnp.vdot' and len(e.args) == 2 and not e.keywords:
      a, _ = self.expr(e.args[0], env, 'tree')
      b, _ = self.expr(e.args[1], env, 'tree')
      return f'(nq_vdot {a} {b})', 'Q'
    if f == 'jnp.mean' and len(e.args) == 1 and not e.keywords:
      a, _ = self.expr(e.args[0], env, 'tree')
      return f'(nq_mean {a})', 'Q'
    if f == 'len' and len(e.args) == 1 and not e.keywords:
      a, _ = self.expr(e.args[0], env, 'tree')
      return f'(nq_len {a})', 'Q'
    if f == 'jax.ops.segment_sum' and len(e.args) == 3 and not e.keywords:
      a, _ = self.expr(e.args[0], env, 'tree')
      i, ti = self.expr(e.args[1], env)
      if ti != 'ids' or dotted(e.args[2]) != 'num_domains' or 'num_domains' not in env:
        raise Unsupported('segment_sum arguments')
      return f'(nq_segment_sum {a} {i} num_domains)', 'tree'
    return super().qcall(e, env)


def _is_split(s):
  return (isinstance(s, ast.Assign) and len(s.targets) == 1 and isinstance(s.targets[0], ast.Tuple)
          and isinstance(s.value, ast.Call) and dotted(s.value.func) == 'jax.random.split')


def _assigned(stmts):
  out = []
  for s in stmts:
    if isinstance(s, ast.Assign) and len(s.targets) == 1 and isinstance(s.targets[0], ast.Name):
      n = s.targets[0].id
    elif isinstance(s, ast.AugAssign) and isinstance(s.target, ast.Name):
      n = s.target.id
    else:
      raise Unsupported('branch statement ' + ast.dump(s)[:100])
    if n not in out:
      out.append(n)
  return out


def _straight(stmts, ctx, env):
  """Assignments only -> (let-chain text, new env)."""
  out = ''
  env = dict(env)
  for s in stmts:
    if isinstance(s, ast.Assign):
      n = s.targets[0].id
      v, ty = ctx.expr(s.value, env)
    else:
      n = s.target.id
      if not isinstance(s.op, ast.Add) or n not in env:
        raise Unsupported('augmented assignment')
      v, ty = ctx._expr(ast.BinOp(left=ast.Name(id=n, ctx=ast.Load()), op=ast.Add(), right=s.value), env)
    env[n] = ty
    out += f'let {n} := {v} in '
  return out, env


def body(stmts, ctx, env, outputs, dicts=None):
  """outputs: how a return is rendered: ('expr', type) | ('names', [..]) | ('dict', [keys])."""
  dicts = dict(dicts or {})
  if not stmts:
    raise Unsupported('body does not end in a return')
  s, rest = stmts[0], stmts[1:]
  if isinstance(s, ast.Expr) and isinstance(s.value, ast.Constant) and isinstance(s.value.value, str):
    return body(rest, ctx, env, outputs, dicts)
  if _is_split(s):
    return body(rest, ctx, env, outputs, dicts)
  if isinstance(s, ast.Assign) and len(s.targets) == 1 and isinstance(s.targets[0], ast.Name) and isinstance(s.value, ast.Dict):
    d = {}
    for k, v in zip(s.value.keys, s.value.values):
      if not (isinstance(k, ast.Constant) and isinstance(k.value, str)):
        raise Unsupported('dict key')
      d[k.value] = v
    dicts[s.targets[0].id] = (d, dict(env))
    return body(rest, ctx, env, outputs, dicts)
  if isinstance(s, (ast.Assign, ast.AugAssign)):
    t, env2 = _straight([s], ctx, env)
    return t + '\n  ' + body(rest, ctx, env2, outputs, dicts)
  if isinstance(s, ast.If):
    t = s.test
    if (isinstance(t, ast.Compare) and len(t.ops) == 1 and isinstance(t.ops[0], ast.In)
        and dotted(t.left) == MASK_KEY and dotted(t.comparators[0]) == ctx.spec['batch']
        and not ctx.spec.get('mask_required') and 'mask' in env):
      va, vb = _assigned(s.body), _assigned(s.orelse)
      if va and not s.orelse:
        raise Unsupported('mask test without else')
      names = [n for n in va if n in vb]
      if not names or [n for n in vb if n not in va and n not in env]:
        raise Unsupported('mask branches assign different variables')
      ctx.mask_bound = True
      ta, ea = _straight(s.body, ctx, env)
      ctx.mask_bound = False
      tb, eb = _straight(s.orelse, ctx, env)
      for n in names:
        if ea[n] != eb[n]:
          raise Unsupported('mask branches give different types to ' + n)
      tup = '(' + ', '.join(names) + ')'
      pat = "'" + tup if len(names) > 1 else names[0]
      env2 = dict(env)
      for n in names:
        env2[n] = ea[n]
      return (f'let {pat} := match mask with Some mask_ => {ta}{tup} | None => {tb}{tup} end in\n  '
              + body(rest, ctx, env2, outputs, dicts))
    if (isinstance(t, ast.Compare) and len(t.ops) == 1 and isinstance(t.ops[0], ast.IsNot)
        and dotted(t.left) == 'regularizer' and isinstance(t.comparators[0], ast.Constant)
        and t.comparators[0].value is None and not s.orelse and 'reg' in env):
      names = _assigned(s.body)
      if any(n not in env for n in names):
        raise Unsupported('regulariser branch introduces a variable')
      ctx.reg_bound = True
      ta, ea = _straight(s.body, ctx, env)
      ctx.reg_bound = False
      for n in names:
        if ea[n] != env[n]:
          raise Unsupported('regulariser branch changes the type of ' + n)
      tup = '(' + ', '.join(names) + ')'
      pat = "'" + tup if len(names) > 1 else names[0]
      return (f'let {pat} := match reg with Some reg_ => {ta}{tup} | None => {tup} end in\n  '
              + body(rest, ctx, env, outputs, dicts))
    raise Unsupported('if statement ' + ast.dump(t)[:120])
  if isinstance(s, ast.Return):
    if rest or s.value is None:
      raise Unsupported('return is not last')
    kind = outputs[0]
    if kind == 'expr':
      return ctx.expr(s.value, env, outputs[1])[0]
    if kind == 'names':
      if not (isinstance(s.value, ast.Tuple) and all(isinstance(x, ast.Name) for x in s.value.elts)):
        raise Unsupported('return form')
      got = [x.id for x in s.value.elts]
      if [g for g in got if g not in outputs[2]] != outputs[1]:
        raise Unsupported(f'returns {got}')
      return '(' + ', '.join(ctx.expr(ast.Name(id=n, ctx=ast.Load()), env)[0] for n in outputs[1]) + ')'
    if kind == 'dict':
      if not (isinstance(s.value, ast.Name) and s.value.id in dicts):
        raise Unsupported('return of something other than the state dictionary')
      d, denv = dicts[s.value.id]
      if any(k not in d for k in outputs[1]):
        raise Unsupported('state dictionary keys')
      return '(' + ', '.join(ctx.expr(d[k], env)[0] for k in outputs[1]) + ')'
  raise Unsupported('statement ' + ast.dump(s)[:160])


def A_maskfun(qual, coqname, pyparams, params, outputs, ret, spec, calls=None):
  """pyparams: expected python parameter list; params: [(coq name, type)]."""
  def emit(tree):
    fd = find_def(tree, qual)
    check_decorators(fd)
    got = [a.arg for a in fd.args.args]
    if got != list(pyparams) or fd.args.vararg or fd.args.kwarg or fd.args.kwonlyargs:
      raise Unsupported(f'{qual}: parameters {got}, expected {list(pyparams)}')
    ctx = MCtx(spec, calls)
    env = {n: t for n, t in params}
    text = body(fd.body, ctx, env, outputs)
    ps = ' '.join(f'({n} : {TY[t]})' for n, t in params)
    return f'Definition {coqname} {ps} : {ret} :=\n  {text}.'
  return emit


def A_server_grads(qual, coqname):
  """In `qual` (mime / mime_lite apply): the statement
       if grads_and_num_sum is None: server_grads = tree_zeros_like(params)
       else: grads_sum_total, num_sum_total = grads_and_num_sum; server_grads = <e>
     -> Definition coqname grads_sum_total num_sum_total := <e>."""
  def emit(tree):
    fd = find_def(tree, qual)
    hit = None
    for s in ast.walk(fd):
      if (isinstance(s, ast.If) and isinstance(s.test, ast.Compare) and len(s.test.ops) == 1
          and isinstance(s.test.ops[0], ast.Is) and isinstance(s.test.left, ast.Name)
          and s.test.left.id == 'grads_and_num_sum'):
        hit = s
    if hit is None or len(hit.body) != 1 or len(hit.orelse) != 2:
      raise Unsupported(f'{qual}: server gradient statement not found')
    z, unpack, assign = hit.body[0], hit.orelse[0], hit.orelse[1]
    ok = (isinstance(z, ast.Assign) and dotted(z.targets[0]) == 'server_grads' and isinstance(z.value, ast.Call)
          and dotted(z.value.func) == 'tree_util.tree_zeros_like'
          and isinstance(unpack, ast.Assign) and isinstance(unpack.targets[0], ast.Tuple)
          and [dotted(x) for x in unpack.targets[0].elts] == ['grads_sum_total', 'num_sum_total']
          and dotted(unpack.value) == 'grads_and_num_sum'
          and isinstance(assign, ast.Assign) and dotted(assign.targets[0]) == 'server_grads')
    if not ok:
      raise Unsupported(f'{qual}: server gradient statement has another shape')
    # grads_and_num_sum must be the tree_sum of the client outputs
    src = [s for s in ast.walk(fd) if isinstance(s, ast.Assign) and isinstance(s.targets[0], ast.Name)
           and s.targets[0].id == 'grads_and_num_sum']
    if len(src) != 1 or not (isinstance(src[0].value, ast.Call) and dotted(src[0].value.func) == 'tree_util.tree_sum'):
      raise Unsupported(f'{qual}: grads_and_num_sum is not tree_util.tree_sum(...)')
    ctx = QCtx(None, {'tree_util.tree_inverse_weight': ('tree_inverse_weight {0} {1}', ['tree', 'Q'], 'tree')})
    t, _ = ctx.expr(assign.value, {'grads_sum_total': 'tree', 'num_sum_total': 'Q'}, 'tree')
    return (f'Definition {coqname} (grads_sum_total : list NanQ.t) (num_sum_total : NanQ.t) : list NanQ.t :=\n  {t}.')
  return emit


def A_no_regularizer_arg(qual, callee, nargs):
  """The call `callee(...)` inside `qual` passes exactly `nargs` positional arguments and no
  `regularizer` (the packaged agnostic algorithm builds its domain metrics without one)."""
  def emit(tree):
    fd = find_def(tree, qual)
    calls = [n for n in ast.walk(fd) if isinstance(n, ast.Call) and isinstance(n.func, ast.Name) and n.func.id == callee]
    if len(calls) != 1:
      raise Unsupported(f'{qual}: expected one call of {callee}')
    c = calls[0]
    if len(c.args) != nargs or c.keywords:
      raise Unsupported(f'{qual}: {callee} is called with {len(c.args)} positional / {len(c.keywords)} keyword arguments')
    return f'(* {qual}: {callee} is called with {nargs} arguments, without a regularizer (checked) *)'
  return emit
