"""Shared pieces of the C01 / C12 harnesses (additive helper, see AGENT_RULES):

* the tiny least-squares task on which the real fedjax algorithms are run
  (params {'w': f32[d]}, examples x: f32[n, d], y: f32[n]; per-example loss
  0.5*(w.x - y)^2 + nu(rng)*sum(w) with nu(rng) = randint(rng, -2, 3)/4, so that the
  key a step was given is visible in the result),
* populations / ClientDatasets / recorded shuffle_repeat_batch index streams,
* the key-path rule by which the MODEL says which key a step uses, evaluated with
  the real jax.random (the nu values are an input of the Coq instance),
* an independent float64 numpy reference of local training, weighted mean and the
  server optimizers (sgd / momentum / nesterov / adam) used by the oracles,
* optimizer construction from JSON configs and a recording server optimizer.

fedjax / jax are imported lazily."""
import math

import numpy as np

D = 2                      # number of features of the task
NU_LO, NU_HI = -2, 3       # randint bounds; nu = k/4


# ----------------------------------------------------------------------------
# the task

_PEL = {}
_GRAD = {}


def per_example_loss(noise):
  """ONE function object per `noise` for the whole process: every algorithm instance is built from the same
  loss object (hidden module-level / closure state keyed on it would be shared across instances)."""
  if noise not in _PEL:
    _PEL[noise] = _make_per_example_loss(noise)
  return _PEL[noise]


def shared_grad(noise, reg=0.0):
  """ONE fedjax.grad(per_example_loss(noise), l2(reg)) object per (noise, reg)."""
  import fedjax
  if (noise, reg) not in _GRAD:
    _GRAD[(noise, reg)] = fedjax.grad(per_example_loss(noise), make_regularizer(reg))
  return _GRAD[(noise, reg)]


def _make_per_example_loss(noise):
  import jax
  import jax.numpy as jnp

  def pel(params, batch, rng):
    # params is {'w': f32[2]} or the two-leaf form {'z1': f32[1], 'a0': f32[1]} (inserted z1 first, flattened by jax
    # in sorted-key order a0, z1): the canonical coordinate order is (z1, a0)
    w = param_vector(params)
    r = batch['x'] @ w - batch['y']
    loss = 0.5 * r * r
    if noise:
      nu = jax.random.randint(rng, (), NU_LO, NU_HI).astype(jnp.float32) / 4.
      loss = loss + nu * jnp.sum(w)
    return loss
  return pel


def gen_population(rng, sizes, scale=2):
  """Dyadic data: x in {-2..2}/2, y in {-4..4}/2.  Returns {id(int): {'x': [[..]], 'y': [..]}} (lists)."""
  pop = {}
  for i, n in enumerate(sizes):
    pop[str(i)] = {'x': [[rng.randint(-2, 2) / scale for _ in range(D)] for _ in range(n)],
                   'y': [rng.randint(-4, 4) / scale for _ in range(n)]}
  return pop


def scaled(data, e):
  """Features and targets multiplied by 2**e (exact); e = 0: unchanged."""
  if not e:
    return data
  f = 2.0 ** e
  return {'x': [[v * f for v in row] for row in data['x']], 'y': [v * f for v in data['y']]}


LAYOUTS = ['c', 'fortran', 'transposed', 'every_other', 'reversed', 'column_slice', 'readonly']


def relayout(a, layout):
  """The same values with another memory layout (WAVE5 item 1)."""
  a = np.asarray(a)
  if layout == 'fortran':
    return np.asfortranarray(a)
  if layout == 'transposed':
    return np.ascontiguousarray(a.T).T if a.ndim == 2 else a
  if layout == 'every_other':
    big = np.zeros((2 * a.shape[0],) + a.shape[1:], a.dtype)
    big[::2] = a
    return big[::2]
  if layout == 'reversed':
    return np.ascontiguousarray(a[::-1])[::-1]
  if layout == 'column_slice':
    if a.ndim != 2:
      wide = np.zeros((a.shape[0], 3), a.dtype)
      wide[:, 1] = a
      return wide[:, 1]
    wide = np.zeros((a.shape[0], a.shape[1] + 2), a.dtype)
    wide[:, 1:-1] = a
    return wide[:, 1:-1]
  if layout == 'readonly':
    b = a.copy()
    b.setflags(write=False)
    return b
  return a


def client_dataset(data, xdtype='float32', layout='c'):
  ds = _client_dataset(data, xdtype)
  if layout == 'c':
    return ds
  import fedjax
  return fedjax.ClientDataset({k: relayout(v, layout) for k, v in ds.raw_examples.items()})


def _client_dataset(data, xdtype='float32'):
  """xdtype float16: the dyadic data are exact in it; the loss promotes to float32."""
  import fedjax
  n = len(data['y'])
  return fedjax.ClientDataset({
      'x': np.asarray(data['x'], dtype=np.dtype(xdtype)).reshape(n, D),
      'y': np.asarray(data['y'], dtype=np.dtype(xdtype)).reshape(n),
      'i': np.arange(n, dtype=np.int32)})


def cid_bytes(cid):
  return b'c%03d' % int(cid)


def cid_form(cid, form='bytes'):
  """Client ids as bytes (fedjax's own), str, int (client id 0 is falsy but valid), negative ints (-1 looks like a
  sentinel), or ints with client 0 spelled None (the pmap backend uses None for its padding clients)."""
  if form == 'negint':
    return -1 - int(cid)
  if form == 'none0':
    return None if int(cid) == 0 else int(cid)
  return cid_bytes(cid) if form == 'bytes' else ('c%03d' % int(cid)) if form == 'str' else int(cid)


def cid_back(k):
  """Canonical 'cNNN' spelling of a client id in any of the three forms."""
  if k is None:
    return 'c000'
  if isinstance(k, (int, np.integer)) and int(k) < 0:
    return 'c%03d' % (-1 - int(k))
  return k.decode() if isinstance(k, bytes) else k if isinstance(k, str) else 'c%03d' % int(k)


def make_key(seed, form='jax'):
  import jax
  k = jax.random.PRNGKey(seed)
  return np.asarray(k) if form == 'numpy' else k


import collections
PNamed = collections.namedtuple('PNamed', ['first', 'second'])

CONTAINERS = ['w', 2, 'tuple', 'named', 'list', 'nested', 'flatmap']


def make_params(values, form='jax', leaves=1):
  """The 2 parameter coordinates in one of several pytree containers (WAVE5 item 6).  `leaves`: 1 = {'w': f32[2]};
  2 = {'z1': f32[1], 'a0': f32[1]} (insertion order is not the sorted key order); 'tuple' / 'named' / 'list' = two f32[1]
  leaves in a tuple / NamedTuple / list; 'nested' = {'l1': {'w': ..}, 'l0': {'b': ..}}; 'flatmap' = the same as a haiku
  FlatMap.  The canonical coordinate order is always (first value, second value)."""
  import jax.numpy as jnp
  if form == 'numpy_ro':        # read-only numpy leaves
    mk = lambda v: relayout(np.asarray(v, dtype=np.float32), 'readonly')
  elif form == 'numpy_nc':      # non-contiguous (strided) numpy leaves
    mk = lambda v: relayout(np.asarray(v, dtype=np.float32), 'every_other')
  elif form == 'numpy':
    mk = lambda v: np.asarray(v, dtype=np.float32)
  else:
    mk = lambda v: jnp.asarray(v, dtype=jnp.float32)
  a, b = mk(values[:1]), mk(values[1:])
  if leaves in (1, 'w'):
    return {'w': mk(values)}
  if leaves == 2:
    return {'z1': a, 'a0': b}
  if leaves == 'tuple':
    return (a, b)
  if leaves == 'named':
    return PNamed(a, b)
  if leaves == 'list':
    return [a, b]
  if leaves == 'nested':
    return {'l1': {'w': a}, 'l0': {'b': b}}
  if leaves == 'flatmap':
    import haiku as hk
    return hk.data_structures.to_immutable_dict({'l1': {'w': a}, 'l0': {'b': b}})
  raise ValueError(leaves)


def param_leaves(params):
  """The leaves of any of the containers above in canonical order."""
  if isinstance(params, (tuple, list)):
    return list(params)
  if 'w' in params:
    return [params['w']]
  if 'z1' in params:
    return [params['z1'], params['a0']]
  return [params['l1']['w'], params['l0']['b']]


def param_vector(params):
  """jnp vector of the parameters in canonical order (used by the loss functions)."""
  import jax.numpy as jnp
  lv = param_leaves(params)
  return lv[0] if len(lv) == 1 else jnp.concatenate(lv)


def same_structure(a, b):
  import jax
  return jax.tree_util.tree_structure(a) == jax.tree_util.tree_structure(b) and type(a) is type(b)


FORMS0 = {'clients': 'list', 'ids': 'bytes', 'init': 'jax', 'key': 'jax', 'leaves': 1}


def gen_forms(rng):
  """Item 1 of WAVE3: delivery forms of the arguments of apply / init."""
  return {'clients': rng.choice(['list', 'tuple']), 'ids': rng.choice(['bytes', 'str', 'int', 'negint', 'none0']),
          'init': rng.choice(['jax', 'numpy', 'numpy_ro', 'numpy_nc']), 'key': rng.choice(['jax', 'numpy']),
          'leaves': rng.choice([1, 1, 1, 2, 'tuple', 'named', 'list', 'nested', 'flatmap'])}


class CallerData:
  """Item 4 of WAVE3: snapshots of what the caller owns, compared after the calls (bits and containers)."""

  def __init__(self):
    self.arrays = []       # (label, live object, copy)
    self.problems = []

  def watch(self, label, arr):
    self.arrays.append((label, arr, np.array(arr, copy=True)))

  def watch_clients(self, label, clients):
    self.arrays.append((label + ':container', clients, [id(c) for c in clients]))

  def check(self):
    for label, live, snap in self.arrays:
      try:
        if label.endswith(':container'):
          if [id(c) for c in live] != snap:
            self.problems.append(label + ' changed')
        else:
          now = np.asarray(live)
          if now.dtype != snap.dtype or now.shape != snap.shape or now.tobytes() != snap.tobytes():
            self.problems.append(label + ' changed')
      except Exception as ex:   # a deleted (donated) buffer raises on access
        self.problems.append(f'{label} unusable: {type(ex).__name__}')
    return self.problems


def hparams(hp):
  import fedjax
  return fedjax.ShuffleRepeatBatchHParams(batch_size=hp['bs'], num_epochs=hp['epochs'], num_steps=hp['steps'],
                                          drop_remainder=hp['drop'], seed=hp['seed'])


def record_stream(cds, hp, limit=200):
  """The batch index stream of the REAL shuffle_repeat_batch (its correctness is C04's job)."""
  out = []
  for b in cds.shuffle_repeat_batch(hparams(hp)):
    out.append([int(v) for v in b['i']])
    if len(out) > limit:
      raise RuntimeError('batch stream longer than %d' % limit)
  return out


def stream_content_ok(n, stream):
  """The concatenated batches are a concatenation of passes over the dataset: every complete window of n indices is a
  permutation of range(n), the incomplete last window has distinct indices in range(n)."""
  flat_idx = [i for b in stream for i in b]
  if n == 0:
    return not flat_idx
  for k in range(0, len(flat_idx), n):
    w = flat_idx[k:k + n]
    if len(w) == n and sorted(w) != list(range(n)):
      return False
    if len(w) < n and (len(set(w)) != len(w) or any(not 0 <= i < n for i in w)):
      return False
  return True


def expected_num_steps(n, hp):
  """Number of batches the documentation of shuffle_repeat_batch promises (independent of the code)."""
  if n == 0:
    return 0
  bs = hp['bs']
  if hp['epochs'] is not None:
    s = (n * hp['epochs']) // bs if hp['drop'] else -(-(n * hp['epochs']) // bs)
    if hp['steps'] is not None:
      s = min(s, hp['steps'])
    return s
  return hp['steps']


# ----------------------------------------------------------------------------
# key paths.  A path spec says how the model derives the key of step t of a client
# from the client's key k:  pre = index taken from split(k) first (None = k itself),
# nsplit = arity of the per-step split, use = index of the key the gradient gets;
# index 0 always continues the chain.

PATH_FEDAVG = {'pre': None, 'nsplit': 2, 'use': 1}
PATH_HYPCLUSTER = {'pre': 1, 'nsplit': 2, 'use': 1}
PATH_APFL = {'pre': None, 'nsplit': 3, 'use': 1}

_NU_CACHE = {}


def nu_stream(seed, nsteps, path=PATH_FEDAVG):
  """nu values of the successive use-keys along `path` from PRNGKey(seed)."""
  import jax
  key = (seed, nsteps, path['pre'], path['nsplit'], path['use'])
  if key in _NU_CACHE:
    return _NU_CACHE[key]
  rng = jax.random.PRNGKey(seed)
  if path['pre'] is not None:
    rng = jax.random.split(rng)[path['pre']]
  out = []
  for _ in range(nsteps):
    ks = jax.random.split(rng, path['nsplit'])
    rng, use = ks[0], ks[path['use']]
    out.append(int(jax.random.randint(use, (), NU_LO, NU_HI)) / 4.)
  _NU_CACHE[key] = out
  return out


# ----------------------------------------------------------------------------
# optimizers

def make_regularizer(reg):
  """fedjax.core.regularizers.l2_regularizer(reg) (reg * |w|^2), or None for reg = 0."""
  if not reg:
    return None
  from fedjax.core import regularizers
  return regularizers.l2_regularizer(reg)


def make_optimizer(cfg):
  import fedjax
  if cfg['kind'] == 'sgd':
    return fedjax.optimizers.sgd(cfg['lr'], momentum=cfg.get('mom'), nesterov=bool(cfg.get('nest', False)))
  if cfg['kind'] == 'adam':
    return fedjax.optimizers.adam(cfg['lr'], eps=cfg.get('eps', 1e-8))
  if cfg['kind'] == 'clipsgd':      # several chained optax transforms: elementwise clip, then sgd
    import optax
    return fedjax.optimizers.create_optimizer_from_optax(optax.chain(optax.clip(cfg['clip']), optax.sgd(cfg['lr'])))
  raise ValueError(cfg['kind'])


class Recorder:
  """A server optimizer that behaves exactly as `base` and records every call."""

  def __init__(self, base):
    import fedjax
    self.calls = []
    rec = self

    def apply(grads, opt_state, params):
      new_state, new_params = base.apply(grads, opt_state, params)
      rec.calls.append({'grads': flat(grads), 'params_in': flat(params), 'params_out': flat(new_params),
                        'trace_in': trace_of(opt_state), 'trace_out': trace_of(new_state)})
      return new_state, new_params
    self.optimizer = fedjax.optimizers.Optimizer(base.init, apply)


def flat(params):
  return [float(v) for leaf in param_leaves(params) for v in np.asarray(leaf, dtype=np.float64).reshape(-1)]


def first_leaf(params):
  return param_leaves(params)[0]


def trace_of(opt_state):
  """The momentum trace of an optax.sgd state ([] when there is none)."""
  import jax
  import optax
  is_trace = lambda x: isinstance(x, optax.TraceState)
  for leaf in jax.tree_util.tree_leaves(opt_state, is_leaf=is_trace):
    if is_trace(leaf):
      return flat(leaf.trace)
  return []


class RefOpt:
  """float64 reference of optax.sgd (momentum / nesterov) and optax.adam, from their definitions."""

  def __init__(self, cfg, dim):
    self.cfg = cfg
    self.t = np.zeros(dim)
    self.mu = np.zeros(dim)
    self.nu = np.zeros(dim)
    self.count = 0

  def apply(self, g, p):
    c = self.cfg
    g = np.asarray(g, dtype=np.float64)
    if c['kind'] == 'sgd':
      m = c.get('mom') or 0.0
      self.t = g + m * self.t
      u = g + m * self.t if c.get('nest') else self.t
      return p - c['lr'] * u
    if c['kind'] == 'clipsgd':
      return p - c['lr'] * np.clip(g, -c['clip'], c['clip'])
    if c['kind'] == 'adam':
      b1, b2, eps = 0.9, 0.999, c.get('eps', 1e-8)
      self.count += 1
      self.mu = b1 * self.mu + (1 - b1) * g
      self.nu = b2 * self.nu + (1 - b2) * g * g
      mh = self.mu / (1 - b1 ** self.count)
      nh = self.nu / (1 - b2 ** self.count)
      return p - c['lr'] * mh / (np.sqrt(nh) + eps)
    raise ValueError(c['kind'])


# ----------------------------------------------------------------------------
# float64 reference of the definition

def ref_grad(w, data, idxs, nu, prox=None, reg=0.0):
  """Mean over the batch of the per-example gradient (w.x - y) x + nu*ones [+ mu*(w - w_server)]
  [+ 2*reg*w, the gradient of the L2 regularizer reg*|w|^2, once per batch gradient]."""
  x = np.asarray(data['x'], dtype=np.float64).reshape(-1, D)[idxs]
  y = np.asarray(data['y'], dtype=np.float64)[idxs]
  r = x @ w - y
  g = (r[:, None] * x).mean(axis=0) + nu * np.ones(D)
  if prox is not None:
    mu, w_server = prox
    g = g + mu * (w - w_server)
  if reg:
    g = g + 2.0 * reg * w
  return g


def ref_local_train(w0, data, stream, nus, copt, prox_mu=None, reg=0.0):
  """Sequential optimizer steps over the client's own batch stream; returns the trained params."""
  opt = RefOpt(copt, D)
  w = np.array(w0, dtype=np.float64)
  w_server = w.copy()
  for idxs, nu in zip(stream, nus):
    g = ref_grad(w, data, idxs, nu, None if prox_mu is None else (prox_mu, w_server), reg)
    w = opt.apply(g, w)
  return w


def ref_mean_delta(w0, members, copt, prox_mu=None, reg=0.0):
  """members: list of (n, data, stream, nus).  Example-count weighted mean of (initial - trained);
  zero when no example was seen.  Also returns the per-client deltas."""
  w0 = np.array(w0, dtype=np.float64)
  deltas = [w0 - ref_local_train(w0, d, s, nus, copt, prox_mu, reg) for _, d, s, nus in members]
  tot = float(sum(n for n, _, _, _ in members))
  acc = np.zeros(D)
  for (n, _, _, _), dl in zip(members, deltas):
    acc = acc + n * dl
  mean = acc / tot if tot > 0 else np.zeros(D)
  return mean, deltas


def close(a, b, tol):
  a = np.asarray(a, dtype=np.float64).reshape(-1)
  b = np.asarray(b, dtype=np.float64).reshape(-1)
  if a.shape != b.shape:
    return False
  if not (np.all(np.isfinite(a)) and np.all(np.isfinite(b))):
    return False
  return bool(np.all(np.abs(a - b) <= tol * (1 + np.abs(b))))


def finite(a):
  return bool(np.all(np.isfinite(np.asarray(a, dtype=np.float64))))


def err_name(ex):
  """Small error enum."""
  n = type(ex).__name__
  base = getattr(ex, 'base', None)
  if base is not None:
    n = type(base).__name__
  return n if n in ('ZeroDivisionError', 'KeyError', 'TypeError', 'ValueError', 'IndexError', 'AttributeError') else 'OtherError'


def maxabs(a):
  a = np.asarray(a, dtype=np.float64).reshape(-1)
  return float(np.max(np.abs(a))) if a.size else 0.0


# ----------------------------------------------------------------------------
# worker subprocesses (other device counts, global jax configuration flags)

WORKER_ENVS = {
    'pmap3': {'XLA_FLAGS': '--xla_force_host_platform_device_count=3'},
    'rbg': {'JAX_DEFAULT_PRNG_IMPL': 'rbg'},
    'tfp0': {'JAX_THREEFRY_PARTITIONABLE': '0'},
    'tfp1': {'JAX_THREEFRY_PARTITIONABLE': '1'},
    'x64': {'JAX_ENABLE_X64': '1'},
    'rankraise': {'JAX_NUMPY_RANK_PROMOTION': 'raise'},
    'hash1': {'PYTHONHASHSEED': '12345'},
    'hash2': {'PYTHONHASHSEED': '777'},
}
_WORKERS = {}


def kill_workers():
  for tag in list(_WORKERS):
    p = _WORKERS.pop(tag)[0]
    if p.poll() is None:
      p.kill()


def worker_main(run_local):
  """One JSON case per line in, one JSON observation per line out; the first line reports the process' jax set-up."""
  import json
  import sys
  import jax
  out = sys.stdout
  sys.stdout = sys.stderr
  out.write(json.dumps({'devices': len(jax.devices()), 'x64': bool(jax.config.jax_enable_x64),
                        'prng': str(jax.config.jax_default_prng_impl)}) + '\n')
  out.flush()
  for line in sys.stdin:
    try:
      obs = run_local(json.loads(line))
    except Exception as ex:
      obs = {'worker_error': err_name(ex)}
    out.write(json.dumps(obs) + '\n')
    out.flush()


def _spawn(module, tag):
  import atexit
  import os
  import subprocess
  import sys
  env = dict(os.environ)
  for k, v in WORKER_ENVS[tag].items():
    env[k] = (env.get(k, '') + ' ' + v).strip() if k == 'XLA_FLAGS' else v
  p = subprocess.Popen([sys.executable, '-c', f'from harness import {module} as m; from lib import fedsim; fedsim.worker_main(m.run_local)'],
                       stdin=subprocess.PIPE, stdout=subprocess.PIPE, stderr=subprocess.DEVNULL, env=env, text=True, bufsize=1)
  if not _WORKERS:
    atexit.register(kill_workers)
  _WORKERS[tag] = [p, None]


def prestart(module, tags):
  """Starts the worker processes now so that their import time overlaps with the in-process cases."""
  for tag in tags:
    if tag not in _WORKERS or _WORKERS[tag][0].poll() is not None:
      _spawn(module, tag)


def run_in_worker(module, tag, case):
  """Runs `harness.<module>.run_local(case)` in a persistent subprocess started with WORKER_ENVS[tag]."""
  import json
  if tag not in _WORKERS or _WORKERS[tag][0].poll() is not None:
    _spawn(module, tag)
  p = _WORKERS[tag][0]
  try:
    if _WORKERS[tag][1] is None:
      _WORKERS[tag][1] = json.loads(p.stdout.readline())
    p.stdin.write(json.dumps(case) + '\n')
    p.stdin.flush()
    obs = json.loads(p.stdout.readline())
  except BaseException:
    p.kill()
    _WORKERS.pop(tag, None)
    raise
  obs['worker'] = _WORKERS[tag][1]
  return obs
