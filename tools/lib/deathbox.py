"""Real process death for the crash-safety harnesses (C09, C19).

A *zygote* interpreter (`python -m lib.deathbox`, started with its own PYTHONHASHSEED) imports the harness module
once and never runs a JAX computation itself.  For every request it forks a child; the child calls
`module.function(*args)` and either returns (the JSON result goes back through a pipe) or DIES: when the recorder of
lib/crashfs.py reaches the chosen effect it flushes the surviving prefix of the unflushed bytes, reports what the
call had done so far through the pipe and calls `os._exit` -- no `finally`, no `with` exit, no ExitStack callback,
no `except BaseException` of the code under test runs after that point, exactly as for a killed process.

Main-process API:  box = Deathbox(hashseed);  box.call('harness.c19', '_attempt_child', [args...]) ->
{'exit': code, 'result': <json> | None, 'death': <json> | None}.
"""
import atexit
import json
import os
import subprocess
import sys

DEATH_EXIT = 17
_death_fd = None     # in a forked child: where the death report goes


def die_now(report):
  """Called (in a forked child) by the recorder at the crash effect.  Never returns."""
  os.write(_death_fd, ('D' + json.dumps(report, default=str)).encode())
  os._exit(DEATH_EXIT)


def in_child():
  return _death_fd is not None


class Deathbox:

  def __init__(self, hashseed, extra_env=None):
    env = dict(os.environ)
    env['PYTHONHASHSEED'] = str(hashseed)
    env.update(extra_env or {})
    self.p = subprocess.Popen([sys.executable, '-m', 'lib.deathbox'], stdin=subprocess.PIPE, stdout=subprocess.PIPE,
                              stderr=subprocess.DEVNULL, env=env, text=True)
    atexit.register(self.close)

  def close(self):
    try:
      self.p.stdin.close()
      self.p.terminate()
    except Exception:  # pylint: disable=broad-except
      pass

  def call(self, module, function, args):
    self.p.stdin.write(json.dumps({'mod': module, 'fn': function, 'args': args}) + '\n')
    self.p.stdin.flush()
    while True:
      line = self.p.stdout.readline()
      if not line:
        raise RuntimeError('deathbox zygote died')
      if line.startswith('@@BOX@@'):
        return json.loads(line[7:])


_BOXES = {}


def box(hashseed):
  if hashseed not in _BOXES:
    _BOXES[hashseed] = Deathbox(hashseed)
  return _BOXES[hashseed]


def _serve():
  import importlib
  import traceback
  global _death_fd
  for line in sys.stdin:
    line = line.strip()
    if not line:
      continue
    req = json.loads(line)
    r, w = os.pipe()
    pid = os.fork()
    if pid == 0:
      code = 0
      try:
        os.close(r)
        _death_fd = w
        import lib.deathbox as _canonical   # the zygote runs as __main__: set the hook in the importable module too
        _canonical._death_fd = w
        mod = importlib.import_module(req['mod'])
        res = getattr(mod, req['fn'])(*req['args'])
        os.write(w, ('R' + json.dumps(res, default=str)).encode())
      except BaseException:  # pylint: disable=broad-except
        try:
          os.write(w, ('E' + json.dumps(traceback.format_exc()[-1500:])).encode())
        except Exception:  # pylint: disable=broad-except
          pass
        code = 3
      os._exit(code)
    os.close(w)
    chunks = []
    while True:
      b = os.read(r, 1 << 16)
      if not b:
        break
      chunks.append(b)
    os.close(r)
    _, status = os.waitpid(pid, 0)
    data = b''.join(chunks).decode()
    out = {'exit': os.waitstatus_to_exitcode(status), 'result': None, 'death': None, 'error': None}
    if data[:1] == 'R':
      out['result'] = json.loads(data[1:])
    elif data[:1] == 'D':
      out['death'] = json.loads(data[1:])
    elif data[:1] == 'E':
      out['error'] = json.loads(data[1:])
    sys.stdout.write('@@BOX@@' + json.dumps(out) + '\n')
    sys.stdout.flush()


if __name__ == '__main__':
  # import the heavy modules once, before any fork; never run a JAX computation here
  try:
    import fedjax  # noqa: F401  pylint: disable=unused-import
    from harness import c09, c19  # noqa: F401  pylint: disable=unused-import
  except Exception:  # pylint: disable=broad-except
    pass
  _serve()
