"""Tiny linear-regression world shared by the C10 and C17 harnesses: a two-leaf
haiku-style parameter tree, integer-valued client datasets generated from a
JSON-able spec, cached builders for the seven built-in algorithms and the four
compression aggregators (compiled objects are reused between cases), and small
helpers to snapshot / compare pytrees bit-exactly.  Nothing here judges
anything; the oracles live in tools/harness/c10.py and c17.py."""
import numpy as np

D = 2   # feature dimension

_GROUP_W = [(1.0, 0.0), (-1.0, 1.0), (0.0, -1.0), (2.0, 1.0)]


def client_arrays(spec):
  """spec = {'s': seed, 'cnt': [examples in domain 0, 1, ...], 'g': group}.
  x in {-2..2}^2, y = x . w_g + small integer noise, domain ids in order."""
  s, g = int(spec['s']), int(spec.get('g', 0))
  dom = [d for d, c in enumerate(spec['cnt']) for _ in range(int(c))]
  n = len(dom)
  j = np.arange(n, dtype=np.int64)
  x = np.stack([(s * 7 + j * 3) % 5 - 2, (s * 3 + j * 2 + 1) % 5 - 2], axis=1).astype(np.float32).reshape(n, D)
  w = np.array(_GROUP_W[g % len(_GROUP_W)], np.float32)
  noise = ((s + 2 * j) % 3 - 1).astype(np.float32) * 0.5
  y = (x @ w + noise).astype(np.float32)
  if spec.get('nan') and n:
    y[0] = np.nan          # a non-finite value on a REAL example
  lay = spec.get('lay')
  if lay:        # the same values in a non-default memory layout (WAVE5 item 1)
    x, y = relayout(x, lay), relayout(y, lay)
  return {'x': x, 'y': y, 'domain_id': np.array(dom, np.int32).reshape(n)}


def relayout(a, lay):
  """A numpy array equal to `a` element-wise but Fortran-ordered / a transposed view / an every-other-row slice / a
  negative-stride view / a column slice of a wider array / read-only / of byte-swapped dtype."""
  a = np.asarray(a)
  if a.ndim == 0 and lay not in ('ro', 'skip'):
    return a.copy()          # (np.asfortranarray of a 0-d array would make it 1-d)
  if lay == 'F':
    return np.asfortranarray(a)
  if lay == 'T':
    return np.ascontiguousarray(a.T).T if a.ndim >= 2 else a
  if lay == 'skip':
    big = np.zeros((2 * a.shape[0],) + a.shape[1:], a.dtype) if a.ndim else np.zeros((2,), a.dtype)
    if a.ndim:
      big[::2] = a
      return big[::2]
    big[0] = a
    return big[0:1].reshape(())
  if lay == 'neg':
    return np.ascontiguousarray(a[::-1])[::-1] if a.ndim else a
  if lay == 'col':
    if a.ndim == 0:
      return a
    wide = np.zeros(a.shape[:-1] + (a.shape[-1] + 3,), a.dtype)
    wide[..., 1:1 + a.shape[-1]] = a
    return wide[..., 1:1 + a.shape[-1]]
  if lay == 'ro':
    b = a.copy()
    b.setflags(write=False)
    return b
  if lay == 'swap':
    return a.astype(a.dtype.newbyteorder('S'))
  raise ValueError(lay)


def client_dataset(spec):
  import fedjax
  return fedjax.ClientDataset(client_arrays(spec))


PTuple = __import__('collections').namedtuple('PTuple', ['b', 'w'])


def init_params(k=0, ptree='dict', playout=None):
  """The two leaves (b: 0-d, w: shape (2,)) in the container kind `ptree`: dict (haiku style), tuple, list, NamedTuple,
  haiku FlatMap, dict with an extra None sub-tree; `playout`: the leaves as numpy arrays in a non-default layout."""
  import jax.numpy as jnp
  w = [(0.0, 0.0), (0.5, -0.25), (-0.75, 0.5), (1.0, 1.0)][k % 4]
  b = [0.0, 0.125, -0.25, 0.5][k % 4]
  b, w = jnp.asarray(b, jnp.float32), jnp.asarray(w, jnp.float32)
  if playout:
    b, w = relayout(np.asarray(b), playout), relayout(np.asarray(w), playout)
  if ptree == 'tuple':
    return (b, w)
  if ptree == 'list':
    return [b, w]
  if ptree == 'nt':
    return PTuple(b, w)
  if ptree == 'flatmap':
    import haiku as hk
    return hk.data_structures.to_immutable_dict({'lin': {'b': b, 'w': w}})
  if ptree == 'none':
    return {'lin': {'b': b, 'w': w}, 'unused': None}
  return {'lin': {'b': b, 'w': w}}


def per_example_loss(params, batch, rng):
  del rng
  import jax
  b, w = jax.tree_util.tree_leaves(params)[:2]       # any container kind: the leaves are (b, w) in flattening order
  pred = batch['x'] @ w + b
  return 0.5 * (pred - batch['y']) ** 2


def _grad_fn():
  import jax
  import jax.numpy as jnp
  return jax.jit(jax.grad(lambda p, b, r: jnp.mean(per_example_loss(p, b, r))))


_CACHE = {}


def cached(key, make):
  if key not in _CACHE:
    _CACHE[key] = make()
  return _CACHE[key]


def _opt(kind, lr):
  import fedjax
  if kind == 'sgd':
    return fedjax.optimizers.sgd(lr)
  if kind == 'mom':
    return fedjax.optimizers.sgd(lr, momentum=0.5)
  if kind == 'adam':
    return fedjax.optimizers.adam(lr)
  if kind == 'ign':       # composition: the ignore-grads wrapper around momentum SGD as the server optimizer
    return fedjax.optimizers.ignore_grads_haiku(fedjax.optimizers.sgd(lr, momentum=0.5), [('lin', 'b')])
  raise ValueError(kind)


def algorithm(name, hp, fresh=False):
  """hp: plain dict of JSON scalars.  Batching always carries a fixed seed.
  fresh=True builds a new algorithm object (new closures, new jit caches) instead of the cached one."""
  import fedjax
  from fedjax.algorithms import (agnostic_fed_avg, apfl, fed_avg, fed_prox, hyp_cluster, mime, mime_lite)
  key = (name, tuple(sorted((k, tuple(v) if isinstance(v, list) else v) for k, v in hp.items())))

  def make():
    backend = hp.get('backend')
    if backend:      # the for_each_client backend is chosen when the algorithm's for_each_client functions are built
      from fedjax.core import for_each_client as fec
      with fec.for_each_client_backend(backend):
        return build()
    return build()

  def scal(x):
    """hyper-parameter scalars as Python float (default), NumPy scalar or 0-d jax array"""
    import jax.numpy as jnp
    f = hp.get('scal')
    return x if x is None or f is None else np.float32(x) if f == 'np' else jnp.asarray(x, jnp.float32)

  def build():
    clr, slr = hp.get('clr', 0.125), hp.get('slr', 1.0)
    copt = _opt('sgd', clr)
    sopt = _opt(hp.get('sopt', 'mom'), slr)
    train = fedjax.ShuffleRepeatBatchHParams(batch_size=hp.get('bs', 64), num_epochs=hp.get('epochs', 1),
                                             seed=hp.get('bseed', 0))
    padded = fedjax.PaddedBatchHParams(batch_size=hp.get('pbs', 4))
    if name == 'fed_avg':
      return fed_avg.federated_averaging(_grad_fn(), copt, sopt, train)
    if name == 'fed_prox':
      return fed_prox.fed_prox(per_example_loss, copt, sopt, train, hp.get('prox', 0.25))
    if name == 'mime':
      return mime.mime(per_example_loss, _opt(hp.get('bopt', 'mom'), clr), train, padded, slr)
    if name == 'mime_lite':
      return mime_lite.mime_lite(per_example_loss, _opt(hp.get('bopt', 'mom'), clr), train, padded, slr,
                                 client_delta_clip_norm=scal(hp.get('clip')))
    if name == 'agnostic':
      nd = hp.get('nd', 2)
      iw = hp.get('iw') or [1.0 / nd] * nd
      iw = tuple(iw) if hp.get('iwform') == 'tuple' else np.asarray(iw, np.float64) if hp.get('iwform') == 'np' else iw
      return agnostic_fed_avg.agnostic_federated_averaging(
          per_example_loss, copt, sopt, train, padded, init_domain_weights=iw,
          domain_learning_rate=scal(hp.get('dlr', 0.25)), domain_algorithm=hp.get('dalg', 'eg'),
          domain_window_size=hp.get('W', 1), init_domain_window=hp.get('iwin'))
    if name == 'hyp_cluster':
      return hyp_cluster.hyp_cluster(per_example_loss, copt, sopt, padded, train)
    if name == 'apfl':
      return apfl.adaptive_personalized_federated_learning(_grad_fn(), copt, sopt, train, scal(hp.get('coef', 0.5)))
    raise ValueError(name)
  return make() if fresh else cached(key, make)


def apfl_eval():
  """The evaluation function of APFL on the tiny model (squared error as the only metric)."""
  import fedjax
  from fedjax.algorithms import apfl

  def make():
    class SqErr(fedjax.metrics.Metric):
      def zero(self):
        return fedjax.metrics.MeanStat.new(0., 0.)

      def evaluate_example(self, example, prediction):
        return fedjax.metrics.MeanStat.new((prediction - example['y']) ** 2, 1.)

    model = fedjax.Model(init=None, apply_for_train=None,
                         apply_for_eval=lambda params, batch: batch['x'] @ __import__('jax').tree_util.tree_leaves(params)[1] + __import__('jax').tree_util.tree_leaves(params)[0],
                         train_loss=None, eval_metrics={'sqerr': SqErr()})
    return apfl.eval_adaptive_personalized_federated_learning(model, fedjax.PaddedBatchHParams(batch_size=4))
  return cached(('apfl_eval',), make)


def init_state(name, hp, alg):
  pt, pl = hp.get('ptree', 'dict'), hp.get('playout')
  if name == 'hyp_cluster':
    return alg.init([init_params(k + hp.get('p0', 0), pt, pl) for k in range(hp.get('K', 2))])
  return alg.init(init_params(hp.get('p0', 0), pt, pl))


def aggregator(name, hp, fresh=False):
  import jax
  from fedjax.aggregators import compression
  key = ('agg', name, tuple(sorted(hp.items())))

  def make():
    rng = jax.random.PRNGKey(hp.get('aseed', 0))
    if name == 'uniform':
      return compression.uniform_stochastic_quantizer(hp.get('levels', 4), rng)
    if name == 'uniform_arith':
      return compression.uniform_stochastic_quantizer(hp.get('levels', 4), rng, 'arithmetic')
    if name == 'rotated':
      return compression.rotated_uniform_stochastic_quantizer(hp.get('levels', 4), rng)
    if name == 'drive':
      return compression.structured_drive_quantizer(rng)
    if name == 'terngrad':
      return compression.terngrad_quantizer(rng)
    raise ValueError(name)
  return make() if fresh else cached(key, make)


def client_rng(seed, rnd, idx):
  import jax
  return jax.random.fold_in(jax.random.fold_in(jax.random.PRNGKey(seed), rnd), idx)


def cid(i, form='bytes'):
  """Client id of population index i: bytes (default) or str; form '...0' makes the id of client 0 the empty (falsy) one."""
  if form == 'int0':      # integer ids: client 0 is the falsy 0, client 4 is -1 (a value code likes to use as "absent")
    return -1 if i == 4 else i
  if form.endswith('0') and i == 0:
    return '' if form.startswith('str') else b''
  return ('c%02d' % i) if form.startswith('str') else (b'c%02d' % i)


def cid_index(k):
  if isinstance(k, int):
    return 4 if k == -1 else k
  return int(k[1:]) if len(k) else 0


# ---- bit-exact snapshots -------------------------------------------------------

def leaf_bytes(l):
  """(dtype, shape, bytes) of an array leaf, or the string 'deleted'.  A jax array is
  first copied ON DEVICE: np.asarray(jax_array) would create a cached zero-copy host view
  that pins the buffer and makes XLA silently skip a later donation of it, i.e. looking
  at the state would hide the very defect (a donated input) the check is after."""
  try:
    if hasattr(l, 'is_deleted'):
      if l.is_deleted():
        return 'deleted'
      import jax.numpy as jnp
      a = np.asarray(jnp.copy(l))
    else:
      a = np.asarray(l)
  except RuntimeError:
    return 'deleted'
  return (a.dtype.str, a.shape, a.tobytes())


def snapshot(tree):
  """Host copy of every leaf plus the tree structure (as a string)."""
  import jax
  leaves, treedef = jax.tree_util.tree_flatten(tree)
  return [leaf_bytes(l) for l in leaves], str(treedef)


def same_snapshot(a, b):
  return a[1] == b[1] and len(a[0]) == len(b[0]) and all(x == y for x, y in zip(a[0], b[0]))


def kinds(tree):
  """The tree structure with haiku FlatMap read as dict (every other container kind kept): keys, nesting, leaf order
  and count must match; dict <-> FlatMap is not a difference (coordinator's decision: the container kind the
  haiku-only ignore_grads wrapper hands back is not part of C10 / C17 as worded)."""
  import collections.abc
  import jax

  def norm(x):
    if isinstance(x, collections.abc.Mapping):
      return {k: norm(v) for k, v in x.items()}
    if isinstance(x, tuple) and hasattr(x, '_fields'):
      return type(x)(*[norm(v) for v in x])
    if isinstance(x, (list, tuple)):
      return type(x)(norm(v) for v in x)
    return x
  return jax.tree_util.tree_structure(norm(tree))


def same_values(a, b):
  """Same leaves in the same order; the container TYPES may differ (pickling turns a haiku FlatMap into a dict)."""
  return len(a[0]) == len(b[0]) and all(x == y for x, y in zip(a[0], b[0]))


def count_deleted(tree):
  import jax
  return sum(1 for l in jax.tree_util.tree_leaves(tree) if leaf_bytes(l) == 'deleted')


def containers(root):
  """Every dict / list object reachable from root (through dataclasses, tuples,
  dicts, lists) with a shallow signature; children are kept alive so that ids
  stay meaningful."""
  import dataclasses as dc
  out, seen = [], set()

  def walk(o, path):
    if id(o) in seen:
      return
    if isinstance(o, dict):
      seen.add(id(o))
      out.append((path, o, _sig(o), list(o.values())))
      for k, v in o.items():
        walk(v, path + [repr(k)])
    elif isinstance(o, list):
      seen.add(id(o))
      out.append((path, o, _sig(o), list(o)))
      for i, v in enumerate(o):
        walk(v, path + [str(i)])
    elif isinstance(o, tuple):
      for i, v in enumerate(o):
        walk(v, path + [str(i)])
    elif dc.is_dataclass(o) and not isinstance(o, type):
      for f in dc.fields(o):
        walk(getattr(o, f.name), path + [f.name])
  walk(root, [])
  return out


def _sig(o):
  if isinstance(o, dict):
    return ('dict', [(repr(k), id(v)) for k, v in o.items()])
  return ('list', [id(v) for v in o])


def writes(conts):
  """Containers of a previous `containers()` walk whose shallow content changed."""
  out = []
  for path, o, sig, _keep in conts:
    now = _sig(o)
    if now != sig:
      kind = 'keys' if isinstance(o, dict) and [k for k, _ in now[1]] != [k for k, _ in sig[1]] else \
             'length' if isinstance(o, list) and len(now[1]) != len(sig[1]) else 'element'
      out.append(['/'.join(path), kind])
  return out
