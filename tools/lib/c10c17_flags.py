"""(C10 / C17) Runs selected cases of a harness in a SUBPROCESS under a non-default global JAX configuration flag
(jax_enable_x64, jax_default_prng_impl, jax_threefry_partitionable, jax_numpy_rank_promotion, jax_disable_jit) and
returns the oracle's verdicts.  The Coq correspondence is not run there: the flag must not change what the
property's own wording says about the implementation."""
import json
import os
import subprocess
import sys

_CODE = r'''
import json, sys, random
import jax
flag, value = %(flag)r, %(value)r
if value == '!default':
  value = not getattr(jax.config, flag)
jax.config.update(flag, value)
sys.path.insert(0, %(tools)r)
import importlib
h = importlib.import_module('harness.' + %(harness)r)
want, seen, out = set(%(names)r), set(), []
for case in h.generate('quick', random.Random(%(seed)d)):
  k = case.get('name', case.get('kind'))
  if k in want and k not in seen:
    seen.add(k)
    obs = h.run(case)
    out.append([k, [[a, b[:300]] for a, b in h.oracle(case, obs)]])
print('@@' + json.dumps(out))
'''


def run(harness, flag, value, names, seed, timeout=400):
  tools = os.path.dirname(os.path.dirname(os.path.abspath(__file__)))
  code = _CODE % {'flag': flag, 'value': value, 'tools': tools, 'harness': harness, 'names': list(names), 'seed': seed}
  try:
    p = subprocess.run([sys.executable, '-c', code], capture_output=True, text=True, timeout=timeout, env=dict(os.environ))
  except subprocess.TimeoutExpired:
    return {'err': 'timeout', 'results': []}
  for line in p.stdout.split('\n'):
    if line.startswith('@@'):
      return {'err': None, 'results': json.loads(line[2:])}
  return {'err': 'no result: ' + p.stderr[-300:], 'results': []}


FLAGS_QUICK = [('jax_default_prng_impl', 'rbg')]
FLAGS_THOROUGH = [('jax_default_prng_impl', 'rbg'), ('jax_threefry_partitionable', '!default'), ('jax_enable_x64', True),
                  ('jax_numpy_rank_promotion', 'warn'), ('jax_disable_jit', True)]
