"""Effect recording + simulated crash injection for the C09 / C19 harnesses.

A `Recorder` numbers the *model-level* effects of one call of the implementation
(one run of run_federated_experiment, one call of maybe_download, ...).  Effect k
(0-based) is either performed and appended to `trace`, or -- when `crash_at == k`
-- NOT performed and `SimCrash` is raised.  After the crash the recorder is `dead`:
the simulated process no longer exists, so every later effect attempted by clean-up
code (`with` blocks, `finally`) is refused.

Buffering is adversarial: bytes written through a `RecFile` reach the real file only
when the code under test flushes or closes it.  When the process dies (or a close
fails with an I/O error) while a file is open, only a PREFIX CLASS `cls` of the bytes
not yet flushed reaches the disk: 0 none, 1 half, 2 all but one byte.  So a file that
was opened for writing and not yet closed is torn whatever name it has at that moment
-- in particular when it was renamed before being closed.

Consecutive `write` calls on one open file are ONE model-level effect (how many
`write` calls an implementation uses to produce a file is not part of any
property); `sub` selects which of the raw write calls of the group crashes (the data
of that call counts as not yet flushed).  If the group has fewer than sub+1 raw
writes the crash happens at the `close` of the file.

`close_error = cls` makes the close of every file opened for writing fail with
OSError(EFBIG) (a full disk / quota on the final flush) after the prefix class `cls`
of the pending bytes was written; it is the model-level effect ('clerr', name).

`SimCrash` derives from BaseException so that `except Exception` in the code
under test cannot swallow it.
"""
import errno
import os


class SimCrash(BaseException):
  pass


class Recorder:

  def __init__(self, crash_at=None, sub=0, cls=0, close_error=None):
    self.trace = []          # model-level effects performed (tuples)
    self.raw_writes = {}     # model index of a write group -> number of raw write calls
    self.crash_at = crash_at
    self.sub = sub
    self.cls = cls
    self.close_error = close_error
    self.dead = False
    self.crashed = False
    self.open_files = []     # RecFiles opened and not yet closed
    self.on_death = None     # callable(recorder) that kills the process at the crash effect
    self._open_group = None  # (file object, model index) of the write group that is still open

  # -- generic effect -------------------------------------------------------
  def effect(self, ev):
    """Registers model-level effect `ev` about to be performed.  Raises SimCrash
    instead when this is the crash index."""
    if self.dead:
      raise SimCrash()
    self._open_group = None
    if self.crash_at is not None and len(self.trace) == self.crash_at:
      self.die()
    self.trace.append(ev)

  def die(self):
    self.dead = True
    self.crashed = True
    for f in list(self.open_files):
      f.on_death(self.cls)
    if self.on_death is not None:     # real process death (lib/deathbox.py): never returns
      self.on_death(self)
    raise SimCrash()

  # -- write groups ---------------------------------------------------------
  def write(self, fobj, name, data, do_write):
    """A raw write of `data` to open file `fobj` (`do_write(data)` buffers it)."""
    if self.dead:
      raise SimCrash()
    if self._open_group is not None and self._open_group[0] is fobj:
      idx = self._open_group[1]
      nth = self.raw_writes[idx]
      self.raw_writes[idx] = nth + 1
      if self.crash_at is not None and idx == self.crash_at and self.sub == nth:
        do_write(data)
        self.die()
      do_write(data)
      return
    idx = len(self.trace)
    if self.crash_at is not None and idx == self.crash_at and self.sub == 0:
      do_write(data)
      self.die()
    self.trace.append(('wr', name))
    self._open_group = (fobj, idx)
    self.raw_writes[idx] = 1
    do_write(data)

  def closing(self, fobj, name, content):
    """Close of a file opened for writing: one model-level effect."""
    if self.dead:
      return False
    grp = self._open_group
    if (self.crash_at is not None and grp is not None and grp[0] is fobj and grp[1] == self.crash_at and
        self.sub >= self.raw_writes[grp[1]]):
      # the requested raw write does not exist: crash before the close instead
      self.die()
    if self.close_error is not None:
      self.effect(('clerr', name))
      return False
    self.effect(('cl', name, content))
    return True


def _prefix_len(n, cls):
  return 0 if cls == 0 else n // 2 if cls == 1 else max(n - 1, 0)


class RecFile:
  """File opened for writing through the recorder, over a real file object.
  `opener()` returns the underlying real (binary or text) file."""

  def __init__(self, rec, name, opener, decode, empty=None):
    self._rec, self._name, self._decode = rec, name, decode
    rec.effect(('cr', name))
    self._f = opener()
    if empty is not None:   # lazily creating file APIs (tf GFile): the file exists (empty) from the open on
      self._f.write(empty)
    self._f.flush()
    self._buf = []          # everything written
    self._pending = []      # written, not yet flushed to the real file
    self._closed = False
    rec.open_files.append(self)

  def _join(self, parts):
    whole = parts[0][:0] if parts else b''
    for part in parts:
      whole = whole + part
    return whole

  def _push(self, upto=None):
    """Moves the pending bytes (or their first `upto`) to the real file."""
    data = self._join(self._pending)
    if upto is not None:
      data = data[:upto]
    self._pending = []
    if len(data):
      self._f.write(data)
    self._f.flush()

  def write(self, data):
    def do_write(part):
      self._pending.append(part)
      self._buf.append(part)
    self._rec.write(self, self._name, data, do_write)
    return len(data)

  def on_death(self, cls):
    """The process dies while this file is open: a prefix class of the unflushed bytes survives."""
    if self._closed:
      return
    try:
      self._push(_prefix_len(sum(len(p) for p in self._pending), cls))
    finally:
      self._abandon()

  def _abandon(self):
    if not self._closed:
      self._closed = True
      if self in self._rec.open_files:
        self._rec.open_files.remove(self)
      try:
        self._f.close()
      except Exception:  # pylint: disable=broad-except
        pass

  def flush(self):
    if not self._rec.dead and not self._closed:
      self._push()

  def close(self):
    if self._closed:
      return
    if self._rec.dead:
      self._abandon()
      return
    ok = self._rec.closing(self, self._name, self._decode(self._name, self._join(self._buf)))
    if self._closed:        # the recorder died in closing()
      return
    if not ok and self._rec.close_error is not None:
      self._push(_prefix_len(sum(len(p) for p in self._pending), self._rec.close_error))
      self._abandon()
      raise OSError(errno.EFBIG, 'File too large (injected on the final flush)')
    self._push()
    self._abandon()

  def __enter__(self):
    return self

  def __exit__(self, *a):
    self.close()
    return False


def listing(root):
  """Sorted basenames of the regular files directly under root ([] if absent)."""
  if not os.path.isdir(root):
    return []
  return sorted(n for n in os.listdir(root) if os.path.isfile(os.path.join(root, n)))
