"""Effect recording + simulated crash injection for the C09 / C19 harnesses.

A `Recorder` numbers the *model-level* effects of one call of the implementation
(one run of run_federated_experiment, one call of maybe_download, ...).  Effect k
(0-based) is either performed and appended to `trace`, or -- when `crash_at == k`
-- NOT performed (a write is performed partially: a prefix of the data reaches the
disk) and `SimCrash` is raised.  After the crash the recorder is `dead`: the
simulated process no longer exists, so every later effect attempted by clean-up
code (`with` blocks, `finally`) is refused.  A crashed call therefore leaves on
disk exactly the result of the first k effects, plus a torn file when the crash
hit inside a write.

Consecutive `write` calls on one open file are ONE model-level effect (how many
`write` calls an implementation uses to produce a file is not part of any
property); `sub` selects which of the raw write calls of the group crashes and
`cls` the prefix class that reaches the disk: 0 empty, 1 half, 2 all but one
byte.  If the group has fewer than sub+1 raw writes the crash happens at the
`close` of the file (all bytes on disk, file never closed).

`SimCrash` derives from BaseException so that `except Exception` in the code
under test cannot swallow it.
"""
import os


class SimCrash(BaseException):
  pass


class Recorder:

  def __init__(self, crash_at=None, sub=0, cls=0):
    self.trace = []          # model-level effects performed (tuples)
    self.raw_writes = {}     # model index of a write group -> number of raw write calls
    self.crash_at = crash_at
    self.sub = sub
    self.cls = cls
    self.dead = False
    self.crashed = False
    self._open_group = None  # (file object id) of the write group that is still open

  # -- generic effect -------------------------------------------------------
  def effect(self, ev):
    """Registers model-level effect `ev` about to be performed.  Raises SimCrash
    instead when this is the crash index."""
    if self.dead:
      raise SimCrash()
    self._open_group = None
    if self.crash_at is not None and len(self.trace) == self.crash_at:
      self.die()
    self.trace.append(ev)

  def die(self):
    self.dead = True
    self.crashed = True
    raise SimCrash()

  # -- write groups ---------------------------------------------------------
  def write(self, fobj, name, data, do_write):
    """A raw write of `data` to open file `fobj` (`do_write(prefix)` puts bytes on
    the disk and flushes them)."""
    if self.dead:
      raise SimCrash()
    if self._open_group is not None and self._open_group[0] is fobj:
      idx = self._open_group[1]
    else:
      idx = len(self.trace)
      if self.crash_at is not None and idx == self.crash_at and self.sub == 0:
        self._torn(data, do_write)
      self.trace.append(('wr', name))
      self._open_group = (fobj, idx)
      self.raw_writes[idx] = 1
      do_write(data)
      return
    nth = self.raw_writes[idx]
    self.raw_writes[idx] = nth + 1
    if self.crash_at is not None and idx == self.crash_at and self.sub == nth:
      self._torn(data, do_write)
    do_write(data)

  def _torn(self, data, do_write):
    n = len(data)
    k = 0 if self.cls == 0 else n // 2 if self.cls == 1 else max(n - 1, 0)
    if k:
      do_write(data[:k])
    self.die()

  def closing(self, fobj, name, content):
    """Close of a file opened for writing: one model-level effect."""
    if self.dead:
      return False
    grp = self._open_group
    if (self.crash_at is not None and grp is not None and grp[0] is fobj and grp[1] == self.crash_at and
        self.sub >= self.raw_writes[grp[1]]):
      # the requested raw write does not exist: crash before the close instead
      self.die()
    self.effect(('cl', name, content))
    return True


class RecFile:
  """File opened for writing through the recorder, over a real file object.
  `opener()` returns the underlying real (binary or text) file."""

  def __init__(self, rec, name, opener, decode, empty=None):
    self._rec, self._name, self._decode = rec, name, decode
    rec.effect(('cr', name))
    self._f = opener()
    if empty is not None:   # lazily creating file APIs (tf GFile): the file exists (empty) from the open on
      self._f.write(empty)
    self._flush()
    self._buf = []
    self._closed = False

  def _flush(self):
    self._f.flush()

  def _put(self, data):
    self._f.write(data)
    self._f.flush()

  def write(self, data):
    def do_write(part):
      self._put(part)
      self._buf.append(part)
    try:
      self._rec.write(self, self._name, data, do_write)
    except SimCrash:
      self._abandon()
      raise
    return len(data)

  def _abandon(self):
    if not self._closed:
      self._closed = True
      try:
        self._f.close()
      except Exception:  # pylint: disable=broad-except
        pass

  def flush(self):
    if not self._rec.dead and not self._closed:
      self._flush()

  def close(self):
    if self._closed:
      return
    if self._rec.dead:
      self._abandon()
      return
    whole = self._buf[0][:0] if self._buf else b''
    for part in self._buf:
      whole = whole + part
    try:
      self._rec.closing(self, self._name, self._decode(self._name, whole))
    except SimCrash:
      self._abandon()
      raise
    self._closed = True
    self._f.close()

  def __enter__(self):
    return self

  def __exit__(self, *a):
    self.close()
    return False


def listing(root):
  """Sorted basenames of the regular files directly under root ([] if absent)."""
  if not os.path.isdir(root):
    return []
  return sorted(n for n in os.listdir(root) if os.path.isfile(os.path.join(root, n)))
