"""Shared check framework: translate -> re-prove -> audit -> correspondence ->
property oracle -> decide -> evidence.  See DESIGN.md section 2.1."""
import concurrent.futures
import fcntl
import glob
import hashlib
import importlib
import json
import os
import random
import re
import signal
import subprocess
import sys
import time
import traceback

VERIF = os.path.dirname(os.path.dirname(os.path.dirname(os.path.abspath(__file__))))
REPO = os.environ.get('VERIF_REPO', '/repo')
COQ = os.path.join(VERIF, 'coq')
if os.path.realpath(REPO) != '/repo':
  # mutation experiments: a private copy of the Coq tree per process, so that the regenerated
  # gen/*.v of a mutated repository never mix with concurrent checks of /repo or of other copies
  import atexit
  import shutil
  COQ = '/tmp/verif-coq-%s-%d' % (hashlib.md5(os.path.realpath(REPO).encode()).hexdigest()[:10], os.getpid())
  for _attempt in range(3):
    _rc = subprocess.run(['rsync', '-a', '--delete', '--exclude', 'cases/', os.path.join(VERIF, 'coq') + '/', COQ + '/']).returncode
    if _rc in (0,):
      break   # 24 = files vanished while a concurrent build was running: copy again
  atexit.register(lambda: shutil.rmtree(COQ, ignore_errors=True))
CASES = os.path.join(COQ, 'cases')
NPROC = int(os.environ.get('VERIF_JOBS', '16'))

TRUSTED_BASE_COMMON = [
    'Coq 8.16.1 kernel (coqc); vm_compute used for correspondence evaluation and closed examples; no native_compute',
    'tools/translate.py (Python ast -> Gallina, fail-closed) and its reading of Python int // % semantics',
    'tools/lib/fw.py + tools/harness/*.py encoders (case -> Gallina literal, observation -> canonical form)',
]

FORBIDDEN = re.compile(
    r'\b(Admitted|admit|Axiom|Axioms|Parameter|Parameters|Conjecture|Hypothesis|Hypotheses)\b'
    r'|Unset\s+Guard|bypass_check|type-in-type|impredicative-set|Admit\s+Obligations|Unset\s+Universe|Unset\s+Positivity')


def log(*a):
  print(*a, file=sys.stderr, flush=True)


# --------------------------------------------------------------------------
# Coq side

class CoqLock:
  def __enter__(self):
    self.f = open(os.path.join(COQ, '.lock'), 'w')
    fcntl.flock(self.f, fcntl.LOCK_EX)
    return self

  def __exit__(self, *a):
    fcntl.flock(self.f, fcntl.LOCK_UN)
    self.f.close()


def strip_comments(text):
  out, depth, i = [], 0, 0
  while i < len(text):
    if text.startswith('(*', i):
      depth += 1
      i += 2
    elif text.startswith('*)', i) and depth:
      depth -= 1
      i += 2
    else:
      if not depth:
        out.append(text[i])
      i += 1
  return ''.join(out)


def audit(files):
  """Forbidden vernacular anywhere in the development (comments stripped).
  `Hypothesis`/`Variable` are allowed only inside a Section."""
  bad = []
  for f in files:
    with open(f) as fh:
      text = strip_comments(fh.read())
    depth = 0
    for ln, line in enumerate(text.split('\n'), 1):
      if re.match(r'\s*Section\b', line):
        depth += 1
      if re.match(r'\s*End\b', line) and depth:
        depth -= 1
        continue
      for m in FORBIDDEN.finditer(line):
        w = m.group(0)
        if w in ('Hypothesis', 'Hypotheses') and depth > 0:
          continue
        bad.append(f'{os.path.relpath(f, COQ)}:{ln}: {w}')
      if depth == 0 and re.match(r'\s*(Variable|Variables|Context)\b', line):
        bad.append(f'{os.path.relpath(f, COQ)}:{ln}: Variable/Context outside a section')
  return bad


def count_obligations(files):
  n = 0
  names = []
  for f in files:
    with open(f) as fh:
      text = strip_comments(fh.read())
    for m in re.finditer(r'^\s*(?:Local\s+|Global\s+)?(Theorem|Lemma|Example|Corollary|Fact|Remark|Proposition)\s+([A-Za-z0-9_\']+)', text, re.M):
      n += 1
      names.append(m.group(2))
  return n, names


def all_v_files():
  return sorted(glob.glob(os.path.join(COQ, 'Common', '*.v')) + glob.glob(os.path.join(COQ, 'Model', '*.v')) +
                glob.glob(os.path.join(COQ, 'Proofs', '*.v')) + glob.glob(os.path.join(COQ, 'Props', '*.v')) +
                glob.glob(os.path.join(COQ, 'gen', '*.v')))


def deps_of(vfile):
  """Transitive FV dependencies of a .v file (by scanning Require lines)."""
  seen, todo = [], [vfile]
  while todo:
    f = todo.pop()
    if f in seen or not os.path.exists(f):
      continue
    seen.append(f)
    with open(f) as fh:
      text = strip_comments(fh.read())
    for m in re.finditer(r'From\s+FV\s+Require\s+(?:Import|Export)\s+(.*?)\.(?=\s|$)', text, re.S):
      for mod in m.group(1).split():
        todo.append(os.path.join(COQ, *mod.split('.')) + '.v')
  return seen


def translate():
  sys.path.insert(0, os.path.join(VERIF, 'tools'))
  import translate as tr
  importlib.reload(tr)
  return tr.run(REPO, os.path.join(COQ, 'gen'))


def ensure_makefile():
  mk = os.path.join(COQ, 'Makefile')
  cp = os.path.join(COQ, '_CoqProject')
  if not os.path.exists(mk) or os.path.getmtime(mk) < os.path.getmtime(cp):
    subprocess.run(['coq_makefile', '-f', '_CoqProject', '-o', 'Makefile'], cwd=COQ, check=True,
                   stdout=subprocess.DEVNULL)


def blame(log_text):
  """Names the file / lemma of the first Coq error in a make log."""
  m = re.search(r'File "\./([^"]+)", line (\d+)', log_text)
  if not m:
    return {'file': None, 'lemma': None}
  f, ln = m.group(1), int(m.group(2))
  lemma = None
  try:
    with open(os.path.join(COQ, f)) as fh:
      lines = fh.read().split('\n')[:ln]
    for line in reversed(lines):
      mm = re.match(r'\s*(?:Theorem|Lemma|Example|Corollary|Definition|Fixpoint)\s+([A-Za-z0-9_\']+)', line)
      if mm:
        lemma = mm.group(1)
        break
  except OSError:
    pass
  return {'file': f, 'line': ln, 'lemma': lemma}


def build(props_file, timeout=900):
  """Regenerates gen/*.v from REPO, rebuilds props_file's closure with make and
  recompiles props_file itself (fresh Print Assumptions).  Returns dict."""
  res = {'ok': False, 'translator': {}, 'log': '', 'assumptions': {}, 'blame': None}
  with CoqLock():
    res['translator'] = translate()
    ensure_makefile()
    target = os.path.relpath(props_file, COQ)[:-2] + '.vo'
    vo = os.path.join(COQ, target)
    if os.path.exists(vo):
      os.remove(vo)
    try:
      p = subprocess.run(['make', '-j', str(NPROC), target], cwd=COQ, capture_output=True, text=True,
                         timeout=timeout)
      out = p.stdout + p.stderr
      res['log'] = out[-6000:]
      res['ok'] = p.returncode == 0 and os.path.exists(vo)
    except subprocess.TimeoutExpired:
      res['log'] = 'make timed out'
  if not res['ok']:
    res['blame'] = blame(res['log'])
    return res
  # Print Assumptions output: blocks following each theorem, in file order
  with open(props_file) as fh:
    asked = re.findall(r'^Print Assumptions\s+([A-Za-z0-9_\']+)\.', fh.read(), re.M)
  blocks = re.split(r'(?m)^(?=Closed under the global context|Axioms:)', out)
  blocks = [b.strip() for b in blocks if b.startswith('Closed under') or b.startswith('Axioms:')]
  for name, b in zip(asked, blocks):
    res['assumptions'][name] = b.split('\nmake')[0].strip()
  res['asked'] = asked
  if len(blocks) != len(asked):
    res['ok'] = False
    res['log'] += f'\nexpected {len(asked)} Print Assumptions results, got {len(blocks)}'
  return res


STD_AXIOM_WHITELIST = (
    'functional_extensionality_dep', 'classic', 'proof_irrelevance', 'JMeq_eq', 'Eqdep.Eq_rect_eq.eq_rect_eq',
    'ClassicalDedekindReals.sig_forall_dec', 'ClassicalDedekindReals.sig_not_dec', 'FunctionalExtensionality.functional_extensionality_dep',
    'Classical_Prop.classic', 'PrimFloat', 'Uint63', 'PrimInt63', 'FloatOps', 'Float')


def run_coq_cases(prop, header, agree, terms, shard=300, timeout=600):
  """Writes shards `cases/<prop>_<k>.v` holding the (case, observation) terms and
  evaluates `failing agree` on each inside Coq.  Returns (list of failing global
  indices, error string or None)."""
  os.makedirs(CASES, exist_ok=True)
  for old in glob.glob(os.path.join(CASES, f'{prop}_*')):
    os.remove(old)
  shard = max(20, min(shard, -(-len(terms) // NPROC)))   # spread the cases over the cores
  shards = [terms[i:i + shard] for i in range(0, len(terms), shard)]
  files = []
  for k, sh in enumerate(shards):
    fn = os.path.join(CASES, f'{prop}_{k}.v')
    with open(fn, 'w') as f:
      f.write('From Coq Require Import ZArith QArith List Bool.\nFrom FV Require Import Common.ListX.\n')
      f.write(header + '\nImport ListNotations.\n')
      f.write('Definition cases := [\n' + ';\n'.join(sh) + '\n].\n')
      f.write(f'Definition bad := failing {agree} 0 cases.\n')
      f.write('Eval vm_compute in (List.length cases, bad).\n')
    files.append(fn)

  def one(fn):
    try:
      p = subprocess.run(['coqc', '-Q', COQ, 'FV', fn], capture_output=True, text=True, timeout=timeout, cwd=CASES)
      return p.returncode, p.stdout, p.stderr
    except subprocess.TimeoutExpired:
      return 124, '', 'coqc timed out'

  failing, err = [], None
  with concurrent.futures.ThreadPoolExecutor(NPROC) as ex:
    for k, (rc, out, er) in enumerate(ex.map(one, files)):
      if rc != 0:
        err = f'shard {k}: coqc failed: {er[-1500:]}'
        continue
      m = re.search(r'=\s*\((\d+)(?:%nat)?\s*,\s*(\[[^\]]*\])\s*\)', out.replace('\n', ' '))
      if not m or int(m.group(1)) != len(shards[k]):
        err = f'shard {k}: cannot parse coqc output: {out[-500:]}'
        continue
      for idx in re.findall(r'\d+', m.group(2)):
        failing.append(k * shard + int(idx))
  for fn in files:
    for ext in ('.vo', '.vok', '.vos', '.glob'):
      p = fn[:-2] + ext
      if os.path.exists(p):
        os.remove(p)
    aux = os.path.join(CASES, '.' + os.path.basename(fn)[:-2] + '.aux')
    if os.path.exists(aux):
      os.remove(aux)
  return sorted(failing), err


# --------------------------------------------------------------------------
# Coq literal helpers

def zlit(n):
  n = int(n)
  return f'{n}' if n >= 0 else f'({n})'


def zlist(xs):
  return '[' + '; '.join(zlit(x) for x in xs) + ']'


def natlist(xs):
  return '[' + '; '.join(f'{int(x)}%nat' for x in xs) + ']'


def blist(xs):
  return '[' + '; '.join('true' if x else 'false' for x in xs) + ']'


def clist(xs):
  return '[' + '; '.join(xs) + ']'


def optz(x):
  return 'None' if x is None else f'(Some {zlit(x)})'


def cbool(b):
  return 'true' if b else 'false'


def qlit(x):
  """Exact rational literal of a python float / int / Fraction."""
  from fractions import Fraction
  fr = Fraction(x) if not isinstance(x, float) else Fraction(*x.as_integer_ratio())
  n, d = fr.numerator, fr.denominator
  return f'({zlit(n)} # {d})'


def qlist(xs):
  return '[' + '; '.join(qlit(x) for x in xs) + ']'


# --------------------------------------------------------------------------
# Watchdog

class Hang(BaseException):
  # BaseException: a harness' or the implementation's own `except Exception` must not
  # swallow the watchdog (seeded C13-v1 looped forever inside such a handler)
  pass


_ARMED = [False]


def _alarm(signum, frame):
  if _ARMED[0]:
    raise Hang()


def with_watchdog(fn, seconds, *args):
  """Runs fn(*args) in this process under SIGALRM.  Returns (value, None) or
  (None, 'hang') / (None, 'exception text')."""
  old = signal.signal(signal.SIGALRM, _alarm)
  # repeating timer: an exception raised inside a GC / C callback is swallowed by
  # the interpreter, so keep firing every second until the call is abandoned
  _ARMED[0] = True
  signal.setitimer(signal.ITIMER_REAL, float(seconds), 1.0)
  try:
    try:
      return fn(*args), None
    finally:
      _ARMED[0] = False
      signal.setitimer(signal.ITIMER_REAL, 0)
  except Hang:
    return None, 'hang'
  finally:
    signal.signal(signal.SIGALRM, old)


# --------------------------------------------------------------------------
# Known findings, replays, evidence

def known_findings(prop):
  p = os.path.join(VERIF, 'known_findings.json')
  if not os.path.exists(p):
    return []
  with open(p) as f:
    return [k for k in json.load(f) if k.get('property') == prop]


def write_replay(prop, payload):
  d = os.path.join(VERIF, 'replays')
  os.makedirs(d, exist_ok=True)
  n = 1
  while os.path.exists(os.path.join(d, f'{prop}-{n}.json')):
    n += 1
  path = os.path.join(d, f'{prop}-{n}.json')
  payload = dict(payload)
  payload['property'] = prop
  try:
    payload['repo_head'] = subprocess.run(['git', '-C', REPO, 'rev-parse', 'HEAD'], capture_output=True, text=True).stdout.strip()
    payload['dirty_files'] = subprocess.run(['git', '-C', REPO, 'status', '--porcelain'], capture_output=True, text=True).stdout.split('\n')[:20]
  except OSError:
    pass
  with open(path, 'w') as f:
    json.dump(payload, f, indent=1, default=str)
  return path


def write_evidence(prop, ev):
  # evidence/ describes /repo only; runs against a mutated copy write next to their private Coq tree
  d = os.path.join(VERIF, 'evidence') if os.path.realpath(REPO) == '/repo' else os.path.join(COQ, 'evidence')
  os.makedirs(d, exist_ok=True)
  with open(os.path.join(d, f'{prop}.json'), 'w') as f:
    json.dump(ev, f, indent=1, default=str)


def case_key(case):
  return hashlib.sha1(json.dumps(case, sort_keys=True, default=str).encode()).hexdigest()


def load_corpus(prop):
  out = []
  for fn in sorted(glob.glob(os.path.join(VERIF, 'corpus', prop, '*.json'))):
    with open(fn) as f:
      out.append(json.load(f))
  return out


# --------------------------------------------------------------------------
# The generic check driver

class Violation:
  def __init__(self, key, what, case=None, obs=None):
    self.key, self.what, self.case, self.obs = key, what, case, obs


def run_property(mod, tier, seed, replay=None):
  """mod: harness module (see tools/harness/README in DESIGN 2.1).  Returns exit code."""
  prop = mod.PROP
  t0 = time.time()
  props_file = os.path.join(COQ, 'Props', f'{prop}.v')
  # 1-3. translate, re-prove, audit -- in a worker thread while the harness runs
  pool = concurrent.futures.ThreadPoolExecutor(1)
  fut = pool.submit(build, props_file)

  # 4-5. implementation runs + property oracle
  rng = random.Random(seed)
  if replay is not None:
    with open(replay) as f:
      rp = json.load(f)
    cases = [rp['case']] if rp.get('case') is not None else []
    if not cases:
      cases = load_corpus(prop) + list(mod.generate(tier, rng))
  else:
    cases = load_corpus(prop) + list(mod.generate(tier, rng))
  per_case_timeout = getattr(mod, 'CASE_TIMEOUT', 60)
  try:   # pay the 5-20 s fedjax/TF import outside the per-case watchdog
    import fedjax  # noqa: F401
    if hasattr(mod, 'warmup'):
      mod.warmup()
  except Exception as ex:
    log(f'[{prop}] warmup failed: {ex!r}')
  observed, violations, dist = [], [], {}
  seen_nontrivial = set()
  hangs = 0
  for case in cases:
    if hangs >= 3:   # every further hang costs a full timeout; three replays are enough
      break
    try:
      obs, err = with_watchdog(mod.run, per_case_timeout, case)
    except Exception as ex:  # harness/implementation raised outside the modelled error enum
      obs, err = None, 'exception: ' + ''.join(traceback.format_exception_only(type(ex), ex)).strip()
    if err == 'hang':
      hangs += 1
      violations.append(Violation(mod.hang_key(case) if hasattr(mod, 'hang_key') else 'hang',
                                  f'implementation did not return within {per_case_timeout}s', case, None))
      observed.append((case, None))
      continue
    if err is not None:
      violations.append(Violation('harness-exception', err, case, None))
      observed.append((case, None))
      continue
    observed.append((case, obs))
    for key, what in mod.oracle(case, obs):
      violations.append(Violation(key, what, case, obs))
    for k, v in (mod.describe(case, obs) if hasattr(mod, 'describe') else {}).items():
      dist.setdefault(k, {})
      dist[k][str(v)] = dist[k].get(str(v), 0) + 1
    if mod.nontrivial(case, obs):
      seen_nontrivial.add(case_key(case))
  log(f'[{prop}] {len(cases)} implementation cases in {time.time() - t0:.1f}s')

  b = fut.result()
  pool.shutdown()
  log(f'[{prop}] coq build ok={b["ok"]} at {time.time() - t0:.1f}s')

  # audit
  files = deps_of(props_file)
  bad_words = audit(all_v_files())
  assum_bad = {n: a for n, a in b.get('assumptions', {}).items()
               if not a.startswith('Closed under the global context') and
               not all(any(w in line for w in STD_AXIOM_WHITELIST) for line in a.split('\n')[1:] if line.strip() and not line.startswith(' '))}
  broken = []
  needed_gen = {os.path.basename(f)[:-2] for f in files if os.sep + 'gen' + os.sep in f}
  for m, e in b['translator'].items():
    if e is not None and m in needed_gen:
      broken.append({'kind': 'translator_anchor', 'module': m, 'error': e})
  if not b['ok']:
    broken.append({'kind': 'theorem', 'blame': b['blame'], 'log_tail': b['log'][-1500:]})
  if bad_words:
    broken.append({'kind': 'audit', 'found': bad_words})
  if assum_bad:
    broken.append({'kind': 'assumptions', 'found': assum_bad})

  # correspondence inside Coq
  failing_idx, coq_err, n_model = [], None, 0
  if b['ok'] or not getattr(mod, 'MODEL_NEEDS_PROOFS', False):
    enc = [(i, mod.encode(c, o)) for i, (c, o) in enumerate(observed) if o is not None]
    enc = [(i, t) for i, t in enc if t is not None]
    n_model = len(enc)
    if enc:
      model_ok = True
      # the model files must compile even when a proof is broken
      with CoqLock():
        ensure_makefile()
        targets = [m + '.vo' for m in mod.COQ_MODEL_TARGETS]
        p = subprocess.run(['make', '-j', str(NPROC)] + targets, cwd=COQ, capture_output=True, text=True)
        if p.returncode != 0:
          model_ok = False
          coq_err = 'model does not compile: ' + (p.stdout + p.stderr)[-1500:]
      if model_ok:
        fl, coq_err = run_coq_cases(prop, mod.COQ_HEADER, mod.COQ_AGREE, [t for _, t in enc])
        failing_idx = [enc[j][0] for j in fl]
  if coq_err:
    broken.append({'kind': 'correspondence', 'error': coq_err})
  if failing_idx:
    i = failing_idx[0]
    broken.append({'kind': 'correspondence', 'disagreements': len(failing_idx),
                   'first_case': observed[i][0], 'first_observed': observed[i][1]})
  log(f'[{prop}] correspondence: {n_model} cases, {len(failing_idx)} disagree, at {time.time() - t0:.1f}s')

  # widen the search for a failing input when a tie broke but the oracle is silent
  searched = 0
  if broken and not violations and replay is None and hasattr(mod, 'generate'):
    budget = 90 if tier == 'quick' else 600
    ts = time.time()
    srng = random.Random(seed + 1000003)
    for case in mod.generate('search', srng):
      if time.time() - ts > budget:
        break
      try:
        obs, err = with_watchdog(mod.run, per_case_timeout, case)
      except Exception:
        continue
      searched += 1
      if err == 'hang':
        violations.append(Violation(mod.hang_key(case) if hasattr(mod, 'hang_key') else 'hang', 'implementation did not return', case, None))
        break
      for key, what in mod.oracle(case, obs):
        violations.append(Violation(key, what, case, obs))
      if violations:
        break

  # thorough tier: independent re-check of the compiled closure with coqchk
  coqchk = None
  if tier == 'thorough' and b['ok']:
    try:
      pc = subprocess.run(['coqchk', '-o', '-silent', '-Q', COQ, 'FV', f'FV.Props.{prop}'], capture_output=True,
                          text=True, timeout=1800, cwd=COQ)
      tail = (pc.stdout + pc.stderr)[-1500:]
      m = re.search(r'\* Axioms:(.*?)\n\s*\n\* Constants/Inductives relying on type-in-type', tail, re.S)
      axioms = ' '.join(m.group(1).split()) if m else None
      coqchk = {'returncode': pc.returncode, 'axioms': axioms,
                'type_in_type': '<none>' in tail.split('type-in-type:')[-1][:20] if 'type-in-type:' in tail else None}
      if pc.returncode != 0:
        broken.append({'kind': 'coqchk', 'log_tail': tail})
    except subprocess.TimeoutExpired:
      coqchk = {'returncode': None, 'axioms': None, 'note': 'coqchk timed out (1800 s)'}
    log(f'[{prop}] coqchk: {coqchk} at {time.time() - t0:.1f}s')

  # decide
  known = known_findings(prop)
  open_keys = {k['key']: k for k in known if k.get('status') == 'open'}
  new_viol, reported_known = [], {}
  for v in violations:
    if v.key in open_keys:
      reported_known.setdefault(v.key, v)
    else:
      new_viol.append(v)
  rc = 0
  lines = []
  for k, v in reported_known.items():
    lines.append(f'KNOWN-FINDING: property={prop} {k}: {open_keys[k].get("what", v.what)}')
  if new_viol:
    v = new_viol[0]
    case = v.case
    if hasattr(mod, 'shrink') and case is not None:
      case = shrink(mod, case, v.key, per_case_timeout)
    path = write_replay(prop, {'kind': 'failing-input', 'key': v.key, 'what': v.what, 'case': case,
                               'observed': v.obs if case is v.case else None, 'tier': tier, 'seed': seed,
                               'broken': broken, 'other_violations': len(new_viol) - 1})
    lines.append(f'VIOLATION property={prop} replay={path}')
    rc = 1
  elif broken:
    path = write_replay(prop, {'kind': 'broken-tie', 'case': None, 'broken': broken, 'tier': tier, 'seed': seed,
                               'searched_cases': len(cases) + searched,
                               'note': 'the property is no longer shown to hold: the named theorem / translator anchor / correspondence no longer checks; no failing input was found by the search'})
    lines.append(f'VIOLATION property={prop} replay={path} no-failing-input-found')
    rc = 1

  # evidence
  n_obl, names = count_obligations(files)
  ev = {
      'property_id': prop, 'tier': 'thorough' if tier == 'thorough' else 'quick', 'seed': seed, 'level': 'proof',
      'coverage': {
          'obligations': n_obl,
          'discharged': n_obl if b['ok'] else 0,
          'checker_cmd': f'make -C /verif/coq Props/{prop}.vo (coqc 8.16.1, full .vo build) + coqc on generated cases/{prop}_*.v',
          'trusted_base': TRUSTED_BASE_COMMON + list(getattr(mod, 'TRUSTED', [])),
          'theorems': b.get('asked', []),
          'assumptions_printed': b.get('assumptions', {}),
          'translator': {m: ('ok' if e is None else e) for m, e in b['translator'].items() if m in needed_gen},
          'proof_files': [os.path.relpath(f, COQ) for f in files],
          'evaluations': len(cases) + searched,
          'model_evaluations_in_coq': n_model,
          'model_disagreements': len(failing_idx),
          'distinct_nontrivial': len(seen_nontrivial),
          'rule': getattr(mod, 'RULE', ''),
          'samples': [{'case': c, 'observed': o} for c, o in observed[:: max(1, len(observed) // 3)][:3]],
          'input_distribution': dist,
          'partial_clauses': list(getattr(mod, 'PARTIAL', [])),
          'coqchk': coqchk,
          'known_findings_reproduced': sorted(reported_known),
          'exhaustive': False,
      },
      'assumptions': list(getattr(mod, 'ASSUMPTIONS', [])),
      'wall_s': round(time.time() - t0, 2),
      'violations': len(new_viol) + (1 if (broken and not new_viol) else 0),
  }
  write_evidence(prop, ev)
  for ln in lines:
    print(ln, flush=True)
  if rc == 0:
    print(f'OK property={prop} tier={tier} theorems={len(b.get("asked", []))} obligations={n_obl} '
          f'impl_cases={len(cases)} coq_cases={n_model} wall={time.time() - t0:.0f}s', flush=True)
  return rc


def shrink(mod, case, key, timeout):
  cur = case
  improved = True
  steps = 0
  t_end = time.time() + 60
  while improved and steps < 200 and time.time() < t_end:
    improved = False
    for cand in mod.shrink(cur):
      steps += 1
      if time.time() > t_end:
        break
      try:
        obs, err = with_watchdog(mod.run, timeout, cand)
      except Exception:
        continue
      hk = mod.hang_key(cand) if hasattr(mod, 'hang_key') else 'hang'
      keys = [hk] if err == 'hang' else [k for k, _ in mod.oracle(cand, obs)] if err is None else []
      if key in keys:
        cur = cand
        improved = True
        break
  return cur
