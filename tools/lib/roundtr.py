"""Round translator (C01 / C12): a fail-closed compiler from the imperative Python of the
fedjax algorithm files (apply loops, client_init / client_step / client_final, server_update,
expectation_step) to Gallina let-chains / folds.

* Statements: `x = e`, `a, b = e`, `x += e`, `d[k] = e`, `l[i] += e`, `x.append(e)`,
  `for t in e: ...` (-> fold_left over the loop-carried variables; a loop whose body uses a
  partial operation folds over `option`), `if c: ... else: ...`, `return e`, `del`.
  Anything else raises Unsupported.
* Expressions are translated by an ordered RULE table of (python pattern, emitter).  In a
  pattern a name `E_x` matches any expression (translated recursively), `N_x` any identifier.
  Names keep their source spelling in the output, so renaming is harmless while using another
  variable (weight 1 instead of num_examples, clients instead of outputs, ...) changes the term.
* A pytree of floats that reaches an optimizer must be finite: the coercion tree -> vector is
  `unlift`, emitted as a match that makes the enclosing function return `option`.
* `ignore`: names whose statements are dropped (parts of the code outside the modelled
  behaviour, listed in the anchor); a dropped name may not be read by a kept statement.
Types are Coq type strings; python tuples of types are product types; ('option', T) is option T."""
import ast
from fractions import Fraction

from translate import Unsupported

VEC, TREE, ZT, NQ = 'list Q', 'list NanQ.t', 'Z', 'NanQ.t'
NONE_TY = ('option', '_')


def src(e):
  return ' '.join(ast.unparse(e).split())


def match(n, p, holes):
  """Structural comparison of ast node n with pattern node p; fills holes; returns bool."""
  if isinstance(p, ast.Name) and p.id.startswith('E_'):
    if p.id in holes:
      return ast.dump(holes[p.id]) == ast.dump(n)
    holes[p.id] = n
    return True
  if isinstance(p, ast.Name) and p.id.startswith('N_'):
    if not isinstance(n, ast.Name):
      return False
    return holes.setdefault(p.id, n.id) == n.id
  if isinstance(p, ast.arg) and p.arg.startswith('N_'):
    return isinstance(n, ast.arg) and holes.setdefault(p.arg, n.arg) == n.arg
  if type(n) is not type(p):
    return False
  for f in p._fields:
    if f in ('ctx', 'type_comment', 'annotation', 'returns', 'kind'):
      continue
    a, b = getattr(n, f, None), getattr(p, f, None)
    if isinstance(b, list):
      if not isinstance(a, list) or len(a) != len(b) or not all(match(x, y, holes) for x, y in zip(a, b)):
        return False
    elif isinstance(b, ast.AST):
      if not isinstance(a, ast.AST) or not match(a, b, holes):
        return False
    elif a != b:
      return False
  return True


def pat(text):
  return ast.parse(text, mode='eval').body


def is_opt(t):
  return isinstance(t, tuple) and len(t) == 2 and t[0] == 'option'


def tystr(t):
  if is_opt(t):
    return f'option ({tystr(t[1])})'
  if isinstance(t, tuple):
    return '(' + ' * '.join(tystr(x) for x in t) + ')'
  return t


def destruct(names):
  return "'(" + ', '.join(names) + ')' if len(names) > 1 else names[0]


def free_names(node):
  return {n.id for n in ast.walk(node) if isinstance(n, ast.Name)}


class RT:
  """One translation context."""

  def __init__(self, rules, where, node_rules=(), setitem=None, skip_if_none=(), const_true=(), ignore=(), list_elem=None):
    self.rules = [(pat(p), f) for p, f in rules]
    self.node_rules = list(node_rules)
    self.where = where
    self.setitem = setitem or {}          # container type string -> fn(rt, cont, key_node, value_node, env) -> term
    self.skip_if_none = set(skip_if_none)  # names that are the constant None in the modelled configuration
    self.const_true = set(const_true)      # names that are the constant True in the modelled configuration
    self.ignore = set(ignore)
    self.elem_types = dict(list_elem or {})  # list type string -> element type
    self.partial = False
    self.partial_fn = False
    self.binds = []
    self.fresh = 0

  def fail(self, what, node=None):
    raise Unsupported(f'{self.where}: {what}' + (f': {src(node)[:140]}' if node is not None else ''))

  # ---- expressions ----
  def ex(self, e, env, want=None):
    bad = set() if getattr(self, 'allow_ignored_reads', False) else free_names(e) & self.ignore
    if bad:
      self.fail(f'a kept statement reads the unmodelled name(s) {sorted(bad)}', e)
    t, ty = self._ex(e, env)
    if want is not None and tystr(ty) != tystr(want):
      t, ty = self.coerce(t, ty, want, e)
    return t, ty

  def coerce(self, t, ty, want, node):
    if ty == VEC and want == TREE:
      return f'(vlift {t})', TREE
    if ty == ZT and want == NQ:
      return f'(NanQ.of_Z {t})', NQ
    if ty == NONE_TY and is_opt(want):
      return t, want
    if ty == 'emptylist' and isinstance(want, str) and want.startswith('list'):
      return t, want
    if is_opt(want) and tystr(ty) == tystr(want[1]):
      return f'(Some {t})', want
    if ty == TREE and want == VEC:      # only finite trees are vectors: bind through unlift
      self.fresh += 1
      v = f'finite_{self.fresh}'
      self.binds.append((v, f'unlift {t}'))
      self.partial = True
      return v, VEC
    self.fail(f'type {tystr(ty)} where {tystr(want)} expected', node)

  def _ex(self, e, env):
    for f in self.node_rules:
      r = f(self, e, env)
      if r is not None:
        return r
    for p, f in self.rules:
      holes = {}
      if match(e, p, holes):
        r = f(self, holes, env)
        if r is not None:
          return r
    if isinstance(e, ast.Name):
      if e.id in env:
        return e.id, env[e.id]
      self.fail('unknown name ' + e.id)
    if isinstance(e, ast.Tuple):
      parts = [self.ex(x, env) for x in e.elts]
      return '(' + ', '.join(t for t, _ in parts) + ')', tuple(ty for _, ty in parts)
    if isinstance(e, ast.List) and not e.elts:
      return '[]', 'emptylist'
    if isinstance(e, ast.Constant) and e.value is None:
      return 'None', NONE_TY
    if isinstance(e, ast.Constant) and isinstance(e.value, (int, float)) and not isinstance(e.value, bool):
      if isinstance(e.value, int):
        return (f'{e.value}%Z' if e.value >= 0 else f'({e.value})%Z'), ZT
      fr = Fraction(*e.value.as_integer_ratio())
      return f'(NanQ.of_Q ({fr.numerator} # {fr.denominator}))', NQ
    self.fail('expression outside the subset', e)

  # ---- statements ----
  def take(self):
    b, self.binds = self.binds, []
    if b and not self.partial_fn:
      self.fail('a partial operation in a function that was declared total')
    return b

  @staticmethod
  def wrap(binds, body):
    for v, t in reversed(binds):
      body = f'match {t} with Some {v} =>\n  {body}\n  | None => None end'
    return body

  def targets(self, s):
    """Names a statement (re)binds."""
    out = []

    def tgt(x):
      if isinstance(x, ast.Name):
        out.append(x.id)
      elif isinstance(x, ast.Tuple):
        for y in x.elts:
          tgt(y)
      elif isinstance(x, ast.Subscript):
        tgt(x.value)
    if isinstance(s, ast.Assign):
      for t in s.targets:
        tgt(t)
    elif isinstance(s, ast.AugAssign):
      tgt(s.target)
    elif isinstance(s, ast.Expr) and isinstance(s.value, ast.Call) and isinstance(s.value.func, ast.Attribute) \
        and s.value.func.attr == 'append' and isinstance(s.value.func.value, ast.Name):
      out.append(s.value.func.value.id)
    elif isinstance(s, ast.If):
      for x in s.body + s.orelse:
        out += self.targets(x)
    elif isinstance(s, ast.For):
      for x in s.body:
        out += self.targets(x)
    return [n for i, n in enumerate(out) if n not in out[:i] and n != '_']

  def assigned(self, stmts):
    out = []
    for s in stmts:
      if self.dropped(s):
        continue
      for n in self.targets(s):
        if n not in out:
          out.append(n)
    return out

  def dropped(self, s):
    """A statement all of whose targets are unmodelled names."""
    t = self.targets(s)
    return bool(t) and all(n in self.ignore for n in t)

  def block(self, stmts, env, k):
    """Compiles stmts; k(env) gives the term when the block falls off its end."""
    if not stmts:
      return k(env)
    s, rest = stmts[0], stmts[1:]
    if isinstance(s, ast.Expr) and isinstance(s.value, ast.Constant):
      return self.block(rest, env, k)
    if isinstance(s, ast.FunctionDef):            # nested defs are translated on their own
      return self.block(rest, env, k)
    if self.dropped(s):
      return self.block(rest, env, k)
    if isinstance(s, ast.Delete):
      gone = [x.id for x in s.targets if isinstance(x, ast.Name)]
      return self.block(rest, {n: t for n, t in env.items() if n not in gone}, k)
    if isinstance(s, ast.Return):
      if rest:
        self.fail('statements after return')
      val = s.value
      if isinstance(val, ast.Tuple):          # unmodelled components of the result become tt
        parts = [('tt', 'unit') if isinstance(x, ast.Name) and x.id in self.ignore else self.ex(x, env) for x in val.elts]
        t, ty = '(' + ', '.join(a for a, _ in parts) + ')', tuple(b for _, b in parts)
      else:
        t, ty = self.ex(val, env)
      self.ret_type = ty
      return self.wrap(self.take(), f'Some {t}' if self.partial_fn else t)
    if isinstance(s, ast.Assign) and len(s.targets) == 1:
      tgt = s.targets[0]
      if isinstance(tgt, ast.Name):
        want = self.decl.get(tgt.id)
        t, ty = self.ex(s.value, env, want)
        b = self.take()
        env2 = dict(env)
        env2[tgt.id] = ty
        return self.wrap(b, f'let {tgt.id} := {t} in\n  ' + self.block(rest, env2, k))
      if isinstance(tgt, ast.Tuple) and all(isinstance(x, ast.Name) for x in tgt.elts):
        t, ty = self.ex(s.value, env)
        if not isinstance(ty, tuple) or is_opt(ty) or len(ty) != len(tgt.elts):
          self.fail('tuple assignment from a non-tuple', s)
        b = self.take()
        env2 = dict(env)
        for x, xt in zip(tgt.elts, ty):
          if x.id != '_':
            env2[x.id] = xt
        return self.wrap(b, f'let {destruct([x.id for x in tgt.elts])} := {t} in\n  ' + self.block(rest, env2, k))
      if isinstance(tgt, ast.Subscript) and isinstance(tgt.value, ast.Name) and tgt.value.id in env:
        cont = tgt.value.id
        f = self.setitem.get(tystr(env[cont]))
        if f is None:
          self.fail('item assignment into ' + tystr(env[cont]), s)
        t = f(self, cont, tgt.slice, s.value, env)
        b = self.take()
        return self.wrap(b, f'let {cont} := {t} in\n  ' + self.block(rest, env, k))
      self.fail('assignment target', s)
    if isinstance(s, ast.AugAssign) and isinstance(s.op, ast.Add):
      if isinstance(s.target, ast.Name):
        n = s.target.id
        if n not in env:
          self.fail('augmented assignment to unknown ' + n)
        if env[n] == NQ:
          t = f'NanQ.add {n} {self.ex(s.value, env, NQ)[0]}'
        elif env[n] == ZT:
          t = f'({n} + {self.ex(s.value, env, ZT)[0]})%Z'
        else:
          self.fail('+= on ' + tystr(env[n]), s)
      elif isinstance(s.target, ast.Subscript) and isinstance(s.target.value, ast.Name) and env.get(s.target.value.id) == 'list (Z)':
        n = s.target.value.id
        i, _ = self.ex(s.target.slice, env, 'nat')
        t = f'list_set {n} {i} (nth {i} {n} 0%Z + {self.ex(s.value, env, ZT)[0]})%Z'
      else:
        self.fail('augmented assignment target', s)
      b = self.take()
      return self.wrap(b, f'let {n} := {t} in\n  ' + self.block(rest, env, k))
    if isinstance(s, ast.Expr) and isinstance(s.value, ast.Call) and isinstance(s.value.func, ast.Attribute) \
        and s.value.func.attr == 'append' and isinstance(s.value.func.value, ast.Name) and len(s.value.args) == 1:
      n = s.value.func.value.id
      elem = self.elem_types.get(tystr(env.get(n, '?')))
      if elem is None:
        self.fail('append to a list of unknown element type', s)
      v, _ = self.ex(s.value.args[0], env, elem)
      b = self.take()
      return self.wrap(b, f'let {n} := {n} ++ [{v}] in\n  ' + self.block(rest, env, k))
    if isinstance(s, ast.For):
      return self.for_loop(s, rest, env, k)
    if isinstance(s, ast.If):
      return self.if_stmt(s, rest, env, k)
    self.fail('statement outside the subset', s)

  def for_loop(self, s, rest, env, k):
    if s.orelse:
      self.fail('for-else')
    it, ity = self.ex(s.iter, env)
    if self.binds:
      self.fail('partial operation in a loop header')
    elem = self.elem_types.get(tystr(ity))
    if elem is None:
      self.fail('loop over ' + tystr(ity) + ' (unknown element type)', s.iter)
    tgt = s.target
    names = [x.id for x in tgt.elts] if isinstance(tgt, ast.Tuple) else [tgt.id]
    if len(names) > 1 and (not isinstance(elem, tuple) or is_opt(elem) or len(elem) != len(names)):
      self.fail('loop target arity', s)
    carried = [n for n in self.assigned(s.body) if n in env]
    if not carried:
      self.fail('loop without carried state', s)
    env2 = dict(env)
    for n, t in zip(names, elem if len(names) > 1 else [elem]):
      env2[n] = t
    tup = '(' + ', '.join(carried) + ')'
    sty = ' * '.join(tystr(env[n]) for n in carried)
    head = f'let {destruct(carried)} := st in let {destruct(names)} := el in\n    '
    # first pass: does the body use a partial operation?
    saved = (self.partial, self.partial_fn, self.fresh)
    self.partial, self.partial_fn = False, True
    self.block(s.body, env2, lambda e: f'Some {tup}')
    monadic = self.partial
    self.partial, self.partial_fn, self.fresh = saved
    if not monadic:
      was_fn = self.partial_fn
      self.partial_fn = False
      inner = self.block(s.body, env2, lambda e: tup)
      self.partial_fn = was_fn
      step = f'(fun (st : {sty}) (el : {tystr(elem)}) =>\n    {head}{inner})'
      return f'let {destruct(carried)} := fold_left {step}\n    {it} {tup} in\n  ' + self.block(rest, env, k)
    if not self.partial_fn:
      self.fail('a partial operation in a loop of a function that was declared total')
    self.partial = True
    inner = self.block(s.body, env2, lambda e: f'Some {tup}')
    step = (f'(fun (ost : option ({sty})) (el : {tystr(elem)}) =>\n    match ost with None => None | Some st =>\n    {head}{inner} end)')
    return (f'match fold_left {step}\n    {it} (Some {tup}) with Some {tup} =>\n  ' + self.block(rest, env, k) + '\n  | None => None end')

  def if_stmt(self, s, rest, env, k):
    test = s.test
    if isinstance(test, ast.Compare) and len(test.ops) == 1 and isinstance(test.comparators[0], ast.Constant) \
        and test.comparators[0].value is None and isinstance(test.left, ast.Name) and test.left.id in self.skip_if_none:
      live = s.orelse if isinstance(test.ops[0], ast.IsNot) else s.body
      return self.block(live + rest, env, k)
    if isinstance(test, ast.Name) and test.id in self.const_true:
      if s.body and isinstance(s.body[-1], ast.Return):
        return self.block(s.body, env, k)        # the rest is dead code
      return self.block(s.body + rest, env, k)
    both = [n for n in self.assigned(s.body) if n in self.assigned(s.orelse)]
    vs = [n for n in self.assigned(s.body) + self.assigned(s.orelse) if n in both or n in env]
    vs = [n for i, n in enumerate(vs) if n not in vs[:i]]
    if not vs:
      self.fail('if statement without effect', s)
    a_env, b_env = {}, {}

    def fin(store):
      def f(e):
        store.update(e)
        return '(' + ', '.join(vs) + ')'
      return f
    cond, a_pre, b_pre = self.cond(test, env)
    # first pass: types of the branch variables, and whether a branch is partial
    saved = (self.partial, self.partial_fn, self.fresh)
    self.partial, self.partial_fn = False, True
    self.block(s.body, dict(env, **a_pre), fin(a_env))
    self.block(s.orelse, dict(env, **b_pre), fin(b_env))
    monadic = self.partial
    self.partial, self.partial_fn, self.fresh = saved
    env2 = dict(env)
    for n in vs:
      if n not in a_env or n not in b_env:
        self.fail(f'{n} is not defined on both branches', s)
      ty = a_env[n] if a_env[n] != NONE_TY else b_env[n]
      if tystr(a_env[n]) != tystr(b_env[n]) and NONE_TY not in (a_env[n], b_env[n]):
        self.fail(f'{n} has different types on the two branches', s)
      env2[n] = ty
    tup = '(' + ', '.join(vs) + ')'
    if not monadic:
      was_fn = self.partial_fn
      self.partial_fn = False
      ta = self.block(s.body, dict(env, **a_pre), lambda e: tup)
      tb = self.block(s.orelse, dict(env, **b_pre), lambda e: tup)
      self.partial_fn = was_fn
      return f'let {destruct(vs)} := {cond.format(ta, tb)} in\n  ' + self.block(rest, env2, k)
    if not self.partial_fn:
      self.fail('a partial operation in a branch of a function that was declared total')
    self.partial = True
    ta = self.block(s.body, dict(env, **a_pre), lambda e: f'Some {tup}')
    tb = self.block(s.orelse, dict(env, **b_pre), lambda e: f'Some {tup}')
    return (f'match {cond.format(ta, tb)} with Some {tup} =>\n  ' + self.block(rest, env2, k) + '\n  | None => None end')

  def cond(self, test, env):
    """(format string with {0} then-term and {1} else-term, env additions then, env additions else)."""
    if isinstance(test, ast.Compare) and len(test.ops) == 1:
      l, op, r = test.left, test.ops[0], test.comparators[0]
      if isinstance(r, ast.Constant) and r.value is None and isinstance(l, ast.Name) and is_opt(env.get(l.id)):
        inner = env[l.id][1]
        if isinstance(op, ast.Is):
          return f'(match {l.id} with None => {{0}} | Some {l.id} => {{1}} end)', {}, {l.id: inner}
        if isinstance(op, ast.IsNot):
          return f'(match {l.id} with Some {l.id} => {{0}} | None => {{1}} end)', {l.id: inner}, {}
      if isinstance(op, ast.Gt) and isinstance(r, ast.Constant) and r.value == 0 and not isinstance(r.value, bool):
        t, ty = self.ex(l, env)
        if ty == ZT:
          return f'(if (0 <? {t})%Z then {{0}} else {{1}})', {}, {}
    self.fail('condition outside the subset', test)

  # ---- functions ----
  def function(self, fd, coqname, params, partial=False, extra_env=None, decl=None, body=None):
    """fd: ast.FunctionDef; params: [(python name, type)] in order (checked); decl: declared types of
    local names whose initial value does not determine it ([] / None).  Returns Gallina text."""
    got = [a.arg for a in fd.args.args if a.arg != 'self']
    if got != [n for n, _ in params] or fd.args.vararg or fd.args.kwarg or fd.args.kwonlyargs:
      self.fail(f'{fd.name}: parameters {got}, expected {[n for n, _ in params]}')
    self.partial_fn = partial
    self.partial = False
    self.binds = []
    self.ret_type = None
    self.decl = dict(decl or {})
    env = dict(extra_env or {})
    env.update({n: t for n, t in params})
    text = self.block(list(fd.body if body is None else body), env, lambda e: self.fail(f'{fd.name}: falls off the end'))
    if self.partial and not partial:
      self.fail(f'{fd.name}: uses a partial operation but was declared total')
    binders = ' '.join(f'({n} : {tystr(t)})' for n, t in params)
    return f'Definition {coqname} {binders} :=\n  {text}.'


def slice_for(stmts, wanted_names):
  """Backward slice of a straight-line statement list: the statements that define (transitively)
  the wanted names, in order."""
  need = set(wanted_names)
  keep = []
  for s in reversed(stmts):
    tg = set()
    for n in ast.walk(s):
      if isinstance(n, ast.Name) and isinstance(n.ctx, ast.Store):
        tg.add(n.id)
    if not isinstance(s, (ast.Assign, ast.AugAssign)):
      continue
    if tg & need:
      keep.append(s)
      need |= {n.id for n in ast.walk(s.value) if isinstance(n, ast.Name)}
  return list(reversed(keep))
