"""Translator anchors for the round code of the federated algorithms (C01, C12):
fed_avg.py, fed_prox.py (create_train_for_each_client: client_init / client_step /
client_final; apply; server_update), mime.py, mime_lite.py (both client programs, the
full-gradient pass, apply, server_update), hyp_cluster.py (_BaseClientTrainer steps,
train_per_client_params, expectation_step, the apply loop with its `None` branch) and the
global part of apfl.py.  Compiled by tools/lib/roundtr.py (fail-closed).
Reading conventions (trusted):

  pytree of params / grads / deltas    list Q            (flattened leaf vector)
  running sums, means                  list NanQ.t       (translated tree_util functions)
  a dict step state {'params': ..}     a record with one field per key (f_<key>)
  d = {k: len(v) ...}; d[k]            dict_of / num_of   (Model/C01_Model.v)
  client_diagnostics[id] = {'delta_l2_norm': tree_l2_norm(x)}     dict_set .. (sumsq x)   (square of the norm)
  for_each_client(init, step, final)   the sequential fold of Model/C01_Model.for_each_client
                                       (that the backends implement it is C02)
  optimizer applied to a pytree        requires a finite tree: `unlift`, else the function returns None
  jax.random.split(rng)                `split` : K -> K * U for (rng, use_rng); `split3` for 3 keys; `split_pair`
Unmodelled parts (statements dropped by name, listed per anchor): APFL's personal model
(client_states, interpolation), HypCluster's diagnostics, MimeLite's clipping branch
(client_delta_clip_norm is None in every configuration the property names).
"""
import ast

from translate import Unsupported, find_def
from lib.roundtr import RT, VEC, TREE, ZT, NQ, tystr, src, match, pat, slice_for

ALG = 'fedjax/algorithms/'
DIAG = 'list (Z * Q)'
NUMS = 'list (Z * Z)'
CLIENTS = 'list (Z * DS * K)'
BCLIENTS = 'list (Z * list B * K)'
OUTS = 'list (Z * list Q)'
ELEMS = {OUTS: (ZT, VEC)}


def _t(rt, h, env, name, want=None):
  return rt.ex(h[name], env, want)[0]


def un(fmt, *specs, ret):
  def f(rt, h, env):
    return '(' + fmt.format(*[_t(rt, h, env, n, w) for n, w in specs]) + ')', ret
  return f


def nq_add(rt, h, env):
  a, ta = rt.ex(h['E_a'], env)
  if ta != NQ:
    return None
  return f'(NanQ.add {a} {_t(rt, h, env, "E_b", NQ)})', NQ


TREE_RULES = [
    ('tree_util.tree_zeros_like(E_a)', un('tree_zeros_like {0}', ('E_a', TREE), ret=TREE)),
    ('tree_util.tree_add(E_a, E_b)', un('tree_add {0} {1}', ('E_a', TREE), ('E_b', TREE), ret=TREE)),
    ('tree_util.tree_weight(E_a, E_w)', un('tree_weight {0} {1}', ('E_a', TREE), ('E_w', NQ), ret=TREE)),
    ('tree_util.tree_inverse_weight(E_a, E_w)', un('tree_inverse_weight {0} {1}', ('E_a', TREE), ('E_w', NQ), ret=TREE)),
    ('jax.tree_util.tree_map(lambda a, b: a - b, E_x, E_y)', un('vsub {0} {1}', ('E_x', VEC), ('E_y', VEC), ret=VEC)),
    ('jax.tree_util.tree_map(jnp.subtract, E_x, E_y)', un('vsub {0} {1}', ('E_x', VEC), ('E_y', VEC), ret=VEC)),
    ('jax.tree_util.tree_map(jnp.zeros_like, E_x)', un('tree_zeros_like {0}', ('E_x', TREE), ret=TREE)),
    ('jax.tree_util.tree_map(lambda g, cc, c: g - cc + c, E_g, E_cc, E_c)',
     un('vadd (vsub {0} {1}) {2}', ('E_g', VEC), ('E_cc', VEC), ('E_c', VEC), ret=VEC)),
    ('jax.tree_util.tree_map(lambda p, q: p - server_learning_rate * q, E_p, E_q)',
     un('map2 (fun p q => p - server_learning_rate * q) {0} {1}', ('E_p', VEC), ('E_q', VEC), ret=VEC)),
    ('E_a + E_b', nq_add),
]


def fld(rec, key):
  return ('f_' if rec == 'cstate' else rec + '_') + key


def record_rules(records):
  """records: {record name: {key: type}}.  A dict display with exactly a record's keys -> constructor;
  x['key'] on a record-typed expression -> projection."""
  def mk(rt, node, env):
    if not isinstance(node, ast.Dict) or not node.keys:
      return None
    ks = [k.value if isinstance(k, ast.Constant) else None for k in node.keys]
    for rec, fields in records.items():
      if None not in ks and sorted(ks) == sorted(fields):
        by = dict(zip(ks, node.values))
        args = ' '.join(rt.ex(by[k], env, fields[k])[0] for k in fields)
        return f'(mk_{rec} {args})', rec
    return None

  def get(rt, node, env):
    if isinstance(node, ast.Subscript) and isinstance(node.slice, ast.Constant) and isinstance(node.slice.value, str):
      t, ty = rt.ex(node.value, env)
      if ty in records and node.slice.value in records[ty]:
        return f'({fld(ty, node.slice.value)} {t})', records[ty][node.slice.value]
    return None
  return [mk, get]


def record_decl(rec, fields):
  return f'Record {rec} := mk_{rec} {{ ' + '; '.join(f'{fld(rec, k)} : {tystr(t)}' for k, t in fields.items()) + ' }.'


def diag_setitem(rt, cont, key, value, env):
  h = {}
  if not match(value, pat("{'delta_l2_norm': tree_util.tree_l2_norm(E_x)}"), h):
    rt.fail('diagnostics entry is not {delta_l2_norm: tree_l2_norm(..)}', value)
  k, _ = rt.ex(key, env, ZT)
  x, _ = rt.ex(h['E_x'], env, VEC)
  return f'dict_set {cont} {k} (sumsq {x})'


def partial_call(fn, specs, ret):
  """A call of a translated function that returns option: bound like unlift."""
  def f(rt, h, env):
    args = ' '.join(_t(rt, h, env, n, w) for n, w in specs)
    rt.fresh += 1
    v = f'updated_{rt.fresh}'
    rt.binds.append((v, f'{fn} {args}'))
    rt.partial = True
    return v, ret
  return f


def nums_get(rt, h, env):
  if env.get(h['N_d']) != NUMS:
    return None
  return f'(num_of {h["N_d"]} {_t(rt, h, env, "E_k", ZT)})', ZT


def comp_clients(fmt, ret, src_ty=CLIENTS):
  """[<tuple of a, b.method(..), c> for a, b, c in clients]  ->  map over the client tuples."""
  def f(rt, h, env):
    if env.get(h['N_l']) != src_ty:
      return None
    a, b, c = h['N_a'], h['N_b'], h['N_c']
    return f"(map (fun x : Z * DS * K => let '({a}, {b}, {c}) := x in {fmt.format(a=a, b=b, c=c)}) {h['N_l']})", ret
  return f


def apply_rules(state_ty, os_ty):
  return [
      ('server_state.params', lambda rt, h, env: ('(fst server_state)', VEC) if tystr(env.get('server_state')) == tystr(state_ty) else None),
      ('server_state.opt_state', lambda rt, h, env: ('(snd server_state)', os_ty) if tystr(env.get('server_state')) == tystr(state_ty) else None),
      ('N_d[E_k]', nums_get),
      ('{N_a: len(N_b) for N_a, N_b, _ in N_c}',
       lambda rt, h, env: (f"(dict_of (map (fun x : Z * DS * K => let '({h['N_a']}, {h['N_b']}, _) := x in ({h['N_a']}, len {h['N_b']})) {h['N_c']}))", NUMS)
       if env.get(h['N_c']) == CLIENTS else None),
      ('[(N_a, N_b.shuffle_repeat_batch(client_batch_hparams), N_c) for N_a, N_b, N_c in N_l]',
       comp_clients('({a}, shuffle_repeat_batch {b}, {c})', BCLIENTS)),
      ('[(N_a, N_b.padded_batch(grads_batch_hparams), N_c) for N_a, N_b, N_c in N_l]',
       comp_clients('({a}, padded_batch {b}, {c})', 'list (Z * list PB * K)')),
      ('{}', lambda rt, h, env: ('[]', DIAG)),
      ('train_for_each_client(E_p, E_c)', un('train_for_each_client {0} {1}', ('E_p', VEC), ('E_c', BCLIENTS), ret=OUTS)),
  ] + TREE_RULES


def gd_client_rules():
  return [
      ('client_optimizer.init(E_p)', un('client_optimizer_init {0}', ('E_p', VEC), ret='S')),
      ('client_optimizer.apply(E_g, E_s, E_p)', un('client_optimizer_apply {0} {1} {2}', ('E_g', VEC), ('E_s', 'S'), ('E_p', VEC), ret=('S', VEC))),
      ('base_optimizer.apply(E_g, E_s, E_p)', un('client_optimizer_apply {0} {1} {2}', ('E_g', VEC), ('E_s', 'S'), ('E_p', VEC), ret=('S', VEC))),
      ('jax.random.split(E_k)', un('split {0}', ('E_k', 'K'), ret=('K', 'U'))),
      ('jax.random.split(E_k, 3)', un('split3 {0}', ('E_k', 'K'), ret=('K', 'U', 'U'))),
      ('grad_fn(E_p, E_b, E_r)', lambda rt, h, env: None if rt.ex(h['E_b'], env)[1] != 'B' else
       un('grad_fn {0} {1} {2}', ('E_p', VEC), ('E_b', 'B'), ('E_r', 'U'), ret=VEC)(rt, h, env)),
      ('grad_fn(E_p, E_b, E_r)', un('grad_fn_padded {0} {1} {2}', ('E_p', VEC), ('E_b', 'PB'), ('E_r', 'U'), ret=VEC)),
      ('grad_fn(E_p, E_s, E_b, E_r)', un('grad_fn {0} {1} {2} {3}', ('E_p', VEC), ('E_s', VEC), ('E_b', 'B'), ('E_r', 'U'), ret=VEC)),
      ('jnp.sum(E_b[client_datasets.EXAMPLE_MASK_KEY])', un('NanQ.of_Z (num_real {0})', ('E_b', 'PB'), ret=NQ)),
  ] + TREE_RULES


def _ends_with(fd, where, text):
  if not isinstance(fd.body[-1], ast.Return) or src(fd.body[-1]) != text:
    raise Unsupported(f'{where}: does not end in `{text}`')


def emit_program(builder, builder_params, records, state_rec, fns, prefix, shared_ty=VEC, input_ty='K', batch_ty='B', out_name='train_for_each_client'):
  """A for_each_client builder: nested client_init / client_step / client_final."""
  def emit(tree):
    fd = find_def(tree, builder)
    if [a.arg for a in fd.args.args] != builder_params:
      raise Unsupported(builder + ': parameters')
    _ends_with(fd, builder, 'return for_each_client.for_each_client(client_init, client_step, client_final)')
    out = [record_decl(r, f) for r, f in records.items() if r.startswith(prefix)]
    sig = {'client_init': [(fns['init'][0], shared_ty), (fns['init'][1], input_ty)],
           'client_step': [(fns['step'][0], state_rec), (fns['step'][1], batch_ty)],
           'client_final': [(fns['final'][0], shared_ty), (fns['final'][1], state_rec)]}
    for name, params in sig.items():
      rt = RT(gd_client_rules(), f'{builder}.{name}', node_rules=record_rules(records))
      out.append(rt.function(find_def(tree, f'{builder}.{name}'), prefix + name, params))
    out.append(f'Definition {prefix}{out_name} := for_each_client {prefix}client_init {prefix}client_step {prefix}client_final.')
    return '\n'.join(out)
  return emit


def emit_fedavg_like_apply(qual):
  """apply + server_update of federated_averaging / fed_prox (same statements)."""
  state_ty = (VEC, 'OS')

  def emit(tree):
    rules = apply_rules(state_ty, 'OS') + [
        ('server_optimizer.apply(E_g, E_s, E_p)', un('server_optimizer_apply {0} {1} {2}', ('E_g', VEC), ('E_s', 'OS'), ('E_p', VEC), ret=('OS', VEC))),
        ('ServerState(E_p, E_o)', un('({0}, {1})', ('E_p', VEC), ('E_o', 'OS'), ret=state_ty)),
        ('server_update(E_s, E_m)', partial_call('server_update', [('E_s', state_ty), ('E_m', TREE)], state_ty)),
    ]
    t1 = RT(rules, qual + '.server_update').function(find_def(tree, qual + '.server_update'), 'server_update',
                                                      [('server_state', state_ty), ('mean_delta_params', TREE)], partial=True)
    t2 = RT(rules, qual + '.apply', setitem={DIAG: diag_setitem}, list_elem=ELEMS).function(
        find_def(tree, qual + '.apply'), 'apply', [('server_state', state_ty), ('clients', CLIENTS)], partial=True)
    return t1 + '\n' + t2
  return emit


# ---- mime / mime_lite -------------------------------------------------------------------------

MIME_RECORDS = {
    'g_cstate': {'params': VEC, 'rng': 'K', 'num_sum': NQ, 'grads_sum': TREE},
    't_cstate': {'params': VEC, 'opt_state': 'S', 'rng': 'K', 'init_params': VEC, 'control_variate': VEC},
    't_shared': {'params': VEC, 'opt_state': 'S', 'control_variate': VEC},
}
MIMELITE_RECORDS = {
    't_cstate': {'params': VEC, 'opt_state': 'S', 'rng': 'K'},
    't_shared': {'params': VEC, 'opt_state': 'S'},
}
GOUT = 'list (Z * (list NanQ.t * NanQ.t))'


def emit_mime_apply(qual, records, grads_fn):
  """apply + server_update of mime / mime_lite."""
  state_ty = (VEC, 'S')

  def emit(tree):
    rules = [
        (f'tree_util.tree_sum((N_x for _, N_x in {grads_fn}(E_p, E_c)))',
         un(f'tree_sum_pairs (map snd ({grads_fn} {{0}} {{1}}))', ('E_p', VEC), ('E_c', 'list (Z * list PB * K)'),
            ret=('option', (TREE, NQ)))),
        ('train_for_each_client(E_p, E_c)', un('train_for_each_client {0} {1}', ('E_p', 't_shared'), ('E_c', BCLIENTS), ret=OUTS)),
        ('base_optimizer.apply(E_g, E_s, E_p)', un('client_optimizer_apply {0} {1} {2}', ('E_g', VEC), ('E_s', 'S'), ('E_p', VEC), ret=('S', VEC))),
        ('mime.ServerState(E_p, E_o)', un('({0}, {1})', ('E_p', VEC), ('E_o', 'S'), ret=state_ty)),
        ('ServerState(E_p, E_o)', un('({0}, {1})', ('E_p', VEC), ('E_o', 'S'), ret=state_ty)),
        ('server_update(E_s, E_g, E_m)', partial_call('server_update', [('E_s', state_ty), ('E_g', TREE), ('E_m', TREE)], state_ty)),
    ] + apply_rules(state_ty, 'S')
    nr = record_rules({'t_shared': records['t_shared']})
    t1 = RT(rules, qual + '.server_update', node_rules=nr).function(
        find_def(tree, qual + '.server_update'), 'server_update',
        [('server_state', state_ty), ('server_grads', TREE), ('mean_delta_params', TREE)], partial=True)
    t2 = RT(rules, qual + '.apply', node_rules=nr, setitem={DIAG: diag_setitem}, list_elem=ELEMS,
            skip_if_none=('client_delta_clip_norm',)).function(
        find_def(tree, qual + '.apply'), 'apply', [('server_state', state_ty), ('clients', CLIENTS)], partial=True)
    return t1 + '\n' + t2
  return emit


def emit_mimelite_uses_mime_grads(tree):
  """mime_lite builds its full-gradient pass with mime.create_grads_for_each_client(grad_fn), grad_fn being the
  regularised gradient it also trains with."""
  fd = find_def(tree, 'mime_lite')
  body = [s for s in fd.body if isinstance(s, ast.Assign)]
  want = ['grad_fn = models.grad(per_example_loss, regularizer)',
          'grads_for_each_client = mime.create_grads_for_each_client(grad_fn)',
          'train_for_each_client = create_train_for_each_client(grad_fn, base_optimizer)']
  if [src(s) for s in body[:3]] != want:
    raise Unsupported('mime_lite: the three builder assignments changed: ' + ' | '.join(src(s) for s in body[:3]))
  return ('(* grad_fn = models.grad(per_example_loss, regularizer) is used for BOTH passes *)\n'
          'Definition mimelite_one_grad_fn_for_both_passes : bool := true.')


def emit_mime_one_grad_fn(tree):
  fd = find_def(tree, 'mime')
  body = [s for s in fd.body if isinstance(s, ast.Assign)]
  want = ['grad_fn = models.grad(per_example_loss, regularizer)',
          'grads_for_each_client = create_grads_for_each_client(grad_fn)',
          'train_for_each_client = create_train_for_each_client(grad_fn, base_optimizer)']
  if [src(s) for s in body[:3]] != want:
    raise Unsupported('mime: the three builder assignments changed: ' + ' | '.join(src(s) for s in body[:3]))
  return ('(* grad_fn = models.grad(per_example_loss, regularizer) is used for BOTH passes *)\n'
          'Definition mime_one_grad_fn_for_both_passes : bool := true.')


# ---- hyp_cluster ------------------------------------------------------------------------------

HC_STATE = ('K', VEC, 'S', VEC)
HC_IN = 'list (Z * list B * K * list Q)'


def emit_hc_trainer(tree):
  base = '_BaseClientTrainer.__init__'
  fd = find_def(tree, base)
  want = 'self._train_each_client = for_each_client.for_each_client(client_init, client_step, client_final)'
  if want not in [src(s) for s in fd.body]:
    raise Unsupported(base + ': for_each_client call changed')
  out = []
  rules = gd_client_rules()
  out.append(RT(rules, base + '.client_init', skip_if_none=('shared_input',)).function(
      find_def(tree, base + '.client_init'), 'hc_client_init', [('shared_input', 'unit'), ('client_input', ('K', VEC))]))
  out.append(RT(rules, base + '.client_step').function(
      find_def(tree, base + '.client_step'), 'hc_client_step', [('state', HC_STATE), ('batch', 'B')]))
  out.append(RT(rules, base + '.client_final', const_true=('return_delta',)).function(
      find_def(tree, base + '.client_final'), 'hc_client_final', [('shared_input', 'unit'), ('state', HC_STATE)]))
  # ClientDeltaTrainer passes return_delta=True
  cd = find_def(tree, 'ClientDeltaTrainer.__init__')
  if 'super().__init__(grad_fn, client_optimizer, return_delta=True)' not in [src(s) for s in cd.body]:
    raise Unsupported('ClientDeltaTrainer: return_delta')
  tp = find_def(tree, '_BaseClientTrainer.train_per_client_params')
  body = [s for s in tp.body if not (isinstance(s, ast.Expr) and isinstance(s.value, ast.Constant))]
  want = ('yield from self._train_each_client(shared_input=None, clients=[(client_id, batches, (rng, params)) '
          'for client_id, batches, rng, params in clients])')
  if len(body) != 1 or src(body[0]) != want:
    raise Unsupported('train_per_client_params changed')
  out.append("Definition train_per_client_params (clients : " + HC_IN + ") : list (Z * list Q) :=\n"
             "  for_each_client hc_client_init hc_client_step hc_client_final tt\n"
             "    (map (fun x : Z * list B * K * list Q => let '(client_id, batches, rng, params) := x in (client_id, batches, (rng, params))) clients).")
  return '\n'.join(out)


def hc_list_setitem(rt, cont, key, value, env):
  i, _ = rt.ex(key, env, 'nat')
  v, _ = rt.ex(value, env, TREE)
  return f'list_set {cont} {i} {v}'


def emit_hc_expectation(tree):
  fd = find_def(tree, 'expectation_step')
  rules = [
      ('{N_a: len(N_b) for N_a, N_b, _ in N_c}',
       lambda rt, h, env: (f"(dict_of (map (fun x : Z * DS * K => let '({h['N_a']}, {h['N_b']}, _) := x in ({h['N_a']}, len {h['N_b']})) {h['N_c']}))", NUMS)),
      ('[jax.tree_util.tree_map(jnp.zeros_like, N_p) for N_p in N_l]',
       lambda rt, h, env: (f"(map (fun {h['N_p']} : list Q => tree_zeros_like (vlift {h['N_p']})) {h['N_l']})", 'list (list NanQ.t)')),
      ('[0 for _ in N_l]', lambda rt, h, env: (f"(map (fun _ : list Q => 0%Z) {h['N_l']})", 'list (Z)')),
      ('trainer.train_per_client_params([(N_a, N_b.shuffle_repeat_batch(batch_hparams), N_c, cluster_params[client_cluster_ids[N_a]]) '
       'for N_a, N_b, N_c in N_l])',
       lambda rt, h, env: (f"(train_per_client_params (map (fun x : Z * DS * K => let '({h['N_a']}, {h['N_b']}, {h['N_c']}) := x in "
                           f"({h['N_a']}, shuffle_repeat_batch {h['N_b']}, {h['N_c']}, nth (client_cluster_ids {h['N_a']}) cluster_params [])) {h['N_l']}))", OUTS)),
      ('client_cluster_ids[E_k]', un('client_cluster_ids {0}', ('E_k', ZT), ret='nat')),
      ('N_d[E_k]', nums_get),
      ('N_l[E_i]', lambda rt, h, env: (f"(nth {_t(rt, h, env, 'E_i', 'nat')} {h['N_l']} [])", TREE) if env.get(h['N_l']) == 'list (list NanQ.t)' else None),
      ('zip(E_a, E_b)', un('combine {0} {1}', ('E_a', 'list (list NanQ.t)'), ('E_b', 'list (Z)'), ret='list (list NanQ.t * Z)')),
      ('[]', lambda rt, h, env: ('[]', 'list (option (list NanQ.t))')),
  ] + TREE_RULES
  rt = RT(rules, 'expectation_step', setitem={'list (list NanQ.t)': hc_list_setitem},
          list_elem={OUTS: (ZT, VEC), 'list (list NanQ.t * Z)': (TREE, ZT), 'list (option (list NanQ.t))': ('option', TREE)})
  got = [a.arg for a in fd.args.args]
  if got != ['trainer', 'cluster_params', 'client_cluster_ids', 'clients', 'batch_hparams']:
    raise Unsupported('expectation_step: parameters')
  fd2 = ast.FunctionDef(name=fd.name, args=ast.arguments(posonlyargs=[], args=[a for a in fd.args.args if a.arg not in ('trainer', 'batch_hparams')],
                                                         kwonlyargs=[], kw_defaults=[], defaults=[]), body=fd.body, decorator_list=[])
  return rt.function(fd2, 'expectation_step', [('cluster_params', 'list (list Q)'), ('client_cluster_ids', 'Z -> nat'), ('clients', CLIENTS)])


def emit_hc_apply(tree):
  qual = 'hyp_cluster.apply'
  state_ty = ('list (list Q)', 'list (OS)')

  def comp_rng(idx):
    def f(rt, h, env):
      return (f"(map (fun xr : Z * DS * K * (K * K) => let '(({h['N_a']}, {h['N_b']}, _), {h['N_r']}) := xr in "
              f"({h['N_a']}, {h['N_b']}, {idx} {h['N_r']})) (combine clients client_rngs))", CLIENTS)
    return f
  rules = [
      ('server_state.cluster_params', lambda rt, h, env: ('(fst server_state)', 'list (list Q)')),
      ('server_state.opt_states', lambda rt, h, env: ('(snd server_state)', 'list (OS)')),
      ('[jax.random.split(N_r) for _, _, N_r in clients]',
       lambda rt, h, env: (f"(map (fun x : Z * DS * K => let '(_, _, {h['N_r']}) := x in split_pair {h['N_r']}) clients)", 'list (K * K)')),
      ('maximization_step(evaluator=evaluator, cluster_params=E_p, clients=[(N_a, N_b, N_r[0]) for (N_a, N_b, _), N_r in zip(clients, client_rngs)], '
       'batch_hparams=maximization_batch_hparams)',
       lambda rt, h, env: (f"(maximization_step {_t(rt, h, env, 'E_p', 'list (list Q)')} {comp_rng('fst')(rt, h, env)[0]})", 'Z -> nat')),
      ('expectation_step(trainer=trainer, cluster_params=E_p, client_cluster_ids=E_i, clients=[(N_a, N_b, N_r[1]) for (N_a, N_b, _), N_r in zip(clients, client_rngs)], '
       'batch_hparams=expectation_batch_hparams)',
       lambda rt, h, env: (f"(expectation_step {_t(rt, h, env, 'E_p', 'list (list Q)')} {_t(rt, h, env, 'E_i', 'Z -> nat')} {comp_rng('snd')(rt, h, env)[0]})",
                           'list (option (list NanQ.t))')),
      ('zip(E_a, E_b, E_c)', un('combine (combine {0} {1}) {2}', ('E_a', 'list (option (list NanQ.t))'), ('E_b', 'list (OS)'), ('E_c', 'list (list Q)'),
                                ret='list (option (list NanQ.t) * OS * list Q)')),
      ('server_optimizer.apply(E_g, E_s, E_p)', un('server_optimizer_apply {0} {1} {2}', ('E_g', VEC), ('E_s', 'OS'), ('E_p', VEC), ret=('OS', VEC))),
      ('ServerState(E_p, E_o)', un('({0}, {1})', ('E_p', 'list (list Q)'), ('E_o', 'list (OS)'), ret=state_ty)),
  ]
  rt = RT(rules, qual, ignore=('client_diagnostics',),
          list_elem={'list (option (list NanQ.t) * OS * list Q)': (('option', TREE), 'OS', VEC), 'list (list Q)': VEC, 'list (OS)': 'OS'})
  return rt.function(find_def(tree, qual), 'apply', [('server_state', state_ty), ('clients', CLIENTS)], partial=True,
                     decl={'cluster_params': 'list (list Q)', 'opt_states': 'list (OS)'})


# ---- apfl (global part) ---------------------------------------------------------------------

APFL_REC = {'a_cstate': {'server_params': VEC, 'server_opt_state': 'S', 'rng': 'K'}}


def emit_apfl_program(tree):
  """The global part of create_train_for_each_client: the slice of client_init / client_step / client_final that
  defines 'server_params', 'server_opt_state', 'rng' and the 'delta_params' output."""
  builder = 'create_train_for_each_client'
  fd = find_def(tree, builder)
  _ends_with(fd, builder, 'return for_each_client.for_each_client(client_init, client_step, client_final)')
  keys = list(APFL_REC['a_cstate'])
  rules = gd_client_rules() + [("client_input['rng']", lambda rt, h, env: ('client_input', 'K'))]
  out = [record_decl('a_cstate', APFL_REC['a_cstate'])]

  def sliced(name, wanted_keys):
    f = find_def(tree, f'{builder}.{name}')
    ret = f.body[-1]
    if not isinstance(ret, ast.Return) or not isinstance(ret.value, ast.Dict):
      raise Unsupported(f'apfl {name}: does not return a dict display')
    by = {k.value: v for k, v in zip(ret.value.keys, ret.value.values) if isinstance(k, ast.Constant)}
    if any(k not in by for k in wanted_keys):
      raise Unsupported(f'apfl {name}: missing keys')
    vals = [by[k] for k in wanted_keys]
    need = set()
    for v in vals:
      need |= {n.id for n in ast.walk(v) if isinstance(n, ast.Name)}
    kept = slice_for(f.body[:-1], need)
    if len(wanted_keys) == 1:
      new_ret = ast.Return(value=vals[0])
    else:
      new_ret = ast.Return(value=ast.Dict(keys=[ast.Constant(value=k) for k in wanted_keys], values=vals))
    return f, kept + [new_ret]
  f, body = sliced('client_init', keys)
  out.append(RT(rules, 'apfl.client_init', node_rules=record_rules(APFL_REC)).function(
      f, 'client_init', [('server_params', VEC), ('client_input', 'K')], body=body))
  f, body = sliced('client_step', keys)
  out.append(RT(rules, 'apfl.client_step', node_rules=record_rules(APFL_REC)).function(
      f, 'client_step', [('client_step_state', 'a_cstate'), ('batch', 'B')], body=body))
  f, body = sliced('client_final', ['delta_params'])
  out.append(RT(rules, 'apfl.client_final', node_rules=record_rules(APFL_REC)).function(
      f, 'client_final', [('server_params', VEC), ('client_step_state', 'a_cstate')], body=body))
  out.append('Definition train_for_each_client := for_each_client client_init client_step client_final.')
  return '\n'.join(out)


def emit_apfl_apply(tree):
  qual = 'adaptive_personalized_federated_learning'
  state_ty = (VEC, 'OS')
  rules = [
      ("((N_a, N_b.shuffle_repeat_batch(client_batch_hparams), {'rng': N_c, 'state': server_state.client_states.get(N_a, client_default_state)}) "
       "for N_a, N_b, N_c in N_l)", comp_clients('({a}, shuffle_repeat_batch {b}, {c})', BCLIENTS)),
      ("client_output['delta_params']", lambda rt, h, env: ('client_output', VEC)),
      ('server_optimizer.apply(E_g, E_s, E_p)', un('server_optimizer_apply {0} {1} {2}', ('E_g', VEC), ('E_s', 'OS'), ('E_p', VEC), ret=('OS', VEC))),
      ('ServerState(E_p, E_o, N_c)', lambda rt, h, env: un('({0}, {1})', ('E_p', VEC), ('E_o', 'OS'), ret=state_ty)(rt, h, env)
       if h['N_c'] == 'client_states' else None),
      ('ServerState(E_p, E_o, server_state.client_states)', un('({0}, {1})', ('E_p', VEC), ('E_o', 'OS'), ret=state_ty)),
      ('server_update(E_s, E_m)', partial_call('server_update', [('E_s', state_ty), ('E_m', TREE)], state_ty)),
  ] + apply_rules(state_ty, 'OS')
  t1 = RT(rules, qual + '.server_update').function(find_def(tree, qual + '.server_update'), 'server_update',
                                                    [('server_state', state_ty), ('mean_delta_params', TREE)], partial=True)
  rt = RT(rules, qual + '.apply', setitem={DIAG: diag_setitem}, list_elem=ELEMS, ignore=('client_states', 'client_default_state'))
  rt.allow_ignored_reads = True   # they are read only where a rule above matches them literally
  ap = find_def(tree, qual + '.apply')
  # the personal models (client_default_state, client_states) are dropped statement-wise; the places that mention them
  # (the 'state' entry of the client input, ServerState's third argument) are matched literally by the rules above
  body = [s for s in ap.body if not (rt.targets(s) and all(n in ('client_states', 'client_default_state') for n in rt.targets(s)))]
  t2 = rt.function(ap, 'apply', [('server_state', state_ty), ('clients', CLIENTS)], partial=True, body=body)
  return t1 + '\n' + t2



# ---- constructors: init, wiring, FedProx objective, tree_l2_norm ------------------------------

def emit_init(qual, opt_name, state_ty_name, coq_opt, three=False):
  """init(params): opt_state = <optimizer>.init(params); return ServerState(params, opt_state[, client_states={}])."""
  def emit(tree):
    fd = find_def(tree, qual + '.init')
    rules = [
        (f'{opt_name}.init(E_p)', un(f'{coq_opt} {{0}}', ('E_p', VEC), ret=state_ty_name)),
        ('ServerState(E_p, E_o)', un('({0}, {1})', ('E_p', VEC), ('E_o', state_ty_name), ret=(VEC, state_ty_name))),
        ('mime.ServerState(E_p, E_o)', un('({0}, {1})', ('E_p', VEC), ('E_o', state_ty_name), ret=(VEC, state_ty_name))),
        (f'ServerState(params=E_p, opt_state={opt_name}.init(E_q), client_states={{}})',
         lambda rt, h, env: ('(' + _t(rt, h, env, 'E_p', VEC) + f', {coq_opt} ' + _t(rt, h, env, 'E_q', VEC) + ')', (VEC, state_ty_name))),
    ]
    return RT(rules, qual + '.init').function(fd, 'init', [('params', VEC)])
  return emit


def emit_wiring(qual, required, flag):
  """The constructor wires its parts exactly as the model assumes: every `required` source line is a top-level
  statement of `qual`, and it returns FederatedAlgorithm(init, apply)."""
  def emit(tree):
    fd = find_def(tree, qual)
    lines = [src(s) for s in fd.body if isinstance(s, (ast.Assign, ast.Return))]
    for r in required + ['return federated_algorithm.FederatedAlgorithm(init, apply)']:
      if r not in lines:
        raise Unsupported(f'{qual}: expected the statement `{r}`')
    return f'(* {"; ".join(required)} *)\nDefinition {flag} : bool := true.'
  return emit


def emit_prox_penalty(tree):
  """fed_prox_loss: example_loss = per_example_loss(params, batch, rng);
  proximal_loss = 0.5 * proximal_weight * tree_l2_squared(server_params - params); return jnp.mean(example_loss + proximal_loss).
  The penalty is translated; the objective is (mean example loss) + penalty because the penalty is a scalar."""
  fd = find_def(tree, 'fed_prox.fed_prox_loss')
  if [a.arg for a in fd.args.args] != ['params', 'server_params', 'batch', 'rng']:
    raise Unsupported('fed_prox_loss: parameters')
  body = [s for s in fd.body if not (isinstance(s, ast.Expr) and isinstance(s.value, ast.Constant))]
  if len(body) != 3 or src(body[0]) != 'example_loss = per_example_loss(params, batch, rng)' or \
      src(body[2]) != 'return jnp.mean(example_loss + proximal_loss)':
    raise Unsupported('fed_prox_loss: shape of the objective changed')
  rules = [
      ('tree_util.tree_l2_squared(E_x)', un('sumsq {0}', ('E_x', VEC), ret='Q')),
      ('E_a * E_b', lambda rt, h, env: (f"({_t(rt, h, env, 'E_a', 'Q')} * {_t(rt, h, env, 'E_b', 'Q')})", 'Q')),
      ('0.5', lambda rt, h, env: ('(1 # 2)', 'Q')),
  ] + TREE_RULES
  rt = RT(rules, 'fed_prox_loss')
  fd2 = ast.FunctionDef(name='penalty', args=ast.arguments(posonlyargs=[], args=[ast.arg(arg='params'), ast.arg(arg='server_params')],
                                                          kwonlyargs=[], kw_defaults=[], defaults=[]),
                        body=[body[1], ast.Return(value=ast.Name(id='proximal_loss', ctx=ast.Load()))], decorator_list=[])
  return rt.function(fd2, 'proximal_penalty', [('params', VEC), ('server_params', VEC)], extra_env={'proximal_weight': 'Q'})


def emit_l2(tree):
  """tree_l2_squared = sum of vdot(x, x) over the leaves; tree_l2_norm = sqrt of it (the model keeps the square)."""
  sq = find_def(tree, 'tree_l2_squared')
  nm = find_def(tree, 'tree_l2_norm')
  b1 = [s for s in sq.body if not (isinstance(s, ast.Expr) and isinstance(s.value, ast.Constant))]
  b2 = [s for s in nm.body if not (isinstance(s, ast.Expr) and isinstance(s.value, ast.Constant))]
  if len(b1) != 1 or src(b1[0]) != 'return sum((jnp.vdot(x, x) for x in jax.tree_util.tree_leaves(pytree)))':
    raise Unsupported('tree_l2_squared changed: ' + (src(b1[0]) if b1 else ''))
  if len(b2) != 1 or src(b2[0]) != 'return jnp.sqrt(tree_l2_squared(pytree))':
    raise Unsupported('tree_l2_norm changed')
  return ('(* sum(vdot(x, x) for x in leaves): the sum of the squares of all coordinates *)\n'
          'Definition tree_l2_squared (pytree : list Q) : Q := qsum (map (fun x => x * x) pytree).\n'
          '(* tree_l2_norm(pytree) = sqrt(tree_l2_squared(pytree)): its square is tree_l2_squared *)\n'
          'Definition tree_l2_norm_squared (pytree : list Q) : Q := tree_l2_squared pytree.')


def emit_process_independent(tree):
  """WAVE5 item 4 (fail-closed): nothing in this file may depend on the interpreter process: no hash() / id() calls,
  no time / uuid / os.environ / random / np.random use."""
  bad = []
  for n in ast.walk(tree):
    if isinstance(n, ast.Call) and isinstance(n.func, ast.Name) and n.func.id in ('hash', 'id'):
      bad.append(f'{n.func.id}() at line {n.lineno}')
    if isinstance(n, ast.Attribute):
      d = src(n)
      if d.split('.')[0] in ('time', 'uuid', 'random') or d.startswith(('os.environ', 'np.random', 'numpy.random', 'os.getpid')):
        bad.append(f'{d} at line {n.lineno}')
    if isinstance(n, (ast.Import, ast.ImportFrom)):
      names = [a.name for a in n.names] + ([n.module] if isinstance(n, ast.ImportFrom) and n.module else [])
      if any(x.split('.')[0] in ('time', 'uuid', 'random') for x in names):
        bad.append(f'import of {names} at line {n.lineno}')
  if bad:
    raise Unsupported('process-dependent construct: ' + '; '.join(bad[:3]))
  return 'Definition process_independent : bool := true.'


PRE = ('From Coq Require Import QArith.\n'
       'From FV Require Import Common.CMonoid Common.NanQ Common.QVec Common.WMean gen.Gen_tree_util Model.C01_Model.\n'
       'Local Open Scope Q_scope.\n')


def section(grad_ty, extra=''):
  return ('Section Gen.\nContext {K U B PB DS S OS : Type}.\n'
          f'Variable grad_fn : {grad_ty}.\n'
          'Variable grad_fn_padded : list Q -> PB -> U -> list Q.           (* grad_fn on a padded batch *)\n'
          'Variable num_real : PB -> Z.                                     (* jnp.sum(batch[mask]) *)\n'
          'Variable split : K -> K * U.                                     (* jax.random.split(rng) *)\n'
          'Variable split3 : K -> K * U * U.                                (* jax.random.split(rng, 3) *)\n'
          'Variable split_pair : K -> K * K.\n'
          'Variable client_optimizer_init : list Q -> S.\n'
          'Variable client_optimizer_apply : list Q -> S -> list Q -> S * list Q.\n'
          'Variable server_optimizer_apply : list Q -> OS -> list Q -> OS * list Q.\n'
          'Variable server_optimizer_init : list Q -> OS.\n'
          'Variable proximal_weight : Q.\n'
          'Variable server_learning_rate : Q.\n'
          'Variable len : DS -> Z.                                          (* len(client_dataset) *)\n'
          'Variable shuffle_repeat_batch : DS -> list B.                    (* the batches of the view, in order *)\n'
          'Variable padded_batch : DS -> list PB.\n' + extra)


G3 = 'list Q -> B -> U -> list Q'
GD_FNS = {'init': ('server_params', 'client_rng'), 'step': ('client_step_state', 'batch'), 'final': ('server_params', 'client_step_state')}
MIME_T_FNS = {'init': ('shared_input', 'client_rng'), 'step': ('client_step_state', 'batch'), 'final': ('shared_input', 'client_step_state')}
ML_T_FNS = {'init': ('shared_input', 'client_rng'), 'step': ('step_state', 'batch'), 'final': ('shared_input', 'step_state')}

MODULES = {
    'Gen_fed_avg': {
        'src': ALG + 'fed_avg.py', 'preamble': PRE + section(G3), 'postamble': 'End Gen.\n',
        'items': [
            emit_program('create_train_for_each_client', ['grad_fn', 'client_optimizer'],
                         {'cstate': {'params': VEC, 'opt_state': 'S', 'rng': 'K'}}, 'cstate', GD_FNS, ''),
            emit_fedavg_like_apply('federated_averaging'),
            emit_init('federated_averaging', 'server_optimizer', 'OS', 'server_optimizer_init'),
            emit_wiring('federated_averaging', ['train_for_each_client = create_train_for_each_client(grad_fn, client_optimizer)'], 'fed_avg_wiring'),
            emit_process_independent,
        ],
    },
    'Gen_fed_prox': {
        'src': ALG + 'fed_prox.py', 'preamble': PRE + section('list Q -> list Q -> B -> U -> list Q'), 'postamble': 'End Gen.\n',
        'items': [
            emit_program('create_train_for_each_client', ['grad_fn', 'client_optimizer'],
                         {'cstate': {'params': VEC, 'opt_state': 'S', 'rng': 'K', 'server_params': VEC}}, 'cstate', GD_FNS, ''),
            emit_fedavg_like_apply('fed_prox'),
            emit_init('fed_prox', 'server_optimizer', 'OS', 'server_optimizer_init'),
            emit_prox_penalty,
            emit_wiring('fed_prox', ['grad_fn = jax.grad(fed_prox_loss)',
                                     'train_for_each_client = create_train_for_each_client(grad_fn, client_optimizer)'], 'fed_prox_wiring'),
            emit_process_independent,
        ],
    },
    'Gen_mime': {
        'src': ALG + 'mime.py', 'preamble': PRE + section(G3), 'postamble': 'End Gen.\n',
        'items': [
            emit_mime_one_grad_fn,
            emit_program('create_grads_for_each_client', ['grad_fn'], MIME_RECORDS, 'g_cstate', GD_FNS, 'g_',
                         batch_ty='PB', out_name='grads_for_each_client'),
            emit_program('create_train_for_each_client', ['grad_fn', 'base_optimizer'], MIME_RECORDS, 't_cstate', MIME_T_FNS, 't_',
                         shared_ty='t_shared'),
            lambda tree: 'Definition grads_for_each_client := g_grads_for_each_client.\nDefinition train_for_each_client := t_train_for_each_client.',
            emit_mime_apply('mime', MIME_RECORDS, 'grads_for_each_client'),
            emit_init('mime', 'base_optimizer', 'S', 'client_optimizer_init'),
            emit_process_independent,
        ],
    },
    'Gen_mime_lite': {
        'src': ALG + 'mime_lite.py', 'preamble': PRE + section(G3), 'postamble': 'End Gen.\n',
        'items': [
            emit_mimelite_uses_mime_grads,
            emit_program('create_train_for_each_client', ['grad_fn', 'base_optimizer'], MIMELITE_RECORDS, 't_cstate', ML_T_FNS, 't_',
                         shared_ty='t_shared'),
            lambda tree: ('Definition train_for_each_client := t_train_for_each_client.\n'
                          '(* grads_for_each_client = mime.create_grads_for_each_client(grad_fn): supplied by Gen_mime *)\n'
                          'Variable grads_for_each_client : list Q -> list (Z * list PB * K) -> list (Z * (list NanQ.t * NanQ.t)).'),
            emit_mime_apply('mime_lite', MIMELITE_RECORDS, 'grads_for_each_client'),
            emit_init('mime_lite', 'base_optimizer', 'S', 'client_optimizer_init'),
            emit_process_independent,
        ],
    },
    'Gen_hyp_cluster': {
        'src': ALG + 'hyp_cluster.py',
        'preamble': PRE + section(G3, 'Variable maximization_step : list (list Q) -> list (Z * DS * K) -> Z -> nat.   (* cluster assignment *)\n'),
        'postamble': 'End Gen.\n',
        'items': [emit_hc_trainer, emit_hc_expectation, emit_hc_apply,
                  emit_wiring('hyp_cluster', ['evaluator = models.AverageLossEvaluator(per_example_loss, regularizer)',
                                              'trainer = ClientDeltaTrainer(models.grad(per_example_loss, regularizer), client_optimizer)'],
                              'hyp_cluster_wiring'), emit_process_independent],
    },
    'Gen_tree_l2': {
        'src': 'fedjax/core/tree_util.py',
        'preamble': 'From Coq Require Import QArith.\nFrom FV Require Import Common.QVec.\nLocal Open Scope Q_scope.\n',
        'items': [emit_l2, emit_process_independent],
    },
    'Gen_apfl': {
        'src': ALG + 'apfl.py', 'preamble': PRE + section(G3), 'postamble': 'End Gen.\n',
        'items': [emit_apfl_program, emit_apfl_apply,
                  emit_init('adaptive_personalized_federated_learning', 'server_optimizer', 'OS', 'server_optimizer_init'),
                  emit_wiring('adaptive_personalized_federated_learning',
                              ['train_for_each_client = create_train_for_each_client(grad_fn, client_optimizer)'], 'apfl_wiring'),
                  emit_process_independent],
    },
}
