"""Translator anchors for the FederatedData implementations (C08):
fedjax/core/federated_data.py, in_memory_federated_data.py, sqlite_federated_data.py.

Adds two types to the translator's subset:
  B     python `bytes` that is known not to be None  -> Common.Bytes.bytes
  optB  Optional[bytes]                              -> option bytes
  ids   an iterable of bytes                         -> list bytes
with
  a <= b, a < b, a >= b, a > b, a == b on B   -> bleb / bltb / beqb (Bytes order)
  max(a, b), min(a, b) on B                   -> bmax / bmin (first argument wins ties, as in python)
  `x is None` / `x is not None` on optB       -> match, refining x to B in the non-None branch
                                                 (also inside `and` / `or` chains, which python
                                                 evaluates left to right with short circuit)
  `x is None` on B                            -> decided statically
  set(i for i in IDS if P)                    -> filter (fun i => P) IDS
  return a, b                                 -> Some (a, b)
  return '<sql predicate>'                    -> the predicate parsed by a tiny SQL-expression
                                                 parser (:start, :stop, client_id, <, <=, >, >=, =, AND, 1)
Anything else raises Unsupported (fail closed)."""
import ast
import re
from translate import Ctx, Fn, Unsupported, dotted, find_def, params_str

FD = 'fedjax/core/federated_data.py'
IM = 'fedjax/core/in_memory_federated_data.py'
SQ = 'fedjax/core/sqlite_federated_data.py'

TY = {'B': 'bytes', 'optB': '(option bytes)', 'ids': '(list bytes)', 'bool': 'bool', 'Z': 'Z'}


def _is_none_test(e):
  """(name_expr, positive) for `x is None` (positive=True) / `x is not None`."""
  if (isinstance(e, ast.Compare) and len(e.ops) == 1 and isinstance(e.ops[0], (ast.Is, ast.IsNot)) and
      isinstance(e.comparators[0], ast.Constant) and e.comparators[0].value is None):
    return e.left, isinstance(e.ops[0], ast.Is)
  return None


class BytesCtx(Ctx):

  def expr(self, e, env, want=None):
    t, ty = self._expr(e, env)
    if want is not None and ty != want:
      if want == 'optB' and ty == 'B':
        return f'(Some {t})', 'optB'
      raise Unsupported(f'type {ty} where {want} expected: {ast.dump(e)[:200]}')
    return t, ty

  def _expr(self, e, env):
    if isinstance(e, ast.Constant) and e.value is None:
      return 'None', 'optB'
    if isinstance(e, ast.BoolOp):
      return self.boolop(list(e.values), isinstance(e.op, ast.And), env), 'bool'
    if isinstance(e, ast.Compare) and len(e.ops) == 1:
      return self.compare(e.left, e.ops[0], e.comparators[0], env), 'bool'
    if isinstance(e, ast.Call) and dotted(e.func) == 'set' and len(e.args) == 1 and not e.keywords \
        and isinstance(e.args[0], ast.GeneratorExp):
      return self.genexp(e.args[0], env)
    return super()._expr(e, env)

  def boolop(self, values, is_and, env):
    """Left-to-right with short circuit; an `is None` test refines the type of
    its name for the operands to its right."""
    if not values:
      return 'true' if is_and else 'false'
    v, rest = values[0], values[1:]
    t = _is_none_test(v)
    if t is not None:
      name, ty = self.expr(t[0], env)
      if ty == 'B':         # statically not None
        now = not t[1]
        if now == is_and:   # neutral element: continue with the rest
          return self.boolop(rest, is_and, env)
        return 'false' if is_and else 'true'
      if ty != 'optB':
        raise Unsupported('`is None` on ' + ty)
      env_some = dict(env)
      env_some[name] = 'B'
      # value of the test when None / when Some
      when_none, when_some = (t[1], not t[1])
      def cont(val, e2):
        if val == is_and:
          return self.boolop(rest, is_and, e2)
        return 'false' if is_and else 'true'
      return f'(match {name} with Some {name} => {cont(when_some, env_some)} | None => {cont(when_none, env)} end)'
    a, _ = self.expr(v, env, 'bool')
    if not rest:
      return a
    b = self.boolop(rest, is_and, env)
    return f'({a} && {b})' if is_and else f'({a} || {b})'

  def compare(self, left, op, right, env):
    if isinstance(op, (ast.Is, ast.IsNot)):
      return self.boolop([ast.Compare(left=left, ops=[op], comparators=[right])], True, env)
    a, ta = self.expr(left, env)
    b, tb = self.expr(right, env)
    if ta == 'B' and tb == 'B':
      if isinstance(op, ast.LtE):
        return f'(bleb {a} {b})'
      if isinstance(op, ast.Lt):
        return f'(bltb {a} {b})'
      if isinstance(op, ast.GtE):
        return f'(bleb {b} {a})'
      if isinstance(op, ast.Gt):
        return f'(bltb {b} {a})'
      if isinstance(op, ast.Eq):
        return f'(beqb {a} {b})'
      raise Unsupported('bytes comparison ' + ast.dump(op))
    if 'optB' in (ta, tb):
      raise Unsupported('comparison with a possibly-None bytes value (python would raise TypeError): '
                        + ast.dump(left)[:80])
    return super().compare(left, op, right, env)

  def call(self, e, env):
    f = dotted(e.func)
    if f in ('min', 'max') and len(e.args) == 2 and not e.keywords:
      a, ta = self.expr(e.args[0], env)
      b, tb = self.expr(e.args[1], env)
      if ta == 'B' and tb == 'B':
        return f'(b{f} {a} {b})', 'B'
      if 'optB' in (ta, tb) or 'B' in (ta, tb):
        raise Unsupported(f'{f} on a possibly-None bytes value')
    return super().call(e, env)

  def genexp(self, g, env):
    if len(g.generators) != 1:
      raise Unsupported('nested generator expression')
    c = g.generators[0]
    if c.is_async or not isinstance(c.target, ast.Name):
      raise Unsupported('generator target')
    v = c.target.id
    if not (isinstance(g.elt, ast.Name) and g.elt.id == v):
      raise Unsupported('generator element is not its variable')
    src, _ = self.expr(c.iter, env, 'ids')
    env2 = dict(env)
    env2[v] = 'B'
    if not c.ifs:
      return src, 'ids'
    conds = [self.expr(i, env2, 'bool')[0] for i in c.ifs]
    return f'(filter (fun {v} : bytes => {" && ".join(conds)}) {src})', 'ids'


# ---- tiny SQL predicate parser (the strings returned by _range_where) ----

SQL_TOK = re.compile(r'\s*(:[a-z_]+|[A-Za-z_][A-Za-z_0-9]*|<=|>=|<|>|=|\(|\)|1)')


def sql_tokens(s):
  out, i = [], 0
  s = s.strip()
  while i < len(s):
    m = SQL_TOK.match(s, i)
    if not m:
      raise Unsupported('SQL token at ' + s[i:i + 20])
    out.append(m.group(1))
    i = m.end()
  return out


def sql_pred(s, ctx, env, column='client_id'):
  """expr := conj ; conj := atom (AND atom)* ; atom := '(' expr ')' | '1' | operand cmp operand"""
  toks = sql_tokens(s)
  pos = [0]

  def peek():
    return toks[pos[0]] if pos[0] < len(toks) else None

  def take(t=None):
    x = peek()
    if x is None or (t is not None and x != t):
      raise Unsupported(f'SQL: expected {t}, got {x}')
    pos[0] += 1
    return x

  def operand():
    x = take()
    if x == column:
      n = column
    elif x.startswith(':'):
      n = x[1:]
    else:
      raise Unsupported('SQL operand ' + x)
    if env.get(n) != 'B':
      # a NULL parameter makes every comparison NULL; the code never binds one where it is used
      raise Unsupported(f'SQL parameter {x} may be NULL here')
    return n

  def atom():
    if peek() == '(':
      take('(')
      r = conj()
      take(')')
      return r
    if peek() == '1':
      take('1')
      return 'true'
    a = operand()
    op = take()
    b = operand()
    if op == '<=':
      return f'(bleb {a} {b})'
    if op == '<':
      return f'(bltb {a} {b})'
    if op == '>=':
      return f'(bleb {b} {a})'
    if op == '>':
      return f'(bltb {b} {a})'
    if op == '=':
      return f'(beqb {a} {b})'
    raise Unsupported('SQL operator ' + op)

  def conj():
    parts = [atom()]
    while peek() is not None and peek().upper() == 'AND':
      take()
      parts.append(atom())
    return parts[0] if len(parts) == 1 else '(' + ' && '.join(parts) + ')'

  r = conj()
  if peek() is not None:
    raise Unsupported('SQL: trailing ' + str(peek()))
  return r


# ---- statements ----

class BytesFn(Fn):
  """Fn with: optB refinement on `is None` tests (also as `and`/`or` chains, which
  are desugared into nested ifs), tuple return, SQL-string return."""

  def __init__(self, coqname, ctx, ret, sql_env_names=None):
    super().__init__(coqname, ctx, ret)
    self.sql = sql_env_names

  def block(self, stmts, env, k):
    if not stmts:
      return k(env)
    s, rest = stmts[0], stmts[1:]
    ctx = self.ctx
    if isinstance(s, ast.Return):
      v = s.value
      if isinstance(self.ret, tuple):
        if not isinstance(v, ast.Tuple) or len(v.elts) != len(self.ret):
          raise Unsupported('return shape')
        parts = [ctx.expr(x, env, ty)[0] for x, ty in zip(v.elts, self.ret)]
        return 'Some (' + ', '.join(parts) + ')'
      if self.ret == 'sqlpred':
        if not (isinstance(v, ast.Constant) and isinstance(v.value, str)):
          raise Unsupported('return of a non-literal SQL string')
        return 'Some ' + sql_pred(v.value, ctx, env)
      t, _ = ctx.expr(v, env, self.ret)
      return f'Some {t}'
    if isinstance(s, ast.If):
      test = s.test
      if isinstance(test, ast.BoolOp) and len(test.values) >= 2:
        # python: `a and b` -> if a: (if b: T else: E) else: E ;  `a or b` -> if a: T else: (if b: T else: E)
        first, others = test.values[0], test.values[1:]
        inner_test = others[0] if len(others) == 1 else ast.BoolOp(op=test.op, values=others)
        if isinstance(test.op, ast.And):
          inner = ast.If(test=inner_test, body=s.body, orelse=s.orelse)
          new = ast.If(test=first, body=[inner], orelse=s.orelse)
        else:
          inner = ast.If(test=inner_test, body=s.body, orelse=s.orelse)
          new = ast.If(test=first, body=s.body, orelse=[inner])
        return self.block([new] + rest, env, k)
      t = _is_none_test(test)
      if t is not None:
        name, ty = ctx.expr(t[0], env)
        body_none, body_some = (s.body, s.orelse) if t[1] else (s.orelse, s.body)
        if ty == 'B':
          return self.block(body_some + rest, env, k)
        if ty != 'optB':
          raise Unsupported('`is None` on ' + ty)
        some_env = dict(env)
        some_env[name] = 'B'
        a = self.block(body_some + rest, some_env, k)
        b = self.block(body_none + rest, env, k)
        return f'(match {name} with Some {name} => {a} | None => {b} end)'
    if isinstance(s, (ast.Return, ast.If, ast.Assign)) or (isinstance(s, ast.Expr) and isinstance(s.value, ast.Constant)):
      if isinstance(s, ast.Assign) and (len(s.targets) != 1 or isinstance(s.targets[0], ast.Tuple)):
        raise Unsupported('assignment form')
      return super().block(stmts, env, k)
    raise Unsupported('statement ' + ast.dump(s)[:200])


def _ret_str(ret):
  if isinstance(ret, tuple):
    return '(' + ' * '.join(TY[t] for t in ret) + ')'
  if ret == 'sqlpred':
    return 'bool'
  return TY[ret]


def _pstr(params):
  return ' '.join(f'({n} : {TY[t]})' for n, t in params)


def B_fun(qual, coqname, params, ret, names=None, pyparams=None, select=None, result=None):
  """Whole function body (select=None) or a statement group; `result` names the
  variable whose value is the result when the group falls through."""
  def emit(tree):
    fd = find_def(tree, qual)
    if pyparams is not None:
      got = [a.arg for a in fd.args.args]
      if got != pyparams:
        raise Unsupported(f'{qual}: parameters {got}, expected {pyparams}')
    stmts = fd.body if select is None else select(fd)
    if not stmts:
      raise Unsupported(f'{qual}: anchored statements not found')
    ctx = BytesCtx(names)
    f = BytesFn(coqname, ctx, ret)
    env = {n: t for n, t in params}

    def final(env2):
      if result is None:
        return 'None'
      if result not in env2:
        raise Unsupported(f'{qual}: {result} not assigned on some path')
      if env2[result] != ret:
        raise Unsupported(f'{qual}: {result} has type {env2[result]}')
      return f'Some {result}'
    body = f.block(stmts, env, final)
    if f.aux:
      raise Unsupported('loops are not expected here')
    return f'Definition {coqname} {_pstr(params)} : option {_ret_str(ret)} :=\n  {body}.'
  return emit


def B_test(qual, coqname, params, names, nth=0):
  """The test expression of the nth top-level `if` of `qual` (the explicit range
  test guarding a point lookup), which must be followed by an unconditional raise KeyError."""
  def emit(tree):
    fd = find_def(tree, qual)
    ifs = [s for s in fd.body if isinstance(s, ast.If)]
    if len(ifs) <= nth:
      raise Unsupported(f'{qual}: no guarding if statement')
    guard = ifs[nth]
    if guard.orelse:
      raise Unsupported(f'{qual}: guard has an else branch')
    last = fd.body[-1]
    if not (isinstance(last, ast.Raise) and last.exc is not None and dotted(last.exc if not isinstance(last.exc, ast.Call) else last.exc.func) == 'KeyError'):
      raise Unsupported(f'{qual}: does not end with raise KeyError')
    # every statement other than the guard and the final raise must be the docstring
    for s in fd.body:
      if s is guard or s is last:
        continue
      if not (isinstance(s, ast.Expr) and isinstance(s.value, ast.Constant)):
        raise Unsupported(f'{qual}: unexpected statement outside the range guard')
    ctx = BytesCtx(names)
    env = {n: t for n, t in params}
    t, _ = ctx.expr(guard.test, env, 'bool')
    return f'Definition {coqname} {_pstr(params)} : bool :=\n  {t}.'
  return emit


def _assign_group(target):
  def select(fd):
    def assigns(s):
      for n in ast.walk(s):
        if isinstance(n, ast.Assign):
          for t in n.targets:
            if isinstance(t, ast.Name) and t.id == target:
              return True
      return False
    idx = [i for i, s in enumerate(fd.body) if assigns(s)]
    return fd.body[idx[0]:idx[-1] + 1] if idx else []
  return select


PRE = 'From FV Require Import Common.Bytes.\n'
SELF_RANGE = {'self._start': 'start', 'self._stop': 'stop'}

MODULES = {
    'Gen_federated_data': {
        'src': FD,
        'preamble': PRE,
        'items': [
            B_fun('intersect_slice_ranges', 'intersect_slice_ranges',
                  [('current_start', 'optB'), ('current_stop', 'optB'), ('new_start', 'optB'), ('new_stop', 'optB')],
                  ('optB', 'optB'),
                  pyparams=['current_start', 'current_stop', 'new_start', 'new_stop']),
            B_fun('SubsetFederatedData.slice', 'subset_slice_ids',
                  [('client_ids0', 'ids'), ('start', 'optB'), ('stop', 'optB')], 'ids',
                  names={'self._client_ids': 'client_ids0'}, pyparams=['self', 'start', 'stop'],
                  select=_assign_group('client_ids'), result='client_ids'),
        ],
    },
    'Gen_in_memory_federated_data': {
        'src': IM,
        'preamble': PRE,
        'items': [
            B_fun('InMemoryFederatedData.slice', 'in_memory_slice_ids',
                  [('client_ids0', 'ids'), ('start', 'optB'), ('stop', 'optB')], 'ids',
                  names={'self._client_ids': 'client_ids0'}, pyparams=['self', 'start', 'stop'],
                  select=_assign_group('client_ids'), result='client_ids'),
        ],
    },
    'Gen_sqlite_federated_data': {
        'src': SQ,
        'preamble': PRE,
        'items': [
            B_fun('SQLiteFederatedData._range_where', 'sqlite_range_where',
                  [('start', 'optB'), ('stop', 'optB'), ('client_id', 'B')], 'sqlpred',
                  names=SELF_RANGE, pyparams=['self']),
            B_test('SQLiteFederatedData.get_client', 'sqlite_get_client_in_range',
                   [('start', 'optB'), ('stop', 'optB'), ('client_id', 'B')], SELF_RANGE),
            B_test('SQLiteFederatedData.client_size', 'sqlite_client_size_in_range',
                   [('start', 'optB'), ('stop', 'optB'), ('client_id', 'B')], SELF_RANGE),
        ],
    },
}
