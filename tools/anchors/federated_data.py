"""Translator anchors for the FederatedData implementations (C08):
fedjax/core/federated_data.py, in_memory_federated_data.py, sqlite_federated_data.py.

Adds two types to the translator's subset:
  B     python `bytes` that is known not to be None  -> Common.Bytes.bytes
  optB  Optional[bytes]                              -> option bytes
  ids   an iterable of bytes                         -> list bytes
with
  a <= b, a < b, a >= b, a > b, a == b on B   -> bleb / bltb / beqb (Bytes order)
  max(a, b), min(a, b) on B                   -> bmax / bmin (first argument wins ties, as in python)
  `x is None` / `x is not None` on optB       -> match, refining x to B in the non-None branch
                                                 (also inside `and` / `or` chains, which python
                                                 evaluates left to right with short circuit)
  `x is None` on B                            -> decided statically
  set(i for i in IDS if P)                    -> filter (fun i => P) IDS
  return a, b                                 -> Some (a, b)
  return '<sql predicate>'                    -> the predicate parsed by a tiny SQL-expression
                                                 parser (:start, :stop, client_id, <, <=, >, >=, =, AND, 1)
Anything else raises Unsupported (fail closed)."""
import ast
import re
import textwrap
from translate import Ctx, Fn, Unsupported, dotted, find_def, params_str

FD = 'fedjax/core/federated_data.py'
IM = 'fedjax/core/in_memory_federated_data.py'
SQ = 'fedjax/core/sqlite_federated_data.py'

TY = {'B': 'bytes', 'optB': '(option bytes)', 'ids': '(list bytes)', 'bool': 'bool', 'Z': 'Z'}


def _is_none_test(e):
  """(name_expr, positive) for `x is None` (positive=True) / `x is not None`."""
  if (isinstance(e, ast.Compare) and len(e.ops) == 1 and isinstance(e.ops[0], (ast.Is, ast.IsNot)) and
      isinstance(e.comparators[0], ast.Constant) and e.comparators[0].value is None):
    return e.left, isinstance(e.ops[0], ast.Is)
  return None


class BytesCtx(Ctx):

  def expr(self, e, env, want=None):
    t, ty = self._expr(e, env)
    if want is not None and ty != want:
      if want == 'optB' and ty == 'B':
        return f'(Some {t})', 'optB'
      raise Unsupported(f'type {ty} where {want} expected: {ast.dump(e)[:200]}')
    return t, ty

  def _expr(self, e, env):
    if isinstance(e, ast.Constant) and e.value is None:
      return 'None', 'optB'
    if isinstance(e, ast.BoolOp):
      return self.boolop(list(e.values), isinstance(e.op, ast.And), env), 'bool'
    if isinstance(e, ast.Compare) and len(e.ops) == 1:
      return self.compare(e.left, e.ops[0], e.comparators[0], env), 'bool'
    if isinstance(e, ast.Call) and dotted(e.func) == 'set' and len(e.args) == 1 and not e.keywords \
        and isinstance(e.args[0], ast.GeneratorExp):
      return self.genexp(e.args[0], env)
    return super()._expr(e, env)

  def boolop(self, values, is_and, env):
    """Left-to-right with short circuit; an `is None` test refines the type of
    its name for the operands to its right."""
    if not values:
      return 'true' if is_and else 'false'
    v, rest = values[0], values[1:]
    t = _is_none_test(v)
    if t is not None:
      name, ty = self.expr(t[0], env)
      if ty == 'B':         # statically not None
        now = not t[1]
        if now == is_and:   # neutral element: continue with the rest
          return self.boolop(rest, is_and, env)
        return 'false' if is_and else 'true'
      if ty != 'optB':
        raise Unsupported('`is None` on ' + ty)
      env_some = dict(env)
      env_some[name] = 'B'
      # value of the test when None / when Some
      when_none, when_some = (t[1], not t[1])
      def cont(val, e2):
        if val == is_and:
          return self.boolop(rest, is_and, e2)
        return 'false' if is_and else 'true'
      return f'(match {name} with Some {name} => {cont(when_some, env_some)} | None => {cont(when_none, env)} end)'
    a, _ = self.expr(v, env, 'bool')
    if not rest:
      return a
    b = self.boolop(rest, is_and, env)
    return f'({a} && {b})' if is_and else f'({a} || {b})'

  def compare(self, left, op, right, env):
    if isinstance(op, (ast.Is, ast.IsNot)):
      return self.boolop([ast.Compare(left=left, ops=[op], comparators=[right])], True, env)
    a, ta = self.expr(left, env)
    b, tb = self.expr(right, env)
    if ta == 'B' and tb == 'B':
      if isinstance(op, ast.LtE):
        return f'(bleb {a} {b})'
      if isinstance(op, ast.Lt):
        return f'(bltb {a} {b})'
      if isinstance(op, ast.GtE):
        return f'(bleb {b} {a})'
      if isinstance(op, ast.Gt):
        return f'(bltb {b} {a})'
      if isinstance(op, ast.Eq):
        return f'(beqb {a} {b})'
      raise Unsupported('bytes comparison ' + ast.dump(op))
    if 'optB' in (ta, tb):
      raise Unsupported('comparison with a possibly-None bytes value (python would raise TypeError): '
                        + ast.dump(left)[:80])
    return super().compare(left, op, right, env)

  def call(self, e, env):
    f = dotted(e.func)
    if f in ('min', 'max') and len(e.args) == 2 and not e.keywords:
      a, ta = self.expr(e.args[0], env)
      b, tb = self.expr(e.args[1], env)
      if ta == 'B' and tb == 'B':
        return f'(b{f} {a} {b})', 'B'
      if 'optB' in (ta, tb) or 'B' in (ta, tb):
        raise Unsupported(f'{f} on a possibly-None bytes value')
    return super().call(e, env)

  def genexp(self, g, env):
    if len(g.generators) != 1:
      raise Unsupported('nested generator expression')
    c = g.generators[0]
    if c.is_async or not isinstance(c.target, ast.Name):
      raise Unsupported('generator target')
    v = c.target.id
    if not (isinstance(g.elt, ast.Name) and g.elt.id == v):
      raise Unsupported('generator element is not its variable')
    src, _ = self.expr(c.iter, env, 'ids')
    env2 = dict(env)
    env2[v] = 'B'
    if not c.ifs:
      return src, 'ids'
    conds = [self.expr(i, env2, 'bool')[0] for i in c.ifs]
    return f'(filter (fun {v} : bytes => {" && ".join(conds)}) {src})', 'ids'


# ---- tiny SQL predicate parser (the strings returned by _range_where) ----

SQL_TOK = re.compile(r'\s*(:[a-z_]+|[A-Za-z_][A-Za-z_0-9]*|<=|>=|<|>|=|\(|\)|1)')


def sql_tokens(s):
  out, i = [], 0
  s = s.strip()
  while i < len(s):
    m = SQL_TOK.match(s, i)
    if not m:
      raise Unsupported('SQL token at ' + s[i:i + 20])
    out.append(m.group(1))
    i = m.end()
  return out


def sql_pred(s, ctx, env, column='client_id'):
  """expr := conj ; conj := atom (AND atom)* ; atom := '(' expr ')' | '1' | operand cmp operand"""
  toks = sql_tokens(s)
  pos = [0]

  def peek():
    return toks[pos[0]] if pos[0] < len(toks) else None

  def take(t=None):
    x = peek()
    if x is None or (t is not None and x != t):
      raise Unsupported(f'SQL: expected {t}, got {x}')
    pos[0] += 1
    return x

  def operand():
    x = take()
    if x == column:
      n = column
    elif x.startswith(':'):
      n = x[1:]
    else:
      raise Unsupported('SQL operand ' + x)
    if env.get(n) != 'B':
      # a NULL parameter makes every comparison NULL; the code never binds one where it is used
      raise Unsupported(f'SQL parameter {x} may be NULL here')
    return n

  def atom():
    if peek() == '(':
      take('(')
      r = conj()
      take(')')
      return r
    if peek() == '1':
      take('1')
      return 'true'
    a = operand()
    op = take()
    b = operand()
    if op == '<=':
      return f'(bleb {a} {b})'
    if op == '<':
      return f'(bltb {a} {b})'
    if op == '>=':
      return f'(bleb {b} {a})'
    if op == '>':
      return f'(bltb {b} {a})'
    if op == '=':
      return f'(beqb {a} {b})'
    raise Unsupported('SQL operator ' + op)

  def conj():
    parts = [atom()]
    while peek() is not None and peek().upper() == 'AND':
      take()
      parts.append(atom())
    return parts[0] if len(parts) == 1 else '(' + ' && '.join(parts) + ')'

  r = conj()
  if peek() is not None:
    raise Unsupported('SQL: trailing ' + str(peek()))
  return r


# ---- statements ----

class BytesFn(Fn):
  """Fn with: optB refinement on `is None` tests (also as `and`/`or` chains, which
  are desugared into nested ifs), tuple return, SQL-string return."""

  def __init__(self, coqname, ctx, ret, sql_env_names=None):
    super().__init__(coqname, ctx, ret)
    self.sql = sql_env_names

  def block(self, stmts, env, k):
    if not stmts:
      return k(env)
    s, rest = stmts[0], stmts[1:]
    ctx = self.ctx
    if isinstance(s, ast.Return):
      v = s.value
      if isinstance(self.ret, tuple):
        if not isinstance(v, ast.Tuple) or len(v.elts) != len(self.ret):
          raise Unsupported('return shape')
        parts = [ctx.expr(x, env, ty)[0] for x, ty in zip(v.elts, self.ret)]
        return 'Some (' + ', '.join(parts) + ')'
      if self.ret == 'sqlpred':
        if not (isinstance(v, ast.Constant) and isinstance(v.value, str)):
          raise Unsupported('return of a non-literal SQL string')
        return 'Some ' + sql_pred(v.value, ctx, env)
      t, _ = ctx.expr(v, env, self.ret)
      return f'Some {t}'
    if isinstance(s, ast.If):
      test = s.test
      if isinstance(test, ast.BoolOp) and len(test.values) >= 2:
        # python: `a and b` -> if a: (if b: T else: E) else: E ;  `a or b` -> if a: T else: (if b: T else: E)
        first, others = test.values[0], test.values[1:]
        inner_test = others[0] if len(others) == 1 else ast.BoolOp(op=test.op, values=others)
        if isinstance(test.op, ast.And):
          inner = ast.If(test=inner_test, body=s.body, orelse=s.orelse)
          new = ast.If(test=first, body=[inner], orelse=s.orelse)
        else:
          inner = ast.If(test=inner_test, body=s.body, orelse=s.orelse)
          new = ast.If(test=first, body=s.body, orelse=[inner])
        return self.block([new] + rest, env, k)
      t = _is_none_test(test)
      if t is not None:
        name, ty = ctx.expr(t[0], env)
        body_none, body_some = (s.body, s.orelse) if t[1] else (s.orelse, s.body)
        if ty == 'B':
          return self.block(body_some + rest, env, k)
        if ty != 'optB':
          raise Unsupported('`is None` on ' + ty)
        some_env = dict(env)
        some_env[name] = 'B'
        a = self.block(body_some + rest, some_env, k)
        b = self.block(body_none + rest, env, k)
        return f'(match {name} with Some {name} => {a} | None => {b} end)'
    if isinstance(s, ast.Raise):
      return 'None'
    if isinstance(s, (ast.Return, ast.If, ast.Assign)) or (isinstance(s, ast.Expr) and isinstance(s.value, ast.Constant)):
      if isinstance(s, ast.Assign) and (len(s.targets) != 1 or isinstance(s.targets[0], ast.Tuple)):
        raise Unsupported('assignment form')
      return super().block(stmts, env, k)
    raise Unsupported('statement ' + ast.dump(s)[:200])


def _ret_str(ret):
  if isinstance(ret, tuple):
    return '(' + ' * '.join(TY[t] for t in ret) + ')'
  if ret == 'sqlpred':
    return 'bool'
  return TY[ret]


def _pstr(params):
  return ' '.join(f'({n} : {TY[t]})' for n, t in params)


def B_fun(qual, coqname, params, ret, names=None, pyparams=None, select=None, result=None):
  """Whole function body (select=None) or a statement group; `result` names the
  variable whose value is the result when the group falls through."""
  def emit(tree):
    fd = find_def(tree, qual)
    if pyparams is not None:
      got = [a.arg for a in fd.args.args]
      if got != pyparams:
        raise Unsupported(f'{qual}: parameters {got}, expected {pyparams}')
    stmts = fd.body if select is None else select(fd)
    if not stmts:
      raise Unsupported(f'{qual}: anchored statements not found')
    ctx = BytesCtx(names)
    f = BytesFn(coqname, ctx, ret)
    env = {n: t for n, t in params}

    def final(env2):
      if result is None:
        return 'None'
      if result not in env2:
        raise Unsupported(f'{qual}: {result} not assigned on some path')
      if env2[result] != ret:
        raise Unsupported(f'{qual}: {result} has type {env2[result]}')
      return f'Some {result}'
    body = f.block(stmts, env, final)
    if f.aux:
      raise Unsupported('loops are not expected here')
    return f'Definition {coqname} {_pstr(params)} : option {_ret_str(ret)} :=\n  {body}.'
  return emit


def B_test(qual, coqname, params, names, nth=0):
  """The test expression of the nth top-level `if` of `qual` (the explicit range
  test guarding a point lookup), which must be followed by an unconditional raise KeyError."""
  def emit(tree):
    fd = find_def(tree, qual)
    ifs = [s for s in fd.body if isinstance(s, ast.If)]
    if len(ifs) <= nth:
      raise Unsupported(f'{qual}: no guarding if statement')
    guard = ifs[nth]
    if guard.orelse:
      raise Unsupported(f'{qual}: guard has an else branch')
    last = fd.body[-1]
    if not (isinstance(last, ast.Raise) and last.exc is not None and dotted(last.exc if not isinstance(last.exc, ast.Call) else last.exc.func) == 'KeyError'):
      raise Unsupported(f'{qual}: does not end with raise KeyError')
    # every statement other than the guard and the final raise must be the docstring
    for s in fd.body:
      if s is guard or s is last:
        continue
      if not (isinstance(s, ast.Expr) and isinstance(s.value, ast.Constant)):
        raise Unsupported(f'{qual}: unexpected statement outside the range guard')
    ctx = BytesCtx(names)
    env = {n: t for n, t in params}
    t, _ = ctx.expr(guard.test, env, 'bool')
    return f'Definition {coqname} {_pstr(params)} : bool :=\n  {t}.'
  return emit


def _assign_group(target):
  def select(fd):
    def assigns(s):
      for n in ast.walk(s):
        if isinstance(n, ast.Assign):
          for t in n.targets:
            if isinstance(t, ast.Name) and t.id == target:
              return True
      return False
    idx = [i for i, s in enumerate(fd.body) if assigns(s)]
    return fd.body[idx[0]:idx[-1] + 1] if idx else []
  return select


# ===========================================================================
# Object level: constructors, preprocessor chains, delegation guards.
#
# Extra types:  fns / fn   (ClientPreprocessor._fns : list F, one function : F)
#               gfns / gfn (BatchPreprocessor._fns : list G, one function : G)
#               E (examples), mapping (dict id -> E : association list), optmapping (a dict
#               comprehension whose lookups may raise KeyError), base / R / D (opaque: the wrapped
#               FederatedData, a result, a ClientDataset), Z
# A constructor call `Cls(a1, .., an, kw=..)` is translated to the tuple of its modelled arguments
# (the `ctors` table says which positions are modelled and what the others must literally be).

TY.update({'fns': '(list F)', 'fn': 'F', 'gfns': '(list G)', 'gfn': 'G', 'E': 'E',
           'mapping': '(list (bytes * E))', 'optmapping': '(option (list (bytes * E)))',
           'base': 'Base', 'R': 'R', 'R0': 'R0', 'D': 'D', 'cds': '(E * list G)'})
ELEM = {'fns': 'fn', 'gfns': 'gfn'}


class ObjCtx(BytesCtx):

  def __init__(self, names=None, calls=None, ctors=None, subs=None):
    super().__init__(names, calls)
    self.ctors = dict(ctors or {})
    self.subs = dict(subs or {})     # ast.dump of an expression -> (term, type): named stand-ins

  def _expr(self, e, env):
    key = ast.dump(e)
    if key in self.subs:
      return self.subs[key]
    if isinstance(e, ast.BinOp) and isinstance(e.op, ast.Add) and isinstance(e.right, ast.Tuple):
      a, ta = self.expr(e.left, env)
      if ta not in ELEM:
        raise Unsupported('tuple concatenation on ' + ta)
      items = [self.expr(x, env, ELEM[ta])[0] for x in e.right.elts]
      return f'({a} ++ [{"; ".join(items)}])', ta
    if isinstance(e, ast.BinOp) and isinstance(e.op, ast.Add) and isinstance(e.left, ast.Tuple):
      b, tb = self.expr(e.right, env)
      if tb not in ELEM:
        raise Unsupported('tuple concatenation on ' + tb)
      items = [self.expr(x, env, ELEM[tb])[0] for x in e.left.elts]
      return f'([{"; ".join(items)}] ++ {b})', tb
    if isinstance(e, ast.Compare) and len(e.ops) == 1 and isinstance(e.ops[0], (ast.In, ast.NotIn)):
      a, _ = self.expr(e.left, env, 'B')
      b, _ = self.expr(e.comparators[0], env, 'ids')
      t = f'(bmem {a} {b})'
      return (t if isinstance(e.ops[0], ast.In) else f'(negb {t})'), 'bool'
    if isinstance(e, ast.DictComp):
      return self.dictcomp(e, env)
    if isinstance(e, ast.Tuple):
      parts = [self.expr(x, env) for x in e.elts]
      return '(' + ', '.join(t for t, _ in parts) + ')', tuple(ty for _, ty in parts)
    if isinstance(e, ast.Call):
      r = self.objcall(e, env)
      if r is not None:
        return r
    return super()._expr(e, env)

  def dictcomp(self, e, env):
    # {k: MAPPING[k] for k in IDS}
    if len(e.generators) != 1 or e.generators[0].ifs or not isinstance(e.generators[0].target, ast.Name):
      raise Unsupported('dict comprehension shape')
    v = e.generators[0].target.id
    ids, _ = self.expr(e.generators[0].iter, env, 'ids')
    if not (isinstance(e.key, ast.Name) and e.key.id == v and isinstance(e.value, ast.Subscript) and
            isinstance(e.value.slice, ast.Name) and e.value.slice.id == v):
      raise Unsupported('dict comprehension is not a restriction')
    m, _ = self.expr(e.value.value, env, 'mapping')
    return f'(brestrict {m} {ids})', 'optmapping'

  def objcall(self, e, env):
    try:
      f = dotted(e.func)
    except Unsupported:
      f = None
    if f in self.ctors:
      return self.ctor(f, e, env)
    if f in self.calls:
      return None      # the anchor's own call table (handled by Ctx.call)
    if e.keywords:
      return None
    if f == 'sorted' and len(e.args) == 1:
      a, _ = self.expr(e.args[0], env, 'ids')
      return f'(bsort {a})', 'ids'
    if f == 'iter' and len(e.args) == 1:
      return self.expr(e.args[0], env, 'ids')
    if f == 'len' and len(e.args) == 1:
      a, _ = self.expr(e.args[0], env, 'ids')
      return f'(Z.of_nat (length {a}))', 'Z'
    if f == 'set' and len(e.args) == 1 and not isinstance(e.args[0], ast.GeneratorExp):
      a, _ = self.expr(e.args[0], env, 'ids')
      return f'(bdedup {a})', 'ids'
    if isinstance(e.func, ast.Attribute):
      meth = e.func.attr
      if meth == 'keys' and not e.args:
        a, ta = self.expr(e.func.value, env)
        if ta == 'mapping':
          return f'(map fst {a})', 'ids'
      if meth == 'difference' and len(e.args) == 1:
        a, ta = self.expr(e.func.value, env)
        b, tb = self.expr(e.args[0], env)
        if ta == 'ids' and tb == 'ids':
          return f'(filter (fun i : bytes => negb (bmem i {b})) {a})', 'ids'
    return None

  def ctor(self, f, e, env):
    """ctors[f] = (positional spec list, keyword spec dict); a spec is a type name (modelled
    argument) or ('is', dotted python name) (must literally be that expression) or
    ('const', value) (must be that constant)."""
    pos, kws = self.ctors[f]
    if len(e.args) != len(pos):
      raise Unsupported(f'{f}: {len(e.args)} positional arguments, expected {len(pos)}')
    parts, types = [], []
    for a, sp in zip(e.args, pos):
      self._ctor_arg(f, a, sp, env, parts, types)
    got = {k.arg: k.value for k in e.keywords}
    if set(got) != set(kws):
      raise Unsupported(f'{f}: keywords {sorted(got)}, expected {sorted(kws)}')
    for k, sp in kws.items():
      self._ctor_arg(f, got[k], sp, env, parts, types)
    if len(parts) == 1:
      return parts[0], types[0]
    return '(' + ', '.join(parts) + ')', tuple(types)

  def _ctor_arg(self, f, a, sp, env, parts, types):
    if isinstance(sp, tuple) and sp[0] == 'is':
      if dotted(a) != sp[1]:
        raise Unsupported(f'{f}: argument {ast.dump(a)[:60]} is not {sp[1]}')
    elif isinstance(sp, tuple) and sp[0] == 'const':
      if not (isinstance(a, ast.Constant) and a.value is sp[1]):
        raise Unsupported(f'{f}: argument is not the constant {sp[1]}')
    else:
      t, _ = self.expr(a, env, sp)
      parts.append(t)
      types.append(sp)


def _tystr(ty):
  if isinstance(ty, tuple):
    return '(' + ' * '.join(_tystr(t) for t in ty) + ')'
  return TY[ty]


def _truthy_ids(test, ctx, env):
  """`if xs:` on a collection: non-empty."""
  if isinstance(test, ast.Name):
    t, ty = ctx.expr(test, env)
    if ty == 'ids':
      return f'(negb (bisnil {t}))'
  return None


class ObjFn(BytesFn):
  """BytesFn + constructor / tuple returns, `a, b = partial_call(..)`, truthiness of id collections,
  `if not isinstance(x, set): x = set(x)`, assignments to ignorable attributes."""

  def __init__(self, coqname, ctx, ret, ignore_assign=(), partial_calls=()):
    super().__init__(coqname, ctx, ret)
    self.ignore_assign = set(ignore_assign)
    self.partial_calls = dict(partial_calls)   # dotted callee -> (coq function, [arg types], (ret types))

  def block(self, stmts, env, k):
    if not stmts:
      return k(env)
    s, rest = stmts[0], stmts[1:]
    ctx = self.ctx
    if isinstance(s, ast.Return):
      t, ty = ctx.expr(s.value, env)
      if ty != self.ret:
        if self.ret == 'optB' and ty == 'B':
          t = f'(Some {t})'
        else:
          raise Unsupported(f'return type {ty}, expected {self.ret}')
      return f'Some {t}'
    if isinstance(s, ast.Assign) and len(s.targets) == 1:
      tgt = s.targets[0]
      if isinstance(tgt, ast.Attribute) and dotted(tgt) in self.ignore_assign:
        return self.block(rest, env, k)
      if isinstance(tgt, ast.Tuple) and isinstance(s.value, ast.Call) and dotted(s.value.func) in self.partial_calls:
        fn, kinds, rets = self.partial_calls[dotted(s.value.func)]
        if len(s.value.args) != len(kinds) or len(tgt.elts) != len(rets) or s.value.keywords:
          raise Unsupported('partial call shape')
        args = [ctx.expr(a, env, kd)[0] for a, kd in zip(s.value.args, kinds)]
        names = [ctx.names.get(dotted(x), dotted(x)) for x in tgt.elts]
        env2 = dict(env)
        for n, ty in zip(names, rets):
          env2[n] = ty
        body = self.block(rest, env2, k)
        return f'(match {fn} {" ".join(args)} with Some ({", ".join(names)}) => {body} | None => None end)'
    if isinstance(s, ast.If):
      test = s.test
      if (isinstance(test, ast.UnaryOp) and isinstance(test.op, ast.Not) and isinstance(test.operand, ast.Call)
          and dotted(test.operand.func) == 'isinstance'):
        # if not isinstance(x, set): x = set(x)     -- afterwards x is a set either way
        c = test.operand
        if not (len(c.args) == 2 and isinstance(c.args[0], ast.Name) and dotted(c.args[1]) == 'set' and not s.orelse
                and len(s.body) == 1 and isinstance(s.body[0], ast.Assign)
                and isinstance(s.body[0].targets[0], ast.Name) and s.body[0].targets[0].id == c.args[0].id
                and isinstance(s.body[0].value, ast.Call) and dotted(s.body[0].value.func) == 'set'
                and len(s.body[0].value.args) == 1 and isinstance(s.body[0].value.args[0], ast.Name)
                and s.body[0].value.args[0].id == c.args[0].id):
          raise Unsupported('isinstance guard shape')
        return self.block(s.body + rest, env, k)
      tr = _truthy_ids(test, ctx, env)
      if tr is not None:
        then = self.block(s.body + rest, env, k)
        els = self.block(s.orelse + rest, env, k)
        return f'(if {tr} then {then} else {els})'
    return super().block(stmts, env, k)


def O_fun(qual, coqname, params, ret, names=None, calls=None, ctors=None, subs=None, pyparams=None,
          ignore_assign=(), partial_calls=(), result=None, extra_params=''):
  def emit(tree):
    fd = find_def(tree, qual)
    if pyparams is not None:
      got = [a.arg for a in fd.args.args]
      if got != pyparams:
        raise Unsupported(f'{qual}: parameters {got}, expected {pyparams}')
    ctx = ObjCtx(names, calls, ctors, {ast.dump(ast.parse(k, mode='eval').body): v for k, v in (subs or {}).items()})
    f = ObjFn(coqname, ctx, ret, ignore_assign, partial_calls)
    env = {n: t for n, t in params}

    def final(env2):
      if result is None:
        return 'None'
      if env2.get(result) != ret:
        raise Unsupported(f'{qual}: {result} has type {env2.get(result)} at the end')
      return f'Some {result}'
    body = f.block(fd.body, env, final)
    if f.aux:
      raise Unsupported('loops are not expected here')
    ps = ' '.join(f'({n} : {_tystr(t)})' for n, t in params)
    return f'Definition {coqname} {extra_params} {ps} : option {_tystr(ret)} :=\n  {body}.'
  return emit


def _strip_doc(body):
  return [s for s in body if not (isinstance(s, ast.Expr) and isinstance(s.value, ast.Constant))]


def O_chain_call(qual, coqname, fnsT, apply_name, with_id):
  """ClientPreprocessor.__call__ / BatchPreprocessor.__call__:
       if not self._fns: return examples
       out = dict(examples)
       for f in self._fns: out = f([client_id,] out)
       <row-consistency assertion>(out)
       return out"""
  def emit(tree):
    fd = find_def(tree, qual)
    want = ['self', 'client_id', 'examples'] if with_id else ['self', 'examples']
    if [a.arg for a in fd.args.args] != want:
      raise Unsupported(f'{qual}: parameters')
    b = _strip_doc(fd.body)
    def bad(msg):
      raise Unsupported(f'{qual}: {msg}')
    if len(b) != 5:
      bad('expected 5 statements')
    s0, s1, s2, s3, s4 = b
    if not (isinstance(s0, ast.If) and isinstance(s0.test, ast.UnaryOp) and isinstance(s0.test.op, ast.Not)
            and dotted(s0.test.operand) == 'self._fns' and not s0.orelse and len(s0.body) == 1
            and isinstance(s0.body[0], ast.Return) and dotted(s0.body[0].value) == 'examples'):
      bad('empty-chain shortcut')
    if not (isinstance(s1, ast.Assign) and dotted(s1.targets[0]) == 'out' and isinstance(s1.value, ast.Call)
            and dotted(s1.value.func) == 'dict' and len(s1.value.args) == 1 and dotted(s1.value.args[0]) == 'examples'):
      bad('out = dict(examples)')
    args = ['client_id', 'out'] if with_id else ['out']
    if not (isinstance(s2, ast.For) and isinstance(s2.target, ast.Name) and dotted(s2.iter) == 'self._fns'
            and not s2.orelse and len(s2.body) == 1 and isinstance(s2.body[0], ast.Assign)
            and dotted(s2.body[0].targets[0]) == 'out' and isinstance(s2.body[0].value, ast.Call)
            and dotted(s2.body[0].value.func) == s2.target.id and not s2.body[0].value.keywords
            and [dotted(a) for a in s2.body[0].value.args] == args):
      bad('for f in self._fns: out = f(.., out)')
    if not (isinstance(s3, ast.Expr) and isinstance(s3.value, ast.Call)
            and dotted(s3.value.func).endswith('assert_consistent_rows')
            and [dotted(a) for a in s3.value.args] == ['out']):
      bad('row-consistency assertion')
    if not (isinstance(s4, ast.Return) and dotted(s4.value) == 'out'):
      bad('return out')
    f = s2.target.id
    app = f'{apply_name} {f} client_id out' if with_id else f'{apply_name} {f} out'
    cid = '(client_id : bytes) ' if with_id else ''
    return (f'Definition {coqname} (fns : {TY[fnsT]}) {cid}(examples : E) : E :=\n'
            f'  if bisnil fns then examples else\n'
            f'  let out := examples in\n'
            f'  let out := fold_left (fun out {f} => {app}) fns out in\n'
            f'  out.')
  return emit


def O_expr(qual, coqname, params, ret, pick, names=None, calls=None, ctors=None, subs=None, shape=None, extra_params=''):
  """One expression inside `qual`, chosen by `pick(fd)` after `shape(fd)` accepted the statement structure."""
  def emit(tree):
    fd = find_def(tree, qual)
    if shape is not None:
      msg = shape(fd)
      if msg:
        raise Unsupported(f'{qual}: {msg}')
    ctx = ObjCtx(names, calls, ctors, {ast.dump(ast.parse(k, mode='eval').body): v for k, v in (subs or {}).items()})
    env = {n: t for n, t in params}
    t, ty = ctx.expr(pick(fd), env)
    if ty != ret:
      raise Unsupported(f'{qual}: expression has type {ty}, expected {ret}')
    ps = ' '.join(f'({n} : {_tystr(tt)})' for n, tt in params)
    return f'Definition {coqname} {extra_params} {ps} : {_tystr(ret)} :=\n  {t}.'
  return emit


def _only_return(fd):
  b = _strip_doc(fd.body)
  if len(b) != 1 or not isinstance(b[0], ast.Return):
    return 'body is not a single return'
  return None


def _ret_value(fd):
  return _strip_doc(fd.body)[0].value


def _guarded_delegate(method):
  """if client_id not in self._client_ids: raise KeyError ; return self._base.<method>(client_id)"""
  def shape(fd):
    b = _strip_doc(fd.body)
    if len(b) != 2:
      return 'expected guard + return'
    g, r = b
    if not (isinstance(g, ast.If) and not g.orelse and len(g.body) == 1 and isinstance(g.body[0], ast.Raise)
            and g.body[0].exc is not None and dotted(g.body[0].exc) == 'KeyError'):
      return 'guard does not raise KeyError'
    if not (isinstance(r, ast.Return) and isinstance(r.value, ast.Call) and dotted(r.value.func) == 'self._base.' + method
            and [dotted(a) for a in r.value.args] == ['client_id'] and not r.value.keywords):
      return 'does not delegate to the base with the same id'
    return None
  return shape


def _for_yield(iter_src, target_names, guard):
  """for <targets> in <iter_src>: [if <guard>: raise KeyError | if <guard>: yield ..] yield <item>"""
  def shape(fd):
    b = _strip_doc(fd.body)
    if len(b) != 1 or not isinstance(b[0], ast.For) or b[0].orelse:
      return 'body is not a single for loop'
    lp = b[0]
    tg = [x.id for x in lp.target.elts] if isinstance(lp.target, ast.Tuple) else [lp.target.id]
    if tg != target_names:
      return f'loop targets {tg}'
    if ast.unparse(lp.iter) != iter_src:
      return f'iterates over {ast.unparse(lp.iter)}, expected {iter_src}'
    body = lp.body
    if guard == 'raise':
      if not (len(body) == 2 and isinstance(body[0], ast.If) and not body[0].orelse and len(body[0].body) == 1
              and isinstance(body[0].body[0], ast.Raise) and dotted(body[0].body[0].exc) == 'KeyError'
              and isinstance(body[1], ast.Expr) and isinstance(body[1].value, ast.Yield)):
        return 'loop body is not guard-raise + yield'
    elif guard == 'keep':
      if not (len(body) == 1 and isinstance(body[0], ast.If) and not body[0].orelse and len(body[0].body) == 1
              and isinstance(body[0].body[0], ast.Expr) and isinstance(body[0].body[0].value, ast.Yield)):
        return 'loop body is not a guarded yield'
    else:
      if not (len(body) == 1 and isinstance(body[0], ast.Expr) and isinstance(body[0].value, ast.Yield)):
        return 'loop body is not a single yield'
    return None
  return shape


def _loop(fd):
  return _strip_doc(fd.body)[0]


def _yield_from_get_clients(fd):
  b = _strip_doc(fd.body)
  if not (len(b) == 1 and isinstance(b[0], ast.Expr) and isinstance(b[0].value, ast.YieldFrom)
          and isinstance(b[0].value.value, ast.Call) and dotted(b[0].value.value.func) == 'self.get_clients'
          and len(b[0].value.value.args) == 1 and not b[0].value.value.keywords):
    return 'body is not `yield from self.get_clients(..)`'
  return None


def O_same(qual, coqname, expected_src):
  """Recogniser: the body of `qual` (docstring and comments aside) must be exactly `expected_src`.
  For methods that are hand-mirrored in Model/C08_Model.v (SQL statements, cursor loops, the
  `while True` shuffle loops): any edit is reported as a broken tie."""
  want = ast.dump(ast.Module(body=_strip_doc(ast.parse(textwrap.dedent(expected_src)).body), type_ignores=[]))

  def emit(tree):
    fd = find_def(tree, qual)
    got = ast.dump(ast.Module(body=_strip_doc(fd.body), type_ignores=[]))
    if got != want:
      raise Unsupported(f'{qual}: body differs from the mirrored text')
    return f'Definition {coqname}_recognised : bool := true.'
  return emit


def _assign_value(target):
  def pick(fd):
    for st in fd.body:
      if isinstance(st, ast.Assign) and len(st.targets) == 1:
        try:
          if dotted(st.targets[0]) == target:
            return st.value
        except Unsupported:
          pass
    raise Unsupported(f'no top-level assignment to {target}')
  return pick


SHUFFLE_VIA_CLIENTS = """
rng = np.random.RandomState(seed)
while True:
  for client_id, dataset in client_datasets.buffered_shuffle(
      self.clients(), buffer_size, rng):
    yield client_id, dataset
"""
SQL_FETCH_LOOP = """
while True:
  result = cursor.fetchone()
  if result is None:
    break
  yield {item}
"""

def O_no_ambient_state(coqname):
  """Recogniser over the WHOLE module: nothing may depend on the interpreter process (hash / id of objects,
  clocks, the environment, uuids, unseeded or global random state).  The only random source allowed is
  `np.random.RandomState(seed)` built from the caller's seed."""
  def emit(tree):
    for n in ast.walk(tree):
      if isinstance(n, ast.Call) and isinstance(n.func, ast.Name) and n.func.id in ('hash', 'id'):
        raise Unsupported(f'line {n.lineno}: {n.func.id}(...) depends on the interpreter process')
      if isinstance(n, (ast.Attribute, ast.Name)):
        try:
          d = dotted(n)
        except Unsupported:
          continue
        if d.split('.')[0] in ('time', 'uuid', 'secrets', 'random', 'datetime') or d.startswith('os.environ') or d.startswith('os.getpid'):
          raise Unsupported(f'line {n.lineno}: {d} depends on the interpreter process / ambient state')
        if d.startswith('np.random.') and d != 'np.random.RandomState':
          raise Unsupported(f'line {n.lineno}: {d}: global / unseeded numpy random state')
      if isinstance(n, ast.Call) and isinstance(n.func, ast.Attribute):
        try:
          d = dotted(n.func)
        except Unsupported:
          continue
        if d == 'np.random.RandomState' and not (len(n.args) == 1 and not n.keywords and isinstance(n.args[0], ast.Name)
                                                 and n.args[0].id == 'seed'):
          raise Unsupported(f'line {n.lineno}: RandomState is not built from the caller\'s seed')
    return f'Definition {coqname}_no_ambient_state : bool := true.'
  return emit


def O_text(qual, shape, text):
  """A generator method whose loop shape `shape(fd)` accepts is emitted as the combinator call `text`
  (Common/PyIter.v) over the separately translated item / guard expressions of the same loop."""
  def emit(tree):
    fd = find_def(tree, qual)
    msg = shape(fd)
    if msg:
      raise Unsupported(f'{qual}: {msg}')
    return text
  return emit


# ---- the SQL statements of SQLiteFederatedData -------------------------------------------------
SQL_COLS = {'client_id': '(fst row)', 'data': '(col_data (snd row))', 'num_examples': '(col_num_examples (snd row))'}
RANGE_PARAMS = "{'start': self._start, 'stop': self._stop}"


def _execute_call(st):
  """`cursor = self._connection.execute(<sql>, <params>)` -> (sql ast, params ast)"""
  if not (isinstance(st, ast.Assign) and len(st.targets) == 1 and dotted(st.targets[0]) == 'cursor'
          and isinstance(st.value, ast.Call) and dotted(st.value.func) == 'self._connection.execute'
          and len(st.value.args) == 2 and not st.value.keywords):
    raise Unsupported('not `cursor = self._connection.execute(sql, params)`')
  return st.value.args


def _range_sql(sql):
  """f'SELECT <cols> FROM federated_data WHERE {self._range_where()}[ ORDER BY rowid];' -> (cols, ordered)"""
  if not isinstance(sql, ast.JoinedStr) or len(sql.values) != 3:
    raise Unsupported('SQL is not an f-string with one substitution')
  a, mid, b = sql.values
  if not (isinstance(a, ast.Constant) and isinstance(b, ast.Constant) and isinstance(mid, ast.FormattedValue)
          and mid.conversion == -1 and mid.format_spec is None and isinstance(mid.value, ast.Call)
          and dotted(mid.value.func) == 'self._range_where' and not mid.value.args and not mid.value.keywords):
    raise Unsupported('SQL substitution is not {self._range_where()}')
  m = re.fullmatch(r'SELECT (.+) FROM federated_data WHERE ', a.value)
  if not m:
    raise Unsupported('SQL head: ' + a.value)
  tail = b.value
  if tail not in (' ORDER BY rowid;', ';'):
    raise Unsupported('SQL tail: ' + tail)
  return [c.strip() for c in m.group(1).split(',')], tail.startswith(' ORDER')


FETCH_LOOP = ast.dump(ast.parse("while True:\n  result = cursor.fetchone()\n  if result is None:\n    break\n  yield X").body[0].body[0]), \
    ast.dump(ast.parse("while True:\n  result = cursor.fetchone()\n  if result is None:\n    break\n  yield X").body[0].body[1])


def Q_range(qual, coqname):
  """num_clients / client_ids / client_sizes / _read_clients: a range SELECT and what is made of its rows."""
  def emit(tree):
    fd = find_def(tree, qual)
    b = _strip_doc(fd.body)
    if len(b) != 2:
      raise Unsupported(f'{qual}: expected execute + consume')
    sql, params = _execute_call(b[0])
    if ast.unparse(params) != RANGE_PARAMS:
      raise Unsupported(f'{qual}: parameters are not {RANGE_PARAMS}')
    cols, ordered = _range_sql(sql)
    rows = '(sql_where (sqlite_range_where start stop) tbl)'
    head = f'Definition {coqname} (start stop : option bytes) (tbl : list (bytes * V))'
    if cols == ['COUNT(*)']:
      if ordered or ast.unparse(b[1]) != 'return cursor.fetchone()[0]':
        raise Unsupported(f'{qual}: COUNT(*) shape')
      return f'{head} : option Z :=\n  option_map (fun rows => Z.of_nat (length rows)) {rows}.'
    if not ordered:
      raise Unsupported(f'{qual}: a listing without ORDER BY rowid has no defined order')
    for c in cols:
      if c not in SQL_COLS:
        raise Unsupported(f'{qual}: column {c}')
    lp = b[1]
    if not (isinstance(lp, ast.While) and isinstance(lp.test, ast.Constant) and lp.test.value is True and not lp.orelse
            and len(lp.body) == 3 and ast.dump(lp.body[0]) == FETCH_LOOP[0] and ast.dump(lp.body[1]) == FETCH_LOOP[1]
            and isinstance(lp.body[2], ast.Expr) and isinstance(lp.body[2].value, ast.Yield)):
      raise Unsupported(f'{qual}: not the fetchone loop')
    y = ast.unparse(lp.body[2].value.value)
    if y == 'result[0]' and len(cols) >= 1:
      item = SQL_COLS[cols[0]]
    elif y == 'tuple(result)':
      item = '(' + ', '.join(SQL_COLS[c] for c in cols) + ')'
    else:
      raise Unsupported(f'{qual}: yields {y}')
    return f'{head} :=\n  option_map (fetch_all (fun row => {item})) {rows}.'
  return emit


def Q_point(qual, coqname, ret_src, extra, rtype):
  """get_client / client_size: explicit range guard, PRIMARY KEY lookup, KeyError otherwise.
  ret_src: python source of the returned expression -> Gallina over `row`."""
  def emit(tree):
    fd = find_def(tree, qual)
    b = _strip_doc(fd.body)
    if not (len(b) == 2 and isinstance(b[0], ast.If) and not b[0].orelse and isinstance(b[1], ast.Raise)
            and dotted(b[1].exc) == 'KeyError'):
      raise Unsupported(f'{qual}: not guard + raise KeyError')
    g = b[0]
    ctx = BytesCtx(SELF_RANGE)
    guard, _ = ctx.expr(g.test, {'start': 'optB', 'stop': 'optB', 'client_id': 'B'}, 'bool')
    gb = g.body
    if len(gb) != 3:
      raise Unsupported(f'{qual}: guarded block shape')
    sql, params = _execute_call(gb[0])
    if not (isinstance(sql, ast.Constant) and isinstance(sql.value, str)) or ast.unparse(params) != '[client_id]':
      raise Unsupported(f'{qual}: point lookup call')
    m = re.fullmatch(r'SELECT (\w+) FROM federated_data WHERE client_id = \?', sql.value)
    if not m or m.group(1) not in SQL_COLS:
      raise Unsupported(f'{qual}: point lookup SQL: {sql.value}')
    col = SQL_COLS[m.group(1)]
    if ast.unparse(gb[1]) != 'result = cursor.fetchone()':
      raise Unsupported(f'{qual}: fetchone')
    r = gb[2]
    if not (isinstance(r, ast.If) and not r.orelse and ast.unparse(r.test) == 'result is not None' and len(r.body) == 1
            and isinstance(r.body[0], ast.Return)):
      raise Unsupported(f'{qual}: result test')
    got = ast.unparse(r.body[0].value)
    if got not in ret_src:
      raise Unsupported(f'{qual}: returns {got}')
    val = ret_src[got].format(col=col)
    return (f'Definition {coqname} {extra} (start stop : option bytes) (tbl : list (bytes * V)) (client_id : bytes) : res {rtype} :=\n'
            f'  if {guard} then match sql_by_key client_id tbl with Some row => {val} | None => KeyErr end else KeyErr.')
  return emit


def O_shuffle(qual, coqname, src_py, targets, item_py, item_coq, extra, stype='S'):
  """rng = np.random.RandomState(seed); while True: for <targets> in client_datasets.buffered_shuffle(<src>, buffer_size, rng): yield <item>
  -> one pass: the source handed to a one-pass shuffle, items mapped."""
  want = ast.dump(ast.Module(body=ast.parse(textwrap.dedent(f"""
      rng = np.random.RandomState(seed)
      while True:
        for {targets} in client_datasets.buffered_shuffle({src_py}, buffer_size, rng):
          yield {item_py}
      """)).body, type_ignores=[]))

  def emit(tree):
    fd = find_def(tree, qual)
    if [a.arg for a in fd.args.args] != ['self', 'buffer_size', 'seed']:
      raise Unsupported(f'{qual}: parameters')
    if ast.dump(ast.Module(body=_strip_doc(fd.body), type_ignores=[])) != want:
      raise Unsupported(f'{qual}: not `while True: for .. in buffered_shuffle(<source>, buffer_size, rng): yield ..` with a fresh shuffle per pass')
    return (f'Definition {coqname} {extra} (shuffle_one_pass : list {stype} -> option (list {stype})) (source : list {stype}) :=\n'
            f'  option_map (map (fun s : {stype} => {item_coq})) (shuffle_one_pass source).')
  return emit


def _num_examples_call(ctx, e, env):
  """client_datasets.num_examples(self._client_to_data_mapping[<id>], validate=False) -> num_examples_of <id>"""
  if not (len(e.args) == 1 and isinstance(e.args[0], ast.Subscript) and dotted(e.args[0].value) == 'self._client_to_data_mapping'
          and [k.arg for k in e.keywords] == ['validate'] and isinstance(e.keywords[0].value, ast.Constant)
          and e.keywords[0].value.value is False):
    raise Unsupported('num_examples call shape')
  i, _ = ctx.expr(e.args[0].slice, env, 'B')
  return f'(num_examples_of {i})', 'R0'


PRE = 'From FV Require Import Common.Bytes Common.PyIter.\n'
SELF_RANGE = {'self._start': 'start', 'self._stop': 'stop'}
SEC = ('Section Obj.\nContext {F G E Base R D V Dt : Type}.\n'
       'Context (applyc : F -> bytes -> E -> E) (applyb : G -> E -> E).\n'
       'Context (col_data : V -> Dt) (col_num_examples : V -> Z).\n')
SUBNAMES = {'self._client_ids': 'client_ids0'}
SUB_CTOR = {'SubsetFederatedData': (['base', 'ids'], {'validate': ('const', False)})}
MEM_CTOR = {'InMemoryFederatedData': (['mapping', 'fns', 'gfns'], {})}
MEM_CTOR_SLICE = {'InMemoryFederatedData': (['optmapping', 'fns', 'gfns'], {})}
SQL_CTOR = {'SQLiteFederatedData': ([('is', 'self._connection'), ('is', 'self._parse_examples'), 'optB', 'optB', 'fns', 'gfns'], {})}
PRE_NAMES = {'self._preprocess_client': 'pc', 'self._preprocess_batch': 'pb', 'self._client_to_data_mapping': 'mapping',
             'self._start': 'start', 'self._stop': 'stop', 'self._client_ids': 'client_ids0'}
APPEND_CALLS = {'self._preprocess_client.append': ('client_preprocessor_append {0} {1}', ['fns', 'fn'], 'fns'),
                'self._preprocess_batch.append': ('batch_preprocessor_append {0} {1}', ['gfns', 'gfn'], 'gfns')}


def _append_call(ctx, e, env):
  raise Unsupported('unused')


def _method_call(prefix_type, fmt, argkinds, ret, receiver='value'):
  """call table entry for `self._preprocess_client.append(fn)` (receiver = e.func.value) or
  `self._preprocess_client(..)` (receiver = e.func): receiver via names map, then args."""
  def spec(ctx, e, env):
    recv, _ = ctx.expr(e.func.value if receiver == 'value' else e.func, env, prefix_type)
    if len(e.args) != len(argkinds) or e.keywords:
      raise Unsupported('method call arity')
    args = [ctx.expr(a, env, k)[0] for a, k in zip(e.args, argkinds)]
    return '(' + fmt.format(recv, *args) + ')', ret
  return spec


CALLS_PRE = {'self._preprocess_client.append': _method_call('fns', 'client_preprocessor_append {0} {1}', ['fn'], 'fns'),
             'self._preprocess_batch.append': _method_call('gfns', 'batch_preprocessor_append {0} {1}', ['gfn'], 'gfns')}


def _base_call(method, argnames):
  """`self._base.<method>(args)` stands for the already computed result on the wrapped dataset."""
  def spec(ctx, e, env):
    if e.keywords or [dotted(a) for a in e.args] != argnames:
      raise Unsupported(f'self._base.{method}: arguments are not {argnames}')
    return 'base_result', 'base'
  return spec


MODULES = {
    'Gen_client_datasets_pre': {
        'src': 'fedjax/core/client_datasets.py',
        'preamble': PRE + SEC,
        'postamble': 'End Obj.\n',
        'items': [
            O_expr('BatchPreprocessor.append', 'batch_preprocessor_append', [('fns', 'gfns'), ('fn', 'gfn')], 'gfns',
                   _ret_value, names={'self._fns': 'fns'}, ctors={'BatchPreprocessor': (['gfns'], {})}, shape=_only_return),
            O_chain_call('BatchPreprocessor.__call__', 'batch_preprocessor_call', 'gfns', 'applyb', False),
            O_same('BatchPreprocessor.__init__', 'batch_preprocessor_init', "self._fns = tuple(fns)"),
            # ClientDataset.all_examples: self.preprocessor(self.raw_examples)
            O_expr('ClientDataset.all_examples', 'client_dataset_all_examples', [('raw_examples', 'E'), ('preprocessor', 'gfns')], 'E',
                   _ret_value, names={'self.raw_examples': 'raw_examples'}, shape=_only_return,
                   calls={'self.preprocessor': ('batch_preprocessor_call preprocessor {0}', ['E'], 'E')}),
        ],
    },
    'Gen_federated_data': {
        'src': FD,
        'preamble': PRE + SEC,
        'postamble': 'End Obj.\n',
        'items': [
            O_no_ambient_state('federated_data'),
            B_fun('intersect_slice_ranges', 'intersect_slice_ranges',
                  [('current_start', 'optB'), ('current_stop', 'optB'), ('new_start', 'optB'), ('new_stop', 'optB')],
                  ('optB', 'optB'),
                  pyparams=['current_start', 'current_stop', 'new_start', 'new_stop']),
            O_expr('ClientPreprocessor.append', 'client_preprocessor_append', [('fns', 'fns'), ('fn', 'fn')], 'fns',
                   _ret_value, names={'self._fns': 'fns'}, ctors={'ClientPreprocessor': (['fns'], {})}, shape=_only_return),
            O_chain_call('ClientPreprocessor.__call__', 'client_preprocessor_call', 'fns', 'applyc', True),
            # SubsetFederatedData
            O_fun('SubsetFederatedData.__init__', 'subset_init',
                  [('have', 'ids'), ('client_ids', 'ids'), ('validate', 'bool')], 'ids',
                  names={'self._client_ids': 'result_ids'}, pyparams=['self', 'base', 'client_ids', 'validate'],
                  subs={'base.client_ids()': ('have', 'ids')}, ignore_assign=['self._base'], result='result_ids'),
            O_fun('SubsetFederatedData.slice', 'subset_slice',
                  [('base_result', 'base'), ('client_ids0', 'ids'), ('start', 'optB'), ('stop', 'optB')], ('base', 'ids'),
                  names=SUBNAMES, pyparams=['self', 'start', 'stop'], ctors=SUB_CTOR,
                  calls={'self._base.slice': _base_call('slice', ['start', 'stop'])}),
            O_expr('SubsetFederatedData.preprocess_client', 'subset_preprocess_client',
                   [('base_result', 'base'), ('client_ids0', 'ids')], ('base', 'ids'), _ret_value,
                   names=SUBNAMES, ctors=SUB_CTOR, shape=_only_return,
                   calls={'self._base.preprocess_client': _base_call('preprocess_client', ['fn'])}),
            O_expr('SubsetFederatedData.preprocess_batch', 'subset_preprocess_batch',
                   [('base_result', 'base'), ('client_ids0', 'ids')], ('base', 'ids'), _ret_value,
                   names=SUBNAMES, ctors=SUB_CTOR, shape=_only_return,
                   calls={'self._base.preprocess_batch': _base_call('preprocess_batch', ['fn'])}),
            O_expr('SubsetFederatedData.num_clients', 'subset_num_clients', [('client_ids0', 'ids')], 'Z', _ret_value,
                   names=SUBNAMES, shape=_only_return),
            O_expr('SubsetFederatedData.client_ids', 'subset_client_ids', [('client_ids0', 'ids')], 'ids', _ret_value,
                   names=SUBNAMES, shape=_only_return),
            O_expr('SubsetFederatedData.clients', 'subset_clients_request', [('client_ids0', 'ids')], 'ids',
                   lambda fd: _strip_doc(fd.body)[0].value.value.args[0], names=SUBNAMES, shape=_yield_from_get_clients),
            # guards: True = raise KeyError
            O_expr('SubsetFederatedData.get_client', 'subset_get_client_raises', [('client_ids0', 'ids'), ('client_id', 'B')], 'bool',
                   lambda fd: _strip_doc(fd.body)[0].test, names=SUBNAMES, shape=_guarded_delegate('get_client')),
            O_expr('SubsetFederatedData.client_size', 'subset_client_size_raises', [('client_ids0', 'ids'), ('client_id', 'B')], 'bool',
                   lambda fd: _strip_doc(fd.body)[0].test, names=SUBNAMES, shape=_guarded_delegate('client_size')),
            O_expr('SubsetFederatedData.get_clients', 'subset_get_clients_raises', [('client_ids0', 'ids'), ('client_id', 'B')], 'bool',
                   lambda fd: _loop(fd).body[0].test, names=SUBNAMES,
                   shape=_for_yield('self._base.get_clients(client_ids)', ['client_id', 'dataset'], 'raise')),
            O_expr('SubsetFederatedData.get_clients', 'subset_get_clients_item', [('client_id', 'B'), ('dataset', 'D')], ('B', 'D'),
                   lambda fd: _loop(fd).body[1].value.value,
                   shape=_for_yield('self._base.get_clients(client_ids)', ['client_id', 'dataset'], 'raise')),
            O_text('SubsetFederatedData.get_clients', _for_yield('self._base.get_clients(client_ids)', ['client_id', 'dataset'], 'raise'),
                   'Definition subset_get_clients (client_ids0 : list bytes) (base_stream : stream (bytes * D)) : stream (bytes * D) :=\n'
                   '  for_raise_yield (subset_get_clients_raises client_ids0) subset_get_clients_item (fst base_stream) (snd base_stream).'),
            O_shuffle('SubsetFederatedData.shuffled_clients', 'subset_shuffled_pass', 'self.clients()', 'client_id, dataset',
                      'client_id, dataset', 's', '{S}'),
            O_same('ClientPreprocessor.__init__', 'client_preprocessor_init', "self._fns = tuple(fns)"),
            O_expr('SubsetFederatedData.client_sizes', 'subset_client_sizes_keeps', [('client_ids0', 'ids'), ('client_id', 'B')], 'bool',
                   lambda fd: _loop(fd).body[0].test, names=SUBNAMES,
                   shape=_for_yield('self._base.client_sizes()', ['client_id', 'size'], 'keep')),
            O_expr('SubsetFederatedData.client_sizes', 'subset_client_sizes_item', [('client_id', 'B'), ('size', 'Z')], ('B', 'Z'),
                   lambda fd: _loop(fd).body[0].body[0].value.value,
                   shape=_for_yield('self._base.client_sizes()', ['client_id', 'size'], 'keep')),
            O_text('SubsetFederatedData.client_sizes', _for_yield('self._base.client_sizes()', ['client_id', 'size'], 'keep'),
                   'Definition subset_client_sizes (client_ids0 : list bytes) (base_sizes : list (bytes * Z)) : list (bytes * Z) :=\n'
                   '  for_keep_yield (subset_client_sizes_keeps client_ids0) subset_client_sizes_item base_sizes.'),
        ],
    },
    'Gen_in_memory_federated_data': {
        'src': IM,
        'preamble': PRE + 'From FV Require Import gen.Gen_client_datasets_pre gen.Gen_federated_data.\n' + SEC,
        'postamble': 'End Obj.\n',
        'items': [
            O_no_ambient_state('in_memory_federated_data'),
            B_fun('InMemoryFederatedData.slice', 'in_memory_slice_ids',
                  [('client_ids0', 'ids'), ('start', 'optB'), ('stop', 'optB')], 'ids',
                  names={'self._client_ids': 'client_ids0'}, pyparams=['self', 'start', 'stop'],
                  select=_assign_group('client_ids'), result='client_ids'),
            # the constructor call that ends slice()
            O_expr('InMemoryFederatedData.slice', 'in_memory_slice_ctor',
                   [('mapping', 'mapping'), ('client_ids', 'ids'), ('pc', 'fns'), ('pb', 'gfns')], ('optmapping', 'fns', 'gfns'),
                   lambda fd: fd.body[-1].value, names=PRE_NAMES, ctors=MEM_CTOR_SLICE,
                   shape=lambda fd: None if isinstance(fd.body[-1], ast.Return) else 'slice does not end with a return'),
            O_expr('InMemoryFederatedData.preprocess_client', 'in_memory_preprocess_client',
                   [('mapping', 'mapping'), ('pc', 'fns'), ('pb', 'gfns'), ('fn', 'fn')], ('mapping', 'fns', 'gfns'), _ret_value,
                   names=PRE_NAMES, ctors=MEM_CTOR, calls=CALLS_PRE, shape=_only_return),
            O_expr('InMemoryFederatedData.preprocess_batch', 'in_memory_preprocess_batch',
                   [('mapping', 'mapping'), ('pc', 'fns'), ('pb', 'gfns'), ('fn', 'gfn')], ('mapping', 'fns', 'gfns'), _ret_value,
                   names=PRE_NAMES, ctors=MEM_CTOR, calls=CALLS_PRE, shape=_only_return),
            # _client_dataset: `stored` stands for self._client_to_data_mapping[client_id] (KeyError when absent)
            O_fun('InMemoryFederatedData._client_dataset', 'in_memory_client_dataset',
                  [('pc', 'fns'), ('pb', 'gfns'), ('client_id', 'B'), ('stored', 'E')], ('E', 'gfns'),
                  names=PRE_NAMES, pyparams=['self', 'client_id'],
                  subs={'self._client_to_data_mapping[client_id]': ('stored', 'E')},
                  ctors={'client_datasets.ClientDataset': (['E', 'gfns'], {})},
                  calls={'self._preprocess_client': _method_call('fns', 'client_preprocessor_call applyc {0} {1} {2}', ['B', 'E'], 'E', 'func')}),
            # __init__: self._client_ids = sorted(self._client_to_data_mapping.keys())
            O_expr('InMemoryFederatedData.__init__', 'in_memory_init_client_ids', [('mapping', 'mapping')], 'ids',
                   _assign_value('self._client_ids'), names=PRE_NAMES),
            O_shuffle('InMemoryFederatedData.shuffled_clients', 'in_memory_shuffled_pass', 'self.clients()', 'client_id, dataset',
                      'client_id, dataset', 's', '{S}'),
            O_expr('InMemoryFederatedData.client_sizes', 'in_memory_client_sizes_item', [('client_id', 'B')], ('B', 'R0'),
                   lambda fd: _loop(fd).body[0].value.value, calls={'client_datasets.num_examples': _num_examples_call},
                   shape=_for_yield('self._client_ids', ['client_id'], None), extra_params='{R0} (num_examples_of : bytes -> R0)'),
            O_text('InMemoryFederatedData.client_sizes', _for_yield('self._client_ids', ['client_id'], None),
                   'Definition in_memory_client_sizes (num_examples_of : bytes -> res Z) (client_ids0 : list bytes) : stream (bytes * Z) :=\n'
                   '  for_yield (in_memory_client_sizes_item num_examples_of) client_ids0.'),
            O_expr('InMemoryFederatedData.client_size', 'in_memory_client_size', [('client_id', 'B')], 'R0', _ret_value,
                   calls={'client_datasets.num_examples': _num_examples_call}, shape=_only_return,
                   extra_params='{R0} (num_examples_of : bytes -> R0)'),
            O_expr('InMemoryFederatedData.get_client', 'in_memory_get_client', [('client_id', 'B')], 'R', _ret_value,
                   calls={'self._client_dataset': ('client_dataset_of {0}', ['B'], 'R')}, shape=_only_return,
                   extra_params='(client_dataset_of : bytes -> R)'),
            O_same('InMemoryFederatedData.__init__', 'in_memory_init', """
self._preprocess_client = preprocess_client
self._preprocess_batch = preprocess_batch
self._client_to_data_mapping = client_to_data_mapping
self._client_ids = sorted(self._client_to_data_mapping.keys())
self._features = list(self._client_to_data_mapping[
    self._client_ids[0]].keys()) if self._client_ids else []
for client_id in self._client_ids:
  dataset = self._client_to_data_mapping[client_id]
  if sorted(dataset.keys()) != sorted(self._features):
    raise ValueError(
        f'Inconsistent features, got {list(dataset.keys())} for client {client_id}, expect {self._features}'
    )

  num_samples = dataset[self._features[0]].shape[0]
  try:
    client_datasets.assert_consistent_rows(
        self._client_dataset(client_id).all_examples())
  except ValueError as exc:
    raise ValueError(
        f'Inconsistent examples, for client {client_id}') from exc
"""),
            O_expr('InMemoryFederatedData.num_clients', 'in_memory_num_clients', [('client_ids0', 'ids')], 'Z', _ret_value,
                   names=PRE_NAMES, shape=_only_return),
            O_expr('InMemoryFederatedData.client_ids', 'in_memory_client_ids', [('client_ids0', 'ids')], 'ids', _ret_value,
                   names=PRE_NAMES, shape=_only_return),
            O_expr('InMemoryFederatedData.clients', 'in_memory_clients_request', [('client_ids0', 'ids')], 'ids',
                   lambda fd: _strip_doc(fd.body)[0].value.value.args[0], names=PRE_NAMES, shape=_yield_from_get_clients),
            O_expr('InMemoryFederatedData.get_clients', 'in_memory_get_clients_item',
                   [('client_id', 'B')], ('B', 'R0'), lambda fd: _loop(fd).body[0].value.value,
                   calls={'self._client_dataset': ('client_dataset_of {0}', ['B'], 'R0')},
                   shape=_for_yield('client_ids', ['client_id'], None), extra_params='{R0} (client_dataset_of : bytes -> R0)'),
            O_text('InMemoryFederatedData.get_clients', _for_yield('client_ids', ['client_id'], None),
                   'Definition in_memory_get_clients (client_dataset_of : bytes -> res D) (client_ids : list bytes) : stream (bytes * D) :=\n'
                   '  for_yield (in_memory_get_clients_item client_dataset_of) client_ids.'),
        ],
    },
    'Gen_sqlite_federated_data': {
        'src': SQ,
        'preamble': PRE + 'From FV Require Import gen.Gen_client_datasets_pre gen.Gen_federated_data.\n' + SEC,
        'postamble': 'End Obj.\n',
        'items': [
            O_no_ambient_state('sqlite_federated_data'),
            B_fun('SQLiteFederatedData._range_where', 'sqlite_range_where',
                  [('start', 'optB'), ('stop', 'optB'), ('client_id', 'B')], 'sqlpred',
                  names=SELF_RANGE, pyparams=['self']),
            B_test('SQLiteFederatedData.get_client', 'sqlite_get_client_in_range',
                   [('start', 'optB'), ('stop', 'optB'), ('client_id', 'B')], SELF_RANGE),
            B_test('SQLiteFederatedData.client_size', 'sqlite_client_size_in_range',
                   [('start', 'optB'), ('stop', 'optB'), ('client_id', 'B')], SELF_RANGE),
            Q_range('SQLiteFederatedData.num_clients', 'sqlite_num_clients'),
            Q_range('SQLiteFederatedData.client_ids', 'sqlite_client_ids'),
            Q_range('SQLiteFederatedData.client_sizes', 'sqlite_client_sizes'),
            Q_range('SQLiteFederatedData._read_clients', 'sqlite_read_clients'),
            Q_point('SQLiteFederatedData.client_size', 'sqlite_client_size', {'result[0]': 'Val {col}'}, '', 'Z'),
            Q_point('SQLiteFederatedData.get_client', 'sqlite_get_client',
                    {'self._client_dataset(client_id, result[0])': 'client_dataset_of client_id {col}'},
                    '(client_dataset_of : bytes -> Dt -> res D)', 'D'),
            O_shuffle('SQLiteFederatedData.shuffled_clients', 'sqlite_shuffled_pass', 'self._read_clients()', 'k, v',
                      'k, self._client_dataset(k, v)', '(fst s, client_dataset_of (fst s) (snd s))',
                      '{A R0} (client_dataset_of : bytes -> A -> R0)', '(bytes * A)'),
            O_same('SQLiteFederatedData.__init__', 'sqlite_init', """
self._connection = connection
self._parse_examples = parse_examples
self._start = start
self._stop = stop
self._preprocess_client = preprocess_client
self._preprocess_batch = preprocess_batch
"""),
            O_same('SQLiteFederatedData.new', 'sqlite_new', """
connection = sqlite3.connect(path)
return SQLiteFederatedData(connection, parse_examples)
"""),
            O_fun('SQLiteFederatedData.slice', 'sqlite_slice',
                  [('start0', 'optB'), ('stop0', 'optB'), ('pc', 'fns'), ('pb', 'gfns'), ('start', 'optB'), ('stop', 'optB')],
                  ('optB', 'optB', 'fns', 'gfns'),
                  names={'self._start': 'start0', 'self._stop': 'stop0', 'self._preprocess_client': 'pc', 'self._preprocess_batch': 'pb'},
                  pyparams=['self', 'start', 'stop'], ctors=SQL_CTOR,
                  partial_calls={'federated_data.intersect_slice_ranges':
                                 ('intersect_slice_ranges', ['optB', 'optB', 'optB', 'optB'], ['optB', 'optB'])}),
            O_expr('SQLiteFederatedData.preprocess_client', 'sqlite_preprocess_client',
                   [('start', 'optB'), ('stop', 'optB'), ('pc', 'fns'), ('pb', 'gfns'), ('fn', 'fn')],
                   ('optB', 'optB', 'fns', 'gfns'), _ret_value, names=PRE_NAMES, ctors=SQL_CTOR, calls=CALLS_PRE, shape=_only_return),
            O_expr('SQLiteFederatedData.preprocess_batch', 'sqlite_preprocess_batch',
                   [('start', 'optB'), ('stop', 'optB'), ('pc', 'fns'), ('pb', 'gfns'), ('fn', 'gfn')],
                   ('optB', 'optB', 'fns', 'gfns'), _ret_value, names=PRE_NAMES, ctors=SQL_CTOR, calls=CALLS_PRE, shape=_only_return),
            # _client_dataset: `stored` stands for self._parse_examples(data)
            O_fun('SQLiteFederatedData._client_dataset', 'sqlite_client_dataset',
                  [('pc', 'fns'), ('pb', 'gfns'), ('client_id', 'B'), ('stored', 'E')], ('E', 'gfns'),
                  names=PRE_NAMES, pyparams=['self', 'client_id', 'data'],
                  subs={'self._parse_examples(data)': ('stored', 'E')},
                  ctors={'client_datasets.ClientDataset': (['E', 'gfns'], {})},
                  calls={'self._preprocess_client': _method_call('fns', 'client_preprocessor_call applyc {0} {1} {2}', ['B', 'E'], 'E', 'func')}),
            O_expr('SQLiteFederatedData.get_clients', 'sqlite_get_clients_item',
                   [('client_id', 'B')], ('B', 'R0'), lambda fd: _loop(fd).body[0].value.value,
                   calls={'self.get_client': ('get_client_of {0}', ['B'], 'R0')},
                   shape=_for_yield('client_ids', ['client_id'], None), extra_params='{R0} (get_client_of : bytes -> R0)'),
            O_expr('SQLiteFederatedData.clients', 'sqlite_clients_item',
                   [('k', 'B'), ('v', 'E')], ('B', 'R0'), lambda fd: _loop(fd).body[0].value.value,
                   calls={'self._client_dataset': ('client_dataset_of {0} {1}', ['B', 'E'], 'R0')},
                   shape=_for_yield('self._read_clients()', ['k', 'v'], None), extra_params='{R0} (client_dataset_of : bytes -> E -> R0)'),
            O_text('SQLiteFederatedData.clients', _for_yield('self._read_clients()', ['k', 'v'], None),
                   'Definition sqlite_clients (client_dataset_of : bytes -> E -> res D) (rows : list (bytes * E)) : stream (bytes * D) :=\n'
                   '  for_yield (fun kv => sqlite_clients_item client_dataset_of (fst kv) (snd kv)) rows.'),
            O_text('SQLiteFederatedData.get_clients', _for_yield('client_ids', ['client_id'], None),
                   'Definition sqlite_get_clients (get_client_of : bytes -> res D) (client_ids : list bytes) : stream (bytes * D) :=\n'
                   '  for_yield (sqlite_get_clients_item get_client_of) client_ids.'),
        ],
    },
}
