"""Translator anchors for C10: the EFFECT SKELETON of every built-in algorithm's and every
compression aggregator's apply(), extracted from the source on every run.

This is a structural, fail-closed abstract interpretation of the Python text of
`apply` (nested in its factory function), of the factory- / module-level helper
functions it calls (inlined at the call with the provenance of the actual
arguments: server_update, maximization_step, expectation_step, ...), of the
functions nested in it and of outer functions it passes around as callbacks.  Every
value carries a provenance:

  IN   reachable from an argument of apply (server state, client tuple, aggregator state)
  OWN  created by this call (a call result, a display / comprehension, dict(...), a slice)
  CLO  a free variable of apply bound in the enclosing factory or module (state that
       outlives the call)

and every container additionally the provenance of its elements.  In program order
(loop bodies and both branches of an `if` once) the interpreter emits

  EAllocDict c / EAllocList c   a dict / list object is created (c: as a copy / slice of an IN container)
  EDictSet o / EListSet o / EListAppend o
                                 an in-place write: subscript / attribute store, augmented
                                 subscript store, del x[..], mutating method (.append .extend
                                 .insert .pop .remove .clear .sort .reverse .update .setdefault
                                 .popitem .add .discard .__setitem__ .__delitem__),
                                 object.__setattr__; o = the written object is OWN
  EDonate [o..]                  a call through jax.jit / jax.pmap with donate_argnums (bound to a
                                 name anywhere in the module, a decorator, or applied inline);
                                 o = the donated operand is OWN

The Gallina text `<factory>_effects : list ecmd` (Common/Store.v) is what
Proofs/C10_Proofs.v compares with the skeleton of the hand-written script and checks with
`forallb ewf`, both by computation: an in-place write into the input state, a donated
input buffer or a write to factory-level state changes a flag to `false` (or the list) and
the proofs no longer check.

Trusted reading (fail closed otherwise: Unsupported): calls into imported modules and to
closures built by the factory (train_for_each_client, optimizers ...) and to @jax.jit functions
(traced, hence pure; their donate_argnums are honoured) return OWN values and
do not write their arguments (for_each_client.py and tree_util.py carry their own anchors);
the methods listed in PURE_METHODS do not write their receiver; `global` / `nonlocal`,
`exec`, `setattr`, `vars`, star-assignment are refused."""
import ast

from translate import Unsupported, dotted

ALG = 'fedjax/algorithms/'
IN, OWN, CLO = 'IN', 'OWN', 'CLO'

LIST_MUTATORS = {'append': 'EListAppend', 'extend': 'EListAppend', 'insert': 'EListAppend',
                 'pop': 'EListSet', 'remove': 'EListSet', 'clear': 'EListSet', 'sort': 'EListSet', 'reverse': 'EListSet',
                 '__delitem__': 'EListSet', 'add': 'EListSet', 'discard': 'EListSet'}
DICT_MUTATORS = {'update': 'EDictSet', 'setdefault': 'EDictSet', 'popitem': 'EDictSet', '__setitem__': 'EDictSet'}
PURE_METHODS = {'get', 'items', 'values', 'keys', 'shuffle_repeat_batch', 'padded_batch', 'batch', 'apply', 'init',
                'replace', 'format', 'train_per_client_params', 'train_global_params', 'evaluate_global_params',
                'evaluate_per_client_params', 'flatten', 'astype', 'reshape', 'item', 'tolist', 'split', 'join'}
PURE_BUILTINS = {'len', 'sum', 'min', 'max', 'abs', 'float', 'int', 'bool', 'str', 'bytes', 'isinstance', 'range', 'tuple',
                 'zip', 'enumerate', 'reversed', 'map', 'iter', 'next', 'any', 'all', 'round', 'print', 'repr', 'type'}
REFUSED = {'exec', 'eval', 'setattr', 'delattr', 'vars', 'globals', 'locals', '__import__'}


def join(*ps):
  return IN if IN in ps else CLO if CLO in ps else OWN


class Val:
  """A value: provenance of the object itself, of its elements, and (for containers we saw being built) its kind."""

  def __init__(self, prov, elem=None, kind=None):
    self.prov, self.elem, self.kind = prov, (prov if elem is None else elem), kind


def _src(e, n=70):
  s = ' '.join(ast.unparse(e).split())
  return s if len(s) <= n else s[:n - 3] + '...'


def _donate_positions(call):
  """donate_argnums of a jax.jit(...) / jax.pmap(...) / functools.partial(jax.jit, ...) call node, or None."""
  if not isinstance(call, ast.Call):
    return None
  try:
    f = dotted(call.func)
  except Unsupported:
    return None
  kws = list(call.keywords)
  if f == 'functools.partial' and call.args:
    try:
      if dotted(call.args[0]) not in ('jax.jit', 'jax.pmap'):
        return None
    except Unsupported:
      return None
  elif f not in ('jax.jit', 'jax.pmap'):
    return None
  pos = None
  for k in kws:
    if k.arg == 'donate_argnames':
      raise Unsupported('donate_argnames')
    if k.arg == 'donate_argnums':
      v = k.value
      elts = v.elts if isinstance(v, (ast.Tuple, ast.List)) else [v]
      if not all(isinstance(x, ast.Constant) and isinstance(x.value, int) and not isinstance(x.value, bool) for x in elts):
        raise Unsupported('donate_argnums is not a literal')
      pos = sorted({x.value for x in elts})
  return pos


class Analyzer:
  def __init__(self, tree, factory, fn='apply'):
    self.tree, self.factory, self.fn = tree, factory, fn
    self.out = []                     # (ecmd text, source comment)
    self.modules = set()              # names bound by import statements
    self.module_defs, self.factory_defs = {}, {}
    self.donors = {}                  # name -> donated positions
    self.clo = {}                     # free variable -> its (shared) Val
    self.inlining = []
    self.callbacks_done = set()
    for n in tree.body:
      if isinstance(n, ast.Import):
        for a in n.names:
          self.modules.add((a.asname or a.name).split('.')[0])
      elif isinstance(n, ast.ImportFrom):
        for a in n.names:
          self.modules.add(a.asname or a.name)
      elif isinstance(n, ast.FunctionDef):
        self.module_defs[n.name] = n
    fac = self.module_defs.get(factory)
    if fac is None:
      raise Unsupported(f'factory {factory} not found')
    self.fac = fac
    for n in fac.body:
      if isinstance(n, ast.FunctionDef):
        self.factory_defs[n.name] = n
    if fn not in self.factory_defs:
      raise Unsupported(f'{factory}: no nested {fn}()')
    # every jit / pmap with donation anywhere in the module
    for n in ast.walk(tree):
      if isinstance(n, ast.Assign) and len(n.targets) == 1 and isinstance(n.targets[0], ast.Name):
        p = _donate_positions(n.value)
        if p:
          self.donors[n.targets[0].id] = p
      if isinstance(n, ast.FunctionDef):
        for d in n.decorator_list:
          p = _donate_positions(d)
          if p:
            self.donors[n.name] = p
      if isinstance(n, (ast.Global, ast.Nonlocal)):
        raise Unsupported('global / nonlocal statement')

  @staticmethod
  def is_jitted(fd):
    for d in fd.decorator_list:
      try:
        if dotted(d if not isinstance(d, ast.Call) else d.func) in ('jax.jit', 'jax.pmap'):
          return True
        if isinstance(d, ast.Call) and dotted(d.func) == 'functools.partial' and d.args and dotted(d.args[0]) in ('jax.jit', 'jax.pmap'):
          return True
      except Unsupported:
        pass
    return False

  # ---- output --------------------------------------------------------------------
  def emit(self, text, node):
    self.out.append((text, _src(node)))

  def own(self, v):
    return 'true' if v.prov == OWN else 'false'

  # ---- names ---------------------------------------------------------------------
  def lookup(self, name, env, node):
    if name in env:
      return env[name]
    if name in self.modules or name in PURE_BUILTINS or name in ('dict', 'list', 'set', 'sorted', 'object', 'True', 'False', 'None'):
      return Val(OWN)
    if name in REFUSED:
      raise Unsupported('use of ' + name)
    # an outer function passed around as a callback: its body runs during this call
    fd = self.factory_defs.get(name) or self.module_defs.get(name)
    if fd is not None and name != self.fn:
      if name not in self.callbacks_done and name not in self.inlining:
        self.callbacks_done.add(name)
        self.run_def(fd, [Val(OWN) for _ in fd.args.args], {}, env_outer=True)
      return Val(OWN)
    return self.clo.setdefault(name, Val(CLO))

  # ---- functions -----------------------------------------------------------------
  def run_def(self, fd, args, kwargs, env_outer=False, env=None):
    """Runs the body of fd with the given argument values; outer functions see only their own
    parameters (free names are CLO), nested ones the environment they were defined in."""
    a = fd.args
    if a.vararg or a.kwarg or a.posonlyargs:
      raise Unsupported(f'{fd.name}: star parameters')
    names = [x.arg for x in a.args] + [x.arg for x in a.kwonlyargs]
    local = {} if env_outer else dict(env or {})
    for n in names:
      local[n] = Val(OWN)
    for n, v in zip([x.arg for x in a.args], args):
      local[n] = v
    for k, v in kwargs.items():
      if k not in names:
        raise Unsupported(f'{fd.name}: unexpected keyword {k}')
      local[k] = v
    self.inlining.append(fd.name)
    rets = []
    self.block(fd.body, local, rets)
    self.inlining.pop()
    if not rets:
      return Val(OWN)
    return Val(join(*[r.prov for r in rets]), join(*[r.elem for r in rets]), rets[0].kind if len(rets) == 1 else None)

  # ---- statements ----------------------------------------------------------------
  def block(self, stmts, env, rets):
    for s in stmts:
      self.stmt(s, env, rets)

  def bind(self, target, v, env):
    if isinstance(target, ast.Name):
      env[target.id] = v
    elif isinstance(target, (ast.Tuple, ast.List)):
      for t in target.elts:
        if isinstance(t, ast.Starred):
          raise Unsupported('star assignment')
        self.bind(t, Val(v.elem), env)
    elif isinstance(target, ast.Subscript):
      base = self.ev(target.value, env)
      self.ev(target.slice, env)
      kind = 'EListSet' if base.kind == 'list' else 'EDictSet'
      self.emit(f'{kind} {self.own(base)}', target)
      base.elem = join(base.elem, v.prov)
    elif isinstance(target, ast.Attribute):
      base = self.ev(target.value, env)
      self.emit(f'EDictSet {self.own(base)}', target)
      base.elem = join(base.elem, v.prov)
    else:
      raise Unsupported('assignment target ' + _src(target))

  def stmt(self, s, env, rets):
    if isinstance(s, ast.Expr):
      self.ev(s.value, env)
    elif isinstance(s, ast.Assign):
      v = self.ev(s.value, env)
      for t in s.targets:
        self.bind(t, v, env)
    elif isinstance(s, ast.AnnAssign):
      if s.value is not None:
        self.bind(s.target, self.ev(s.value, env), env)
    elif isinstance(s, ast.AugAssign):
      v = self.ev(s.value, env)
      if isinstance(s.target, ast.Name):
        old = self.lookup(s.target.id, env, s)
        if old.prov != OWN or old.kind is not None:
          # x += ... on a list / input object is an in-place extend
          self.emit(f'EListAppend {self.own(old)}', s)
          old.elem = join(old.elem, v.elem)
        else:
          env[s.target.id] = Val(join(old.prov, v.prov))
      else:
        self.bind(s.target, v, env)
    elif isinstance(s, ast.Return):
      rets.append(self.ev(s.value, env) if s.value is not None else Val(OWN))
    elif isinstance(s, ast.If):
      self.ev(s.test, env)
      e1, e2 = dict(env), dict(env)
      self.block(s.body, e1, rets)
      self.block(s.orelse, e2, rets)
      for k in set(e1) | set(e2):
        a, b = e1.get(k), e2.get(k)
        if a is None or b is None or a is b:
          env[k] = a or b
        else:
          env[k] = Val(join(a.prov, b.prov), join(a.elem, b.elem), a.kind if a.kind == b.kind else None)
    elif isinstance(s, ast.For):
      it = self.ev(s.iter, env)
      self.bind(s.target, Val(it.elem), env)
      self.block(s.body, env, rets)
      self.block(s.orelse, env, rets)
    elif isinstance(s, ast.While):
      self.ev(s.test, env)
      self.block(s.body, env, rets)
      self.block(s.orelse, env, rets)
    elif isinstance(s, ast.With):
      for it in s.items:
        v = self.ev(it.context_expr, env)
        if it.optional_vars is not None:
          self.bind(it.optional_vars, v, env)
      self.block(s.body, env, rets)
    elif isinstance(s, ast.Try):
      self.block(s.body, env, rets)
      for h in s.handlers:
        self.block(h.body, env, rets)
      self.block(s.orelse, env, rets)
      self.block(s.finalbody, env, rets)
    elif isinstance(s, ast.Assert):
      self.ev(s.test, env)
    elif isinstance(s, ast.Raise):
      if s.exc is not None:
        self.ev(s.exc, env)
    elif isinstance(s, (ast.Pass, ast.Break, ast.Continue)):
      pass
    elif isinstance(s, ast.Delete):
      for t in s.targets:
        if isinstance(t, ast.Name):
          env.pop(t.id, None)
        elif isinstance(t, (ast.Subscript, ast.Attribute)):
          base = self.ev(t.value, env)
          self.emit(f'{"EListSet" if base.kind == "list" else "EDictSet"} {self.own(base)}', t)
        else:
          raise Unsupported('del target')
    elif isinstance(s, ast.FunctionDef):
      # a nested function: its body runs (lazily) during this call, in the defining environment
      env[s.name] = Val(OWN)
      self.run_def(s, [], {}, env=env)
    else:
      raise Unsupported('statement ' + type(s).__name__)

  # ---- expressions ---------------------------------------------------------------
  def alloc(self, kind, copies, elem, node):
    self.emit(f'{"EAllocDict" if kind == "dict" else "EAllocList"} {"true" if copies else "false"}', node)
    return Val(OWN, elem, kind)

  def comp(self, e, env, kind):
    env2 = dict(env)
    first = None
    for g in e.generators:
      it = self.ev(g.iter, env2)
      first = first or it
      self.bind(g.target, Val(it.elem), env2)
      for c in g.ifs:
        self.ev(c, env2)
    if kind == 'gen':
      v = self.ev(e.elt, env2)
      return Val(OWN, v.prov)
    res = self.alloc('dict' if kind == 'dict' else 'list', False, OWN, e)
    if kind == 'dict':
      self.ev(e.key, env2)
      v = self.ev(e.value, env2)
    else:
      v = self.ev(e.elt, env2)
    res.elem = v.prov
    return res

  def ev(self, e, env):
    if e is None or isinstance(e, (ast.Constant, ast.JoinedStr)):
      return Val(OWN)
    if isinstance(e, ast.Name):
      return self.lookup(e.id, env, e)
    if isinstance(e, ast.Attribute):
      v = self.ev(e.value, env)
      return Val(v.elem, v.elem) if v.prov == OWN else Val(v.prov, v.prov)
    if isinstance(e, ast.Subscript):
      v = self.ev(e.value, env)
      if isinstance(e.slice, ast.Slice):
        for x in (e.slice.lower, e.slice.upper, e.slice.step):
          self.ev(x, env)
        return self.alloc('list', v.prov != OWN, v.elem, e)
      self.ev(e.slice, env)
      return Val(v.elem, v.elem)
    if isinstance(e, (ast.Tuple,)):
      vs = [self.ev(x, env) for x in e.elts]
      return Val(join(*[x.prov for x in vs]) if vs else OWN)
    if isinstance(e, (ast.List, ast.Set)):
      res = self.alloc('list', False, OWN, e)
      vs = [self.ev(x, env) for x in e.elts]
      res.elem = join(*[x.prov for x in vs]) if vs else OWN
      return res
    if isinstance(e, ast.Dict):
      res = self.alloc('dict', False, OWN, e)
      ps = []
      for k, x in zip(e.keys, e.values):
        self.ev(k, env)
        v = self.ev(x, env)
        ps.append(v.prov if k is not None else v.elem)
      res.elem = join(*ps) if ps else OWN
      return res
    if isinstance(e, ast.ListComp) or isinstance(e, ast.SetComp):
      return self.comp(e, env, 'list')
    if isinstance(e, ast.DictComp):
      return self.comp(e, env, 'dict')
    if isinstance(e, ast.GeneratorExp):
      return self.comp(e, env, 'gen')
    if isinstance(e, ast.BinOp):
      # l[a:] + [x]: one new list (the intermediate slice / display objects are garbage at once)
      if isinstance(e.op, ast.Add) and isinstance(e.left, ast.Subscript) and isinstance(e.left.slice, ast.Slice) \
          and isinstance(e.right, ast.List):
        base = self.ev(e.left.value, env)
        for x in (e.left.slice.lower, e.left.slice.upper, e.left.slice.step):
          self.ev(x, env)
        vs = [self.ev(x, env) for x in e.right.elts]
        return self.alloc('list', base.prov != OWN, join(base.elem, *[x.prov for x in vs]), e)
      a, b = self.ev(e.left, env), self.ev(e.right, env)
      if isinstance(e.op, ast.Add) and (a.kind == 'list' or b.kind == 'list'):
        return self.alloc('list', a.prov != OWN or b.prov != OWN, join(a.elem, b.elem), e)
      return Val(OWN)
    if isinstance(e, (ast.UnaryOp,)):
      self.ev(e.operand, env)
      return Val(OWN)
    if isinstance(e, ast.BoolOp):
      vs = [self.ev(x, env) for x in e.values]
      return Val(join(*[x.prov for x in vs]), join(*[x.elem for x in vs]))
    if isinstance(e, ast.Compare):
      self.ev(e.left, env)
      for x in e.comparators:
        self.ev(x, env)
      return Val(OWN)
    if isinstance(e, ast.IfExp):
      self.ev(e.test, env)
      a, b = self.ev(e.body, env), self.ev(e.orelse, env)
      return Val(join(a.prov, b.prov), join(a.elem, b.elem), a.kind if a.kind == b.kind else None)
    if isinstance(e, ast.Lambda):
      env2 = dict(env)
      for x in e.args.args:
        env2[x.arg] = Val(OWN)
      self.ev(e.body, env2)
      return Val(OWN)
    if isinstance(e, ast.Starred):
      return self.ev(e.value, env)
    if isinstance(e, ast.Call):
      return self.call(e, env)
    raise Unsupported('expression ' + type(e).__name__)

  def call(self, e, env):
    # donation: name bound to a donating jit, or jax.jit(f, donate_argnums=..)(args) inline
    pos = None
    if isinstance(e.func, ast.Name) and e.func.id in self.donors and e.func.id not in env:
      pos = self.donors[e.func.id]
    elif isinstance(e.func, ast.Call):
      pos = _donate_positions(e.func)
    if isinstance(e.func, ast.Name) and e.func.id in env and e.func.id in self.donors:
      pos = self.donors[e.func.id]
    if pos:
      args = [self.ev(a, env) for a in e.args]
      for k in e.keywords:
        self.ev(k.value, env)
      if any(p >= len(args) for p in pos):
        raise Unsupported('donated argument passed by keyword')
      self.emit('EDonate [' + '; '.join(self.own(args[p]) for p in pos) + ']', e)
      return Val(OWN)
    if isinstance(e.func, ast.Name):
      f = e.func.id
      if f in REFUSED:
        raise Unsupported('call to ' + f)
      if f in ('dict', 'list', 'set', 'sorted') and f not in env:
        args = [self.ev(a, env) for a in e.args]
        for k in e.keywords:
          self.ev(k.value, env)
        src = args[0] if args else Val(OWN)
        return self.alloc('dict' if f == 'dict' else 'list', bool(args) and src.prov != OWN, src.elem, e)
      fd = None if f in env else (self.factory_defs.get(f) or self.module_defs.get(f))
      if fd is not None and self.is_jitted(fd):
        fd = None          # a jit-compiled function is traced: a pure function of its arguments (donation is handled above)
        for a in e.args:
          self.ev(a, env)
        for k in e.keywords:
          self.ev(k.value, env)
        return Val(OWN)
      if fd is not None and f not in self.inlining:
        args = [self.ev(a, env) for a in e.args]
        kwargs = {}
        for k in e.keywords:
          if k.arg is None:
            raise Unsupported('**kwargs call')
          kwargs[k.arg] = self.ev(k.value, env)
        return self.run_def(fd, args, kwargs, env_outer=True)
      self.lookup(f, env, e) if f not in PURE_BUILTINS else None
      vs = [self.ev(a, env) for a in e.args] + [self.ev(k.value, env) for k in e.keywords]
      if f in ('zip', 'enumerate', 'reversed', 'map', 'iter', 'next', 'tuple') and f not in env:
        return Val(OWN, join(*[v.elem for v in vs]) if vs else OWN)
      return Val(OWN)
    if isinstance(e.func, ast.Attribute):
      m = e.func.attr
      # object.__setattr__(x, name, v): the frozen-dataclass bypass
      if m in ('__setattr__', '__delattr__') and len(e.args) >= 2:
        tgt = self.ev(e.args[0], env)
        for a in e.args[1:]:
          self.ev(a, env)
        self.emit(f'EDictSet {self.own(tgt)}', e)
        return Val(OWN)
      recv_is_module = isinstance(e.func.value, ast.Name) and e.func.value.id in self.modules and e.func.value.id not in env
      try:
        d = dotted(e.func)
        recv_is_module = recv_is_module or (d.split('.')[0] in self.modules and d.split('.')[0] not in env)
      except Unsupported:
        pass
      if recv_is_module:
        vs = [self.ev(a, env) for a in e.args] + [self.ev(k.value, env) for k in e.keywords]
        if m in ('starmap', 'chain', 'islice'):
          return Val(OWN, join(*[v.elem for v in vs]) if vs else OWN)
        return Val(OWN)
      recv = self.ev(e.func.value, env)
      args = [self.ev(a, env) for a in e.args]
      for k in e.keywords:
        self.ev(k.value, env)
      if m in LIST_MUTATORS or m in DICT_MUTATORS:
        self.emit(f'{LIST_MUTATORS.get(m) or DICT_MUTATORS[m]} {self.own(recv)}', e)
        recv.elem = join(recv.elem, *[a.prov for a in args])
        return Val(recv.elem)
      if m == 'get':
        return Val(join(recv.elem, *[a.prov for a in args[1:]]))
      if m in ('items', 'values', 'keys'):
        return Val(OWN, recv.elem)
      if m in PURE_METHODS:
        return Val(OWN)
      raise Unsupported('method .' + m + '() on a non-module receiver: ' + _src(e))
    # a call of a call result / subscript (e.g. fns[i](x))
    self.ev(e.func, env)
    for a in e.args:
      self.ev(a, env)
    for k in e.keywords:
      self.ev(k.value, env)
    return Val(OWN)


def effects_of(tree, factory, fn='apply'):
  an = Analyzer(tree, factory, fn)
  ap = an.factory_defs[fn]
  env = {a.arg: Val(IN) for a in ap.args.args}
  an.inlining.append(fn)
  an.block(ap.body, env, [])
  return an.out


def A_effects(factory, coqname=None, fn='apply'):
  def emit(tree):
    out = effects_of(tree, factory, fn)
    name = (coqname or factory) + '_effects'
    lines = [f'  {t}' + (';' if i + 1 < len(out) else ' ') + f'    (* {c.replace("*)", "* )").replace("(*", "( *")} *)'
             for i, (t, c) in enumerate(out)]
    return (f'(* effect skeleton of {factory}(...).apply, program order, loop bodies once *)\n'
            f'Definition {name} : list ecmd := [\n' + '\n'.join(lines) + '\n].')
  return emit


def A_optax_apply_donates(tree):
  """create_optimizer_from_optax: the jitted `apply` every server / client optimizer goes through."""
  for n in tree.body:
    if isinstance(n, ast.FunctionDef) and n.name == 'create_optimizer_from_optax':
      for m in n.body:
        if isinstance(m, ast.FunctionDef) and m.name == 'apply':
          pos = []
          for d in m.decorator_list:
            p = _donate_positions(d)
            if p:
              pos += p
            elif not (isinstance(d, (ast.Name, ast.Attribute)) and dotted(d) == 'jax.jit') and _donate_positions(d) is None \
                and not (isinstance(d, ast.Call) and dotted(d.func) in ('jax.jit', 'functools.partial')):
              raise Unsupported('create_optimizer_from_optax.apply: decorator not understood')
          return ('(* donate_argnums of the jitted apply of create_optimizer_from_optax *)\n'
                  'Definition optax_apply_donates : list nat := [' + '; '.join(f'{p}%nat' for p in sorted(set(pos))) + '].')
  raise Unsupported('create_optimizer_from_optax.apply not found')


def A_key_depth(factory):
  """How many times the key stored in the new CompressionState was obtained as the FIRST component of
  jax.random.split(...) starting from aggregator_state.rng (0 = the old key is stored again)."""
  def emit(tree):
    an = Analyzer(tree, factory)
    ap = an.factory_defs['apply']
    depth = {}
    stored = None
    for s in ap.body:
      if isinstance(s, ast.Assign) and len(s.targets) == 1 and isinstance(s.targets[0], ast.Tuple) and \
          isinstance(s.value, ast.Call) and _src(s.value.func) == 'jax.random.split' and len(s.value.args) == 1 and \
          not s.value.keywords and all(isinstance(x, ast.Name) for x in s.targets[0].elts) and len(s.targets[0].elts) == 2:
        a = s.value.args[0]
        base = 0 if _src(a) == 'aggregator_state.rng' else depth.get(a.id) if isinstance(a, ast.Name) else None
        first, second = (x.id for x in s.targets[0].elts)
        depth.pop(second, None)
        if base is None:
          depth.pop(first, None)
        else:
          depth[first] = base + 1
      elif isinstance(s, ast.Assign) and len(s.targets) == 1 and _src(s.targets[0]) == 'new_state':
        v = s.value
        if not (isinstance(v, ast.Call) and _src(v.func) == 'CompressionState' and len(v.args) == 2 and not v.keywords):
          raise Unsupported(f'{factory}: new_state is not CompressionState(bits, key)')
        k = v.args[1]
        if _src(k) == 'aggregator_state.rng':
          stored = 0
        elif isinstance(k, ast.Name) and k.id in depth:
          stored = depth[k.id]
        else:
          raise Unsupported(f'{factory}: the key stored in the new state is not on the split path of the old one')
      elif isinstance(s, ast.Assign):
        for tgt in ast.walk(s.targets[0]):
          if isinstance(tgt, ast.Name):
            depth.pop(tgt.id, None)
    if stored is None:
      raise Unsupported(f'{factory}: new_state = CompressionState(...) not found')
    return (f'(* the key kept in the new state = the first component of {stored} nested jax.random.split of aggregator_state.rng *)\n'
            f'Definition {factory}_key_depth : nat := {stored}.')
  return emit


def A_process_scan(tree):
  """Every use, anywhere in the module, of something whose value depends on the interpreter process or the moment
  rather than on the arguments: hash(), id(), the time / datetime / uuid / secrets modules, os.environ / getenv / getpid /
  urandom, the stdlib `random` module, unseeded numpy.random.  `process_dependent_uses` must stay 0."""
  hits = []
  std_random = any(isinstance(n, ast.Import) and any(a.name == 'random' and a.asname is None for a in n.names) for n in ast.walk(tree))
  # an identity __hash__ (`return id(self)`, used by jit to key its cache on a Model object) does not reach any value
  allowed = {id(c) for f in ast.walk(tree) if isinstance(f, ast.FunctionDef) and f.name == '__hash__' and len(f.body) == 1
             and _src(f.body[0]) == 'return id(self)' for c in ast.walk(f)}
  for n in ast.walk(tree):
    if isinstance(n, ast.Call) and isinstance(n.func, ast.Name) and n.func.id in ('hash', 'id', 'input', 'globals', 'vars') \
        and id(n) not in allowed:
      hits.append(_src(n, 50))
    if isinstance(n, (ast.Import, ast.ImportFrom)):
      mods = [a.name for a in n.names] if isinstance(n, ast.Import) else [n.module or '']
      for m in mods:
        if m.split('.')[0] in ('time', 'datetime', 'uuid', 'secrets'):
          hits.append('import ' + m)
    if isinstance(n, ast.Attribute):
      try:
        d = dotted(n)
      except Unsupported:
        continue
      parts = d.split('.')
      if parts[0] == 'os' and len(parts) > 1 and parts[1] in ('environ', 'getenv', 'getpid', 'urandom', 'times'):
        hits.append(d)
      if std_random and parts[0] == 'random' and len(parts) == 2:
        hits.append(d)
    if isinstance(n, ast.Call):
      try:
        d = dotted(n.func)
      except Unsupported:
        continue
      parts = d.split('.')
      if len(parts) >= 3 and parts[0] in ('np', 'numpy') and parts[1] == 'random':
        seeded = parts[2] in ('RandomState', 'default_rng', 'SeedSequence', 'Generator') and (n.args or n.keywords)
        if not seeded:
          hits.append(_src(n, 50))
  return ('(* uses of process- or time-dependent values in this module: ' + ('; '.join(hits) if hits else 'none') + ' *)\n'
          f'Definition process_dependent_uses : nat := {len(hits)}.')


PRE = 'From FV Require Import Common.Store.\n'


QUANTIZERS = ('uniform_stochastic_quantizer', 'rotated_uniform_stochastic_quantizer', 'structured_drive_quantizer',
              'terngrad_quantizer')


def _mod(src, *factories):
  return {'src': src, 'preamble': PRE, 'items': [A_effects(f) for f in factories] + [A_process_scan]}


def _scan(src):
  return {'src': src, 'preamble': '', 'items': [A_process_scan]}


MODULES = {
    'Gen_c10_fed_avg': _mod(ALG + 'fed_avg.py', 'federated_averaging'),
    'Gen_c10_fed_prox': _mod(ALG + 'fed_prox.py', 'fed_prox'),
    'Gen_c10_mime': _mod(ALG + 'mime.py', 'mime'),
    'Gen_c10_mime_lite': _mod(ALG + 'mime_lite.py', 'mime_lite'),
    'Gen_c10_agnostic_fed_avg': _mod(ALG + 'agnostic_fed_avg.py', 'agnostic_federated_averaging'),
    'Gen_c10_hyp_cluster': _mod(ALG + 'hyp_cluster.py', 'hyp_cluster'),
    'Gen_c10_apfl': {'src': ALG + 'apfl.py', 'preamble': PRE,
                     'items': [A_effects('adaptive_personalized_federated_learning'),
                               A_effects('eval_adaptive_personalized_federated_learning', 'apfl_eval', fn='__fn'), A_process_scan]},
    'Gen_c10_compression': {
        'src': 'fedjax/aggregators/compression.py', 'preamble': PRE,
        'items': [A_effects(f) for f in QUANTIZERS] + [A_key_depth(f) for f in QUANTIZERS] + [A_process_scan]},
    'Gen_c10_optimizers': {'src': 'fedjax/core/optimizers.py', 'preamble': '', 'items': [A_optax_apply_donates, A_process_scan]},
    'Gen_c10_scan_for_each_client': _scan('fedjax/core/for_each_client.py'),
    'Gen_c10_scan_tree_util': _scan('fedjax/core/tree_util.py'),
    'Gen_c10_scan_client_datasets': _scan('fedjax/core/client_datasets.py'),
    'Gen_c10_scan_models': _scan('fedjax/core/models.py'),
    'Gen_c10_scan_walsh_hadamard': _scan('fedjax/aggregators/walsh_hadamard.py'),
}
