"""Translator anchors for C17: the decision / arithmetic kernels of agnostic_fed_avg.py,
hyp_cluster.py, mime_lite.py, apfl.py and optimizers.ignore_grads_haiku that the C17 theorems
are about.  Structural and fail-closed: every anchored statement must have exactly the shape
the model mirrors, otherwise Unsupported (= broken tie).

  Gen_c17_agnostic     update_domain_weights_eg   the 'eg' branch of update_domain_weights as a function of
                                                   (weights, e) over NanQ vectors, e standing for
                                                   jnp.exp(domain_learning_rate * domain_loss)
                       window_shift                `server_state.domain_window[a:] + [sum_domain_num]`
                       server_update_passes_weights_through
                                                   the result of update_domain_weights and the shifted window go
                                                   into the new ServerState unchanged (no post-processing)
  Gen_c17_hyp_cluster  hyp_server_step_gen         the `if delta_params is None` branch of apply()
                       cluster_delta_gen           expectation_step: `if n > 0: tree_inverse_weight(sum, n) else None`
                       accumulate_into_assigned_cluster, assignment_is_argmin
  Gen_c17_mime_lite    clip_before_aggregate, clip_uses_global_norm, mean_is_clipped_again
  Gen_c17_apfl         apfl_clip_lo / apfl_clip_hi, clip_follows_optimizer_step, table_is_copied_then_set
  Gen_c17_optimizers   ignore_masks_named_to_none, ignore_restores_named_from_input
"""
import ast
from fractions import Fraction

from translate import Unsupported, dotted, find_def

ALG = 'fedjax/algorithms/'


def _need(c, what):
  if not c:
    raise Unsupported('c17 anchor: expected ' + what)


def _src(e):
  return ' '.join(ast.unparse(e).split())


def _body(fd):
  b = list(fd.body)
  if b and isinstance(b[0], ast.Expr) and isinstance(b[0].value, ast.Constant) and isinstance(b[0].value.value, str):
    b = b[1:]
  return b


def _b(x):
  return 'true' if x else 'false'


# ---- agnostic_fed_avg ------------------------------------------------------------------------

class Vec:
  """jnp array expressions over NanQ vectors.  Types: 'vec', 'Q'."""

  def __init__(self, env):
    self.env = dict(env)

  def ex(self, e):
    if isinstance(e, ast.Name):
      _need(e.id in self.env, 'known name, got ' + e.id)
      return self.env[e.id]
    if isinstance(e, ast.BinOp) and isinstance(e.op, (ast.Mult, ast.Div)):
      (a, ta), (b, tb) = self.ex(e.left), self.ex(e.right)
      op = 'NanQ.mul' if isinstance(e.op, ast.Mult) else 'NanQ.div'
      if ta == 'vec' and tb == 'vec':
        return f'(map2 {op} {a} {b})', 'vec'
      if ta == 'vec' and tb == 'Q':
        return f'(map (fun x => {op} x {b}) {a})', 'vec'
      if ta == 'Q' and tb == 'vec' and isinstance(e.op, ast.Mult):
        return f'(map (fun x => {op} {a} x) {b})', 'vec'
      raise Unsupported('operand types of ' + _src(e))
    if isinstance(e, ast.Call) and not e.keywords:
      f = dotted(e.func)
      if f == 'jnp.exp' and len(e.args) == 1:
        # exp never enters the model: its argument must be lr * loss, its value is the parameter e
        _need(_src(e.args[0]) == 'domain_learning_rate * domain_loss', 'jnp.exp(domain_learning_rate * domain_loss)')
        return 'e', 'vec'
      if f in ('jnp.maximum', 'jnp.minimum') and len(e.args) == 2:
        (a, ta), (b, tb) = self.ex(e.args[0]), self.ex(e.args[1])
        _need(ta == 'vec' and tb == 'vec', 'vector operands of ' + f)
        return f'(map2 NanQ.{"max" if f.endswith("maximum") else "min"} {a} {b})', 'vec'
      if f == 'jnp.zeros_like' and len(e.args) == 1:
        a, ta = self.ex(e.args[0])
        _need(ta == 'vec', 'zeros_like of a vector')
        return f'(map (fun _ => NanQ.zero) {a})', 'vec'
      if f == 'jnp.sum' and len(e.args) == 1:
        a, ta = self.ex(e.args[0])
        _need(ta == 'vec', 'sum of a vector')
        return f'(NanQ.sum {a})', 'Q'
    raise Unsupported('expression ' + _src(e))


def emit_eg(tree):
  fd = find_def(tree, 'update_domain_weights')
  _need([a.arg for a in fd.args.args] == ['domain_weights', 'domain_loss', 'domain_learning_rate', 'domain_algorithm'],
        'update_domain_weights(domain_weights, domain_loss, domain_learning_rate, domain_algorithm)')
  b = _body(fd)
  _need(len(b) == 1 and isinstance(b[0], ast.If) and _src(b[0].test) == "domain_algorithm == 'eg'", "if domain_algorithm == 'eg':")
  v = Vec({'domain_weights': ('domain_weights', 'vec')})
  lets = ''
  stmts = b[0].body
  _need(stmts and isinstance(stmts[-1], ast.Return), "the 'eg' branch ends in a return")
  for s in stmts[:-1]:
    _need(isinstance(s, ast.Assign) and len(s.targets) == 1 and isinstance(s.targets[0], ast.Name), 'plain assignments')
    t, ty = v.ex(s.value)
    v.env[s.targets[0].id] = (s.targets[0].id, ty)
    lets += f'  let {s.targets[0].id} := {t} in\n'
  t, ty = v.ex(stmts[-1].value)
  _need(ty == 'vec', 'a vector result')
  # the 'none' branch returns the weights unchanged
  el = b[0].orelse
  _need(len(el) == 1 and isinstance(el[0], ast.If) and _src(el[0].test) == "domain_algorithm == 'none'" and
        len(el[0].body) == 1 and _src(el[0].body[0]) == 'return domain_weights', "elif domain_algorithm == 'none': return domain_weights")
  return ("(* update_domain_weights, branch 'eg'; e = jnp.exp(domain_learning_rate * domain_loss) *)\n"
          'Definition update_domain_weights_eg (domain_weights e : list NanQ.t) : list NanQ.t :=\n' + lets + '  ' + t + '.')


def emit_server_update(tree):
  fd = find_def(tree, 'agnostic_federated_averaging.server_update')
  b = _body(fd)
  _need(len(b) == 5, 'server_update: 5 statements')
  _need(_src(b[2]).replace(' ', '') == ('domain_weights=update_domain_weights(server_state.domain_weights,mean_domain_loss,'
                                        'domain_learning_rate,domain_algorithm)'),
        'domain_weights = update_domain_weights(server_state.domain_weights, mean_domain_loss, domain_learning_rate, domain_algorithm)')
  _need(_src(b[1]) == 'mean_domain_loss = util.safe_div(sum_domain_loss, sum_domain_num)', 'mean_domain_loss = util.safe_div(...)')
  s = b[3]
  ok = (isinstance(s, ast.Assign) and _src(s.targets[0]) == 'domain_window' and isinstance(s.value, ast.BinOp) and
        isinstance(s.value.op, ast.Add) and isinstance(s.value.left, ast.Subscript) and
        _src(s.value.left.value) == 'server_state.domain_window' and isinstance(s.value.left.slice, ast.Slice) and
        s.value.left.slice.upper is None and s.value.left.slice.step is None and
        isinstance(s.value.left.slice.lower, ast.Constant) and isinstance(s.value.left.slice.lower.value, int) and
        s.value.left.slice.lower.value >= 0 and _src(s.value.right) == '[sum_domain_num]')
  _need(ok, 'domain_window = server_state.domain_window[k:] + [sum_domain_num]')
  k = s.value.left.slice.lower.value
  through = _src(b[4]) == 'return ServerState(params, opt_state, domain_weights, domain_window)'
  return (f'(* {_src(s)} *)\n'
          'Definition window_shift {A : Type} (domain_window : list A) (sum_domain_num : A) : list A :=\n'
          f'  skipn {k}%nat domain_window ++ [sum_domain_num].\n\n'
          f'(* {_src(b[4])}: nothing touches the weights between update_domain_weights and the new state *)\n'
          f'Definition server_update_passes_weights_through : bool := {_b(through)}.')


def emit_scaling(tree):
  """alpha, beta and the scaled loss of AgnosticFedAvg over NanQ: every division goes through util.safe_div."""
  ap = find_def(tree, 'agnostic_federated_averaging.apply')
  al = [s for s in _body(ap) if isinstance(s, ast.Assign) and _src(s.targets[0]) == 'alpha']
  _need(len(al) == 1 and _src(al[0].value) ==
        'util.safe_div(server_state.domain_weights, jnp.mean(jnp.asarray(server_state.domain_window), axis=0))',
        'alpha = util.safe_div(server_state.domain_weights, jnp.mean(jnp.asarray(server_state.domain_window), axis=0))')
  cf = find_def(tree, 'create_domain_metrics_for_each_client.client_final')
  d = [s for s in _body(cf) if isinstance(s, ast.Assign) and isinstance(s.value, ast.Dict)]
  _need(len(d) == 1, 'client_final builds one dict')
  kv = {k.value: _src(v) for k, v in zip(d[0].value.keys, d[0].value.values)}
  _need(kv.get('beta') == "jnp.sum(shared_input['alpha'] * step_state['domain_num'])", "'beta': jnp.sum(alpha * domain_num)")
  sl = find_def(tree, 'create_scaled_loss.scaled_loss')
  ls = [s for s in _body(sl) if isinstance(s, ast.Assign) and _src(s.targets[0]) == 'loss']
  _need(len(ls) == 1 and _src(ls[0].value) == 'util.safe_div(jnp.sum(alpha * domain_sum_loss), beta)',
        'loss = util.safe_div(jnp.sum(alpha * domain_sum_loss), beta)')
  # a round without clients: zeros instead of the None that tree_sum returns
  srcs = [_src(s) for s in _body(ap)]
  guard = any(s.startswith('if client_domain_metrics:') and 'sum_domain_loss = sum_domain_num = jnp.zeros(num_domains)' in s for s in srcs)
  return ('(* ' + _src(al[0]) + ' *)\n'
          'Definition alpha_gen (domain_weights window_mean : list NanQ.t) : list NanQ.t :=\n'
          '  map2 Gen_util.safe_div domain_weights window_mean.\n\n'
          "(* 'beta': " + kv['beta'] + ' *)\n'
          'Definition beta_gen (alpha domain_num : list NanQ.t) : NanQ.t := NanQ.sum (map2 NanQ.mul alpha domain_num).\n\n'
          '(* ' + _src(ls[0]) + ' *)\n'
          'Definition scaled_loss_gen (alpha domain_sum_loss : list NanQ.t) (beta : NanQ.t) : NanQ.t :=\n'
          '  Gen_util.safe_div (NanQ.sum (map2 NanQ.mul alpha domain_sum_loss)) beta.\n\n'
          '(* an empty cohort contributes zero losses and counts (not the None of tree_sum) *)\n'
          f'Definition empty_cohort_gives_zeros : bool := {_b(guard)}.')


# ---- hyp_cluster -----------------------------------------------------------------------------

def emit_hyp(tree):
  ap = find_def(tree, 'hyp_cluster.apply')
  loops = [s for s in _body(ap) if isinstance(s, ast.For) and _src(s.iter).startswith('zip(cluster_delta_params')]
  _need(len(loops) == 1, 'one loop over zip(cluster_delta_params, ...)')
  lp = loops[0]
  _need(_src(lp.target) == '(delta_params, opt_state, params)' and
        _src(lp.iter) == 'zip(cluster_delta_params, server_state.opt_states, server_state.cluster_params)',
        'for delta_params, opt_state, params in zip(cluster_delta_params, server_state.opt_states, server_state.cluster_params)')
  _need(len(lp.body) == 3 and isinstance(lp.body[0], ast.If), 'loop body: if / append / append')
  br = lp.body[0]
  _need(_src(br.test) == 'delta_params is None' and len(br.body) == 1 and len(br.orelse) == 1, 'if delta_params is None: ... else: ...')
  none_b, some_b = _src(br.body[0]), _src(br.orelse[0])
  _need(_src(br.body[0].targets[0]) == '(next_opt_state, next_params)' and _src(br.orelse[0].targets[0]) == '(next_opt_state, next_params)',
        'both branches assign (next_opt_state, next_params)')
  _need(_src(br.body[0].value) == '(opt_state, params)', 'None branch keeps (opt_state, params)')
  _need(_src(br.orelse[0].value) == 'server_optimizer.apply(delta_params, opt_state, params)',
        'else branch: server_optimizer.apply(delta_params, opt_state, params)')
  _need(_src(lp.body[1]) == 'cluster_params.append(next_params)' and _src(lp.body[2]) == 'opt_states.append(next_opt_state)',
        'append next_params / next_opt_state')
  out = [f'(* {none_b}  |  {some_b} *)\n'
         'Definition hyp_server_step_gen {S V : Type} (server_optimizer_apply : V -> S -> V -> S * V)\n'
         '    (delta_params : option V) (opt_state : S) (params : V) : S * V :=\n'
         '  match delta_params with\n  | None => (opt_state, params)\n'
         '  | Some delta_params => server_optimizer_apply delta_params opt_state params\n  end.']
  # expectation_step
  ex = find_def(tree, 'expectation_step')
  fl = [s for s in _body(ex) if isinstance(s, ast.For)]
  _need(len(fl) == 2, 'expectation_step: two loops')
  acc, fin = fl
  ab = [_src(s).replace(' ', '') for s in acc.body]
  ok = (ab == ['cluster_id=client_cluster_ids[client_id]',
               'cluster_delta_params_sum[cluster_id]=tree_util.tree_add(cluster_delta_params_sum[cluster_id],'
               'tree_util.tree_weight(delta_params,num_examples[client_id]))',
               'cluster_num_examples_sum[cluster_id]+=num_examples[client_id]'])
  out.append('(* the delta of a client is weighted by its number of examples and added to the sum (and count) of\n'
             '   the cluster the client was assigned to *)\n'
             f'Definition accumulate_into_assigned_cluster : bool := {_b(ok)}.')
  _need(ok, 'sums[client_cluster_ids[client_id]] += n * delta; counts[...] += n')
  out.append(_translate_accumulate(acc.body))
  _need(_src(fin.iter) == 'zip(cluster_delta_params_sum, cluster_num_examples_sum)' and len(fin.body) == 1 and
        isinstance(fin.body[0], ast.If), 'for delta_params_sum, num_examples_sum in zip(...): if ...')
  g = fin.body[0]
  _need(isinstance(g.test, ast.Compare) and len(g.test.ops) == 1 and _src(g.test.left) == 'num_examples_sum' and
        isinstance(g.test.comparators[0], ast.Constant) and g.test.comparators[0].value == 0, 'if num_examples_sum <op> 0')
  opn = {ast.Gt: 'Qltb 0 n', ast.GtE: 'Qle_bool 0 n', ast.NotEq: 'negb (Qeq_bool n 0)'}.get(type(g.test.ops[0]))
  _need(opn is not None, 'comparison >, >= or !=')
  _need(_src(g.body[0]) == 'cluster_delta_params.append(tree_util.tree_inverse_weight(delta_params_sum, num_examples_sum))' and
        _src(g.orelse[0]) == 'cluster_delta_params.append(None)', 'append(tree_inverse_weight(sum, n)) / append(None)')
  out.append(f'(* if {_src(g.test)}: {_src(g.body[0])} else: {_src(g.orelse[0])} *)\n'
             'Definition cluster_delta_gen {V : Type} (inverse_weight : V -> Q -> V) (sum : V) (n : Q) : option V :=\n'
             f'  if {opn} then Some (inverse_weight sum n) else None.')
  ca = find_def(tree, '_cluster_assignment')
  r = _body(ca)
  ok = (len(r) == 1 and isinstance(r[0], ast.Return) and isinstance(r[0].value, ast.DictComp) and
        _src(r[0].value.value) == 'jnp.argmin(jnp.stack(losses))' and _src(r[0].value.key) == 'client_id' and
        _src(r[0].value.generators[0].iter) == 'cluster_losses.items()')
  out.append(f'(* {_src(r[0]) if r else ""} *)\nDefinition assignment_is_argmin : bool := {_b(ok)}.')
  return '\n\n'.join(out)


def _translate_accumulate(body):
  """The two indexed updates of the expectation_step loop body as a function on (sums, counts):
  `A[i] = rhs` -> upd_with A i (fun old => rhs[A[i] := old]); `C[i] += e` -> upd_with C i (fun old => old + e)."""
  def ex(e, arr, idx):
    if isinstance(e, ast.Subscript) and _src(e.value) == arr and _src(e.slice) == idx:
      return 'old'
    if isinstance(e, ast.Subscript) and _src(e) == 'num_examples[client_id]':
      return 'n'
    if isinstance(e, ast.Name) and e.id == 'delta_params':
      return 'delta_params'
    if isinstance(e, ast.Call) and not e.keywords and dotted(e.func) in ('tree_util.tree_add', 'tree_util.tree_weight') and len(e.args) == 2:
      return '(' + dotted(e.func).split('.')[1] + ' ' + ex(e.args[0], arr, idx) + ' ' + ex(e.args[1], arr, idx) + ')'
    raise Unsupported('expectation_step body expression ' + _src(e))
  s1, s2 = body[1], body[2]
  _need(isinstance(s1, ast.Assign) and isinstance(s1.targets[0], ast.Subscript) and _src(s1.targets[0].slice) == 'cluster_id',
        'sums[cluster_id] = ...')
  a1 = _src(s1.targets[0].value)
  f1 = ex(s1.value, a1, 'cluster_id')
  _need(isinstance(s2, ast.AugAssign) and isinstance(s2.op, ast.Add) and isinstance(s2.target, ast.Subscript) and
        _src(s2.target.slice) == 'cluster_id', 'counts[cluster_id] += ...')
  a2 = _src(s2.target.value)
  f2 = ex(s2.value, a2, 'cluster_id')
  return ('(* ' + _src(s1) + ' ; ' + _src(s2) + ' *)\n'
          'Fixpoint upd_with {A : Type} (l : list A) (i : nat) (f : A -> A) : list A :=\n'
          '  match l, i with [], _ => [] | x :: r, O => f x :: r | x :: r, S j => x :: upd_with r j f end.\n'
          'Definition expectation_accumulate {T : Type} (tree_add : T -> T -> T) (tree_weight : T -> Q -> T)\n'
          f'    ({a1} : list T) ({a2} : list Q) (cluster_id : nat) (delta_params : T) (n : Q) : list T * list Q :=\n'
          f'  (upd_with {a1} cluster_id (fun old => {f1}),\n   upd_with {a2} cluster_id (fun old => (old + {f2})%Q)).')


# ---- mime_lite --------------------------------------------------------------------------------

def emit_mime_lite(tree):
  ap = find_def(tree, 'mime_lite.apply')
  loops = [s for s in _body(ap) if isinstance(s, ast.For) and 'train_for_each_client' in _src(s.iter)]
  _need(len(loops) == 1, 'one training loop')
  body = loops[0].body
  srcs = [_src(s) for s in body]
  clip_i = [i for i, s in enumerate(body) if isinstance(s, ast.If) and _src(s.test) == 'client_delta_clip_norm is not None']
  add_i = [i for i, s in enumerate(srcs) if s.replace(' ', '') ==
           'delta_params_sum=tree_util.tree_add(delta_params_sum,tree_util.tree_weight(delta_params,num_examples))']
  _need(len(clip_i) == 1 and len(add_i) == 1, 'one clip branch and one accumulation in the loop')
  first = body[clip_i[0]].body[0]
  uses = (_src(first).replace(' ', '') ==
          'delta_params=tree_util.tree_clip_by_global_norm(delta_params,client_delta_clip_norm)')
  # nothing after the loop clips / rescales the mean except the inverse weighting
  after = [_src(s) for s in _body(ap)]
  mean_stmt = [s for s in after if s.startswith('mean_delta_params =')]
  again = not (len(mean_stmt) == 1 and mean_stmt[0].replace(' ', '') ==
               'mean_delta_params=tree_util.tree_inverse_weight(delta_params_sum,num_examples_sum)')
  su = [_src(s).replace(' ', '') for s in _body(find_def(tree, 'mime_lite.server_update'))]
  again = again or su[0] != ('params=jax.tree_util.tree_map(lambdap,q:p-server_learning_rate*q,server_state.params,'
                             'mean_delta_params)')
  return ('(* the client delta is clipped (rebinding delta_params) before it is weighted and added to the sum *)\n'
          f'Definition clip_before_aggregate : bool := {_b(clip_i[0] < add_i[0])}.\n'
          f'Definition clip_uses_global_norm : bool := {_b(uses)}.\n'
          '(* the mean is tree_inverse_weight(sum, n) and enters the server step unchanged *)\n'
          f'Definition mean_is_rescaled_again : bool := {_b(again)}.')


# ---- apfl -------------------------------------------------------------------------------------

def emit_apfl(tree):
  st = find_def(tree, 'create_train_for_each_client.client_step')
  b = _body(st)
  srcs = [_src(s) for s in b]
  opt_i = [i for i, s in enumerate(srcs) if s.startswith('interpolation_opt_state, interpolation_coefficients = client_optimizer.apply(')]
  clip_i = [i for i, s in enumerate(b) if isinstance(s, ast.Assign) and _src(s.targets[0]) == 'interpolation_coefficients'
            and isinstance(s.value, ast.Call) and dotted(s.value.func) == 'jax.tree_util.tree_map']
  _need(len(opt_i) == 1 and len(clip_i) == 1, 'one optimizer step and one tree_map on interpolation_coefficients')
  lam = b[clip_i[0]].value.args[0]
  ok = (isinstance(lam, ast.Lambda) and isinstance(lam.body, ast.Call) and dotted(lam.body.func) == 'jnp.clip' and
        len(lam.body.args) == 3 and not lam.body.keywords and _src(lam.body.args[0]) == lam.args.args[0].arg and
        all(isinstance(x, ast.Constant) and isinstance(x.value, (int, float)) and not isinstance(x.value, bool) for x in lam.body.args[1:]) and
        _src(b[clip_i[0]].value.args[1]) == 'interpolation_coefficients')
  _need(ok, 'tree_map(lambda x: jnp.clip(x, <lo>, <hi>), interpolation_coefficients)')
  lo, hi = (Fraction(x.value) for x in lam.body.args[1:])
  ret = b[-1]
  stored = 'interpolation_coefficients=interpolation_coefficients' in _src(ret).replace(' ', '')
  ap = [_src(s).replace(' ', '') for s in _body(find_def(tree, 'adaptive_personalized_federated_learning.apply'))]
  copied = 'client_states=dict(server_state.client_states)' in ap
  lp = [s for s in _body(find_def(tree, 'adaptive_personalized_federated_learning.apply')) if isinstance(s, ast.For)]
  sets = len(lp) == 1 and "client_states[client_id]=client_output['state']" in [_src(s).replace(' ', '') for s in lp[0].body]
  final = any(s.startswith('server_state=server_update(ServerState(server_state.params,server_state.opt_state,client_states)') for s in ap)
  return (f'(* {_src(b[clip_i[0]])} *)\n'
          f'Definition apfl_clip_lo : Q := ({lo.numerator} # {lo.denominator}).\n'
          f'Definition apfl_clip_hi : Q := ({hi.numerator} # {hi.denominator}).\n'
          f'Definition clip_follows_optimizer_step : bool := {_b(opt_i[0] < clip_i[0] and stored)}.\n'
          '(* client_states = dict(server_state.client_states); client_states[client_id] = client_output[\'state\'] *)\n'
          f'Definition table_is_copied_then_set : bool := {_b(copied and sets and final)}.')


# ---- optimizers.ignore_grads_haiku ---------------------------------------------------------------

def emit_ignore(tree):
  fd = find_def(tree, 'ignore_grads_haiku')
  mask = [s for s in _body(fd) if isinstance(s, ast.FunctionDef) and s.name == 'non_trainable_to_none']
  _need(len(mask) == 1, 'non_trainable_to_none')
  mb = [ast.unparse(s).replace(' ', '').replace('\n', '') for s in _body(mask[0])]
  masks = mb == ['if(module_name,name)innon_trainable_names:returnNone', 'returnvalue']
  ap = [s for s in _body(fd) if isinstance(s, ast.FunctionDef) and s.name == 'apply']
  _need(len(ap) == 1, 'apply')
  ab = [ast.unparse(s).replace(' ', '').replace('\n', '') for s in _body(ap[0])]
  ok = (ab[0] == 'trainable_grads=hk.data_structures.map(non_trainable_to_none,grads)' and
        ab[1] == 'trainable_params=hk.data_structures.map(non_trainable_to_none,params)' and
        ab[2] == 'opt_state,trainable_params=optimizer.apply(trainable_grads,opt_state,trainable_params)' and
        ab[3] == 'trainable_params=hk.data_structures.to_mutable_dict(trainable_params)')
  # restore loop, then (optionally one statement re-building the caller's container kinds) the return of (opt_state, params)
  last = _body(ap[0])[-1]
  restores = (len(ab) in (6, 7) and ab[4] ==
              'formodule_name,nameinnon_trainable_names:trainable_params[module_name][name]=params[module_name][name]' and
              isinstance(last, ast.Return) and isinstance(last.value, ast.Tuple) and len(last.value.elts) == 2 and
              _src(last.value.elts[0]) == 'opt_state' and
              all('grads' not in x and 'optimizer.apply' not in x for x in ab[5:]))
  return ('(* named leaves become None (the empty subtree) in grads and params before the base optimizer runs *)\n'
          f'Definition ignore_masks_named_to_none : bool := {_b(masks and ok)}.\n'
          '(* ... and are put back from the INPUT params afterwards *)\n'
          f'Definition ignore_restores_named_from_input : bool := {_b(restores)}.')


PRE = 'From Coq Require Import QArith.\nFrom FV Require Import Common.CMonoid Common.NanQ.\n'

MODULES = {
    'Gen_c17_agnostic': {'src': ALG + 'agnostic_fed_avg.py', 'preamble': PRE + 'From FV Require gen.Gen_util.\n',
                         'items': [emit_eg, emit_server_update, emit_scaling]},
    'Gen_c17_hyp_cluster': {'src': ALG + 'hyp_cluster.py', 'preamble': PRE, 'items': [emit_hyp]},
    'Gen_c17_mime_lite': {'src': ALG + 'mime_lite.py', 'preamble': '', 'items': [emit_mime_lite]},
    'Gen_c17_apfl': {'src': ALG + 'apfl.py', 'preamble': PRE, 'items': [emit_apfl]},
    'Gen_c17_optimizers': {'src': 'fedjax/core/optimizers.py', 'preamble': '', 'items': [emit_ignore]},
}
