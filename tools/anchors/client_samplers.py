"""Translator anchors for fedjax/core/client_samplers.py (C13).

`get_pseudo_random_state` is translated as an integer function returning the SEED of
the RandomState it constructs:
  * `np.random.RandomState(seed).randint(a, b)` becomes `rs_randint seed a b`, a
    Context variable of the generated section (the NumPy stream is an oracle),
  * `return np.random.RandomState(e)` becomes `Some e`.
Everything else (the modulus / multiplier constants, pow, *, %) goes through the
shared fail-closed expression translator.

The round-number bookkeeping of the two samplers is translated too: the statement
after which `sample()` has advanced (`self._round_num += 1`) and `set_round_num`.
"""
import ast
from translate import Ctx, Fn, Unsupported, dotted, find_def, params_str, RET

CS = 'fedjax/core/client_samplers.py'


def _is_rs_call(e):
  return (isinstance(e, ast.Call) and isinstance(e.func, ast.Attribute) and
          dotted(e.func) == 'np.random.RandomState' and len(e.args) == 1 and not e.keywords)


class SamplerCtx(Ctx):

  def call(self, e, env):
    f = e.func
    # np.random.RandomState(<seed>).randint(a, b)
    if isinstance(f, ast.Attribute) and f.attr == 'randint' and _is_rs_call(f.value):
      if len(e.args) != 2 or e.keywords:
        raise Unsupported('RandomState(..).randint arity')
      s, _ = self.expr(f.value.args[0], env, 'Z')
      a, _ = self.expr(e.args[0], env, 'Z')
      b, _ = self.expr(e.args[1], env, 'Z')
      return f'(rs_randint {s} {a} {b})', 'Z'
    return super().call(e, env)


class SamplerFn(Fn):
  """`return np.random.RandomState(e)` returns the seed e."""

  def block(self, stmts, env, k):
    if stmts and isinstance(stmts[0], ast.Return) and _is_rs_call(stmts[0].value):
      t, _ = self.ctx.expr(stmts[0].value.args[0], env, 'Z')
      return f'Some {t}'
    return super().block(stmts, env, k)


def A_rs_seed_fun(qual, coqname, params):
  def emit(tree):
    fd = find_def(tree, qual)
    got = [a.arg for a in fd.args.args]
    if got != [n for n, _ in params]:
      raise Unsupported(f'{qual}: parameters {got}')
    f = SamplerFn(coqname, SamplerCtx(), 'Z')
    body = f.block(fd.body, {n: t for n, t in params}, lambda env: 'None')
    if f.aux:
      raise Unsupported(f'{qual}: unexpected loop')
    return f'Definition {coqname} {params_str(params)} : option Z :=\n  {body}.'
  return emit


def A_round_update(qual, coqname, params, names):
  """The statements of method `qual` that assign self._round_num (exactly one is
  required), as a function of the current round number (and the parameters)."""
  def emit(tree):
    fd = find_def(tree, qual)
    hits = [s for s in ast.walk(fd) if isinstance(s, (ast.Assign, ast.AugAssign)) and
            any(_safe_dotted(t) == 'self._round_num'
                for t in (s.targets if isinstance(s, ast.Assign) else [s.target]))]
    if len(hits) != 1:
      raise Unsupported(f'{qual}: expected exactly one assignment to self._round_num, found {len(hits)}')
    # it must be a top-level statement of the method (not inside a loop / branch)
    if hits[0] not in fd.body:
      raise Unsupported(f'{qual}: the round-number update is not a top-level statement')
    f = Fn(coqname, Ctx(names), 'Z')
    env = {n: t for n, t in params}
    body = f.block([hits[0]], env, lambda env2: 'Some self_round_num')
    return f'Definition {coqname} {params_str(params)} : option Z :=\n  {body}.'
  return emit


def _safe_dotted(t):
  try:
    return dotted(t)
  except Unsupported:
    return None


MODULES = {
    'Gen_client_samplers': {
        'src': CS,
        'preamble': ('Section Gen_client_samplers.\n'
                     '(* rs_randint s a b = np.random.RandomState(s).randint(a, b) *)\n'
                     'Context (rs_randint : Z -> Z -> Z -> Z).\n'),
        'postamble': 'End Gen_client_samplers.\n',
        'items': [
            A_rs_seed_fun('get_pseudo_random_state', 'get_pseudo_random_state',
                          [('seed', 'Z'), ('round_num', 'Z')]),
            A_round_update('UniformGetClientSampler.sample', 'get_sampler_next_round',
                           [('self_round_num', 'Z')], names={'self._round_num': 'self_round_num'}),
            A_round_update('UniformGetClientSampler.set_round_num', 'get_sampler_set_round',
                           [('self_round_num', 'Z'), ('round_num', 'Z')], names={'self._round_num': 'self_round_num'}),
            A_round_update('UniformShuffledClientSampler.sample', 'shuffled_sampler_next_round',
                           [('self_round_num', 'Z')], names={'self._round_num': 'self_round_num'}),
        ],
    },
}
