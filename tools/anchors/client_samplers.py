"""Translator anchors for fedjax/core/client_samplers.py (C13).

`get_pseudo_random_state` is translated as an integer function returning the SEED of
the RandomState it constructs:
  * `np.random.RandomState(seed).randint(a, b)` becomes `rs_randint seed a b`, a
    Context variable of the generated section (the NumPy stream is an oracle),
  * `return np.random.RandomState(e)` becomes `Some e`.
Everything else (the modulus / multiplier constants, pow, *, %) goes through the
shared fail-closed expression translator.

The round-number bookkeeping of the two samplers is translated too: the statement
after which `sample()` has advanced (`self._round_num += 1`) and `set_round_num`.
"""
import ast
from translate import Ctx, Fn, Unsupported, dotted, find_def, params_str, RET

CS = 'fedjax/core/client_samplers.py'


def _is_rs_call(e):
  return (isinstance(e, ast.Call) and isinstance(e.func, ast.Attribute) and
          dotted(e.func) == 'np.random.RandomState' and len(e.args) == 1 and not e.keywords)


class SamplerCtx(Ctx):

  def call(self, e, env):
    f = e.func
    # np.random.RandomState(<seed>).randint(a, b)
    if isinstance(f, ast.Attribute) and f.attr == 'randint' and _is_rs_call(f.value):
      if len(e.args) != 2 or e.keywords:
        raise Unsupported('RandomState(..).randint arity')
      s, _ = self.expr(f.value.args[0], env, 'Z')
      a, _ = self.expr(e.args[0], env, 'Z')
      b, _ = self.expr(e.args[1], env, 'Z')
      return f'(rs_randint {s} {a} {b})', 'Z'
    return super().call(e, env)


class SamplerFn(Fn):
  """`return np.random.RandomState(e)` returns the seed e."""

  def block(self, stmts, env, k):
    if stmts and isinstance(stmts[0], ast.Return) and _is_rs_call(stmts[0].value):
      t, _ = self.ctx.expr(stmts[0].value.args[0], env, 'Z')
      return f'Some {t}'
    return super().block(stmts, env, k)


def A_rs_seed_fun(qual, coqname, params):
  def emit(tree):
    fd = find_def(tree, qual)
    got = [a.arg for a in fd.args.args]
    if got != [n for n, _ in params]:
      raise Unsupported(f'{qual}: parameters {got}')
    f = SamplerFn(coqname, SamplerCtx(), 'Z')
    body = f.block(fd.body, {n: t for n, t in params}, lambda env: 'None')
    if f.aux:
      raise Unsupported(f'{qual}: unexpected loop')
    return f'Definition {coqname} {params_str(params)} : option Z :=\n  {body}.'
  return emit


def A_round_update(qual, coqname, params, names):
  """The statements of method `qual` that assign self._round_num (exactly one is
  required), as a function of the current round number (and the parameters)."""
  def emit(tree):
    fd = find_def(tree, qual)
    hits = [s for s in ast.walk(fd) if isinstance(s, (ast.Assign, ast.AugAssign)) and
            any(_safe_dotted(t) == 'self._round_num'
                for t in (s.targets if isinstance(s, ast.Assign) else [s.target]))]
    if len(hits) != 1:
      raise Unsupported(f'{qual}: expected exactly one assignment to self._round_num, found {len(hits)}')
    # it must be a top-level statement of the method (not inside a loop / branch)
    if hits[0] not in fd.body:
      raise Unsupported(f'{qual}: the round-number update is not a top-level statement')
    f = Fn(coqname, Ctx(names), 'Z')
    env = {n: t for n, t in params}
    body = f.block([hits[0]], env, lambda env2: 'Some self_round_num')
    return f'Definition {coqname} {params_str(params)} : option Z :=\n  {body}.'
  return emit


def _safe_dotted(t):
  try:
    return dotted(t)
  except Unsupported:
    return None


MODULES = {
    'Gen_client_samplers': {
        'src': CS,
        'preamble': ('Section Gen_client_samplers.\n'
                     '(* rs_randint s a b = np.random.RandomState(s).randint(a, b) *)\n'
                     'Context (rs_randint : Z -> Z -> Z -> Z).\n'),
        'postamble': 'End Gen_client_samplers.\n',
        'items': [
            A_rs_seed_fun('get_pseudo_random_state', 'get_pseudo_random_state',
                          [('seed', 'Z'), ('round_num', 'Z')]),
            A_round_update('UniformGetClientSampler.sample', 'get_sampler_next_round',
                           [('self_round_num', 'Z')], names={'self._round_num': 'self_round_num'}),
            A_round_update('UniformGetClientSampler.set_round_num', 'get_sampler_set_round',
                           [('self_round_num', 'Z'), ('round_num', 'Z')], names={'self._round_num': 'self_round_num'}),
            A_round_update('UniformShuffledClientSampler.sample', 'shuffled_sampler_next_round',
                           [('self_round_num', 'Z')], names={'self._round_num': 'self_round_num'}),
        ],
    },
}


# ===========================================================================
# Wave 2: the bodies of sample() / __init__ of the two samplers, translated into the
# vocabulary of Model/C13_Model.v (prs / choice / split / get_clients / take / advance).
# Expressions are matched structurally; every deviation raises Unsupported.

SELF = {'self._seed': 'seed', 'self._round_num': 'round_num', 'self._num_clients': 'num_clients'}


def _zname(e):
  d = _safe_dotted(e)
  if d in SELF:
    return SELF[d]
  if isinstance(e, ast.Constant) and isinstance(e.value, int) and not isinstance(e.value, bool):
    return str(e.value)
  raise Unsupported('integer attribute expected: ' + ast.dump(e)[:80])


def _same(a, b):
  return ast.dump(a) == ast.dump(b)


def _nodoc(body):
  return [s for s in body if not (isinstance(s, ast.Expr) and isinstance(s.value, ast.Constant))]


def _assign(s):
  if not (isinstance(s, ast.Assign) and len(s.targets) == 1 and isinstance(s.targets[0], ast.Name)):
    raise Unsupported('expected `name = ...`: ' + ast.dump(s)[:80])
  return s.targets[0].id, s.value


def _split_expr(v):
  # jax.random.split(jax.random.PRNGKey(<int>), <int>)
  if not (isinstance(v, ast.Call) and _safe_dotted(v.func) == 'jax.random.split' and len(v.args) == 2 and not v.keywords
          and isinstance(v.args[0], ast.Call) and _safe_dotted(v.args[0].func) == 'jax.random.PRNGKey'
          and len(v.args[0].args) == 1 and not v.args[0].keywords):
    raise Unsupported('expected jax.random.split(jax.random.PRNGKey(..), ..)')
  return f'(split (KRoot {_zname(v.args[0].args[0])}) {_zname(v.args[1])})'


def A_get_sample():
  def emit(tree):
    fd = find_def(tree, 'UniformGetClientSampler.sample')
    b = _nodoc(fd.body)
    if len(b) != 7:
      raise Unsupported(f'UniformGetClientSampler.sample: {len(b)} statements')
    acc, v = _assign(b[0])
    if not (isinstance(v, ast.List) and not v.elts):
      raise Unsupported('accumulator initialisation')
    rs, v = _assign(b[1])
    if not (isinstance(v, ast.Call) and _safe_dotted(v.func) == 'get_pseudo_random_state' and len(v.args) == 2
            and not v.keywords):
      raise Unsupported('random state')
    prs = f'prs {_zname(v.args[0])} {_zname(v.args[1])}'
    ids, v = _assign(b[2])
    kw = {k.arg: k.value for k in v.keywords} if isinstance(v, ast.Call) else {}
    if not (isinstance(v, ast.Call) and isinstance(v.func, ast.Attribute) and v.func.attr == 'choice' and
            isinstance(v.func.value, ast.Name) and v.func.value.id == rs and len(v.args) == 1 and
            _same(v.args[0], ast.parse('np.array(self._client_ids, dtype=object)', mode='eval').body) and
            set(kw) == {'size', 'replace'} and isinstance(kw['replace'], ast.Constant) and kw['replace'].value is False):
      raise Unsupported('choice(np.array(self._client_ids, dtype=object), size=.., replace=False) expected')
    choice = f'choice {rs} (map fst fd) {_zname(kw["size"])}'
    keys, v = _assign(b[3])
    split = _split_expr(v)
    loop = ast.parse(f'for i, (client_id, client_dataset) in enumerate(self._federated_data.get_clients({ids})):\n'
                     f'  {acc}.append((client_id, client_dataset, {keys}[i]))\n').body[0]
    if not _same(b[4], loop):
      raise Unsupported('the loop over get_clients')
    if not (isinstance(b[5], ast.AugAssign) and _safe_dotted(b[5].target) == 'self._round_num'):
      raise Unsupported('round update position')
    if not (isinstance(b[6], ast.Return) and isinstance(b[6].value, ast.Name) and b[6].value.id == acc):
      raise Unsupported('return')
    return ('Definition get_sample_gen (round_num : Z) : option (list (Id * D * kpath)) :=\n'
            f'  match {prs} with None => None | Some {rs} =>\n'
            f'  let {ids} := {choice} in\n  let {keys} := {split} in\n'
            f'  match get_clients id_eqb fd {ids} with None => None | Some {acc} => Some (combine {acc} {keys}) end end.')
  return emit


def A_stream_sampler():
  def emit(tree):
    init = _nodoc(find_def(tree, 'UniformShuffledClientSampler.__init__').body)
    want = ast.parse('self._shuffled_clients_iter = shuffled_clients_iter\nself._num_clients = num_clients\n'
                     'self._round_num = start_round_num\n'
                     'for _ in range(self._round_num):\n  for _ in range(self._num_clients):\n'
                     '    next(self._shuffled_clients_iter)\n').body
    if len(init) != len(want) or not all(_same(a, b) for a, b in zip(init, want)):
      raise Unsupported('UniformShuffledClientSampler.__init__: unexpected body')
    b = _nodoc(find_def(tree, 'UniformShuffledClientSampler.sample').body)
    if len(b) != 5:
      raise Unsupported('UniformShuffledClientSampler.sample: statements')
    acc, v = _assign(b[0])
    if not (isinstance(v, ast.List) and not v.elts):
      raise Unsupported('accumulator initialisation')
    keys, v = _assign(b[1])
    split = _split_expr(v)
    loop = ast.parse(f'for i in range(self._num_clients):\n'
                     f'  client_id, client_dataset = next(self._shuffled_clients_iter)\n'
                     f'  {acc}.append((client_id, client_dataset, {keys}[i]))\n').body[0]
    if not _same(b[2], loop):
      raise Unsupported('the loop over the client stream')
    if not (isinstance(b[3], ast.AugAssign) and _safe_dotted(b[3].target) == 'self._round_num'):
      raise Unsupported('round update position')
    if not (isinstance(b[4], ast.Return) and isinstance(b[4].value, ast.Name) and b[4].value.id == acc):
      raise Unsupported('return')
    return ('(* __init__: round_num = start_round_num; round_num * num_clients calls of next() *)\n'
            'Definition stream_init_gen (num_clients start_round_num : Z) : nat * Z :=\n'
            '  let round_num := start_round_num in\n'
            '  (Nat.iter (Z.to_nat round_num) (advance (Z.to_nat num_clients)) 0%nat, round_num).\n'
            '(* sample() without the round update: num_clients calls of next(), i-th paired with keys[i] *)\n'
            'Definition stream_take_gen {C} (stream : nat -> C) (num_clients : Z) (pos : nat) (round_num : Z) : list (C * kpath) * nat :=\n'
            f'  let {keys} := {split} in\n'
            f'  (take stream (Z.to_nat num_clients) pos {keys}, advance (Z.to_nat num_clients) pos).')
  return emit


GET_INIT = """self._federated_data = fd
self._num_clients = num_clients
self._seed = seed
self._client_ids = list(self._federated_data.client_ids())
self._round_num = start_round_num
"""
FORBIDDEN_CALLS = ('hash', 'id', 'uuid', 'getattr', 'setattr', 'globals', 'vars')
FORBIDDEN_PREFIXES = ('time.', 'os.environ', 'os.getenv', 'uuid.', 'random.', 'secrets.', 'datetime.')
ALLOWED_NP_RANDOM = ('np.random.RandomState',)


def A_purity():
  """Fail-closed recogniser for the purity / determinism clauses: the constructor only stores its
  arguments, and nothing in the module reads a clock, the environment, object identities, hash values
  or an unseeded random source."""
  def emit(tree):
    init = _nodoc(find_def(tree, 'UniformGetClientSampler.__init__').body)
    want = ast.parse(GET_INIT).body
    if len(init) != len(want) or not all(_same(a, b) for a, b in zip(init, want)):
      raise Unsupported('UniformGetClientSampler.__init__: unexpected body')
    for n in ast.walk(tree):
      if isinstance(n, ast.Call):
        d = _safe_dotted(n.func)
        if d in FORBIDDEN_CALLS:
          raise Unsupported(f'call of {d}() in client_samplers.py')
      if isinstance(n, (ast.Attribute, ast.Name)):
        d = _safe_dotted(n)
        if d is None:
          continue
        if any(d == pfx.rstrip('.') or d.startswith(pfx) for pfx in FORBIDDEN_PREFIXES):
          raise Unsupported(f'use of {d} in client_samplers.py')
        if d.startswith('np.random.') and not any(d == a or d.startswith(a + '.') for a in ALLOWED_NP_RANDOM):
          raise Unsupported(f'use of {d} (only np.random.RandomState(<seed>) is modelled)')
    for n in ast.walk(tree):      # RandomState must always get an explicit seed argument
      if isinstance(n, ast.Call) and _safe_dotted(n.func) == 'np.random.RandomState' and (len(n.args) != 1 or n.keywords):
        raise Unsupported('np.random.RandomState without exactly one (seed) argument')
    return ('(* recognised: UniformGetClientSampler.__init__ only stores its arguments and list(fd.client_ids());\n'
            '   no clock / environment / hash() / id() / unseeded random source in client_samplers.py *)\n'
            'Definition client_samplers_purity_recognised : unit := tt.')
  return emit


MODULES['Gen_client_samplers_model'] = {
    'src': CS,
    'preamble': ('From FV Require Import Model.C13_Model.\nSection Gen_client_samplers_model.\n'
                 'Context {Id D : Type} (id_eqb : Id -> Id -> bool) (prs : Z -> Z -> option Z)\n'
                 '  (choice : Z -> list Id -> Z -> list Id) (fd : list (Id * D)) (num_clients seed : Z).\n'),
    'postamble': 'End Gen_client_samplers_model.\n',
    'items': [A_get_sample(), A_stream_sampler(), A_purity()],
}
