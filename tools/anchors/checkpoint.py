"""Translator anchors for fedjax/training/checkpoint.py (C09).

Everything here is fail-closed: the emitters recognise exactly the statement
shapes listed below and translate their *expressions* (name format, regular
expression, sort key, retention slice); any other shape raises Unsupported and
the tie is reported broken.  The ORDER of the file-system effects of
save_checkpoint is not translated: it is tied by the effect-trace correspondence
of tools/harness/c09.py.

A path is the list of its character codes; `base_path` is a parameter.
"""
import ast
import re

from translate import A_const, Unsupported, dotted, find_def

SRC = 'fedjax/training/checkpoint.py'


def _strlit(s):
  return '[' + '; '.join(str(b) for b in s.encode()) + ']'


def _assign(fd, target):
  """The unique top-level `target = value` of function fd."""
  found = [s for s in fd.body if isinstance(s, ast.Assign) and len(s.targets) == 1 and
           isinstance(s.targets[0], ast.Name) and s.targets[0].id == target]
  if len(found) != 1:
    raise Unsupported(f'{fd.name}: expected exactly one assignment to {target}, found {len(found)}')
  return found[0].value


def _is_name(e, n):
  return isinstance(e, ast.Name) and e.id == n


def _is_call(e, f, nargs=None):
  try:
    ok = isinstance(e, ast.Call) and dotted(e.func) == f
  except Unsupported:
    return False
  return ok and (nargs is None or len(e.args) == nargs)


def _str_expr(e, env):
  """str-valued expression -> Gallina term of type list Z.  env: python name -> coq name."""
  if isinstance(e, ast.Constant) and isinstance(e.value, str):
    return _strlit(e.value)
  if isinstance(e, ast.Name):
    if e.id in env:
      return env[e.id]
    raise Unsupported('unknown str name ' + e.id)
  if isinstance(e, ast.BinOp) and isinstance(e.op, ast.Add):
    return f'({_str_expr(e.left, env)} ++ {_str_expr(e.right, env)})'
  if isinstance(e, ast.JoinedStr):
    parts = []
    for v in e.values:
      if isinstance(v, ast.Constant) and isinstance(v.value, str):
        parts.append(_strlit(v.value))
      elif isinstance(v, ast.FormattedValue):
        if v.conversion != -1:
          raise Unsupported('f-string conversion')
        if v.format_spec is None:
          if isinstance(v.value, ast.Name) and v.value.id in env and env.get(v.value.id + ':type') == 'str':
            parts.append(env[v.value.id])
          else:
            raise Unsupported('f-string field without format on a non-str value')
        else:
          fs = v.format_spec
          if not (isinstance(fs, ast.JoinedStr) and len(fs.values) == 1 and isinstance(fs.values[0], ast.Constant)):
            raise Unsupported('computed format spec')
          m = re.fullmatch(r'0([1-9][0-9]*)d', fs.values[0].value)
          if not m:
            raise Unsupported('format spec ' + fs.values[0].value + ' (only 0<width>d is supported)')
          if not (isinstance(v.value, ast.Name) and env.get(v.value.id + ':type') == 'Z'):
            raise Unsupported('formatted value is not an int name')
          parts.append(f'(fmt_zero_d {m.group(1)} {env[v.value.id]})')
      else:
        raise Unsupported('f-string part')
    return '(' + ' ++ '.join(parts) + ')' if parts else '[]'
  raise Unsupported('str expression ' + ast.dump(e)[:120])


def _regex_suffix(pat):
  """The only regular expressions understood: [a-b]{n}$ ."""
  m = re.fullmatch(r'\[(.)-(.)\]\{([0-9]+)\}\$', pat)
  if not m:
    raise Unsupported('regular expression ' + pat)
  lo, hi, n = ord(m.group(1)), ord(m.group(2)), int(m.group(3))
  return (f'((Z.of_nat (length s) =? {n}) && forallb (fun c => ({lo} <=? c) && (c <=? {hi})) s)')


def _key_expr(e, path_name):
  """int(<path>.split(base_path)[-1]) -> py_int (split_last base_path <path>)."""
  if not _is_call(e, 'int', 1):
    raise Unsupported('sort key is not int(...)')
  sub = e.args[0]
  if not (isinstance(sub, ast.Subscript) and isinstance(sub.slice, ast.UnaryOp) and isinstance(sub.slice.op, ast.USub)
          and isinstance(sub.slice.operand, ast.Constant) and sub.slice.operand.value == 1):
    raise Unsupported('sort key: expected <...>[-1]')
  c = sub.value
  if not (isinstance(c, ast.Call) and isinstance(c.func, ast.Attribute) and c.func.attr == 'split' and
          _is_name(c.func.value, path_name) and len(c.args) == 1 and _is_name(c.args[0], 'base_path') and not c.keywords):
    raise Unsupported(f'sort key: expected {path_name}.split(base_path)')
  return f'py_int (split_last base_path {path_name})'


def emit_get_checkpoint_paths(tree):
  fd = find_def(tree, '_get_checkpoint_paths')
  if [a.arg for a in fd.args.args] != ['base_path']:
    raise Unsupported('_get_checkpoint_paths parameters')
  body = [s for s in fd.body if not (isinstance(s, ast.Expr) and isinstance(s.value, ast.Constant))]
  if len(body) != 5:
    raise Unsupported('_get_checkpoint_paths: expected 5 statements, found %d' % len(body))
  s_pat, s_init, s_for, s_key, s_ret = body
  # pattern = re.escape(base_path) + r'...'
  v = _assign(fd, 'pattern')
  if not (isinstance(v, ast.BinOp) and isinstance(v.op, ast.Add) and _is_call(v.left, 're.escape', 1) and
          _is_name(v.left.args[0], 'base_path') and isinstance(v.right, ast.Constant) and isinstance(v.right.value, str)):
    raise Unsupported('pattern is not re.escape(base_path) + <literal>')
  suffix = _regex_suffix(v.right.value)
  # checkpoint_paths = []
  if not (isinstance(s_init, ast.Assign) and _is_name(s_init.targets[0], 'checkpoint_paths') and
          isinstance(s_init.value, ast.List) and not s_init.value.elts):
    raise Unsupported('checkpoint_paths = [] expected')
  # for path in tf.io.gfile.glob(base_path + '*'): if re.match(pattern, path): checkpoint_paths.append(path)
  if not (isinstance(s_for, ast.For) and _is_name(s_for.target, 'path') and not s_for.orelse and
          _is_call(s_for.iter, 'tf.io.gfile.glob', 1)):
    raise Unsupported('for path in tf.io.gfile.glob(...) expected')
  g = s_for.iter.args[0]
  if not (isinstance(g, ast.BinOp) and isinstance(g.op, ast.Add) and _is_name(g.left, 'base_path') and
          isinstance(g.right, ast.Constant) and g.right.value == '*'):
    raise Unsupported("glob pattern is not base_path + '*'")
  if not (len(s_for.body) == 1 and isinstance(s_for.body[0], ast.If) and not s_for.body[0].orelse):
    raise Unsupported('loop body is not a single if')
  iff = s_for.body[0]
  if not (_is_call(iff.test, 're.match', 2) and _is_name(iff.test.args[0], 'pattern') and _is_name(iff.test.args[1], 'path')):
    raise Unsupported('filter is not re.match(pattern, path)')
  if not (len(iff.body) == 1 and isinstance(iff.body[0], ast.Expr) and _is_call(iff.body[0].value, 'checkpoint_paths.append', 1)
          and _is_name(iff.body[0].value.args[0], 'path')):
    raise Unsupported('filter body is not checkpoint_paths.append(path)')
  # def sort_key(path): return int(path.split(base_path)[-1])
  if not (isinstance(s_key, ast.FunctionDef) and s_key.name == 'sort_key' and [a.arg for a in s_key.args.args] == ['path']
          and len(s_key.body) == 1 and isinstance(s_key.body[0], ast.Return)):
    raise Unsupported('sort_key shape')
  key = _key_expr(s_key.body[0].value, 'path')
  # return sorted(checkpoint_paths, key=sort_key)
  r = s_ret.value if isinstance(s_ret, ast.Return) else None
  if not (r is not None and _is_call(r, 'sorted', 1) and _is_name(r.args[0], 'checkpoint_paths') and
          len(r.keywords) == 1 and r.keywords[0].arg == 'key' and _is_name(r.keywords[0].value, 'sort_key')):
    raise Unsupported('return sorted(checkpoint_paths, key=sort_key) expected')
  return '\n'.join([
      '(* tf.io.gfile.glob(base_path + "*"): which names of the directory the glob returns *)',
      'Definition ckpt_glob_matches (base_path path : str) : bool := is_prefix base_path path.',
      f'Definition ckpt_suffix_ok (s : str) : bool := {suffix}.',
      '(* re.match(re.escape(base_path) + suffix, path) *)',
      'Definition ckpt_path_matches (base_path path : str) : bool :=',
      '  is_prefix base_path path && ckpt_suffix_ok (skipn (length base_path) path).',
      f'Definition ckpt_sort_key (base_path path : str) : option Z := {key}.',
      '(* None = the sort key raised *)',
      'Definition get_checkpoint_paths (base_path : str) (dir_names : list str) : option (list str) :=',
      '  let checkpoint_paths := filter (ckpt_path_matches base_path) (filter (ckpt_glob_matches base_path) dir_names) in',
      '  if forallb (fun path => match ckpt_sort_key base_path path with Some _ => true | None => false end) checkpoint_paths',
      '  then Some (sort_by (fun path => match ckpt_sort_key base_path path with Some k => k | None => 0 end) checkpoint_paths)',
      '  else None.',
  ])


def emit_load_latest(tree):
  fd = find_def(tree, 'load_latest_checkpoint')
  v = _assign(fd, 'all_checkpoint_paths')
  if not (_is_call(v, '_get_checkpoint_paths', 1) and _is_name(v.args[0], 'base_path')):
    raise Unsupported('all_checkpoint_paths = _get_checkpoint_paths(base_path) expected')
  iff = [s for s in fd.body if isinstance(s, ast.If)]
  if not (len(iff) == 1 and _is_name(iff[0].test, 'all_checkpoint_paths') and not iff[0].orelse and len(iff[0].body) == 4):
    raise Unsupported('if all_checkpoint_paths: <4 statements> expected')
  b = iff[0].body
  a0, a1, a2, ret = b
  if not (isinstance(a0, ast.Assign) and _is_name(a0.targets[0], 'latest_checkpoint_path') and
          isinstance(a0.value, ast.Subscript) and _is_name(a0.value.value, 'all_checkpoint_paths')):
    raise Unsupported('latest_checkpoint_path = all_checkpoint_paths[...] expected')
  idx = a0.value.slice
  if isinstance(idx, ast.UnaryOp) and isinstance(idx.op, ast.USub) and isinstance(idx.operand, ast.Constant) and \
      isinstance(idx.operand.value, int):
    i = f'(-{idx.operand.value})'
  elif isinstance(idx, ast.Constant) and isinstance(idx.value, int):
    i = str(idx.value)
  else:
    raise Unsupported('index of all_checkpoint_paths')
  if not (isinstance(a1, ast.Assign) and _is_name(a1.targets[0], 'latest_round_num')):
    raise Unsupported('latest_round_num = ... expected')
  key = _key_expr(a1.value, 'latest_checkpoint_path')
  if not (isinstance(a2, ast.Assign) and _is_name(a2.targets[0], 'latest_state') and
          _is_call(a2.value, 'serialization.load_state', 1) and _is_name(a2.value.args[0], 'latest_checkpoint_path')):
    raise Unsupported('latest_state = serialization.load_state(latest_checkpoint_path) expected')
  if not (isinstance(ret, ast.Return) and isinstance(ret.value, ast.Tuple) and len(ret.value.elts) == 2 and
          _is_name(ret.value.elts[0], 'latest_state') and _is_name(ret.value.elts[1], 'latest_round_num')):
    raise Unsupported('return latest_state, latest_round_num expected')
  return '\n'.join([
      '(* which file load_latest_checkpoint reads and which round number it reports:',
      '   Some None = no checkpoint, None = an exception *)',
      'Definition load_latest_select (base_path : str) (dir_names : list str) : option (option (str * Z)) :=',
      '  match get_checkpoint_paths base_path dir_names with',
      '  | None => None',
      '  | Some all_checkpoint_paths =>',
      '    match all_checkpoint_paths with',
      '    | [] => Some None',
      f'    | _ => match py_index all_checkpoint_paths {i} with',
      '           | None => None',
      '           | Some latest_checkpoint_path =>',
      f'             match {key} with',
      '             | Some latest_round_num => Some (Some (latest_checkpoint_path, latest_round_num))',
      '             | None => None',
      '             end',
      '           end',
      '    end',
      '  end.',
  ])


def emit_save(tree):
  fd = find_def(tree, 'save_checkpoint')
  if [a.arg for a in fd.args.args] != ['root_dir', 'state', 'round_num', 'keep']:
    raise Unsupported('save_checkpoint parameters')
  env = {'base_path': 'base_path', 'base_path:type': 'str', 'round_num': 'round_num', 'round_num:type': 'Z'}
  cp = _str_expr(_assign(fd, 'checkpoint_path'), env)
  env2 = {'checkpoint_path': 'checkpoint_path', 'checkpoint_path:type': 'str'}
  tp = _str_expr(_assign(fd, 'tmp_path'), env2)
  rv = _assign(fd, 'remove_checkpoint_paths')
  if not (isinstance(rv, ast.Subscript) and _is_call(rv.value, '_get_checkpoint_paths', 1) and
          _is_name(rv.value.args[0], 'base_path') and isinstance(rv.slice, ast.Slice) and rv.slice.lower is None and
          rv.slice.step is None and rv.slice.upper is not None):
    raise Unsupported('remove_checkpoint_paths = _get_checkpoint_paths(base_path)[:<upper>] expected')
  from translate import Ctx
  up, _ = Ctx().expr(rv.slice.upper, {'keep': 'Z'}, 'Z')
  # the ORDER of the effects (fail-closed): write the temporary, rename it, list, then remove -- the tail of the body is
  #   serialization.save_state(state, tmp_path); tf.io.gfile.rename(tmp_path, checkpoint_path, overwrite=True);
  #   remove_checkpoint_paths = ...; for path in remove_checkpoint_paths: tf.io.gfile.remove(path)
  body = [x for x in fd.body if not (isinstance(x, ast.Expr) and isinstance(x.value, ast.Constant))]
  if len(body) < 4:
    raise Unsupported('save_checkpoint: body too short')
  s_save, s_ren, s_rm, s_for = body[-4:]
  c = s_save.value if isinstance(s_save, ast.Expr) else None
  if not (_is_call(c, 'serialization.save_state', 2) and _is_name(c.args[0], 'state') and _is_name(c.args[1], 'tmp_path')):
    raise Unsupported('serialization.save_state(state, tmp_path) expected before the rename')
  c = s_ren.value if isinstance(s_ren, ast.Expr) else None
  if not (_is_call(c, 'tf.io.gfile.rename', 2) and _is_name(c.args[0], 'tmp_path') and _is_name(c.args[1], 'checkpoint_path')):
    raise Unsupported('tf.io.gfile.rename(tmp_path, checkpoint_path, ...) expected right after save_state')
  if not (isinstance(s_rm, ast.Assign) and _is_name(s_rm.targets[0], 'remove_checkpoint_paths')):
    raise Unsupported('remove_checkpoint_paths must be computed after the rename')
  ok = (isinstance(s_for, ast.For) and _is_name(s_for.target, 'path') and _is_name(s_for.iter, 'remove_checkpoint_paths')
        and len(s_for.body) == 1 and isinstance(s_for.body[0], ast.Expr) and
        _is_call(s_for.body[0].value, 'tf.io.gfile.remove', 1) and _is_name(s_for.body[0].value.args[0], 'path'))
  if not ok:
    raise Unsupported('for path in remove_checkpoint_paths: tf.io.gfile.remove(path) expected last')
  for x in body[:-4]:
    for n in ast.walk(x):
      if isinstance(n, ast.Call) and not (_is_call(n, 'os.path.join')):
        raise Unsupported('save_checkpoint: unexpected call before save_state: ' + ast.dump(n)[:80])
  return '\n'.join([
      f'Definition checkpoint_path (base_path : str) (round_num : Z) : str := {cp}.',
      f'Definition tmp_path (checkpoint_path : str) : str := {tp}.',
      '(* remove_checkpoint_paths = _get_checkpoint_paths(base_path)[:upper] *)',
      f'Definition remove_checkpoint_paths {{A}} (paths : list A) (keep : Z) : list A := py_upto paths {up}.',
  ])


# ---- determinism recogniser (wave 5, item 4): nothing in this code may depend on the process (hash seed, object
# identity, clock, environment, pid, unseeded random numbers); fail-closed

def _forbid_process_dependence(tree, time_ok_in=()):
  """Raises Unsupported on hash(), id(), uuid, random, np.random, os.environ, os.getpid anywhere, and on any use of
  `time` outside the functions listed in time_ok_in."""
  def scan(node, fn):
    for ch in ast.iter_child_nodes(node):
      f = ch.name if isinstance(ch, ast.FunctionDef) else fn
      if isinstance(ch, ast.Call) and isinstance(ch.func, ast.Name) and ch.func.id in ('hash', 'id'):
        raise Unsupported(f'{ch.func.id}() in {fn or "module"}: depends on the process')
      if isinstance(ch, ast.Attribute):
        try:
          d = dotted(ch)
        except Unsupported:
          d = ''
        if d.startswith(('uuid.', 'random.', 'np.random.', 'numpy.random.', 'os.environ', 'os.getpid', 'secrets.')):
          raise Unsupported(f'{d} in {fn or "module"}: depends on the process')
        if d.startswith('time.') and fn not in time_ok_in:
          raise Unsupported(f'{d} in {fn or "module"}')
      scan(ch, f)
  scan(tree, None)


def emit_deterministic(tree):
  _forbid_process_dependence(tree)
  return 'Definition checkpoint_code_is_process_independent : bool := true.'


MODULES = {
    'Gen_checkpoint': {
        'src': SRC,
        'preamble': 'From FV Require Import Common.PyStr.\n',
        'items': [
            A_const('_CHECKPOINT_PREFIX', 'checkpoint_prefix'),
            emit_get_checkpoint_paths,
            emit_load_latest,
            emit_save,
            emit_deterministic,
        ],
    },
}
