"""Translator anchors for fedjax/core/metrics.py: every Metric.evaluate_example
and get_target_weight (C14); PerDomainMetric.evaluate_example + apply_mask are matched structurally."""
from lib.mtr import A_metric, A_target_weight, A_per_domain, A_no_hidden_inputs, A_ce_widens_targets

K = ('k', 'k', 'int')
MASKED = ('masked_target_values', 'masked', 'il')
LM = ('logits_mask', 'logits_mask', 'oev')
PP = ('per_position', 'per_position', 'pb')

MODULES = {
    'Gen_metrics_eval': {
        'src': 'fedjax/core/metrics.py',
        'preamble': 'From Coq Require Import QArith.\nFrom FV Require Import Model.C14_Prims.\n',
        'items': [
            A_no_hidden_inputs(),
            A_ce_widens_targets(),
            A_target_weight('gen_get_target_weight'),
            A_metric('CrossEntropyLoss', 'gen_cross_entropy', [], 'int', 'fv', 'qs', ce_type='q'),
            A_metric('Accuracy', 'gen_accuracy', [], 'int', 'fv', 'ms'),
            A_metric('TopKAccuracy', 'gen_topk', [K], 'int', 'fv', 'ms'),
            A_metric('SequenceTokenCrossEntropyLoss', 'gen_seq_token_ce', [MASKED, PP], 'zv', 'fm', 'qsv', ce_type='qv'),
            A_metric('SequenceCrossEntropyLoss', 'gen_seq_ce', [MASKED], 'zv', 'fm', 'qs', ce_type='qv'),
            A_metric('SequenceTokenAccuracy', 'gen_seq_token_acc', [MASKED, LM, PP], 'zv', 'fm', 'msv'),
            A_metric('SequenceTokenTopKAccuracy', 'gen_seq_token_topk', [K, MASKED, LM, PP], 'zv', 'fm', 'msv'),
            A_metric('SequenceTokenCount', 'gen_seq_token_count', [MASKED], 'zv', None, 'ss'),
            A_metric('SequenceCount', 'gen_seq_count', [MASKED], 'zv', None, 'ss'),
            A_metric('SequenceTruncationRate', 'gen_seq_trunc', [('eos_target_value', 'eos', 'int'), MASKED], 'zv', None, 'ms'),
            A_metric('SequenceTokenOOVRate', 'gen_seq_oov', [('oov_target_values', 'oovs', 'il'), MASKED, PP], 'zv', None, 'msv'),
            A_metric('SequenceLength', 'gen_seq_length', [MASKED], 'zv', None, 'ms'),
            A_per_domain('gen_per_domain'),
            A_metric('ConfusionMatrix', 'gen_confusion', [('num_classes', 'num_classes', 'int')], 'int', 'fv', 'ssm', error=True, int32_target=True),
        ],
    },
}
