"""Recogniser anchors for fedjax/core/serialization.py save_state / load_state (C09): the checkpoint file is
exactly `pickle.dump(state, f)` of the caller's state object and loading is exactly `pickle.load(f)` -- no
conversion before or after.  This is what the hypothesis `load (save s) = s` of C09 stands for; any other
shape is a translator failure (fail-closed)."""
import ast

from translate import Unsupported, dotted, find_def

SRC = 'fedjax/core/serialization.py'


def _body(fd):
  return [s for s in fd.body if not (isinstance(s, ast.Expr) and isinstance(s.value, ast.Constant))]


def _is_name(e, n):
  return isinstance(e, ast.Name) and e.id == n


def _log_then_with(fd, params, mode):
  if [a.arg for a in fd.args.args] != params:
    raise Unsupported(f'{fd.name}: parameters')
  body = _body(fd)
  if len(body) != 2:
    raise Unsupported(f'{fd.name}: expected logging.info(...) and one with-statement, found {len(body)} statements')
  lg, w = body
  if not (isinstance(lg, ast.Expr) and isinstance(lg.value, ast.Call) and dotted(lg.value.func) == 'logging.info'):
    raise Unsupported(f'{fd.name}: first statement is not logging.info')
  ok = (isinstance(w, ast.With) and len(w.items) == 1 and isinstance(w.items[0].context_expr, ast.Call) and
        dotted(w.items[0].context_expr.func) == 'tf.io.gfile.GFile' and len(w.items[0].context_expr.args) == 2 and
        _is_name(w.items[0].context_expr.args[0], 'path') and isinstance(w.items[0].context_expr.args[1], ast.Constant)
        and w.items[0].context_expr.args[1].value == mode and _is_name(w.items[0].optional_vars, 'f') and len(w.body) == 1)
  if not ok:
    raise Unsupported(f"{fd.name}: with tf.io.gfile.GFile(path, '{mode}') as f: <one statement> expected")
  return w.body[0]


def emit_state_io(tree):
  st = _log_then_with(find_def(tree, 'save_state'), ['state', 'path'], 'wb')
  c = st.value if isinstance(st, ast.Expr) else None
  if not (isinstance(c, ast.Call) and dotted(c.func) == 'pickle.dump' and len(c.args) == 2 and not c.keywords and
          _is_name(c.args[0], 'state') and _is_name(c.args[1], 'f')):
    raise Unsupported('save_state: pickle.dump(state, f) expected')
  st = _log_then_with(find_def(tree, 'load_state'), ['path'], 'rb')
  c = st.value if isinstance(st, ast.Return) else None
  if not (isinstance(c, ast.Call) and dotted(c.func) == 'pickle.load' and len(c.args) == 1 and not c.keywords and
          _is_name(c.args[0], 'f')):
    raise Unsupported('load_state: return pickle.load(f) expected')
  return '\n'.join([
      '(* save_state(state, path) = open path, pickle.dump(state, f), close;  load_state(path) = pickle.load *)',
      'Definition save_state_is_plain_pickle : bool := true.',
      'Definition load_state_is_plain_unpickle : bool := true.',
  ])


MODULES = {
    'Gen_state_io': {
        'src': SRC,
        'items': [emit_state_io],
    },
}
