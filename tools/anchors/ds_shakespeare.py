"""Translator anchors for fedjax/datasets/shakespeare.py (C20): the label constants, the
look-up table arithmetic and every index expression of preprocess_client."""
import ast
from lib.c20tr import A_forwarding, A_no_process_dependence, D, _T, _unsupported, _body, _ctx, zdef, _first_assign, A_modconst_expr
from translate import A_const

SRC = 'fedjax/datasets/shakespeare.py'


def _lut(tree):
  """_build_look_up_table(vocab, num_reserved): oov, vocab_size, fill value, entry."""
  T = _T()
  fd = T.find_def(tree, '_build_look_up_table')
  if [a.arg for a in fd.args.args] != ['vocab', 'num_reserved']:
    _unsupported('_build_look_up_table: parameters changed')
  b = _body(fd)
  if len(b) != 5:
    _unsupported('_build_look_up_table: expected 5 statements')
  ctx = _ctx(lens={'vocab': 'len_vocab'})
  env = {'num_reserved': 'Z', 'len_vocab': 'Z'}
  P = ['num_reserved', 'len_vocab']
  out = []
  s = b[0]
  if not (isinstance(s, ast.Assign) and D(s.targets[0]) == 'oov'):
    _unsupported('_build_look_up_table: statement 1 is not `oov = ...`')
  oov, _ = ctx.expr(s.value, env, 'Z')
  out.append(zdef('lut_oov', P, oov))
  s = b[1]
  if not (isinstance(s, ast.Assign) and D(s.targets[0]) == 'vocab_size'):
    _unsupported('_build_look_up_table: statement 2 is not `vocab_size = ...`')
  env2 = dict(env, oov='Z')
  vs, _ = ctx.expr(s.value, env2, 'Z')
  out.append(zdef('lut_vocab_size', P, f'let oov := {oov} in {vs}'))
  # table = np.full([256], oov, dtype=np.int32)
  s = b[2]
  v = s.value if isinstance(s, ast.Assign) else None
  if not (v is not None and D(s.targets[0]) == 'table' and isinstance(v, ast.Call) and D(v.func) == 'np.full' and
          len(v.args) == 2 and isinstance(v.args[0], ast.List) and len(v.args[0].elts) == 1):
    _unsupported('_build_look_up_table: statement 3 is not `table = np.full([n], fill, ...)`')
  size, _ = ctx.expr(v.args[0].elts[0], env2, 'Z')
  fill, _ = ctx.expr(v.args[1], env2, 'Z')
  out.append(zdef('lut_table_size', [], size))
  out.append(zdef('lut_fill', P, f'let oov := {oov} in {fill}'))
  # for i, c in enumerate(vocab): table[c] = num_reserved + i
  s = b[3]
  ok = (isinstance(s, ast.For) and isinstance(s.target, ast.Tuple) and [x.id for x in s.target.elts] == ['i', 'c'] and
        isinstance(s.iter, ast.Call) and D(s.iter.func) == 'enumerate' and len(s.iter.args) == 1 and
        D(s.iter.args[0]) == 'vocab' and len(s.body) == 1 and isinstance(s.body[0], ast.Assign) and
        isinstance(s.body[0].targets[0], ast.Subscript) and D(s.body[0].targets[0].value) == 'table' and
        isinstance(s.body[0].targets[0].slice, ast.Name) and s.body[0].targets[0].slice.id == 'c')
  if not ok:
    _unsupported('_build_look_up_table: the enumerate loop has an unexpected form')
  ent, _ = ctx.expr(s.body[0].value, {'num_reserved': 'Z', 'i': 'Z'}, 'Z')
  out.append(zdef('lut_entry', ['num_reserved', 'i'], ent))
  s = b[4]
  if not (isinstance(s, ast.Return) and isinstance(s.value, ast.Tuple) and
          [D(x) for x in s.value.elts] == ['table', 'vocab_size']):
    _unsupported('_build_look_up_table: does not return (table, vocab_size)')
  return '\n'.join(out)


def _table_call(tree):
  """TABLE, VOCAB_SIZE = _build_look_up_table(b'...', num_reserved=3)"""
  T = _T()
  for s in tree.body:
    if isinstance(s, ast.Assign) and isinstance(s.targets[0], ast.Tuple) and \
        [D(x) for x in s.targets[0].elts] == ['TABLE', 'VOCAB_SIZE']:
      c = s.value
      if not (isinstance(c, ast.Call) and D(c.func) == '_build_look_up_table'):
        break
      args = list(c.args)
      kw = {k.arg: k.value for k in c.keywords}
      vocab = args[0] if args else kw.get('vocab')
      nr = args[1] if len(args) > 1 else kw.get('num_reserved')
      if not (isinstance(vocab, ast.Constant) and isinstance(vocab.value, bytes) and isinstance(nr, ast.Constant) and
              isinstance(nr.value, int)):
        break
      return (f'Definition VOCAB_BYTES : list Z := [{"; ".join(str(x) for x in vocab.value)}].\n'
              f'Definition NUM_RESERVED : Z := {nr.value}.\n'
              'Definition VOCAB_SIZE : Z := lut_vocab_size NUM_RESERVED (Z.of_nat (length VOCAB_BYTES)).')
  _unsupported('TABLE, VOCAB_SIZE = _build_look_up_table(<bytes literal>, num_reserved=<int>) not found')


CONSTS = {'PAD': 'PAD', 'BOS': 'BOS', 'EOS': 'EOS', 'OOV': 'OOV', 'VOCAB_SIZE': 'VOCAB_SIZE'}


def _sub(t):
  """Subscript target `name[...]` -> (name, slice node)."""
  if isinstance(t, ast.Subscript) and isinstance(t.value, ast.Name):
    return t.value.id, t.slice
  return None, None


def _optz(ctx, e, env):
  if e is None:
    return 'None'
  t, _ = ctx.expr(e, env, 'Z')
  return f'(Some {t})'


def _preprocess(tree):
  T = _T()
  fd = T.find_def(tree, 'preprocess_client')
  if [a.arg for a in fd.args.args] != ['client_id', 'examples', 'sequence_length']:
    _unsupported('preprocess_client: parameters changed')
  b = _body(fd)
  out = []
  # joined_length = sum(len(i) + 2 for i in snippets)
  s = _first_assign(b, 'joined_length')
  v = s.value
  ok = (isinstance(v, ast.Call) and D(v.func) == 'sum' and len(v.args) == 1 and
        isinstance(v.args[0], ast.GeneratorExp) and len(v.args[0].generators) == 1 and
        isinstance(v.args[0].generators[0].target, ast.Name) and not v.args[0].generators[0].ifs and
        D(v.args[0].generators[0].iter) == 'snippets')
  if not ok:
    _unsupported('preprocess_client: joined_length is not sum(<expr> for i in snippets)')
  var = v.args[0].generators[0].target.id
  ctx = _ctx(consts=CONSTS, lens={var: 'len_i'})
  elt, _ = ctx.expr(v.args[0].elt, {'len_i': 'Z'}, 'Z')
  out.append(f'Definition joined_length (lens : list Z) : Z := fold_right Z.add 0 (map (fun len_i : Z => {elt}) lens).')
  # joined = np.zeros([joined_length], ...)
  s = _first_assign(b, 'joined')
  v = s.value
  if not (isinstance(v, ast.Call) and D(v.func) == 'np.zeros' and isinstance(v.args[0], ast.List) and
          len(v.args[0].elts) == 1 and D(v.args[0].elts[0]) == 'joined_length'):
    _unsupported('preprocess_client: joined is not np.zeros([joined_length], ..)')
  s = _first_assign(b, 'offset')
  if not (isinstance(s.value, ast.Constant) and s.value.value == 0):
    _unsupported('preprocess_client: offset does not start at 0')
  # the join loop
  loops = [x for x in b if isinstance(x, ast.For)]
  if len(loops) != 1:
    _unsupported('preprocess_client: expected exactly one for loop')
  lp = loops[0]
  if not (isinstance(lp.target, ast.Name) and D(lp.iter) == 'snippets' and len(lp.body) == 4 and not lp.orelse):
    _unsupported('preprocess_client: the join loop has an unexpected form')
  ctx = _ctx(consts=CONSTS, lens={lp.target.id: 'len_i'})
  env = {'offset': 'Z', 'len_i': 'Z'}
  P = ['offset', 'len_i']
  s0, s1, s2, s3 = lp.body
  for s in (s0, s1, s2):
    if not (isinstance(s, ast.Assign) and _sub(s.targets[0])[0] == 'joined'):
      _unsupported('preprocess_client: join loop statement is not `joined[..] = ..`')
  pos, _ = ctx.expr(_sub(s0.targets[0])[1], env, 'Z')
  lab, _ = ctx.expr(s0.value, env, 'Z')
  out += [zdef('join_first_pos', P, pos), zdef('join_first_label', [], lab)]
  sl = _sub(s1.targets[0])[1]
  if not (isinstance(sl, ast.Slice) and sl.step is None and sl.lower is not None and sl.upper is not None):
    _unsupported('preprocess_client: token slice has an unexpected form')
  lo, _ = ctx.expr(sl.lower, env, 'Z')
  hi, _ = ctx.expr(sl.upper, env, 'Z')
  out += [zdef('join_tok_lo', P, lo), zdef('join_tok_hi', P, hi)]
  v = s1.value   # TABLE[list(i)]
  if not (isinstance(v, ast.Subscript) and D(v.value) == 'TABLE' and isinstance(v.slice, ast.Call) and
          D(v.slice.func) == 'list' and len(v.slice.args) == 1 and D(v.slice.args[0]) == lp.target.id):
    _unsupported('preprocess_client: tokens are not TABLE[list(i)]')
  pos, _ = ctx.expr(_sub(s2.targets[0])[1], env, 'Z')
  lab, _ = ctx.expr(s2.value, env, 'Z')
  out += [zdef('join_last_pos', P, pos), zdef('join_last_label', [], lab)]
  if not (isinstance(s3, ast.AugAssign) and isinstance(s3.op, ast.Add) and D(s3.target) == 'offset'):
    _unsupported('preprocess_client: offset update has an unexpected form')
  inc, _ = ctx.expr(s3.value, env, 'Z')
  out.append(zdef('join_next', P, f'offset + {inc}'))
  # padded_length
  ctx = _ctx(consts=CONSTS)
  env = {'joined_length': 'Z', 'sequence_length': 'Z'}
  s = _first_assign(b, 'padded_length')
  pl, _ = ctx.expr(s.value, env, 'Z')
  out.append(zdef('padded_length', ['joined_length', 'sequence_length'], pl))
  # input_labels / output_labels: np.full([padded_length], PAD); X[:hi] = joined[a:b]
  for name, pre in (('input_labels', 'x'), ('output_labels', 'y')):
    s = _first_assign(b, name)
    v = s.value
    if not (isinstance(v, ast.Call) and D(v.func) == 'np.full' and isinstance(v.args[0], ast.List) and
            len(v.args[0].elts) == 1 and D(v.args[0].elts[0]) == 'padded_length' and len(v.args) == 2):
      _unsupported(f'preprocess_client: {name} is not np.full([padded_length], fill, ..)')
    fill, _ = ctx.expr(v.args[1], env, 'Z')
    out.append(zdef(pre + '_fill', [], fill))
    asg = [x for x in b if isinstance(x, ast.Assign) and _sub(x.targets[0])[0] == name]
    if len(asg) != 1:
      _unsupported(f'preprocess_client: expected one slice assignment into {name}')
    sl = _sub(asg[0].targets[0])[1]
    if not (isinstance(sl, ast.Slice) and sl.step is None and sl.lower is None and sl.upper is not None):
      _unsupported(f'preprocess_client: {name}[:hi] expected')
    hi, _ = ctx.expr(sl.upper, env, 'Z')
    out.append(zdef(pre + '_dst_hi', ['joined_length'], hi))
    src = asg[0].value
    sname, ssl = _sub(src)
    if not (sname == 'joined' and isinstance(ssl, ast.Slice) and ssl.step is None):
      _unsupported(f'preprocess_client: source of {name} is not a slice of joined')
    out.append(f'Definition {pre}_src_lo : option Z := {_optz(ctx, ssl.lower, env)}.')
    out.append(f'Definition {pre}_src_hi : option Z := {_optz(ctx, ssl.upper, env)}.')
  # return {'x': input_labels.reshape([-1, sequence_length]), 'y': output_labels.reshape(...)}
  r = [x for x in b if isinstance(x, ast.Return)]
  ok = len(r) == 1 and isinstance(r[0].value, ast.Dict) and [k.value for k in r[0].value.keys] == ['x', 'y']
  if ok:
    for v, nm in zip(r[0].value.values, ('input_labels', 'output_labels')):
      ok = ok and (isinstance(v, ast.Call) and D(v.func) == nm + '.reshape' and len(v.args) == 1 and
                   isinstance(v.args[0], ast.List) and len(v.args[0].elts) == 2 and
                   isinstance(v.args[0].elts[0], ast.UnaryOp) and D(v.args[0].elts[1]) == 'sequence_length')
  if not ok:
    _unsupported('preprocess_client: does not return x/y reshaped to [-1, sequence_length]')
  return '\n'.join(out)


MODULES = {
    'Gen_ds_shakespeare': {
        'src': SRC,
        'items': [
            _lut,
            _table_call,
            A_modconst_expr('OOV', 'OOV', {'VOCAB_SIZE': 'VOCAB_SIZE'}),
            A_const('PAD', 'PAD'), A_const('BOS', 'BOS'), A_const('EOS', 'EOS'),
            _preprocess,
            A_no_process_dependence('shakespeare_is_process_independent'),
            A_forwarding('load_data', 'load_split', 'sh_load_data_forwards'),
            A_forwarding('load_data', 'functools.partial', 'sh_load_data_binds_sequence_length', callee_params=['func', 'sequence_length']),
        ],
    },
}
