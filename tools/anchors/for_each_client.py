"""Translator anchors for fedjax/core/for_each_client.py (C02).

`_blockify` and the pmap backend are list / pytree plumbing around a handful of
index and decision expressions.  This anchor file is a STRUCTURAL translator: it
walks the statements of the anchored functions, insists that each one has the
shape the hand-written model (coq/Model/C02_Model.v) mirrors, and translates the
index / decision expressions it meets with the shared expression translator
(translate.Ctx) into Gallina definitions:

  _blockify            blockify_sort_reverse, blockify_blocks (range + slice),
                       blockify_num_padding (pad test + pad count),
                       blockify_has_batches, blockify_batch_range, blockify_batch_is_real
  pmap p_client_step   pmap_select_state  (argument order of jnp.where(mask, next_state, state))
  pmap run             pmap_skip (client_mask test), pmap_truncate (step_results[:num_batches[i]])
  jit backend          jit_init_copies, jit_step_donates, jit_final_donates
  pmap backend         pmap_init_donates, pmap_step_donates, pmap_final_donates
  backend choice       backend_choice_thread_local, backend_get_installs_default,
                       ctx_saves_field, ctx_sets_in_try, ctx_restores_old_in_finally

The model USES the translated definitions (so an edit of the code changes the
model and the proofs are re-checked against it).  Anything that does not have the
expected shape raises Unsupported (fail closed).  Deliberately NOT anchored: the
zeroing of masked step results in p_client_step (it is unobservable: the results of
padding batches are always truncated away), the device placement calls, the
ForEachClientError wrapping of the debug backend.
"""
import ast
from translate import Ctx, Unsupported, dotted, find_def

SRC = 'fedjax/core/for_each_client.py'


def _need(cond, what):
  if not cond:
    raise Unsupported('for_each_client.py: expected ' + what)


def _body(fd):
  b = list(fd.body)
  if b and isinstance(b[0], ast.Expr) and isinstance(b[0].value, ast.Constant) and isinstance(b[0].value.value, str):
    b = b[1:]
  return b


def _is_name(e, n):
  return isinstance(e, ast.Name) and e.id == n


def _is_const(e, v):
  return isinstance(e, ast.Constant) and e.value is v or (isinstance(e, ast.Constant) and not isinstance(v, bool)
                                                          and not isinstance(e.value, bool) and e.value == v)


def _src(e):
  return ast.unparse(e)


class LenCtx(Ctx):
  """Ctx + `len(<name>)` -> the Z variable `len_<name>`; `<obj>.<field>[i]` -> `<field>_i`."""

  def call(self, e, env):
    if dotted(e.func) == 'len' and len(e.args) == 1 and isinstance(e.args[0], ast.Name) and not e.keywords:
      n = 'len_' + e.args[0].id
      if n in env:
        return n, env[n]
      raise Unsupported('len() of ' + e.args[0].id)
    return super().call(e, env)

  def _expr(self, e, env):
    if isinstance(e, ast.Subscript) and isinstance(e.value, ast.Attribute) and isinstance(e.slice, ast.Name):
      n = e.value.attr + '_' + e.slice.id
      if n in env:
        return n, env[n]
      raise Unsupported('subscript ' + _src(e))
    return super()._expr(e, env)


def _zeros_like_of(stmt, target, src_name):
  """target = jax.tree_util.tree_map(<f>, src_name).  The model takes the padding value
  as an ARBITRARY function of the template (the theorems hold for every padding
  value), so which leaf-wise function builds it (jnp.zeros_like) is not pinned."""
  if not (isinstance(stmt, ast.Assign) and len(stmt.targets) == 1 and _is_name(stmt.targets[0], target) and
          isinstance(stmt.value, ast.Call) and dotted(stmt.value.func) == 'jax.tree_util.tree_map' and
          len(stmt.value.args) == 2 and not stmt.value.keywords and _is_name(stmt.value.args[1], src_name)):
    return False
  try:
    dotted(stmt.value.args[0])
  except Unsupported:
    return False
  return True


def _tuple_pick_comp(e, pos, over):
  """[v for (.., v at pos, ..) in over] with the other positions named `_`"""
  if not (isinstance(e, ast.ListComp) and len(e.generators) == 1 and isinstance(e.elt, ast.Name)):
    return False
  g = e.generators[0]
  if g.ifs or not _is_name(g.iter, over) or not isinstance(g.target, ast.Tuple) or len(g.target.elts) != 3:
    return False
  return all(_is_name(t, e.elt.id if i == pos else '_') for i, t in enumerate(g.target.elts))


def emit_blockify(tree):
  fd = find_def(tree, '_blockify')
  _need([a.arg for a in fd.args.args] == ['clients', 'block_size'], '_blockify(clients, block_size)')
  b = _body(fd)
  _need(len(b) == 3, '_blockify: materialise, sort, one for loop')
  ctx = LenCtx()
  out = []
  # clients = [(client_id, list(client_batches), client_input) for client_id, client_batches, client_input in clients]
  s = b[0]
  ok = (isinstance(s, ast.Assign) and _is_name(s.targets[0], 'clients') and isinstance(s.value, ast.ListComp) and
        len(s.value.generators) == 1 and _is_name(s.value.generators[0].iter, 'clients') and
        not s.value.generators[0].ifs and isinstance(s.value.generators[0].target, ast.Tuple) and
        isinstance(s.value.elt, ast.Tuple) and len(s.value.elt.elts) == 3 and len(s.value.generators[0].target.elts) == 3)
  if ok:
    t = [x.id if isinstance(x, ast.Name) else None for x in s.value.generators[0].target.elts]
    e = s.value.elt.elts
    ok = (None not in t and len(set(t)) == 3 and _is_name(e[0], t[0]) and _is_name(e[2], t[2]) and
          isinstance(e[1], ast.Call) and dotted(e[1].func) == 'list' and len(e[1].args) == 1 and _is_name(e[1].args[0], t[1]))
  _need(ok, 'clients = [(id, list(batches), input) for id, batches, input in clients]')
  # clients.sort(key=lambda x: len(x[1]), reverse=True)
  s = b[1]
  ok = (isinstance(s, ast.Expr) and isinstance(s.value, ast.Call) and dotted(s.value.func) == 'clients.sort' and
        not s.value.args)
  _need(ok, 'clients.sort(...)')
  kw = {k.arg: k.value for k in s.value.keywords}
  _need(set(kw) <= {'key', 'reverse'} and 'key' in kw, 'sort(key=..., reverse=...)')
  k = kw['key']
  ok = (isinstance(k, ast.Lambda) and len(k.args.args) == 1 and isinstance(k.body, ast.Call) and
        dotted(k.body.func) == 'len' and len(k.body.args) == 1 and isinstance(k.body.args[0], ast.Subscript) and
        _is_name(k.body.args[0].value, k.args.args[0].arg) and _is_const(k.body.args[0].slice, 1))
  _need(ok, 'sort key = lambda x: len(x[1])  (the number of batches)')
  rev = kw.get('reverse', ast.Constant(False))
  _need(isinstance(rev, ast.Constant) and isinstance(rev.value, bool), 'literal reverse flag')
  out.append('(* %s *)\nDefinition blockify_sort_reverse : bool := %s.' % (_src(s), 'true' if rev.value else 'false'))
  # for i in range(0, len(clients), block_size):
  loop = b[2]
  _need(isinstance(loop, ast.For) and isinstance(loop.target, ast.Name) and not loop.orelse and
        isinstance(loop.iter, ast.Call) and dotted(loop.iter.func) == 'range' and len(loop.iter.args) == 3, 'for i in range(a, b, c)')
  iv = loop.target.id
  env = {'len_clients': 'Z', 'block_size': 'Z'}
  ra = [ctx.expr(a, env, 'Z')[0] for a in loop.iter.args]
  lb = list(loop.body)
  _need(len(lb) == 8, '_blockify loop body: 8 statements')
  #   block = clients[i:i + block_size]
  s = lb[0]
  ok = (isinstance(s, ast.Assign) and _is_name(s.targets[0], 'block') and isinstance(s.value, ast.Subscript) and
        _is_name(s.value.value, 'clients') and isinstance(s.value.slice, ast.Slice) and s.value.slice.step is None and
        s.value.slice.lower is not None and s.value.slice.upper is not None)
  _need(ok, 'block = clients[lo:hi]')
  env_i = dict(env)
  env_i[iv] = 'Z'
  lo = ctx.expr(s.value.slice.lower, env_i, 'Z')[0]
  hi = ctx.expr(s.value.slice.upper, env_i, 'Z')[0]
  out.append('(* for %s in %s: %s *)\n'
             'Definition blockify_blocks {A : Type} (clients : list A) (block_size : Z) : list (list A) :=\n'
             '  let len_clients := Z.of_nat (length clients) in\n'
             '  map (fun %s : Z => py_slice clients %s %s) (py_range %s %s %s).'
             % (iv, _src(loop.iter), _src(s), iv, lo, hi, ra[0], ra[1], ra[2]))
  #   client_mask = [True for _ in block]
  s = lb[1]
  ok = (isinstance(s, ast.Assign) and _is_name(s.targets[0], 'client_mask') and isinstance(s.value, ast.ListComp) and
        _is_const(s.value.elt, True) and len(s.value.generators) == 1 and _is_name(s.value.generators[0].iter, 'block') and
        not s.value.generators[0].ifs)
  _need(ok, 'client_mask = [True for _ in block]')
  #   if len(block) < block_size: template from block[0]; zeros_like; for j in range(block_size - len(block)): append padding
  s = lb[2]
  _need(isinstance(s, ast.If) and not s.orelse and len(s.body) == 3, 'if len(block) < block_size: (3 statements)')
  envb = {'len_block': 'Z', 'block_size': 'Z'}
  test = ctx.expr(s.test, envb, 'bool')[0]
  t0 = s.body[0]
  ok = (isinstance(t0, ast.Assign) and isinstance(t0.targets[0], ast.Tuple) and len(t0.targets[0].elts) == 3 and
        _is_name(t0.targets[0].elts[0], '_') and _is_name(t0.targets[0].elts[1], '_') and
        _is_name(t0.targets[0].elts[2], 'client_input_template') and isinstance(t0.value, ast.Subscript) and
        _is_name(t0.value.value, 'block') and _is_const(t0.value.slice, 0))
  _need(ok, '_, _, client_input_template = block[0]')
  _need(_zeros_like_of(s.body[1], 'padding_client_input', 'client_input_template'),
        'padding_client_input = tree_map(<f>, client_input_template)')
  pl = s.body[2]
  ok = (isinstance(pl, ast.For) and not pl.orelse and isinstance(pl.iter, ast.Call) and dotted(pl.iter.func) == 'range' and
        len(pl.iter.args) == 1 and len(pl.body) == 2)
  _need(ok, 'for j in range(block_size - len(block)): (2 statements)')
  cnt = ctx.expr(pl.iter.args[0], envb, 'Z')[0]
  a0, a1 = pl.body
  ok = (isinstance(a0, ast.Expr) and isinstance(a0.value, ast.Call) and dotted(a0.value.func) == 'block.append' and
        len(a0.value.args) == 1 and isinstance(a0.value.args[0], ast.Tuple) and len(a0.value.args[0].elts) == 3 and
        _is_const(a0.value.args[0].elts[0], None) and isinstance(a0.value.args[0].elts[1], ast.List) and
        not a0.value.args[0].elts[1].elts and _is_name(a0.value.args[0].elts[2], 'padding_client_input'))
  _need(ok, 'block.append((None, [], padding_client_input))')
  ok = (isinstance(a1, ast.Expr) and isinstance(a1.value, ast.Call) and dotted(a1.value.func) == 'client_mask.append' and
        len(a1.value.args) == 1 and _is_const(a1.value.args[0], False))
  _need(ok, 'client_mask.append(False)')
  out.append('(* %s: for j in %s: append a padding client *)\n'
             'Definition blockify_num_padding (len_block : Z) (block_size : Z) : Z :=\n'
             '  if %s then %s else 0.' % (_src(s.test), _src(pl.iter), test, cnt))
  #   num_batches = [len(client_batches) for _, client_batches, _ in block]
  s = lb[3]
  ok = (isinstance(s, ast.Assign) and _is_name(s.targets[0], 'num_batches') and isinstance(s.value, ast.ListComp) and
        isinstance(s.value.elt, ast.Call) and dotted(s.value.elt.func) == 'len' and len(s.value.elt.args) == 1 and
        isinstance(s.value.elt.args[0], ast.Name) and
        _tuple_pick_comp(ast.ListComp(elt=s.value.elt.args[0], generators=s.value.generators), 1, 'block'))
  _need(ok, 'num_batches = [len(client_batches) for _, client_batches, _ in block]')
  #   max_num_batches = num_batches[0]
  s = lb[4]
  ok = (isinstance(s, ast.Assign) and _is_name(s.targets[0], 'max_num_batches') and isinstance(s.value, ast.Subscript) and
        _is_name(s.value.value, 'num_batches') and _is_const(s.value.slice, 0))
  _need(ok, 'max_num_batches = num_batches[0]')
  #   masked_batches = []
  s = lb[5]
  _need(isinstance(s, ast.Assign) and _is_name(s.targets[0], 'masked_batches') and isinstance(s.value, ast.List) and
        not s.value.elts, 'masked_batches = []')
  #   if max_num_batches > 0:
  s = lb[6]
  _need(isinstance(s, ast.If) and not s.orelse and len(s.body) == 3, 'if max_num_batches > 0: (3 statements)')
  has = ctx.expr(s.test, {'max_num_batches': 'Z'}, 'bool')[0]
  out.append('(* if %s: *)\nDefinition blockify_has_batches (max_num_batches : Z) : bool := %s.' % (_src(s.test), has))
  t0 = s.body[0]
  ok = (isinstance(t0, ast.Assign) and _is_name(t0.targets[0], 'batch_template') and _src(t0.value) == 'block[0][1][0]')
  _need(ok, 'batch_template = block[0][1][0]')
  _need(_zeros_like_of(s.body[1], 'padding_batch', 'batch_template'), 'padding_batch = tree_map(<f>, batch_template)')
  jl = s.body[2]
  ok = (isinstance(jl, ast.For) and not jl.orelse and isinstance(jl.target, ast.Name) and isinstance(jl.iter, ast.Call) and
        dotted(jl.iter.func) == 'range' and 1 <= len(jl.iter.args) <= 3 and len(jl.body) == 4)
  _need(ok, 'for j in range(max_num_batches): (4 statements)')
  jv = jl.target.id
  rj = [ctx.expr(a, {'max_num_batches': 'Z'}, 'Z')[0] for a in jl.iter.args]
  rj = ['0', rj[0], '1'] if len(rj) == 1 else rj + ['1'] if len(rj) == 2 else rj
  out.append('(* for %s in %s: *)\nDefinition blockify_batch_range (max_num_batches : Z) : list Z := py_range %s %s %s.'
             % (jv, _src(jl.iter), rj[0], rj[1], rj[2]))
  for st, nm in ((jl.body[0], 'block_batch'), (jl.body[1], 'batch_mask')):
    _need(isinstance(st, ast.Assign) and _is_name(st.targets[0], nm) and isinstance(st.value, ast.List) and not st.value.elts,
          nm + ' = []')
  il = jl.body[2]
  ok = (isinstance(il, ast.For) and not il.orelse and _is_name(il.iter, 'block') and isinstance(il.target, ast.Tuple) and
        len(il.target.elts) == 3 and _is_name(il.target.elts[0], '_') and _is_name(il.target.elts[1], 'batches') and
        _is_name(il.target.elts[2], '_') and len(il.body) == 1 and isinstance(il.body[0], ast.If))
  _need(ok, 'for _, batches, _ in block: if ...')
  cond = il.body[0]
  real = ctx.expr(cond.test, {jv: 'Z', 'len_batches': 'Z'}, 'bool')[0]

  def appends(stmts, batch_src, mask):
    return (len(stmts) == 2 and all(isinstance(x, ast.Expr) and isinstance(x.value, ast.Call) and len(x.value.args) == 1
                                    for x in stmts) and
            dotted(stmts[0].value.func) == 'block_batch.append' and _src(stmts[0].value.args[0]) == batch_src and
            dotted(stmts[1].value.func) == 'batch_mask.append' and _is_const(stmts[1].value.args[0], mask))
  _need(appends(cond.body, 'batches[%s]' % jv, True) and appends(cond.orelse, 'padding_batch', False),
        'if ...: append(batches[j]), append(True) else: append(padding_batch), append(False)')
  out.append('(* if %s: the real batch, mask True; else: the padding batch, mask False *)\n'
             'Definition blockify_batch_is_real (%s : Z) (len_batches : Z) : bool := %s.' % (_src(cond.test), jv, real))
  _need(_src(jl.body[3]) == 'masked_batches.append((block_batch, batch_mask))', 'masked_batches.append((block_batch, batch_mask))')
  #   yield ClientBlock(client_id=[...], client_mask=client_mask, num_batches=num_batches, masked_batches=..., client_input=[...])
  y = lb[7].value.value if isinstance(lb[7], ast.Expr) and isinstance(lb[7].value, ast.Yield) else None
  _need(y is not None and isinstance(y, ast.Call) and dotted(y.func) == 'ClientBlock' and not y.args, 'yield ClientBlock(...)')
  kw = {k.arg: k.value for k in y.keywords}
  ok = (set(kw) == {'client_id', 'client_mask', 'num_batches', 'masked_batches', 'client_input'} and
        _tuple_pick_comp(kw['client_id'], 0, 'block') and _is_name(kw['client_mask'], 'client_mask') and
        _is_name(kw['num_batches'], 'num_batches') and _is_name(kw['masked_batches'], 'masked_batches') and
        _tuple_pick_comp(kw['client_input'], 2, 'block'))
  _need(ok, 'ClientBlock fields taken position-wise from block')
  return '\n\n'.join(out)


def _find_assign(stmts, name):
  for s in stmts:
    if isinstance(s, ast.Assign) and len(s.targets) == 1 and _is_name(s.targets[0], name):
      return s
  raise Unsupported('assignment to ' + name + ' not found')


def _find_fdef(stmts, name):
  for s in stmts:
    if isinstance(s, ast.FunctionDef) and s.name == name:
      return s
  raise Unsupported('nested def ' + name + ' not found')


def _donates(call_or_decorators):
  """donate_argnums of jax.jit(f, ...)/jax.pmap(f, ...) or of a decorator list -> list of ints."""
  kws = []
  if isinstance(call_or_decorators, ast.Call):
    kws = call_or_decorators.keywords
  else:
    for d in call_or_decorators:
      if isinstance(d, ast.Call):
        kws += d.keywords
  res = []
  for k in kws:
    if k.arg == 'donate_argnames':
      raise Unsupported('donate_argnames')
    if k.arg == 'donate_argnums':
      v = k.value
      if isinstance(v, ast.Constant) and isinstance(v.value, int):
        res.append(v.value)
      elif isinstance(v, (ast.Tuple, ast.List)) and all(isinstance(x, ast.Constant) and isinstance(x.value, int) for x in v.elts):
        res += [x.value for x in v.elts]
      else:
        raise Unsupported('donate_argnums is not a literal')
  return '[' + '; '.join(str(x) for x in sorted(set(res))) + ']'


def emit_jit(tree):
  fd = find_def(tree, 'ForEachClientJitBackend.__call__')
  b = _body(fd)
  ji = _find_fdef(b, 'jit_client_init')
  _need(any(dotted(d if not isinstance(d, ast.Call) else d.func) == 'jax.jit' for d in ji.decorator_list), '@jax.jit on jit_client_init')
  ib = _body(ji)
  ok = (len(ib) == 2 and isinstance(ib[0], ast.Assign) and _is_name(ib[0].targets[0], 'state') and
        _src(ib[0].value) == 'client_init(shared_input, client_input)' and isinstance(ib[1], ast.Return))
  _need(ok, 'jit_client_init: state = client_init(shared_input, client_input); return ...')
  r = ib[1].value
  if _is_name(r, 'state'):
    copies = 'false'
  elif (isinstance(r, ast.Call) and dotted(r.func) == 'jax.tree_util.tree_map' and len(r.args) == 2 and
        dotted(r.args[0]) in ('jnp.copy', 'jnp.array') and _is_name(r.args[1], 'state')):
    copies = 'true'
  else:
    raise Unsupported('jit_client_init returns ' + _src(r))
  out = ['(* jit_client_init: return %s *)\nDefinition jit_init_copies : bool := %s.' % (_src(r), copies),
         'Definition jit_init_donates : list Z := %s.' % _donates(ji.decorator_list)]
  for nm, fn in (('jit_client_step', 'client_step'), ('jit_client_final', 'client_final')):
    s = _find_assign(b, nm)
    ok = (isinstance(s.value, ast.Call) and dotted(s.value.func) == 'jax.jit' and len(s.value.args) == 1 and
          _is_name(s.value.args[0], fn))
    _need(ok, f'{nm} = jax.jit({fn}, ...)')
    out.append('(* %s *)\nDefinition %s_donates : list Z := %s.' % (_src(s), nm.replace('_client', ''), _donates(s.value)))
  # run_client: state = jit_client_init(shared_input, client_input); loop; output = jit_client_final(shared_input, state)
  rc = _body(_find_fdef(b, 'run_client'))
  ok = (len(rc) == 5 and _src(rc[0]) == 'step_results = []' and
        _src(rc[1]) == 'state = jit_client_init(shared_input, client_input)' and isinstance(rc[2], ast.For) and
        _src(rc[2].iter) == 'client_batches' and _is_name(rc[2].target, 'batch') and len(rc[2].body) == 2 and
        _src(rc[2].body[0]) == 'state, step_result = jit_client_step(state, batch)' and
        _src(rc[2].body[1]) == 'step_results.append(step_result)' and
        _src(rc[3]) == 'output = jit_client_final(shared_input, state)' and _src(rc[4]) == 'return (output, step_results)')
  _need(ok, 'run_client: init, for batch: step + append, final, return (output, step_results)')
  return '\n\n'.join(out)


def emit_pmap(tree):
  fd = find_def(tree, 'ForEachClientPmapBackend.__call__')
  b = _body(fd)
  out = []
  s = _find_assign(b, 'block_size')
  _need(_src(s.value) == 'len(devices)', 'block_size = len(devices)')
  s = _find_assign(b, 'p_client_init')
  _need(isinstance(s.value, ast.Call) and dotted(s.value.func) == 'jax.pmap' and _is_name(s.value.args[0], 'client_init'),
        'p_client_init = jax.pmap(client_init)')
  out.append('(* %s *)\nDefinition pmap_init_donates : list Z := %s.' % (_src(s), _donates(s.value)))
  ps = _find_fdef(b, 'p_client_step')
  _need([a.arg for a in ps.args.args] == ['state', 'batch', 'mask'], 'p_client_step(state, batch, mask)')
  out.append('Definition pmap_step_donates : list Z := %s.' % _donates(ps.decorator_list))
  sb = _body(ps)
  _need(len(sb) == 4 and _src(sb[0]) == 'next_state, step_result = client_step(state, batch)' and
        _src(sb[3]) == 'return (next_state, step_result)' and
        isinstance(sb[2], ast.Assign) and _is_name(sb[2].targets[0], 'step_result'),
        'p_client_step: call client_step, select next_state, (mask step_result), return (next_state, step_result)')
  s = sb[1]
  ok = (isinstance(s, ast.Assign) and _is_name(s.targets[0], 'next_state') and isinstance(s.value, ast.Call) and
        dotted(s.value.func) == 'jax.tree_util.tree_map' and len(s.value.args) == 3 and
        _src(s.value.args[0]) == 'functools.partial(jnp.where, mask)' and
        all(isinstance(a, ast.Name) and a.id in ('next_state', 'state') for a in s.value.args[1:]))
  _need(ok, 'next_state = tree_map(functools.partial(jnp.where, mask), <a>, <b>)')
  out.append('(* %s *)\nDefinition pmap_select_state {A : Type} (mask : bool) (next_state : A) (state : A) : A :=\n'
             '  if mask then %s else %s.' % (_src(s).replace('\n', ' '), s.value.args[1].id, s.value.args[2].id))
  s = _find_assign(b, 'p_client_final')
  _need(isinstance(s.value, ast.Call) and dotted(s.value.func) == 'jax.pmap' and _is_name(s.value.args[0], 'client_final'),
        'p_client_final = jax.pmap(client_final, ...)')
  out.append('(* %s *)\nDefinition pmap_final_donates : list Z := %s.' % (_src(s), _donates(s.value)))
  # run_block: init on block.client_input, loop over block.masked_batches, final
  rb = _body(_find_fdef(b, 'run_block'))
  ok = (len(rb) == 6 and _src(rb[0]) == 'p_client_input = _device_put_sharded(block.client_input, devices)' and
        _src(rb[1]) == 'p_state = p_client_init(p_shared_input, p_client_input)' and _src(rb[2]) == 'p_step_results = []' and
        isinstance(rb[3], ast.For) and _src(rb[3].target) == '(p_batch, p_mask)' and _src(rb[3].iter) == 'block.masked_batches' and
        len(rb[3].body) == 2 and
        _src(rb[3].body[0]) == ('p_state, p_step_result = p_client_step(p_state, _device_put_sharded(p_batch, devices), '
                                '_device_put_sharded(p_mask, devices))') and
        _src(rb[3].body[1]) == 'p_step_results.append(p_step_result)' and
        _src(rb[4]) == 'p_client_output = p_client_final(p_shared_input, p_state)' and
        _src(rb[5]) == 'return (p_client_output, p_step_results)')
  _need(ok, 'run_block: sharded init, for (p_batch, p_mask) in block.masked_batches: step + append, final')
  # run: for block in _blockify(clients, block_size): ... for i in range(len(block.client_id)): skip / slice
  run = _find_fdef(b, 'run')
  # the pmapped functions only ever see internal copies (device_put of np.stack) of the caller's
  # arrays, so the donation flags of the pmap backend cannot reach a caller buffer
  _need(_src(_find_assign(_body(run), 'p_shared_input').value) == '_device_put_replicated(shared_input, devices)',
        'p_shared_input = _device_put_replicated(shared_input, devices)')
  bl = [s for s in _body(run) if isinstance(s, ast.For)]
  _need(len(bl) == 1 and _src(bl[0].iter) == '_blockify(clients, block_size)' and _is_name(bl[0].target, 'block'),
        'for block in _blockify(clients, block_size)')
  out.append(_emit_split(bl[0].body, out))
  return '\n\n'.join(out)


class SplitCtx(LenCtx):
  """`len(block.<field>)` / `len(<name>)` -> len_<field|name>; `block.<field>[e]` -> the
  variable <field>_i, recording the translated index expression e per field."""

  def __init__(self):
    super().__init__()
    self.idx = {}

  def call(self, e, env):
    if dotted(e.func) == 'len' and len(e.args) == 1 and isinstance(e.args[0], ast.Attribute) and \
        _is_name(e.args[0].value, 'block') and not e.keywords:
      n = 'len_' + e.args[0].attr
      if n in env:
        return n, env[n]
      raise Unsupported('len() of ' + _src(e.args[0]))
    return super().call(e, env)

  def _expr(self, e, env):
    if isinstance(e, ast.Subscript) and isinstance(e.value, ast.Attribute) and _is_name(e.value.value, 'block') and \
        not isinstance(e.slice, ast.Slice):
      f = e.value.attr
      ix, _ = self.expr(e.slice, env, 'Z')
      if f in self.idx and self.idx[f] != ix:
        raise Unsupported('block.%s indexed in two different ways' % f)
      self.idx[f] = ix
      n = f + '_i'
      if n in env:
        return n, env[n]
      raise Unsupported('subscript ' + _src(e))
    return Ctx._expr(self, e, env)


def _emit_split(stmts, out):
  """GENERATES the output-splitting code of the pmap backend's `run` (the body of
  `for block in _blockify(...)`): run_block, outputs = [], the per-lane loop (skip test,
  x[i] split, append with the step-result slice), del, outputs.reverse(), the pop / yield
  loop -- statement by statement, as one Gallina definition `pmap_emit` (plus its pieces
  pmap_skip / pmap_truncate).  An edit of any of these statements changes the text."""
  ctx = SplitCtx()
  lets = []
  st = list(stmts)
  _need(st and _src(st[0]) == 'p_client_output, p_step_results = run_block(p_shared_input, block)',
        'p_client_output, p_step_results = run_block(p_shared_input, block)')
  _need(len(st) > 1 and _src(st[1]) == 'outputs = []', 'outputs = []')
  lets.append('let outputs := [] in')
  seen_loop = seen_yield = False
  for s in st[2:]:
    if isinstance(s, ast.Delete):
      for t in s.targets:
        _need(isinstance(t, ast.Name) and t.id in ('p_client_output', 'p_step_results'), 'del of the sharded arrays only')
      continue
    if isinstance(s, ast.Expr) and _src(s) == 'outputs.reverse()':
      _need(seen_loop and not seen_yield, 'outputs.reverse() between the two loops')
      lets.append('let outputs := rev outputs in')
      continue
    if isinstance(s, ast.For) and not seen_loop:
      seen_loop = True
      _need(isinstance(s.target, ast.Name) and not s.orelse and isinstance(s.iter, ast.Call) and dotted(s.iter.func) == 'range'
            and 1 <= len(s.iter.args) <= 3 and len(s.body) == 3, 'for i in range(len(block.client_id)): (3 statements)')
      iv = s.target.id
      env0 = {'len_client_id': 'Z', 'len_client_mask': 'Z', 'len_num_batches': 'Z'}
      ra = [ctx.expr(a, env0, 'Z')[0] for a in s.iter.args]
      ra = ['0', ra[0], '1'] if len(ra) == 1 else ra + ['1'] if len(ra) == 2 else ra
      env = dict(env0)
      env[iv] = 'Z'
      sk, sp, ap = s.body
      ok = (isinstance(sk, ast.If) and not sk.orelse and len(sk.body) == 1 and isinstance(sk.body[0], ast.Continue))
      _need(ok, 'if not block.client_mask[i]: continue')
      envm = dict(env)
      envm['client_mask_i'] = 'bool'
      skip = ctx.expr(sk.test, envm, 'bool')[0]
      _need(set(ctx.idx) == {'client_mask'}, 'the skip test reads block.client_mask[...] only')
      out.append('(* if %s: continue *)\nDefinition pmap_skip (client_mask_i : bool) : bool := %s.' % (_src(sk.test), skip))
      ok = (isinstance(sp, ast.Assign) and _src(sp.targets[0]) == '(client_output, step_results)' and
            isinstance(sp.value, ast.Call) and dotted(sp.value.func) == 'jax.tree_util.tree_map' and len(sp.value.args) == 2 and
            isinstance(sp.value.args[0], ast.Lambda) and len(sp.value.args[0].args.args) == 1 and
            isinstance(sp.value.args[0].body, ast.Subscript) and
            _is_name(sp.value.args[0].body.value, sp.value.args[0].args.args[0].arg) and
            not isinstance(sp.value.args[0].body.slice, ast.Slice) and
            _src(sp.value.args[1]) == '(p_client_output, p_step_results)')
      _need(ok, 'client_output, step_results = tree_map(lambda x: x[<e>], (p_client_output, p_step_results))')
      split_ix = ctx.expr(sp.value.args[0].body.slice, env, 'Z')[0]
      ok = (isinstance(ap, ast.Expr) and isinstance(ap.value, ast.Call) and dotted(ap.value.func) == 'outputs.append' and
            len(ap.value.args) == 1 and isinstance(ap.value.args[0], ast.Tuple) and len(ap.value.args[0].elts) == 3 and
            _is_name(ap.value.args[0].elts[1], 'client_output'))
      _need(ok, 'outputs.append((block.client_id[...], client_output, step_results[...]))')
      enva = dict(env)
      enva.update({'client_id_i': 'cid', 'num_batches_i': 'Z'})
      cid, ty = ctx.expr(ap.value.args[0].elts[0], enva)
      _need(ty == 'cid' and cid == 'client_id_i', 'first component is block.client_id[...]')
      sl = ap.value.args[0].elts[2]
      ok = (isinstance(sl, ast.Subscript) and _is_name(sl.value, 'step_results') and isinstance(sl.slice, ast.Slice) and
            sl.slice.step is None and sl.slice.upper is not None)
      _need(ok, 'step_results[lo:hi]')
      envs = dict(env)
      envs['num_batches_i'] = 'Z'
      lo = '0' if sl.slice.lower is None else ctx.expr(sl.slice.lower, envs, 'Z')[0]
      hi = ctx.expr(sl.slice.upper, envs, 'Z')[0]
      _need(set(ctx.idx) == {'client_mask', 'client_id', 'num_batches'}, 'block.client_mask / client_id / num_batches are indexed')
      out.append('(* %s *)\nDefinition pmap_truncate {A : Type} (step_results : list A) (num_batches_i : Z) : list A :=\n'
                 '  py_slice step_results %s %s.' % (_src(sl), lo, hi))
      lets.append(
          '(* for %s in %s: %s; %s; %s *)\n'
          '  let outputs := fold_left (fun outputs (%s : Z) => outputs ++\n'
          '      match nth_error client_mask (Z.to_nat %s), nth_error client_id (Z.to_nat %s),\n'
          '            nth_error p_client_output (Z.to_nat %s), nth_error num_batches (Z.to_nat %s) with\n'
          '      | Some client_mask_i, Some client_id_i, Some client_output, Some num_batches_i =>\n'
          '          if pmap_skip client_mask_i then []\n'
          '          else let step_results := lane_results (Z.to_nat %s) p_step_results in\n'
          '               [(client_id_i, client_output, pmap_truncate step_results num_batches_i)]\n'
          '      | _, _, _, _ => []\n'
          '      end) (py_range %s %s %s) outputs in'
          % (iv, _src(s.iter), _src(sk).replace('\n', ' '), _src(sp), _src(ap), iv, ctx.idx['client_mask'], ctx.idx['client_id'],
             split_ix, ctx.idx['num_batches'], split_ix, ra[0], ra[1], ra[2]))
      continue
    if isinstance(s, ast.For) and seen_loop and not seen_yield:
      seen_yield = True
      ok = (not s.orelse and isinstance(s.iter, ast.Call) and dotted(s.iter.func) == 'range' and len(s.iter.args) == 1 and
            len(s.body) == 3 and _src(s.body[0]) == 'client_id, client_output, step_results = outputs.pop()')
      _need(ok, 'for _ in range(len(outputs)): client_id, client_output, step_results = outputs.pop(); ...')
      n = ctx.expr(s.iter.args[0], {'len_outputs': 'Z'}, 'Z')[0]
      dp = s.body[1]
      ok = (isinstance(dp, ast.Assign) and _src(dp.targets[0]) == '(client_output, step_results)' and
            isinstance(dp.value, ast.Call) and dotted(dp.value.func) == 'jax.tree_util.tree_map' and len(dp.value.args) == 2 and
            _src(dp.value.args[0]) == 'lambda x: jax.device_put(x, devices[0])' and
            _src(dp.value.args[1]) == '(client_output, step_results)')
      _need(ok, 'client_output, step_results = tree_map(lambda x: jax.device_put(x, devices[0]), (client_output, step_results))')
      y = s.body[2]
      ok = (isinstance(y, ast.Expr) and isinstance(y.value, ast.Yield) and isinstance(y.value.value, ast.Tuple) and
            len(y.value.value.elts) == 3 and all(isinstance(e, ast.Name) and e.id in ('client_id', 'client_output', 'step_results')
                                                 for e in y.value.value.elts))
      _need(ok, 'yield (client_id, client_output, step_results)')
      ys = [e.id for e in y.value.value.elts]
      lets.append('(* for _ in %s: %s; device_put; %s *)\n'
                  '  let len_outputs := Z.of_nat (length outputs) in\n'
                  "  map (fun '(client_id, client_output, step_results) => (%s, %s, %s))\n"
                  '      (pop_yield outputs (Z.to_nat %s))' % (_src(s.iter), _src(s.body[0]), _src(y), ys[0], ys[1], ys[2], n))
      continue
    raise Unsupported('pmap run: unexpected statement ' + _src(s)[:80])
  _need(seen_loop and seen_yield, 'the split loop and the pop / yield loop')
  return ('Definition pmap_emit {Id Out R : Type} (client_id : list (option Id)) (client_mask : list bool)\n'
          '    (num_batches : list Z) (p_client_output : list Out) (p_step_results : list (list R))\n'
          '    : list (option Id * Out * list R) :=\n'
          '  let len_client_id := Z.of_nat (length client_id) in\n'
          '  let len_client_mask := Z.of_nat (length client_mask) in\n'
          '  let len_num_batches := Z.of_nat (length num_batches) in\n  ' + '\n  '.join(lets) + '.')


def emit_choice(tree):
  out = []
  cls = find_def(tree, 'BackendChoice')
  bases = [dotted(x) for x in cls.bases]
  out.append('(* class BackendChoice(%s) *)\nDefinition backend_choice_thread_local : bool := %s.'
             % (', '.join(bases), 'true' if bases == ['threading.local'] else 'false'))
  ini = _body(find_def(tree, 'BackendChoice.__init__'))
  _need([_src(s) for s in ini] == ['super().__init__()', 'self.backend = None'], 'BackendChoice.__init__: backend = None')
  g = [_src(s) for s in _body(find_def(tree, 'BackendChoice.get'))]
  ok = g == ['if self.backend is None:\n    self.backend = self.DEFAULT_BACKEND', 'return self.backend']
  out.append('Definition backend_get_installs_default : bool := %s.' % ('true' if ok else 'false'))
  _need(_src(_find_assign(tree.body, '_BACKEND_CHOICE').value) == 'BackendChoice()', '_BACKEND_CHOICE = BackendChoice()')
  _need([_src(s) for s in _body(find_def(tree, 'get_for_each_client_backend'))] == ['return _BACKEND_CHOICE.get()'],
        'get_for_each_client_backend returns _BACKEND_CHOICE.get()')
  # set_for_each_client_backend: every assignment goes to _BACKEND_CHOICE.backend, unsupported names raise
  st = find_def(tree, 'set_for_each_client_backend')
  assigns = [n for n in ast.walk(st) if isinstance(n, ast.Assign)]
  ok = assigns and all(len(a.targets) == 1 and _src(a.targets[0]) == '_BACKEND_CHOICE.backend' for a in assigns)
  ok = ok and any(isinstance(n, ast.Raise) for n in ast.walk(st))
  _need(ok, 'set_for_each_client_backend assigns _BACKEND_CHOICE.backend only, raises otherwise')
  cm = find_def(tree, 'for_each_client_backend')
  _need(any(dotted(d) == 'contextlib.contextmanager' for d in cm.decorator_list), '@contextlib.contextmanager')
  b = _body(cm)
  _need(len(b) == 2 and isinstance(b[0], ast.Assign) and _is_name(b[0].targets[0], 'old') and isinstance(b[1], ast.Try) and
        not b[1].handlers and not b[1].orelse, 'old = ...; try: ... finally: ...')
  out.append('(* %s *)\nDefinition ctx_saves_field : bool := %s.'
             % (_src(b[0]), 'true' if _src(b[0].value) == '_BACKEND_CHOICE.backend' else 'false'))
  tb = [_src(s) for s in b[1].body]
  out.append('Definition ctx_sets_in_try : bool := %s.'
             % ('true' if tb == ['set_for_each_client_backend(backend)', 'yield'] else 'false'))
  fb = [_src(s) for s in b[1].finalbody]
  out.append('(* finally: %s *)\nDefinition ctx_restores_old_in_finally : bool := %s.'
             % ('; '.join(fb), 'true' if fb == ['set_for_each_client_backend(old)'] else 'false'))
  return '\n\n'.join(out)


# ---- accumulator-loop compiler: straight-line code + one `for` whose body is straight-line ------------
#   v = []            v = f(a, b)          a, b = f(x, y)          v.append(x)
#   for t in xs: <straight-line>           return a, b
# `try: <one statement> except Exception as e: raise ForEachClientError(...) from e` counts as its statement.
# Calls go to the function PARAMETERS of the generated definition; `_device_put_sharded(e, devices)` is the
# identity on values; `block.<field>` is the parameter <field>.

def _lx(e, funs):
  if isinstance(e, ast.Name):
    return e.id
  if isinstance(e, ast.Attribute) and _is_name(e.value, 'block'):
    return e.attr
  if isinstance(e, ast.Tuple):
    return '(' + ', '.join(_lx(x, funs) for x in e.elts) + ')'
  if isinstance(e, ast.List) and not e.elts:
    return '[]'
  if isinstance(e, ast.Call) and not e.keywords:
    f = dotted(e.func)
    if f == '_device_put_sharded' and len(e.args) == 2 and _is_name(e.args[1], 'devices'):
      return _lx(e.args[0], funs)
    if f in funs:
      return '(' + f + ' ' + ' '.join(_lx(a, funs) for a in e.args) + ')'
  raise Unsupported('loop compiler: expression ' + _src(e)[:80])


def _pat(t):
  if isinstance(t, ast.Name):
    return t.id
  if isinstance(t, ast.Tuple) and all(isinstance(x, ast.Name) for x in t.elts):
    return "'(" + ', '.join(x.id for x in t.elts) + ')'
  raise Unsupported('loop compiler: target ' + _src(t))


def _unwrap(st):
  if isinstance(st, ast.Try):
    if not (_reraises(st.handlers) and len(st.body) == 1 and not st.orelse and not st.finalbody):
      raise Unsupported('loop compiler: try statement ' + _src(st)[:60])
    return st.body[0]
  return st


def _assigned(stmts):
  out = []
  for st in map(_unwrap, stmts):
    if isinstance(st, ast.Assign):
      t = st.targets[0]
      for x in (t.elts if isinstance(t, ast.Tuple) else [t]):
        if x.id not in out:
          out.append(x.id)
    elif isinstance(st, ast.Expr) and isinstance(st.value, ast.Call) and isinstance(st.value.func, ast.Attribute) and \
        st.value.func.attr == 'append':
      if st.value.func.value.id not in out:
        out.append(st.value.func.value.id)
  return out


def _lines(stmts, funs, defined, tail):
  """Compiles statements to nested lets ending in `tail(defined)`."""
  if not stmts:
    return tail(defined)
  st, rest = _unwrap(stmts[0]), stmts[1:]
  if isinstance(st, ast.Assign) and len(st.targets) == 1:
    names = [x.id for x in (st.targets[0].elts if isinstance(st.targets[0], ast.Tuple) else [st.targets[0]])]
    return 'let %s := %s in\n  %s' % (_pat(st.targets[0]), _lx(st.value, funs), _lines(rest, funs, defined + names, tail))
  if isinstance(st, ast.Expr) and isinstance(st.value, ast.Call) and isinstance(st.value.func, ast.Attribute) and \
      st.value.func.attr == 'append' and isinstance(st.value.func.value, ast.Name) and len(st.value.args) == 1:
    v = st.value.func.value.id
    _need(v in defined, 'append to a defined list')
    return 'let %s := %s ++ [%s] in\n  %s' % (v, v, _lx(st.value.args[0], funs), _lines(rest, funs, defined, tail))
  if isinstance(st, ast.For) and not st.orelse:
    carried = [v for v in _assigned(st.body) if v in defined]
    _need(carried, 'a loop that updates earlier variables')
    acc = carried[0] if len(carried) == 1 else '(' + ', '.join(carried) + ')'
    accp = carried[0] if len(carried) == 1 else "'(" + ', '.join(carried) + ')'
    body = _lines(list(st.body), funs, defined + [x.id for x in ast.walk(st.target) if isinstance(x, ast.Name)],
                  lambda d: acc)
    return ('let %s := fold_left (fun %s %s =>\n      %s) %s %s in\n  %s'
            % (accp, accp, _pat(st.target), body.replace('\n  ', '\n      '), _lx(st.iter, funs), acc,
               _lines(rest, funs, defined, tail)))
  if isinstance(st, ast.Return) and not rest:
    return _lx(st.value, funs)
  raise Unsupported('loop compiler: statement ' + _src(st)[:80])


def emit_gen_loops(tree):
  out = []
  # jit backend: run_client
  jb = _body(find_def(tree, 'ForEachClientJitBackend.__call__'))
  rc = _find_fdef(jb, 'run_client')
  _need([a.arg for a in rc.args.args] == ['shared_input', 'client_batches', 'client_input'], 'run_client(shared_input, client_batches, client_input)')
  funs = ['jit_client_init', 'jit_client_step', 'jit_client_final']
  out.append('(* ForEachClientJitBackend.__call__.run_client, statement by statement *)\n'
             'Definition jit_run_client_gen {Sh Cin S B R Out : Type} (jit_client_init : Sh -> Cin -> S)\n'
             '    (jit_client_step : S -> B -> S * R) (jit_client_final : Sh -> S -> Out)\n'
             '    (shared_input : Sh) (client_batches : list B) (client_input : Cin) : Out * list R :=\n  '
             + _lines(_body(rc), funs, ['shared_input', 'client_batches', 'client_input'], None) + '.')
  # debug backend: the body of the per-client loop (jit disabled; each call wrapped in try / re-raise)
  db = _body(find_def(tree, 'ForEachClientDebugBackend.__call__'))
  run = _body(_find_fdef(db, 'run'))
  loop = None
  if len(run) == 1 and isinstance(run[0], ast.With) and len(run[0].body) == 1 and isinstance(run[0].body[0], ast.For):
    loop = run[0].body[0]
    body, y = list(loop.body[:-1]), loop.body[-1]
  elif len(run) == 1 and isinstance(run[0], ast.For) and len(run[0].body) == 2 and isinstance(run[0].body[0], ast.With):
    loop = run[0]
    body, y = list(loop.body[0].body), loop.body[1]
  _need(loop is not None and _src(loop.target) == '(client_id, client_batches, client_input)' and _src(loop.iter) == 'clients' and
        _src(y) == 'yield (client_id, output, step_results)', 'debug run: for client in clients: ...; yield (client_id, output, step_results)')
  funs = ['client_init', 'client_step', 'client_final']
  out.append('(* ForEachClientDebugBackend.__call__.run: the body of the per-client loop *)\n'
             'Definition debug_run_client_gen {Sh Cin S B R Out : Type} (client_init : Sh -> Cin -> S)\n'
             '    (client_step : S -> B -> S * R) (client_final : Sh -> S -> Out)\n'
             '    (shared_input : Sh) (client_batches : list B) (client_input : Cin) : Out * list R :=\n  '
             + _lines(body, funs, ['shared_input', 'client_batches', 'client_input'], lambda d: '(output, step_results)') + '.')
  # pmap backend: run_block (the p_ functions are the pmapped client functions: maps over the device axis)
  pb = _body(find_def(tree, 'ForEachClientPmapBackend.__call__'))
  rb = _find_fdef(pb, 'run_block')
  _need([a.arg for a in rb.args.args] == ['p_shared_input', 'block'], 'run_block(p_shared_input, block)')
  funs = ['p_client_init', 'p_client_step', 'p_client_final']
  out.append('(* ForEachClientPmapBackend.__call__.run_block, statement by statement *)\n'
             'Definition pmap_run_block_gen {PSh PCin PS PB PM PR POut : Type} (p_client_init : PSh -> PCin -> PS)\n'
             '    (p_client_step : PS -> PB -> PM -> PS * PR) (p_client_final : PSh -> PS -> POut)\n'
             '    (p_shared_input : PSh) (client_input : PCin) (masked_batches : list (PB * PM)) : POut * list PR :=\n  '
             + _lines(_body(rb), funs, ['p_shared_input', 'client_input', 'masked_batches'], None) + '.')
  return '\n\n'.join(out)


def emit_gen_choice(tree):
  """The context manager and BackendChoice.get as state transformers on the thread's field
  (`cur`): GENERATED from the statements, so that an edit changes the thread model."""
  out = []
  g = _body(find_def(tree, 'BackendChoice.get'))
  ok = (len(g) == 2 and isinstance(g[0], ast.If) and not g[0].orelse and _src(g[0].test) == 'self.backend is None' and
        len(g[0].body) == 1 and _src(g[0].body[0]) == 'self.backend = self.DEFAULT_BACKEND' and _src(g[1]) == 'return self.backend')
  _need(ok, 'BackendChoice.get: if self.backend is None: self.backend = self.DEFAULT_BACKEND; return self.backend')
  out.append('(* BackendChoice.get: (new field, returned value) *)\n'
             'Definition choice_get (DEFAULT_BACKEND : Z) (backend : option Z) : option Z * option Z :=\n'
             '  let backend := if (match backend with None => true | Some _ => false end) then Some DEFAULT_BACKEND else backend in\n'
             '  (backend, backend).')
  cm = find_def(tree, 'for_each_client_backend')
  b = _body(cm)

  def stmt(st):
    if isinstance(st, ast.Assign) and _is_name(st.targets[0], 'old') and _src(st.value) == '_BACKEND_CHOICE.backend':
      return 'let old := cur in'
    if isinstance(st, ast.Expr) and isinstance(st.value, ast.Call) and dotted(st.value.func) == 'set_for_each_client_backend' and \
        len(st.value.args) == 1 and not st.value.keywords:
      a = st.value.args[0]
      if _is_name(a, 'backend') or _is_name(a, 'old'):
        return 'let cur := %s in' % a.id
      if _is_const(a, None):
        return 'let cur := None in'
    raise Unsupported('context manager: statement ' + _src(st)[:80])

  def is_yield(st):
    return isinstance(st, ast.Expr) and isinstance(st.value, ast.Yield) and st.value.value is None
  pre, post, on_exc = [], [], None
  seq = list(b)
  if seq and isinstance(seq[-1], ast.Try):
    t = seq.pop()
    _need(not t.handlers and not t.orelse and t.body and is_yield(t.body[-1]), 'try: ...; yield  finally: ...')
    pre = seq + t.body[:-1]
    post, on_exc = t.finalbody, True
  else:
    ys = [i for i, st in enumerate(seq) if is_yield(st)]
    _need(len(ys) == 1, 'exactly one bare yield')
    pre, post, on_exc = seq[:ys[0]], seq[ys[0] + 1:], False
  out.append('(* for_each_client_backend: everything before the yield; (new field, saved old) *)\n'
             'Definition ctx_enter (backend : option Z) (cur : option Z) : option Z * option Z :=\n  '
             + '\n  '.join(stmt(st) for st in pre) + '\n  (cur, old).')
  out.append('(* ... everything after the yield%s *)\n'
             'Definition ctx_exit (old : option Z) (cur : option Z) : option Z :=\n  '
             % (' (in `finally`: also runs when the block raises)' if on_exc else ' (NOT in a finally: skipped when the block raises)')
             + '\n  '.join(stmt(st) for st in post) + ('\n  ' if post else '') + 'cur.')
  out.append('Definition ctx_exit_on_exception : bool := %s.' % ('true' if on_exc else 'false'))
  return '\n\n'.join(out)


def _reraises(handlers):
  """except Exception as e: raise ForEachClientError(...) from e"""
  return (len(handlers) == 1 and len(handlers[0].body) == 1 and isinstance(handlers[0].body[0], ast.Raise) and
          isinstance(handlers[0].body[0].exc, ast.Call) and dotted(handlers[0].body[0].exc.func) == 'ForEachClientError')


def _try_of(stmt, inner_src):
  return (isinstance(stmt, ast.Try) and not stmt.orelse and not stmt.finalbody and len(stmt.body) == 1 and
          _src(stmt.body[0]) == inner_src and _reraises(stmt.handlers))


def emit_loops(tree):
  """The sequential loops of the jit and debug backends and the public wrapper: recognised
  (exact statement shapes), reported as flags the model's accumulator loops rely on."""
  out = []
  # jit: for client in clients: output, step_results = run_client(...); yield client_id, output, step_results
  jb = _body(find_def(tree, 'ForEachClientJitBackend.__call__'))
  run = _body(_find_fdef(jb, 'run'))
  ok = (len(run) == 1 and isinstance(run[0], ast.For) and _src(run[0].target) == '(client_id, client_batches, client_input)' and
        _src(run[0].iter) == 'clients' and
        [_src(x) for x in run[0].body] == ['output, step_results = run_client(shared_input, client_batches, client_input)',
                                           'yield (client_id, output, step_results)'])
  out.append('Definition jit_run_is_sequential_loop : bool := %s.' % ('true' if ok else 'false'))
  # debug: with jax.disable_jit(): the same loop, each client function call wrapped in try / re-raise
  db = _body(find_def(tree, 'ForEachClientDebugBackend.__call__'))
  run = _body(_find_fdef(db, 'run'))
  ok = (len(run) == 1 and isinstance(run[0], ast.With) and len(run[0].items) == 1 and
        _src(run[0].items[0].context_expr) == 'jax.disable_jit()' and len(run[0].body) == 1 and isinstance(run[0].body[0], ast.For))
  if not ok and len(run) == 1 and isinstance(run[0], ast.For) and len(run[0].body) == 2 and \
      isinstance(run[0].body[0], ast.With) and len(run[0].body[0].items) == 1 and \
      _src(run[0].body[0].items[0].context_expr) == 'jax.disable_jit()':
    # the same loop with jit disabled per client and re-enabled BEFORE the yield (no config held across yields)
    loop = ast.For(target=run[0].target, iter=run[0].iter, body=list(run[0].body[0].body) + [run[0].body[1]], orelse=[])
    run = [ast.With(items=run[0].body[0].items, body=[loop])]
    ok = True
  if ok:
    loop = run[0].body[0]
    ok = (_src(loop.target) == '(client_id, client_batches, client_input)' and _src(loop.iter) == 'clients' and len(loop.body) == 5 and
          _src(loop.body[0]) == 'step_results = []' and _try_of(loop.body[1], 'state = client_init(shared_input, client_input)') and
          isinstance(loop.body[2], ast.For) and _is_name(loop.body[2].target, 'batch') and _src(loop.body[2].iter) == 'client_batches' and
          len(loop.body[2].body) == 2 and _try_of(loop.body[2].body[0], 'state, step_result = client_step(state, batch)') and
          _src(loop.body[2].body[1]) == 'step_results.append(step_result)' and
          _try_of(loop.body[3], 'output = client_final(shared_input, state)') and
          _src(loop.body[4]) == 'yield (client_id, output, step_results)')
  out.append('Definition debug_run_is_sequential_loop : bool := %s.' % ('true' if ok else 'false'))
  # for_each_client: binds the backend through get_for_each_client_backend() when it is CALLED; without step
  # results wraps the step as (client_step(...), ()) and drops the third component of every yield
  fb = _body(find_def(tree, 'for_each_client'))
  ok = (len(fb) == 6 and _src(fb[0]) == 'for_each_client_backend_ = get_for_each_client_backend()')
  out.append('Definition api_binds_via_get : bool := %s.' % ('true' if ok else 'false'))
  ok = ok and (isinstance(fb[1], ast.If) and _src(fb[1].test) == 'with_step_result' and not fb[1].orelse and
               [_src(x) for x in fb[1].body] == ['return for_each_client_backend_(client_init, client_step, client_final)'])
  out.append('Definition api_passes_step_results_through : bool := %s.' % ('true' if ok else 'false'))
  ok = ok and (isinstance(fb[2], ast.FunctionDef) and fb[2].name == 'client_step_with_result' and
               [_src(x) for x in _body(fb[2])] == ['return (client_step(client_step_state, batch), ())'] and
               _src(fb[3]) == 'func = for_each_client_backend_(client_init, client_step_with_result, client_final)' and
               isinstance(fb[4], ast.FunctionDef) and fb[4].name == 'run' and len(_body(fb[4])) == 1 and
               isinstance(_body(fb[4])[0], ast.For) and _src(_body(fb[4])[0].target) == '(client_id, client_output, _)' and
               _src(_body(fb[4])[0].iter) == 'func(shared_input, clients)' and
               [_src(x) for x in _body(fb[4])[0].body] == ['yield (client_id, client_output)'] and _src(fb[5]) == 'return run')
  out.append('Definition api_drops_unit_step_results : bool := %s.' % ('true' if ok else 'false'))
  # pmap: caller arrays reach the pmapped (donating) functions only as np.stack copies
  ds = _body(find_def(tree, '_device_put_sharded'))
  ok = (len(ds) == 3 and isinstance(ds[2], ast.Return) and
        _src(ds[2].value) == ('jax.tree_util.tree_map(lambda *xs: jax.device_put(np.stack([np.asarray(x) for x in xs]), '
                              'sharding), *shards)'))
  dr = _body(find_def(tree, '_device_put_replicated'))
  ok = ok and [_src(x) for x in dr] == ['return _device_put_sharded([x] * len(devices), devices)']
  out.append('Definition pmap_inputs_are_stacked_copies : bool := %s.' % ('true' if ok else 'false'))
  # no source of run-to-run / process-to-process nondeterminism anywhere in the module
  bad = []
  for node in ast.walk(tree):
    if isinstance(node, ast.Call):
      try:
        f = dotted(node.func)
      except Unsupported:
        continue
      if f in ('hash', 'id', 'set', 'frozenset') or f.split('.')[0] in ('time', 'uuid', 'random', 'secrets') or \
          f.startswith(('np.random', 'numpy.random', 'os.environ', 'os.getenv', 'os.urandom')):
        bad.append(f)
    elif isinstance(node, ast.Attribute) and _src(node) == 'os.environ':
      bad.append('os.environ')
  out.append('(* calls to hash / id / set / time / uuid / random / os.environ in the module: %s *)\n'
             'Definition module_has_no_nondeterminism_source : bool := %s.' % (sorted(set(bad)) or 'none', 'false' if bad else 'true'))
  return '\n\n'.join(out)


MODULES = {
    'Gen_for_each_client': {
        'src': SRC,
        'preamble': 'From FV Require Import Common.C02Lib.\n',
        'items': [emit_blockify, emit_jit, emit_pmap, emit_choice, emit_loops, emit_gen_loops, emit_gen_choice],
    },
}
