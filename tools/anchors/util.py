"""Translator anchors for fedjax/core/util.py: safe_div (C05, C06)."""
from lib.qfun import A_qfun

MODULES = {
    'Gen_util': {
        'src': 'fedjax/core/util.py',
        'preamble': 'From Coq Require Import QArith.\nFrom FV Require Import Common.CMonoid Common.NanQ.\n',
        'items': [
            A_qfun('safe_div', 'safe_div', ['a', 'b'], [('a', 'Q'), ('b', 'Q')], 'Q'),
        ],
    },
}
