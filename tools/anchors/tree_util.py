"""Translator anchors for fedjax/core/tree_util.py (C07; the inverse-weight guard is
also what C01 / C12 / C17 rely on).  Uses the `qfun` kind of tools/lib/qfun.py: every
function becomes a Gallina definition over NanQ.t, a pytree being its flattened
coordinate list.  `tree_l2_norm` is NOT translated (sqrt): the clip function takes it
as the section variable `l2norm`."""
from translate import find_def
from lib.qfun import A_qfun, A_qfold, A_jit_alias, A_donates_none
from lib.pat import match_def


def emit_l2(tree):
  """tree_l2_squared = sum over leaves of vdot(x, x) = sum of squares of all coordinates;
  tree_l2_norm = sqrt of it (sqrt is not modelled: the norm enters the clip model as a number n
  with 0 <= n and n * n = tree_l2_squared)."""
  h = match_def(find_def(tree, 'tree_l2_squared'), '''
@jax.jit
def tree_l2_squared(H_t):
  return sum(jnp.vdot(H_x, H_x) for H_x in jax.tree_util.tree_leaves(H_t))
''', 'tree_l2_squared')
  match_def(find_def(tree, 'tree_l2_norm'), '''
@jax.jit
def tree_l2_norm(H_t):
  return jnp.sqrt(tree_l2_squared(H_t))
''', 'tree_l2_norm')
  return (f'Definition tree_l2_squared ({h["t"]} : list NanQ.t) : NanQ.t :=\n'
          f'  NanQ.sum (map (fun {h["x"]} => NanQ.mul {h["x"]} {h["x"]}) {h["t"]}).\n'
          f'(* tree_l2_norm = jnp.sqrt(tree_l2_squared(.)) (checked) *)\n'
          f'Definition is_l2_norm (n : Q) ({h["t"]} : list NanQ.t) : Prop :=\n'
          f'  (0 <= n)%Q /\\ NanQ.eq (tree_l2_squared {h["t"]}) (Some (n * n)%Q).')

TU = 'fedjax/core/tree_util.py'

CALLS = {
    'tree_weight': ('tree_weight {0} {1}', ['tree', 'Q'], 'tree'),
    '_tree_weight_eq': ('tree_weight_eq {0} {1}', ['tree', 'Q'], 'tree'),
    '_tree_add_eq': ('tree_add_eq {0} {1}', ['tree', 'tree'], 'tree'),
    '_tree_inverse_weight_eq': ('tree_inverse_weight_eq {0} {1}', ['tree', 'Q'], 'tree'),
    'tree_l2_norm': ('l2norm {0}', ['tree'], 'Q'),
}

MODULES = {
    'Gen_tree_util': {
        'src': TU,
        'preamble': ('From Coq Require Import QArith.\n'
                     'From FV Require Import Common.CMonoid Common.NanQ.\n'
                     '(* jax.tree_util.tree_map(jnp.array, t): a fresh copy with the same values *)\n'
                     'Definition copy_tree (t : list NanQ.t) : list NanQ.t := t.\n'),
        'items': [
            A_qfun('tree_weight', 'tree_weight', ['pytree', 'weight'], [('pytree', 'tree'), ('weight', 'Q')], 'tree'),
            A_donates_none('tree_weight', 'tree_weight'),
            A_qfun('tree_inverse_weight', 'tree_inverse_weight', ['pytree', 'weight'],
                   [('pytree', 'tree'), ('weight', 'Q')], 'tree', calls=CALLS),
            A_qfun('tree_zeros_like', 'tree_zeros_like', ['pytree'], [('pytree', 'tree')], 'tree'),
            A_qfun('tree_add', 'tree_add', ['left', 'right'], [('left', 'tree'), ('right', 'tree')], 'tree'),
            A_donates_none('tree_add', 'tree_add'),
            A_jit_alias('_tree_add_eq', 'tree_add_eq', 'tree_add', 'tree_add'),
            A_jit_alias('_tree_weight_eq', 'tree_weight_eq', 'tree_weight', 'tree_weight'),
            A_qfun('_tree_inverse_weight_eq', 'tree_inverse_weight_eq', ['pytree', 'weight'],
                   [('pytree', 'tree'), ('weight', 'Q')], 'tree', calls=CALLS),
            A_qfold('tree_sum', 'tree_sum', 'pytrees', 'trees', [('pytree', 'tree')], 'otree', calls=CALLS),
            A_qfold('tree_mean', 'tree_mean', 'pytrees_and_weights', 'cl',
                    [('pytree', 'tree'), ('weight', 'Q')], 'otree', calls=CALLS),
            emit_l2,
            lambda tree: 'Section clip.\nVariable l2norm : list NanQ.t -> NanQ.t.',
            A_qfun('tree_clip_by_global_norm', 'tree_clip_by_global_norm', ['pytree', 'max_norm'],
                   [('pytree', 'tree'), ('max_norm', 'Q')], 'tree', calls=CALLS),
            A_donates_none('tree_clip_by_global_norm', 'tree_clip_by_global_norm'),
            lambda tree: 'End clip.',
        ],
    },
}
