"""Translator anchors for fedjax/core/tree_util.py (C07; the inverse-weight guard is
also what C01 / C12 / C17 rely on).  Uses the `qfun` kind of tools/lib/qfun.py: every
function becomes a Gallina definition over NanQ.t, a pytree being its flattened
coordinate list.  `tree_l2_norm` is NOT translated (sqrt): the clip function takes it
as the section variable `l2norm`."""
from lib.qfun import A_qfun, A_qfold, A_jit_alias, A_donates_none

TU = 'fedjax/core/tree_util.py'

CALLS = {
    'tree_weight': ('tree_weight {0} {1}', ['tree', 'Q'], 'tree'),
    '_tree_weight_eq': ('tree_weight_eq {0} {1}', ['tree', 'Q'], 'tree'),
    '_tree_add_eq': ('tree_add_eq {0} {1}', ['tree', 'tree'], 'tree'),
    '_tree_inverse_weight_eq': ('tree_inverse_weight_eq {0} {1}', ['tree', 'Q'], 'tree'),
    'tree_l2_norm': ('l2norm {0}', ['tree'], 'Q'),
}

MODULES = {
    'Gen_tree_util': {
        'src': TU,
        'preamble': ('From Coq Require Import QArith.\n'
                     'From FV Require Import Common.CMonoid Common.NanQ.\n'
                     '(* jax.tree_util.tree_map(jnp.array, t): a fresh copy with the same values *)\n'
                     'Definition copy_tree (t : list NanQ.t) : list NanQ.t := t.\n'),
        'items': [
            A_qfun('tree_weight', 'tree_weight', ['pytree', 'weight'], [('pytree', 'tree'), ('weight', 'Q')], 'tree'),
            A_donates_none('tree_weight', 'tree_weight'),
            A_qfun('tree_inverse_weight', 'tree_inverse_weight', ['pytree', 'weight'],
                   [('pytree', 'tree'), ('weight', 'Q')], 'tree', calls=CALLS),
            A_qfun('tree_zeros_like', 'tree_zeros_like', ['pytree'], [('pytree', 'tree')], 'tree'),
            A_qfun('tree_add', 'tree_add', ['left', 'right'], [('left', 'tree'), ('right', 'tree')], 'tree'),
            A_donates_none('tree_add', 'tree_add'),
            A_jit_alias('_tree_add_eq', 'tree_add_eq', 'tree_add', 'tree_add'),
            A_jit_alias('_tree_weight_eq', 'tree_weight_eq', 'tree_weight', 'tree_weight'),
            A_qfun('_tree_inverse_weight_eq', 'tree_inverse_weight_eq', ['pytree', 'weight'],
                   [('pytree', 'tree'), ('weight', 'Q')], 'tree', calls=CALLS),
            A_qfold('tree_sum', 'tree_sum', 'pytrees', 'trees', [('pytree', 'tree')], 'otree', calls=CALLS),
            A_qfold('tree_mean', 'tree_mean', 'pytrees_and_weights', 'cl',
                    [('pytree', 'tree'), ('weight', 'Q')], 'otree', calls=CALLS),
            lambda tree: 'Section clip.\nVariable l2norm : list NanQ.t -> NanQ.t.',
            A_qfun('tree_clip_by_global_norm', 'tree_clip_by_global_norm', ['pytree', 'max_norm'],
                   [('pytree', 'tree'), ('max_norm', 'Q')], 'tree', calls=CALLS),
            A_donates_none('tree_clip_by_global_norm', 'tree_clip_by_global_norm'),
            lambda tree: 'End clip.',
        ],
    },
}
