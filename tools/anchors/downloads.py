"""Translator anchors for fedjax/datasets/downloads.py (C19): the block-count
arithmetic of maybe_download, the transfer block size, and the temporary-name
suffixes / extension test of maybe_download and maybe_lzma_decompress.
Fail-closed.  The order of the file-system effects is tied by tools/harness/c19.py."""
import ast

from translate import Ctx, Unsupported, dotted, find_def

SRC = 'fedjax/datasets/downloads.py'


def _strlit(s):
  return '[' + '; '.join(str(b) for b in s.encode()) + ']'


def _is_name(e, n):
  return isinstance(e, ast.Name) and e.id == n


def _plus_literal(e, name):
  """`name + '<literal>'` -> the literal."""
  if isinstance(e, ast.BinOp) and isinstance(e.op, ast.Add) and _is_name(e.left, name) and \
      isinstance(e.right, ast.Constant) and isinstance(e.right.value, str):
    return e.right.value
  raise Unsupported(f"expected {name} + '<literal>', found {ast.dump(e)[:100]}")


def _find_with_open(stmts, var):
  """The `with open(<expr>, 'wb') as <var>` statement among stmts (searched recursively in with-bodies)."""
  for s in stmts:
    if isinstance(s, ast.With):
      for it in s.items:
        c = it.context_expr
        if isinstance(c, ast.Call) and _is_name(c.func, 'open') and it.optional_vars is not None and \
            _is_name(it.optional_vars, var):
          if not (len(c.args) == 2 and isinstance(c.args[1], ast.Constant) and c.args[1].value == 'wb'):
            raise Unsupported(f"open(..., 'wb') expected for {var}")
          return s, c.args[0]
      r = _find_with_open(s.body, var)
      if r:
        return r
  return None


def _rename_after(stmts, with_stmt):
  """The os.rename(a, b) that follows (at the same nesting level as the outermost with)."""
  for i, s in enumerate(stmts):
    if s is with_stmt or (isinstance(s, ast.With) and any(n is with_stmt for n in ast.walk(s))):
      rest = stmts[i + 1:]
      if len(rest) == 1 and isinstance(rest[0], ast.Expr) and isinstance(rest[0].value, ast.Call) and \
          dotted(rest[0].value.func) == 'os.rename' and len(rest[0].value.args) == 2:
        return rest[0].value.args
      raise Unsupported('exactly one os.rename(a, b) expected right after the with block')
  raise Unsupported('with block not found')


def _exists_branch(fd, name):
  """`if os.path.exists(<name>): ... else: <body>` -> body."""
  iff = [s for s in fd.body if isinstance(s, ast.If) and isinstance(s.test, ast.Call) and
         dotted(s.test.func) == 'os.path.exists' and len(s.test.args) == 1 and _is_name(s.test.args[0], name)]
  if len(iff) != 1 or not iff[0].orelse:
    raise Unsupported(f'if os.path.exists({name}): ... else: ... expected')
  for n in ast.walk(ast.Module(body=iff[0].body, type_ignores=[])):
    if isinstance(n, ast.Call) and not (isinstance(n.func, ast.Name) and n.func.id == 'log'):
      raise Unsupported('the cached branch must only log')
  return iff[0].orelse


def emit_download(tree):
  fd = find_def(tree, 'maybe_download')
  body = _exists_branch(fd, 'path')
  w, target = _find_with_open(body, 'fo') or (None, None)
  if w is None:
    raise Unsupported("with open(path + <suffix>, 'wb') as fo expected")
  suffix = _plus_literal(target, 'path')
  a, b = _rename_after(body, w)
  if _plus_literal(a, 'path') != suffix or not _is_name(b, 'path'):
    raise Unsupported('os.rename(path + <same suffix>, path) expected')
  # block_size = <int expr>; for _ in progress_(<count expr>): fo.write(r.raw.read(block_size))
  bs = [s for s in w.body if isinstance(s, ast.Assign) and _is_name(s.targets[0], 'block_size')]
  if len(bs) != 1:
    raise Unsupported('block_size = ... expected once inside the with block')
  v = bs[0].value
  if isinstance(v, ast.BinOp) and isinstance(v.op, ast.LShift) and isinstance(v.left, ast.Constant) and \
      isinstance(v.right, ast.Constant) and isinstance(v.left.value, int) and isinstance(v.right.value, int):
    bsz = f'(Z.shiftl {v.left.value} {v.right.value})'
  else:
    bsz = Ctx().expr(v, {}, 'Z')[0]
  ln = [s for s in w.body if isinstance(s, ast.Assign) and _is_name(s.targets[0], 'length')]
  if not (len(ln) == 1 and isinstance(ln[0].value, ast.Call) and _is_name(ln[0].value.func, 'int') and
          isinstance(ln[0].value.args[0], ast.Subscript) and dotted(ln[0].value.args[0].value) == 'r.headers' and
          isinstance(ln[0].value.args[0].slice, ast.Constant) and ln[0].value.args[0].slice.value == 'content-length'):
    raise Unsupported("length = int(r.headers['content-length']) expected")
  loops = [s for s in w.body if isinstance(s, ast.For)]
  if len(loops) != 1 or loops[0].orelse:
    raise Unsupported('exactly one for loop expected inside the with block')
  lp = loops[0]
  if not (isinstance(lp.iter, ast.Call) and _is_name(lp.iter.func, 'progress_') and len(lp.iter.args) == 1):
    raise Unsupported('for _ in progress_(<count>) expected')
  cnt = Ctx().expr(lp.iter.args[0], {'length': 'Z', 'block_size': 'Z'}, 'Z')[0]
  st = lp.body[0] if len(lp.body) == 1 else None
  ok = (isinstance(st, ast.Expr) and isinstance(st.value, ast.Call) and dotted(st.value.func) == 'fo.write' and
        len(st.value.args) == 1 and isinstance(st.value.args[0], ast.Call) and
        dotted(st.value.args[0].func) == 'r.raw.read' and len(st.value.args[0].args) == 1 and
        _is_name(st.value.args[0].args[0], 'block_size'))
  if not ok:
    raise Unsupported('loop body fo.write(r.raw.read(block_size)) expected')
  return '\n'.join([
      f'Definition download_partial_suffix : str := {_strlit(suffix)}.',
      f'Definition download_block_size : Z := {bsz}.',
      '(* number of r.raw.read(block_size) calls *)',
      f'Definition download_num_blocks (length block_size : Z) : Z := {cnt}.',
  ])


def emit_decompress(tree):
  fd = find_def(tree, 'maybe_lzma_decompress')
  # decompressed_path, ext = os.path.splitext(path); if ext != '.lzma': raise
  sp = [s for s in fd.body if isinstance(s, ast.Assign) and isinstance(s.targets[0], ast.Tuple)]
  if not (len(sp) == 1 and [dotted(x) for x in sp[0].targets[0].elts] == ['decompressed_path', 'ext'] and
          isinstance(sp[0].value, ast.Call) and dotted(sp[0].value.func) == 'os.path.splitext' and
          _is_name(sp[0].value.args[0], 'path')):
    raise Unsupported('decompressed_path, ext = os.path.splitext(path) expected')
  chk = [s for s in fd.body if isinstance(s, ast.If) and isinstance(s.test, ast.Compare) and _is_name(s.test.left, 'ext')]
  if not (len(chk) == 1 and isinstance(chk[0].test.ops[0], ast.NotEq) and isinstance(chk[0].test.comparators[0], ast.Constant)
          and isinstance(chk[0].body[0], ast.Raise)):
    raise Unsupported("if ext != '<ext>': raise expected")
  ext = chk[0].test.comparators[0].value
  body = _exists_branch(fd, 'decompressed_path')
  w, target = _find_with_open(body, 'fo') or (None, None)
  if w is None:
    raise Unsupported("with open(decompressed_path + <suffix>, 'wb') as fo expected")
  suffix = _plus_literal(target, 'decompressed_path')
  a, b = _rename_after(body, w)
  if _plus_literal(a, 'decompressed_path') != suffix or not _is_name(b, 'decompressed_path'):
    raise Unsupported('os.rename(decompressed_path + <same suffix>, decompressed_path) expected')
  return '\n'.join([
      f'Definition decompress_ext : str := {_strlit(ext)}.',
      f'Definition decompress_partial_suffix : str := {_strlit(suffix)}.',
  ])


# ---- determinism recogniser (wave 5, item 4): nothing in this code may depend on the process (hash seed, object
# identity, clock, environment, pid, unseeded random numbers); fail-closed

def _forbid_process_dependence(tree, time_ok_in=()):
  """Raises Unsupported on hash(), id(), uuid, random, np.random, os.environ, os.getpid anywhere, and on any use of
  `time` outside the functions listed in time_ok_in."""
  def scan(node, fn):
    for ch in ast.iter_child_nodes(node):
      f = ch.name if isinstance(ch, ast.FunctionDef) else fn
      if isinstance(ch, ast.Call) and isinstance(ch.func, ast.Name) and ch.func.id in ('hash', 'id'):
        raise Unsupported(f'{ch.func.id}() in {fn or "module"}: depends on the process')
      if isinstance(ch, ast.Attribute):
        try:
          d = dotted(ch)
        except Unsupported:
          d = ''
        if d.startswith(('uuid.', 'random.', 'np.random.', 'numpy.random.', 'os.environ', 'os.getpid', 'secrets.')):
          raise Unsupported(f'{d} in {fn or "module"}: depends on the process')
        if d.startswith('time.') and fn not in time_ok_in:
          raise Unsupported(f'{d} in {fn or "module"}')
      scan(ch, f)
  scan(tree, None)


def emit_deterministic(tree):
  # the clock is used for the progress display only
  _forbid_process_dependence(tree, time_ok_in=('progress',))
  return 'Definition downloads_code_is_process_independent : bool := true.'


MODULES = {
    'Gen_downloads': {
        'src': SRC,
        'preamble': 'From FV Require Import Common.PyStr.\n',
        'items': [emit_download, emit_decompress, emit_deterministic],
    },
}
