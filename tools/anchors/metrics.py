"""Translator anchors for fedjax/core/metrics.py: the Stat algebra (C05).
MeanStat is the pair (accum, weight) over NanQ.t, SumStat a single NanQ.t; `reduce`
takes the 1-d arrays of a batch of rank-0 statistics as coordinate lists."""
import ast
from translate import Unsupported, find_def
from lib.qfun import A_qfun
from lib.pat import match_def

ME = 'fedjax/core/metrics.py'

CALLS = {
    'util.safe_div': ('safe_div {0} {1}', ['Q', 'Q'], 'Q'),
    'MeanStat.new': ('meanstat_new {0} {1}', ['Q', 'Q'], 'pairQ'),
    'SumStat.new': ('sumstat_new {0}', ['Q'], 'Q'),
}


def A_reduce_default_axis(qual):
  """reduce(self, axis=0): the default axis is the leading (batch) axis."""
  def emit(tree):
    fd = find_def(tree, qual)
    d = fd.args.defaults
    if len(d) != 1 or not (isinstance(d[0], ast.Constant) and d[0].value == 0 and not isinstance(d[0].value, bool)):
      raise Unsupported(f'{qual}: default axis is not 0')
    return f'(* {qual}: default axis = 0 (checked) *)'
  return emit


MEAN_CLASSES = ['Accuracy', 'TopKAccuracy', 'SequenceTokenCrossEntropyLoss', 'SequenceCrossEntropyLoss',
                'SequenceTokenAccuracy', 'SequenceTokenTopKAccuracy', 'SequenceTruncationRate', 'SequenceTokenOOVRate',
                'SequenceLength']
SUM_CLASSES = ['SequenceCount']


def emit_higher_rank_zeros(tree):
  """ConfusionMatrix.zero: SumStat.new(zeros((n, n))): every entry is SumStat.new(0).
  PerDomainMetric.zero: the base zero broadcast to (num_domains,) + shape: every entry is the base's zero entry."""
  match_def(find_def(tree, 'ConfusionMatrix.zero'), '''
def zero(self):
  return SumStat.new(jnp.zeros((self.num_classes, self.num_classes)))
''', 'ConfusionMatrix.zero')
  match_def(find_def(tree, 'PerDomainMetric.zero'), '''
def zero(self):
  def broadcast_to(H_x):
    return jnp.broadcast_to(H_x, (self.num_domains,) + H_x.shape)
  return jax.tree_util.tree_map(broadcast_to, self.base.zero())
''', 'PerDomainMetric.zero')
  return ('Definition zero_ConfusionMatrix_entry : NanQ.t := (sumstat_new (NanQ.of_Q (0 # 1)%Q)).\n'
          '(* PerDomainMetric.zero: broadcast of the base zero() (checked) *)')


def emit_per_domain(tree):
  """PerDomainMetric.evaluate_example: the base statistic is expanded by a leading axis and selected against the
  base zero() by the one-hot (boolean) mask of the example's domain id: domain d holds the base statistic when
  d == domain id and the base zero otherwise.  (The domain id is cast to int32 first: an identity on the model's
  natural-number ids; with a narrow dtype such as uint8 the comparison against arange(num_domains) would wrap.)"""
  h = match_def(find_def(tree, 'PerDomainMetric.evaluate_example'), '''
def evaluate_example(self, H_example, H_prediction):
  H_mask = jax.nn.one_hot(jnp.asarray(H_example[self.domain_id_key], jnp.int32), self.num_domains, dtype=jnp.bool_)
  def where(H_a, H_b):
    return apply_mask(H_mask, jnp.expand_dims(H_a, 0), jnp.expand_dims(H_b, 0))
  return jax.tree_util.tree_map(where, self.base.evaluate_example(H_example, H_prediction), self.base.zero())
''', 'PerDomainMetric.evaluate_example')
  mk = h['mask']
  return ('(* jax.nn.one_hot(i, n, dtype=bool) *)\n'
          'Definition one_hot_bool (i n : nat) : list bool := map (fun d => Nat.eqb d i) (seq 0 n).\n'
          '(* expand_dims(a, 0) broadcast along the mask = num_domains copies of a *)\n'
          f'Definition per_domain_example {{B : Type}} (num_domains domain_id : nat) (base_stat base_zero : B) : list B :=\n'
          f'  let {mk} := one_hot_bool domain_id num_domains in\n'
          f'  (fun {h["a"]} {h["b"]} => apply_mask {mk} (repeat {h["a"]} num_domains) {h["b"]}) base_stat base_zero.')


def emit_apply_mask(tree):
  """apply_mask(mask, a, b): jnp.where with the mask expanded to the rank of the operands, i.e. a
  selection on the LEADING dimension: row i of the result is row i of `a` where mask[i], else `b`
  (broadcast).  Reading: a = list of rows, b = one row.  Lazy (where), so an unselected row is irrelevant."""
  h = match_def(find_def(tree, 'apply_mask'), '''
def apply_mask(H_mask, H_a, H_b):
  H_rank = max(len(H_a.shape), len(H_b.shape))
  return jnp.where(jnp.expand_dims(H_mask, tuple(range(1, H_rank))), H_a, H_b)
''', 'apply_mask')
  return (f'Definition apply_mask {{B : Type}} ({h["mask"]} : list bool) ({h["a"]} : list B) ({h["b"]} : B) : list B :=\n'
          f'  map2 (fun (m : bool) x => if m then x else {h["b"]}) {h["mask"]} {h["a"]}.')


def emit_evaluate_batch(tree):
  """evaluate_batch: the per-row statistics are vmap(metric.evaluate_example) (handed to the Gallina
  definition as `batch_stat`); with a mask every Stat field goes through apply_mask against
  metric.zero(); the result is the reduce() of the rows.  `metric_zero` / `stat_reduce` are section
  variables (the rank-K zero() and the reduce over the batch axis)."""
  h = match_def(find_def(tree, 'evaluate_batch'), '''
@functools.partial(jax.jit, static_argnums=0)
def evaluate_batch(H_metric, H_ex, H_pred, H_mask=None):
  H_stat = jax.vmap(H_metric.evaluate_example)(H_ex, H_pred)
  if H_mask is not None:
    H_stat = jax.tree_util.tree_map(functools.partial(apply_mask, H_mask), H_stat, H_metric.zero())
  return H_stat.reduce()
''', 'evaluate_batch')
  st, mk = h['stat'], h['mask']
  return (f'Definition evaluate_batch ({st} : list (list A)) ({mk} : option (list bool)) : list A :=\n'
          f'  let {st} := match {mk} with Some {mk} => apply_mask {mk} {st} metric_zero | None => {st} end in\n'
          f'  stat_reduce {st}.')


MODULES = {
    'Gen_metrics': {
        'src': ME,
        'preamble': ('From Coq Require Import QArith.\n'
                     'From FV Require Import Common.CMonoid Common.NanQ gen.Gen_util.\n'),
        'items': [
            A_qfun('MeanStat.new', 'meanstat_new', ['cls', 'accum', 'weight'], [('accum', 'Q'), ('weight', 'Q')], 'pairQ'),
            A_qfun('MeanStat.result', 'meanstat_result', ['self'], [('accum', 'Q'), ('weight', 'Q')], 'Q',
                   names={'self.accum': 'accum', 'self.weight': 'weight'}, calls=CALLS),
            A_qfun('MeanStat.merge', 'meanstat_merge', ['self', 'other'],
                   [('accum1', 'Q'), ('weight1', 'Q'), ('accum2', 'Q'), ('weight2', 'Q')], 'pairQ',
                   names={'self.accum': 'accum1', 'self.weight': 'weight1', 'other.accum': 'accum2',
                          'other.weight': 'weight2'}, calls=CALLS),
            A_reduce_default_axis('MeanStat.reduce'),
            A_qfun('MeanStat.reduce', 'meanstat_reduce', ['self', 'axis'], [('accums', 'tree'), ('weights', 'tree')], 'pairQ',
                   names={'self.accum': 'accums', 'self.weight': 'weights'}, calls=CALLS),
            A_qfun('SumStat.new', 'sumstat_new', ['cls', 'accum'], [('accum', 'Q')], 'Q'),
            A_qfun('SumStat.result', 'sumstat_result', ['self'], [('accum', 'Q')], 'Q', names={'self.accum': 'accum'}),
            A_qfun('SumStat.merge', 'sumstat_merge', ['self', 'other'], [('accum1', 'Q'), ('accum2', 'Q')], 'Q',
                   names={'self.accum': 'accum1', 'other.accum': 'accum2'}, calls=CALLS),
            A_reduce_default_axis('SumStat.reduce'),
            A_qfun('SumStat.reduce', 'sumstat_reduce', ['self', 'axis'], [('accums', 'tree')], 'Q',
                   names={'self.accum': 'accums'}, calls=CALLS),
            # zero() of the MeanStat-valued and SumStat-valued built-in metrics
            A_qfun('CrossEntropyLoss.zero', 'mean_metric_zero', ['self'], [], 'pairQ', calls=CALLS),
            A_qfun('SequenceTokenCount.zero', 'sum_metric_zero', ['self'], [], 'Q', calls=CALLS),
            # zero() of every other built-in metric class (Proofs/C05_Proofs.v: all equal to the two above)
            *[A_qfun(f'{c}.zero', f'zero_{c}', ['self'], [], 'pairQ', calls=CALLS) for c in MEAN_CLASSES],
            *[A_qfun(f'{c}.zero', f'zero_{c}', ['self'], [], 'Q', calls=CALLS) for c in SUM_CLASSES],
            emit_higher_rank_zeros,
            emit_apply_mask,
            emit_per_domain,
            lambda tree: ('Section batch_eval.\nContext {A : Type} (metric_zero : list A) '
                          '(stat_reduce : list (list A) -> list A).'),
            emit_evaluate_batch,
            lambda tree: 'End batch_eval.',
        ],
    },
}
