"""Translator anchors for fedjax/core/metrics.py: the Stat algebra (C05).
MeanStat is the pair (accum, weight) over NanQ.t, SumStat a single NanQ.t; `reduce`
takes the 1-d arrays of a batch of rank-0 statistics as coordinate lists."""
import ast
from translate import Unsupported, find_def
from lib.qfun import A_qfun

ME = 'fedjax/core/metrics.py'

CALLS = {
    'util.safe_div': ('safe_div {0} {1}', ['Q', 'Q'], 'Q'),
    'MeanStat.new': ('meanstat_new {0} {1}', ['Q', 'Q'], 'pairQ'),
    'SumStat.new': ('sumstat_new {0}', ['Q'], 'Q'),
}


def A_reduce_default_axis(qual):
  """reduce(self, axis=0): the default axis is the leading (batch) axis."""
  def emit(tree):
    fd = find_def(tree, qual)
    d = fd.args.defaults
    if len(d) != 1 or not (isinstance(d[0], ast.Constant) and d[0].value == 0 and not isinstance(d[0].value, bool)):
      raise Unsupported(f'{qual}: default axis is not 0')
    return f'(* {qual}: default axis = 0 (checked) *)'
  return emit


MODULES = {
    'Gen_metrics': {
        'src': ME,
        'preamble': ('From Coq Require Import QArith.\n'
                     'From FV Require Import Common.CMonoid Common.NanQ gen.Gen_util.\n'),
        'items': [
            A_qfun('MeanStat.new', 'meanstat_new', ['cls', 'accum', 'weight'], [('accum', 'Q'), ('weight', 'Q')], 'pairQ'),
            A_qfun('MeanStat.result', 'meanstat_result', ['self'], [('accum', 'Q'), ('weight', 'Q')], 'Q',
                   names={'self.accum': 'accum', 'self.weight': 'weight'}, calls=CALLS),
            A_qfun('MeanStat.merge', 'meanstat_merge', ['self', 'other'],
                   [('accum1', 'Q'), ('weight1', 'Q'), ('accum2', 'Q'), ('weight2', 'Q')], 'pairQ',
                   names={'self.accum': 'accum1', 'self.weight': 'weight1', 'other.accum': 'accum2',
                          'other.weight': 'weight2'}, calls=CALLS),
            A_reduce_default_axis('MeanStat.reduce'),
            A_qfun('MeanStat.reduce', 'meanstat_reduce', ['self', 'axis'], [('accums', 'tree'), ('weights', 'tree')], 'pairQ',
                   names={'self.accum': 'accums', 'self.weight': 'weights'}, calls=CALLS),
            A_qfun('SumStat.new', 'sumstat_new', ['cls', 'accum'], [('accum', 'Q')], 'Q'),
            A_qfun('SumStat.result', 'sumstat_result', ['self'], [('accum', 'Q')], 'Q', names={'self.accum': 'accum'}),
            A_qfun('SumStat.merge', 'sumstat_merge', ['self', 'other'], [('accum1', 'Q'), ('accum2', 'Q')], 'Q',
                   names={'self.accum': 'accum1', 'other.accum': 'accum2'}, calls=CALLS),
            A_reduce_default_axis('SumStat.reduce'),
            A_qfun('SumStat.reduce', 'sumstat_reduce', ['self', 'axis'], [('accums', 'tree')], 'Q',
                   names={'self.accum': 'accums'}, calls=CALLS),
            # zero() of the MeanStat-valued and SumStat-valued built-in metrics
            A_qfun('CrossEntropyLoss.zero', 'mean_metric_zero', ['self'], [], 'pairQ', calls=CALLS),
            A_qfun('SequenceTokenCount.zero', 'sum_metric_zero', ['self'], [], 'Q', calls=CALLS),
        ],
    },
}
