"""Translator anchors for fedjax/models/stackoverflow.py (C20)."""
from lib.c20tr import A_localconsts, A_default, A_metric_ids, A_train_loss

SRC = 'fedjax/models/stackoverflow.py'
SPEC = [('pad', 'so_pad'), ('bos', 'so_bos'), ('eos', 'so_eos'), ('oov', 'so_oov'), ('full_vocab_size', 'so_full_vocab_size')]

MODULES = {
    'Gen_md_stackoverflow': {
        'src': SRC,
        'items': [
            A_default('create_lstm_model', 'vocab_size', 'so_default_vocab_size'),
            A_localconsts('create_lstm_model', SPEC, ['vocab_size']),
            A_metric_ids('create_lstm_model', ['vocab_size'], SPEC, 'so_'),
        ],
    },
    'Gen_md_stackoverflow_loss': {
        'src': SRC,
        'preamble': 'From Coq Require Import QArith.\nFrom FV Require Import Common.QRow.\nLocal Open Scope Q_scope.\n',
        'items': [A_train_loss('create_lstm_model', 'so_train_loss_row')],
    },
}
