"""Translator anchors for fedjax/datasets/stackoverflow.py (C20): the tokenizer's
reserved ids, the id offset of vocabulary words, the x / y shift and the defaults."""
import ast
from lib.c20tr import A_forwarding, A_no_process_dependence, D, _T, _unsupported, zdef, _first_assign, A_classconsts, A_default

SRC = 'fedjax/datasets/stackoverflow.py'


def _token_to_ids(tree):
  T = _T()
  fd = T.find_def(tree, 'DefaultWordTokenizer.create_token_to_ids_fn')
  inner = T.find_def(fd, 'token_to_ids')
  out = []
  # token_ids = self._table.lookup(words) + 3
  s = _first_assign(inner.body, 'token_ids')
  v = s.value
  if not (isinstance(v, ast.BinOp) and isinstance(v.op, ast.Add) and isinstance(v.left, ast.Call) and
          D(v.left.func) == 'self._table.lookup' and isinstance(v.right, ast.Constant) and
          isinstance(v.right.value, int)):
    _unsupported('token_to_ids: token_ids is not self._table.lookup(words) + <int>')
  out.append(zdef('tok_id_offset', [], str(v.right.value)))
  # batch_bos / batch_eos = zeros_like(...) + self.BOS / self.EOS
  for nm, attr in (('batch_bos', 'BOS'), ('batch_eos', 'EOS')):
    s = _first_assign(inner.body, nm)
    v = s.value
    if not (isinstance(v, ast.BinOp) and isinstance(v.op, ast.Add) and isinstance(v.left, ast.Call) and
            D(v.left.func) == 'tf.zeros_like' and D(v.right) == 'self.' + attr):
      _unsupported(f'token_to_ids: {nm} is not zeros_like(..) + self.{attr}')
  # token_ids = tf.concat([batch_bos, token_ids, batch_eos], axis=-1)
  cc = [s for s in inner.body if isinstance(s, ast.Assign) and isinstance(s.value, ast.Call) and
        D(s.value.func) == 'tf.concat']
  if len(cc) != 1 or not isinstance(cc[0].value.args[0], ast.List) or \
      [D(x) for x in cc[0].value.args[0].elts] != ['batch_bos', 'token_ids', 'batch_eos']:
    _unsupported('token_to_ids: concat is not [batch_bos, token_ids, batch_eos]')
  # x = tf.cast(token_ids[..., :-1], tf.int32); y = tf.cast(token_ids[..., 1:], tf.int32)
  ctx = T.Ctx()
  for nm in ('x', 'y'):
    s = _first_assign(inner.body, nm)
    v = s.value
    ok = isinstance(v, ast.Call) and D(v.func) == 'tf.cast' and isinstance(v.args[0], ast.Subscript) and \
        D(v.args[0].value) == 'token_ids' and isinstance(v.args[0].slice, ast.Tuple) and \
        len(v.args[0].slice.elts) == 2 and isinstance(v.args[0].slice.elts[1], ast.Slice)
    if not ok:
      _unsupported(f'token_to_ids: {nm} is not tf.cast(token_ids[..., a:b], ..)')
    sl = v.args[0].slice.elts[1]
    lo = 'None' if sl.lower is None else f'(Some {ctx.expr(sl.lower, {}, "Z")[0]})'
    hi = 'None' if sl.upper is None else f'(Some {ctx.expr(sl.upper, {}, "Z")[0]})'
    out.append(f'Definition tok_{nm}_lo : option Z := {lo}.\nDefinition tok_{nm}_hi : option Z := {hi}.')
  # return (x.to_tensor(self.PAD, shape=shape), y.to_tensor(self.PAD, shape=shape))
  r = [s for s in inner.body if isinstance(s, ast.Return)]
  ok = len(r) == 1 and isinstance(r[0].value, ast.Tuple) and len(r[0].value.elts) == 2
  if ok:
    for e, nm in zip(r[0].value.elts, ('x', 'y')):
      ok = ok and isinstance(e, ast.Call) and D(e.func) == nm + '.to_tensor' and len(e.args) == 1 and \
          D(e.args[0]) == 'self.PAD'
  if not ok:
    _unsupported('token_to_ids: does not return (x.to_tensor(self.PAD, ..), y.to_tensor(self.PAD, ..))')
  s = _first_assign(inner.body, 'shape')
  v = s.value
  if not (isinstance(v, ast.BinOp) and isinstance(v.op, ast.Add) and D(v.left) == 'tokens.shape' and
          isinstance(v.right, ast.List) and len(v.right.elts) == 1 and D(v.right.elts[0]) == 'max_length'):
    _unsupported('token_to_ids: shape is not tokens.shape + [max_length]')
  return '\n'.join(out)


MODULES = {
    'Gen_ds_stackoverflow': {
        'src': SRC,
        'items': [
            A_classconsts('DefaultWordTokenizer', [('PAD', 'tok_PAD'), ('BOS', 'tok_BOS'), ('EOS', 'tok_EOS')]),
            A_default('DefaultWordTokenizer.__init__', 'num_oov_buckets', 'tok_default_num_oov_buckets_base'),
            A_default('StackoverflowTokenizer.__init__', 'default_vocab_size', 'tok_default_vocab_size'),
            A_default('StackoverflowTokenizer.__init__', 'num_oov_buckets', 'tok_default_num_oov_buckets'),
            _token_to_ids,
            A_no_process_dependence('stackoverflow_is_process_independent'),
            A_forwarding('load_data', 'load_split', 'so_load_data_forwards'),
            A_forwarding('StackoverflowTokenizer.__init__', 'default_vocab', 'so_tokenizer_forwards_vocab_size'),
            A_forwarding('StackoverflowTokenizer.__init__', 'super().__init__', 'so_tokenizer_forwards_buckets',
                         callee_qual='DefaultWordTokenizer.__init__'),
            A_forwarding('DefaultWordTokenizer.as_preprocess_batch', 'self.create_token_to_ids_fn', 'so_as_preprocess_batch_forwards',
                         callee_qual='DefaultWordTokenizer.create_token_to_ids_fn'),
        ],
    },
}
