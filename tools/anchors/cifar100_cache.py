"""Translator anchors for the cache logic of fedjax/datasets/cifar100.py load_split (C19):
the name of the converted file, its temporary suffix, and -- structurally, fail-closed --
that the conversion is built under the temporary name, validated under it, and renamed
last.  The order of the effects is additionally tied by tools/harness/c19.py."""
import ast

from translate import Unsupported, dotted, find_def

SRC = 'fedjax/datasets/cifar100.py'


def _strlit(s):
  return '[' + '; '.join(str(b) for b in s.encode()) + ']'


def _is_name(e, n):
  return isinstance(e, ast.Name) and e.id == n


def _call(s, f):
  """statement s is the expression statement `f(...)`: returns the Call or None"""
  if isinstance(s, ast.Expr) and isinstance(s.value, ast.Call):
    try:
      if dotted(s.value.func) == f:
        return s.value
    except Unsupported:
      return None
  return None


def emit_split_cache(tree):
  fd = find_def(tree, 'load_split')
  sq = [s for s in fd.body if isinstance(s, ast.If) and isinstance(s.test, ast.Compare) and _is_name(s.test.left, 'mode')
        and isinstance(s.test.comparators[0], ast.Constant) and s.test.comparators[0].value == 'sqlite'
        and any(isinstance(n, ast.Name) and n.id == 'compressed_path' for n in ast.walk(s))]
  if len(sq) != 1:
    raise Unsupported("load_split: `if mode == 'sqlite':` block not found")
  body = sq[0].body
  # path = os.path.join(os.path.dirname(decompressed_path), f'federated_cifar100_{split}.sqlite')
  pa = [s for s in body if isinstance(s, ast.Assign) and _is_name(s.targets[0], 'path')]
  if not (len(pa) == 1 and isinstance(pa[0].value, ast.Call) and dotted(pa[0].value.func) == 'os.path.join' and
          len(pa[0].value.args) == 2 and isinstance(pa[0].value.args[1], ast.JoinedStr)):
    raise Unsupported('path = os.path.join(<dir>, f"...") expected')
  js = pa[0].value.args[1].values
  if not (len(js) == 3 and isinstance(js[0], ast.Constant) and isinstance(js[1], ast.FormattedValue) and
          _is_name(js[1].value, 'split') and js[1].format_spec is None and js[1].conversion == -1 and
          isinstance(js[2], ast.Constant)):
    raise Unsupported("f'<prefix>{split}<suffix>' expected")
  prefix, suffix = js[0].value, js[2].value
  # if os.path.exists(path): log  else: <conversion>
  iff = [s for s in body if isinstance(s, ast.If) and isinstance(s.test, ast.Call) and
         dotted(s.test.func) == 'os.path.exists' and _is_name(s.test.args[0], 'path')]
  if len(iff) != 1 or not iff[0].orelse:
    raise Unsupported('if os.path.exists(path): ... else: ... expected')
  for n in ast.walk(ast.Module(body=iff[0].body, type_ignores=[])):
    if isinstance(n, ast.Call) and dotted(n.func) != 'downloads.log':
      raise Unsupported('the cached branch must only log')
  conv = iff[0].orelse
  if len(conv) != 5:
    raise Unsupported('conversion branch: expected 5 statements, found %d' % len(conv))
  s_part, s_stale, s_with, s_val, s_ren = conv
  # partial_path = path + '<literal>'
  v = s_part.value if isinstance(s_part, ast.Assign) and _is_name(s_part.targets[0], 'partial_path') else None
  if not (isinstance(v, ast.BinOp) and isinstance(v.op, ast.Add) and _is_name(v.left, 'path') and
          isinstance(v.right, ast.Constant) and isinstance(v.right.value, str) and v.right.value):
    raise Unsupported("partial_path = path + '<literal>' expected")
  part_suffix = v.right.value
  # if os.path.exists(partial_path): os.remove(partial_path)
  ok = (isinstance(s_stale, ast.If) and isinstance(s_stale.test, ast.Call) and dotted(s_stale.test.func) == 'os.path.exists'
        and _is_name(s_stale.test.args[0], 'partial_path') and not s_stale.orelse and len(s_stale.body) == 1)
  rm = _call(s_stale.body[0], 'os.remove') if ok else None
  if not (rm is not None and len(rm.args) == 1 and _is_name(rm.args[0], 'partial_path')):
    raise Unsupported('if os.path.exists(partial_path): os.remove(partial_path) expected')
  # with SQLiteFederatedDataBuilder(partial_path) as builder: ...
  if not (isinstance(s_with, ast.With) and len(s_with.items) == 1 and isinstance(s_with.items[0].context_expr, ast.Call) and
          dotted(s_with.items[0].context_expr.func) == 'sqlite_federated_data.SQLiteFederatedDataBuilder' and
          len(s_with.items[0].context_expr.args) == 1 and _is_name(s_with.items[0].context_expr.args[0], 'partial_path')):
    raise Unsupported('with sqlite_federated_data.SQLiteFederatedDataBuilder(partial_path) as builder expected')
  for n in ast.walk(s_with):
    if isinstance(n, ast.Call):
      try:
        if dotted(n.func) in ('os.rename', 'os.replace', 'shutil.move'):
          raise Unsupported('rename inside the builder block')
      except Unsupported as ex:
        if 'rename inside' in str(ex):
          raise
  # downloads.validate_file(partial_path, ...)
  vf = _call(s_val, 'downloads.validate_file')
  if not (vf is not None and len(vf.args) == 3 and _is_name(vf.args[0], 'partial_path')):
    raise Unsupported('downloads.validate_file(partial_path, <bytes>, <digest>) expected after the builder block')
  # os.rename(partial_path, path)
  rn = _call(s_ren, 'os.rename')
  if not (rn is not None and len(rn.args) == 2 and _is_name(rn.args[0], 'partial_path') and _is_name(rn.args[1], 'path')):
    raise Unsupported('os.rename(partial_path, path) expected as the last statement of the conversion')
  return '\n'.join([
      f'Definition split_file_prefix : str := {_strlit(prefix)}.',
      f'Definition split_file_suffix : str := {_strlit(suffix)}.',
      '(* basename of the converted file of a split *)',
      'Definition split_file_name (split : str) : str := split_file_prefix ++ split ++ split_file_suffix.',
      f'Definition split_partial_suffix : str := {_strlit(part_suffix)}.',
  ])


MODULES = {
    'Gen_cifar100_cache': {
        'src': SRC,
        'preamble': 'From FV Require Import Common.PyStr.\n',
        'items': [emit_split_cache],
    },
}
