"""Translator anchors for fedjax/aggregators/walsh_hadamard.py (C18; C11 uses the
rotation through C18).

Emitted (coq/gen/Gen_walsh_hadamard.v):
  wht_shape            the prefix of walsh_hadamard_transform up to (and including) the
                       `num_dims + 1 >= 10` guard: small_n guard, `n = len(x)`, the
                       list-building `while` loop, `shape.reverse()`, the guard.  Result
                       type option (option (list Z)): None = fuel exhausted,
                       Some None = `raise ValueError`, Some (Some dims) = the shape.
  wht_default_small_n  the default of its small_n parameter
  rotation_dim         structured_rotation's `d = 2**math.ceil(math.log2(x_flat.size))`
  rotation_pad         the (before, after) widths of its `jnp.pad(x_flat, (.., ..))`
  rotation_scale       the z of the `... / jnp.sqrt(z)` in structured_rotation's result
  inverse_scale        the z of the `... / jnp.sqrt(z)` in inverse_structured_rotation
  inverse_take         the n of `w.take(jnp.arange(n))` (as a function of prod(original_shape))

The list-loop emitter below is a small extension of translate.Fn for exactly this loop
shape (a python list built by `.append` inside a `while`, then `.reverse()` / `len`);
it is fail-closed: every statement / expression outside the listed forms raises
Unsupported."""
import ast
from translate import Ctx, Unsupported, dotted, find_def

WH = 'fedjax/aggregators/walsh_hadamard.py'

TY = {'Z': 'Z', 'bool': 'bool', 'listZ': '(list Z)'}
AUG = {ast.Add: '+', ast.Sub: '-', ast.Mult: '*', ast.FloorDiv: '/'}


class LCtx(Ctx):
  """Ctx + `[]`, `len(<list variable>)`, `len(<array parameter>)` (-> the int parameter named in `lens`)."""

  def __init__(self, names=None, calls=None, consts=None, lens=None):
    super().__init__(names, calls, consts)
    self.lens = dict(lens or {})

  def _expr(self, e, env):
    if isinstance(e, ast.List) and not e.elts:
      return '[]', 'listZ'
    if isinstance(e, ast.Call) and isinstance(e.func, ast.Name) and e.func.id == 'len' and len(e.args) == 1 \
        and not e.keywords and isinstance(e.args[0], ast.Name):
      a = e.args[0].id
      if env.get(a) == 'listZ':
        return f'(Z.of_nat (length {a}))', 'Z'
      if a in self.lens and self.lens[a] in env:
        return self.lens[a], 'Z'
      raise Unsupported('len() of ' + a)
    return super()._expr(e, env)


def _method_call(s):
  """`name.method(args)` as an expression statement -> (name, method, args) or None."""
  if isinstance(s, ast.Expr) and isinstance(s.value, ast.Call) and isinstance(s.value.func, ast.Attribute) \
      and isinstance(s.value.func.value, ast.Name) and not s.value.keywords:
    return s.value.func.value.id, s.value.func.attr, s.value.args
  return None


def _assigned(stmts):
  out = []

  def add(n):
    if n not in out:
      out.append(n)
  for s in stmts:
    if isinstance(s, ast.Assign):
      for t in s.targets:
        if not isinstance(t, ast.Name):
          raise Unsupported('assignment target ' + ast.dump(t)[:80])
        add(t.id)
    elif isinstance(s, ast.AugAssign):
      if not isinstance(s.target, ast.Name):
        raise Unsupported('augmented assignment target')
      add(s.target.id)
    elif isinstance(s, (ast.If, ast.While)):
      for n in _assigned(s.body) + _assigned(s.orelse):
        add(n)
    elif _method_call(s):
      add(_method_call(s)[0])
    elif isinstance(s, (ast.Raise, ast.Return)) or (isinstance(s, ast.Expr) and isinstance(s.value, ast.Constant)):
      pass
    else:
      raise Unsupported('statement ' + ast.dump(s)[:120])
  return out


class LFn:
  def __init__(self, coqname, ctx, ret):
    self.name, self.ctx, self.ret = coqname, ctx, ret
    self.aux, self.nloops = [], 0

  def block(self, stmts, env, k):
    if not stmts:
      return k(env)
    s, rest = stmts[0], stmts[1:]
    ctx = self.ctx
    if isinstance(s, ast.Expr) and isinstance(s.value, ast.Constant) and isinstance(s.value.value, str):
      return self.block(rest, env, k)
    if isinstance(s, ast.Return):
      t, _ = ctx.expr(s.value, env, self.ret)
      return f'Some (Some {t})'
    if isinstance(s, ast.Raise):
      if not (isinstance(s.exc, ast.Call) and isinstance(s.exc.func, ast.Name) and s.exc.func.id == 'ValueError'):
        raise Unsupported('raise of something other than ValueError(...)')
      return 'Some None'
    if isinstance(s, ast.Assign):
      if len(s.targets) != 1 or not isinstance(s.targets[0], ast.Name):
        raise Unsupported('assignment form')
      v, ty = ctx.expr(s.value, env)
      n = s.targets[0].id
      if n in env and env[n] != ty:
        raise Unsupported(f'{n} changes type')
      env2 = dict(env)
      env2[n] = ty
      return f'let {n} := {v} in ' + self.block(rest, env2, k)
    if isinstance(s, ast.AugAssign):
      if type(s.op) not in AUG or not isinstance(s.target, ast.Name):
        raise Unsupported('augmented assignment op')
      cur, _ = ctx.expr(s.target, env, 'Z')
      v, _ = ctx.expr(s.value, env, 'Z')
      return f'let {s.target.id} := ({cur} {AUG[type(s.op)]} {v}) in ' + self.block(rest, env, k)
    mc = _method_call(s)
    if mc:
      n, meth, args = mc
      if env.get(n) != 'listZ':
        raise Unsupported(f'method call on non-list {n}')
      if meth == 'append' and len(args) == 1:
        v, _ = ctx.expr(args[0], env, 'Z')
        return f'let {n} := ({n} ++ [{v}]) in ' + self.block(rest, env, k)
      if meth == 'reverse' and not args:
        return f'let {n} := (rev {n}) in ' + self.block(rest, env, k)
      raise Unsupported('list method ' + meth)
    if isinstance(s, ast.If):
      c, _ = ctx.expr(s.test, env, 'bool')
      for n in _assigned(s.body) + _assigned(s.orelse):
        if n not in env:
          raise Unsupported(f'{n} first assigned inside a branch')
      then = self.block(s.body + rest, env, k)
      els = self.block(s.orelse + rest, env, k)
      return f'(if {c} then {then} else {els})'
    if isinstance(s, ast.While):
      if s.orelse:
        raise Unsupported('while-else')
      self.nloops += 1
      loop = f'{self.name}_loop{self.nloops}'
      vs = _assigned(s.body)
      for v in vs:
        if v not in env:
          raise Unsupported(f'loop variable {v} not initialised before the loop')
      free = [v for v in env if v not in vs]
      c, _ = ctx.expr(s.test, env, 'bool')
      body = self.block(s.body, env, lambda e: f'{loop} fuel {" ".join(free + vs)}')
      after = self.block(rest, env, k)
      params = ' '.join(f'({v} : {TY[env[v]]})' for v in free + vs)
      self.aux.append(
          f'Fixpoint {loop} (fuel : nat) {params} {{struct fuel}} : option (option {TY[self.ret]}) :=\n'
          f'  match fuel with O => None | S fuel =>\n'
          f'  if {c} then {body}\n  else {after} end.')
      return f'{loop} {self.name}_fuel {" ".join(free + vs)}'
    raise Unsupported('statement ' + ast.dump(s)[:200])


def A_listfun(qual, coqname, pyparams, params, stop_before, result, lens):
  """The statements of `qual` before the first assignment to `stop_before`; the value
  of `result` there is the result."""
  def emit(tree):
    fd = find_def(tree, qual)
    got = [a.arg for a in fd.args.args]
    if got != pyparams:
      raise Unsupported(f'{qual}: parameters {got}, expected {pyparams}')
    idx = [i for i, s in enumerate(fd.body) if isinstance(s, ast.Assign) and
           any(isinstance(t, ast.Name) and t.id == stop_before for t in s.targets)]
    if not idx:
      raise Unsupported(f'{qual}: no assignment to {stop_before}')
    stmts = fd.body[:idx[0]]
    # the remainder must consume the result as the reshape target and nowhere rebind it
    tail = fd.body[idx[0]:]
    first = tail[0].value
    if not (isinstance(first, ast.Call) and isinstance(first.func, ast.Attribute) and first.func.attr == 'reshape'
            and len(first.args) == 1 and isinstance(first.args[0], ast.Name) and first.args[0].id == result):
      raise Unsupported(f'{qual}: {stop_before} is not <array>.reshape({result})')
    for s in tail:
      for node in ast.walk(s):
        if isinstance(node, ast.Name) and node.id == result and isinstance(node.ctx, ast.Store):
          raise Unsupported(f'{qual}: {result} rebound after the anchored prefix')
        if isinstance(node, ast.Attribute) and isinstance(node.value, ast.Name) and node.value.id == result \
            and node.attr in ('append', 'reverse', 'sort', 'pop', 'insert', 'extend', 'remove', 'clear'):
          raise Unsupported(f'{qual}: {result} mutated after the anchored prefix')
    f = LFn(coqname, LCtx(lens=lens), 'listZ')
    env = {n: t for n, t in params}

    def final(env):
      if env.get(result) != 'listZ':
        raise Unsupported(f'{qual}: {result} is not a list at the end of the prefix')
      return f'Some (Some {result})'
    body = f.block(stmts, env, final)
    ps = ' '.join(f'({n} : {TY[t]})' for n, t in params)
    out = [f'Section {coqname}_sec.', f'Variable {coqname}_fuel : nat.'] + f.aux
    out.append(f'Definition {coqname} {ps} : option (option (list Z)) :=\n  {body}.')
    out.append(f'End {coqname}_sec.')
    return '\n'.join(out)
  return emit


# ---- structured_rotation / inverse_structured_rotation: scalar skeleton ----

def _find_assign(fd, name):
  hits = [s for s in fd.body if isinstance(s, ast.Assign) and len(s.targets) == 1 and
          isinstance(s.targets[0], ast.Name) and s.targets[0].id == name]
  if len(hits) != 1:
    raise Unsupported(f'{fd.name}: expected exactly one top-level assignment to {name}, found {len(hits)}')
  return hits[0].value


def _ceil_log2(ctx, e, env):
  # math.ceil(math.log2(<int expr>))  ->  Z.log2_up  (= ceil(log2 n) for n >= 1)
  if len(e.args) != 1 or e.keywords:
    raise Unsupported('math.ceil arity')
  a = e.args[0]
  if not (isinstance(a, ast.Call) and dotted(a.func) == 'math.log2' and len(a.args) == 1 and not a.keywords):
    raise Unsupported('math.ceil of something other than math.log2(...)')
  t, _ = ctx.expr(a.args[0], env, 'Z')
  return f'(Z.log2_up {t})', 'Z'


SIZE_NAMES = {'x_flat.size': 'size', 'x.size': 'size'}


def A_rotation_dim(coqname):
  def emit(tree):
    fd = find_def(tree, 'structured_rotation')
    flat = _find_assign(fd, 'x_flat')
    # x_flat = jnp.reshape(x, [-1]) : same element count as x
    ok = (isinstance(flat, ast.Call) and dotted(flat.func) == 'jnp.reshape' and len(flat.args) == 2 and
          isinstance(flat.args[0], ast.Name) and flat.args[0].id == 'x' and isinstance(flat.args[1], ast.List) and
          len(flat.args[1].elts) == 1 and isinstance(flat.args[1].elts[0], ast.UnaryOp) and
          isinstance(flat.args[1].elts[0].op, ast.USub) and isinstance(flat.args[1].elts[0].operand, ast.Constant) and
          flat.args[1].elts[0].operand.value == 1)
    if not ok:
      raise Unsupported('structured_rotation: x_flat is not jnp.reshape(x, [-1])')
    ctx = Ctx(names=SIZE_NAMES, calls={'math.ceil': _ceil_log2})
    t, ty = ctx.expr(_find_assign(fd, 'd'), {'size': 'Z'}, 'Z')
    return f'Definition {coqname} (size : Z) : Z :=\n  {t}.'
  return emit


def A_rotation_pad(coqname):
  def emit(tree):
    fd = find_def(tree, 'structured_rotation')
    w = _find_assign(fd, 'w')
    if not (isinstance(w, ast.Call) and dotted(w.func) == 'jnp.pad' and len(w.args) == 2 and not w.keywords and
            isinstance(w.args[0], ast.Name) and w.args[0].id == 'x_flat' and isinstance(w.args[1], ast.Tuple) and
            len(w.args[1].elts) == 2):
      raise Unsupported('structured_rotation: w is not jnp.pad(x_flat, (a, b)) with default (zero) fill')
    ctx = Ctx(names=SIZE_NAMES)
    env = {'size': 'Z', 'd': 'Z'}
    a, _ = ctx.expr(w.args[1].elts[0], env, 'Z')
    b, _ = ctx.expr(w.args[1].elts[1], env, 'Z')
    return f'Definition {coqname} (size : Z) (d : Z) : Z * Z :=\n  ({a}, {b}).'
  return emit


def _div_sqrt(e):
  """`num / jnp.sqrt(z)` -> (num, z)."""
  if not (isinstance(e, ast.BinOp) and isinstance(e.op, ast.Div) and isinstance(e.right, ast.Call) and
          dotted(e.right.func) == 'jnp.sqrt' and len(e.right.args) == 1 and not e.right.keywords):
    raise Unsupported('expected <vector> / jnp.sqrt(<int>)')
  return e.left, e.right.args[0]


def _is_wht_of(e, inner_check):
  return (isinstance(e, ast.Call) and dotted(e.func) == 'walsh_hadamard_transform' and len(e.args) == 1 and
          not e.keywords and inner_check(e.args[0]))


def _is_mul_of_names(e, a, b):
  return (isinstance(e, ast.BinOp) and isinstance(e.op, ast.Mult) and isinstance(e.left, ast.Name) and
          isinstance(e.right, ast.Name) and {e.left.id, e.right.id} == {a, b})


def _rademacher_shape_of(fd, shape_of):
  r = _find_assign(fd, 'rademacher')
  if not (isinstance(r, ast.Call) and dotted(r.func) == 'jax.random.rademacher' and len(r.args) == 2 and
          not r.keywords and isinstance(r.args[0], ast.Name) and r.args[0].id == 'rng' and
          isinstance(r.args[1], ast.Attribute) and r.args[1].attr == 'shape' and
          isinstance(r.args[1].value, ast.Name) and r.args[1].value.id == shape_of):
    raise Unsupported(f'{fd.name}: rademacher is not jax.random.rademacher(rng, {shape_of}.shape)')


def A_rotation_scale(coqname):
  """structured_rotation returns (walsh_hadamard_transform(w * rademacher) / jnp.sqrt(z), shape)."""
  def emit(tree):
    fd = find_def(tree, 'structured_rotation')
    _rademacher_shape_of(fd, 'w')
    ret = [s for s in fd.body if isinstance(s, ast.Return)]
    if len(ret) != 1 or not isinstance(ret[0].value, ast.Tuple) or len(ret[0].value.elts) != 2:
      raise Unsupported('structured_rotation: return is not a pair')
    num, z = _div_sqrt(ret[0].value.elts[0])
    if not _is_wht_of(num, lambda a: _is_mul_of_names(a, 'w', 'rademacher')):
      raise Unsupported('structured_rotation: numerator is not walsh_hadamard_transform(w * rademacher)')
    t, _ = Ctx(names=SIZE_NAMES).expr(z, {'size': 'Z', 'd': 'Z'}, 'Z')
    return (f'(* result = walsh_hadamard_transform(w * rademacher) / sqrt({coqname}) *)\n'
            f'Definition {coqname} (size : Z) (d : Z) : Z :=\n  {t}.')
  return emit


def A_inverse_scale(coqname, takename):
  """inverse_structured_rotation: w = walsh_hadamard_transform(x) * rademacher / jnp.sqrt(z);
  y_flat = w.take(jnp.arange(original_size)), original_size = jnp.prod(original_shape)."""
  def emit(tree):
    fd = find_def(tree, 'inverse_structured_rotation')
    _rademacher_shape_of(fd, 'x')
    num, z = _div_sqrt(_find_assign(fd, 'w'))
    ok = (isinstance(num, ast.BinOp) and isinstance(num.op, ast.Mult) and
          ((_is_wht_of(num.left, lambda a: isinstance(a, ast.Name) and a.id == 'x') and
            isinstance(num.right, ast.Name) and num.right.id == 'rademacher') or
           (_is_wht_of(num.right, lambda a: isinstance(a, ast.Name) and a.id == 'x') and
            isinstance(num.left, ast.Name) and num.left.id == 'rademacher')))
    if not ok:
      raise Unsupported('inverse_structured_rotation: numerator is not walsh_hadamard_transform(x) * rademacher')
    t, _ = Ctx(names={'x.size': 'xsize'}).expr(z, {'xsize': 'Z'}, 'Z')
    osz = _find_assign(fd, 'original_size')
    if not (isinstance(osz, ast.Call) and dotted(osz.func) == 'jnp.prod' and len(osz.args) == 1 and not osz.keywords
            and isinstance(osz.args[0], ast.Name) and osz.args[0].id == 'original_shape'):
      raise Unsupported('inverse_structured_rotation: original_size is not jnp.prod(original_shape)')
    yf = _find_assign(fd, 'y_flat')
    ok = (isinstance(yf, ast.Call) and isinstance(yf.func, ast.Attribute) and yf.func.attr == 'take' and
          isinstance(yf.func.value, ast.Name) and yf.func.value.id == 'w' and len(yf.args) == 1 and not yf.keywords and
          isinstance(yf.args[0], ast.Call) and dotted(yf.args[0].func) == 'jnp.arange' and len(yf.args[0].args) == 1
          and not yf.args[0].keywords)
    if not ok:
      raise Unsupported('inverse_structured_rotation: y_flat is not w.take(jnp.arange(n))')
    n, _ = Ctx().expr(yf.args[0].args[0], {'original_size': 'Z'}, 'Z')
    return (f'(* w = walsh_hadamard_transform(x) * rademacher / sqrt({coqname}); y_flat = first {takename} entries of w *)\n'
            f'Definition {coqname} (xsize : Z) : Z :=\n  {t}.\n'
            f'Definition {takename} (original_size : Z) : Z :=\n  {n}.')
  return emit


def A_default_arg(qual, arg, coqname):
  """The default value of an int keyword parameter."""
  def emit(tree):
    fd = find_def(tree, qual)
    args = fd.args.args
    defaults = fd.args.defaults
    pairs = list(zip(args[len(args) - len(defaults):], defaults))
    for a, dflt in pairs:
      if a.arg == arg:
        t, _ = Ctx().expr(dflt, {}, 'Z')
        return f'Definition {coqname} : Z :=\n  {t}.'
    raise Unsupported(f'{qual}: parameter {arg} has no default')
  return emit


def A_calls_default(qual, callee, coqname):
  """Every call of `callee` inside `qual` passes exactly one positional argument and no
  keyword (so the callee runs with its default block size)."""
  def emit(tree):
    fd = find_def(tree, qual)
    calls = [n for n in ast.walk(fd) if isinstance(n, ast.Call) and
             ((isinstance(n.func, ast.Name) and n.func.id == callee) or
              (isinstance(n.func, ast.Attribute) and n.func.attr == callee))]
    if not calls:
      raise Unsupported(f'{qual}: no call of {callee}')
    for c in calls:
      if len(c.args) != 1 or c.keywords:
        raise Unsupported(f'{qual}: {callee} called with an explicit block size / precision')
    return f'Definition {coqname} : bool := true.'
  return emit


def A_leaf_keys(qual, coqname, inner, keypos):
  """A *_pytree function: rngs = jax.random.split(rng, len(leaves)); for (l, r, ..) in zip(leaves, rngs, ..):
  inner(.., r, ..) -- leaf number l gets split index l of the function's key."""
  def emit(tree):
    fd = find_def(tree, qual)
    rn = [s.value for s in fd.body if isinstance(s, ast.Assign) and len(s.targets) == 1 and
          isinstance(s.targets[0], ast.Name) and s.targets[0].id == 'rngs']
    ok = (len(rn) == 1 and isinstance(rn[0], ast.Call) and dotted(rn[0].func) == 'jax.random.split' and
          len(rn[0].args) == 2 and not rn[0].keywords and isinstance(rn[0].args[0], ast.Name) and rn[0].args[0].id == 'rng'
          and isinstance(rn[0].args[1], ast.Call) and dotted(rn[0].args[1].func) == 'len' and
          isinstance(rn[0].args[1].args[0], ast.Name) and rn[0].args[1].args[0].id == 'leaves')
    if not ok:
      raise Unsupported(f'{qual}: rngs is not jax.random.split(rng, len(leaves))')
    loops = [s for s in fd.body if isinstance(s, ast.For)]
    if len(loops) != 1:
      raise Unsupported(f'{qual}: expected one loop')
    lp = loops[0]
    it = lp.iter
    ok = (isinstance(it, ast.Call) and dotted(it.func) == 'zip' and len(it.args) >= 2 and
          all(isinstance(a, ast.Name) for a in it.args) and it.args[0].id == 'leaves' and it.args[1].id == 'rngs' and
          isinstance(lp.target, ast.Tuple) and len(lp.target.elts) == len(it.args) and
          all(isinstance(x, ast.Name) for x in lp.target.elts))
    if not ok:
      raise Unsupported(f'{qual}: loop is not `for l, r, .. in zip(leaves, rngs, ..)`')
    lname, rname = lp.target.elts[0].id, lp.target.elts[1].id
    # the loop body must be straight-line code that calls `inner` once per leaf with that leaf's own key:
    # no branch, no lookup table / cache, no other call than `inner` and `<list>.append`
    for n in (m for st in lp.body for m in ast.walk(st)):
      if isinstance(n, (ast.If, ast.IfExp, ast.While, ast.For, ast.Try, ast.With, ast.Subscript, ast.Dict, ast.Set,
                        ast.ListComp, ast.DictComp, ast.SetComp, ast.GeneratorExp, ast.Lambda, ast.BoolOp, ast.Compare,
                        ast.Continue, ast.Break, ast.Return)):
        raise Unsupported(f'{qual}: the per-leaf loop contains {type(n).__name__} (conditional / cache / lookup); '
                          f'every leaf must be processed with its own key')
      if isinstance(n, ast.Call):
        okc = (isinstance(n.func, ast.Name) and n.func.id == inner) or \
              (isinstance(n.func, ast.Attribute) and n.func.attr == 'append' and isinstance(n.func.value, ast.Name))
        if not okc:
          raise Unsupported(f'{qual}: unexpected call inside the per-leaf loop')
    calls = [n for n in ast.walk(lp) if isinstance(n, ast.Call) and
             ((isinstance(n.func, ast.Name) and n.func.id == inner))]
    if len(calls) != 1 or calls[0].keywords or len(calls[0].args) <= keypos:
      raise Unsupported(f'{qual}: expected one call of {inner}')
    c = calls[0]
    if not (isinstance(c.args[0], ast.Name) and c.args[0].id == lname and isinstance(c.args[keypos], ast.Name)
            and c.args[keypos].id == rname):
      raise Unsupported(f'{qual}: {inner} is not called with (leaf, .., its own key, ..)')
    for n in ast.walk(fd):
      if isinstance(n, ast.Name) and isinstance(n.ctx, ast.Store) and n.id in ('rng',) :
        raise Unsupported(f'{qual}: rng rebound')
    return f'Definition {coqname}_leaf_key (k : list nat) (l : nat) : list nat := k ++ [l].'
  return emit


def A_no_hidden_state(coqname):
  """Fail-closed recogniser (WAVE5 item 4): nothing in the module may depend on object identity, hashing, wall-clock
  time, the environment or an unseeded generator."""
  def emit(tree):
    for n in ast.walk(tree):
      if isinstance(n, ast.Call) and isinstance(n.func, ast.Name) and n.func.id in ('id', 'hash'):
        raise Unsupported(f'call of {n.func.id}(): results would depend on object identity / PYTHONHASHSEED')
      if isinstance(n, ast.Attribute):
        try:
          d = dotted(n)
        except Unsupported:
          continue
        if d.startswith(('time.', 'os.environ', 'uuid.', 'random.', 'np.random.', 'numpy.random.', 'datetime.')):
          raise Unsupported(f'use of {d}: hidden state / nondeterminism')
      if isinstance(n, (ast.Import, ast.ImportFrom)):
        names = [a.name for a in n.names] + ([n.module] if isinstance(n, ast.ImportFrom) and n.module else [])
        if any(x in ('time', 'uuid', 'random', 'datetime') for x in names):
          raise Unsupported(f'import of {names}')
    return f'Definition {coqname} : bool := true.'
  return emit


MODULES = {
    'Gen_walsh_hadamard': {
        'src': WH,
        'items': [
            A_no_hidden_state('walsh_hadamard_no_hidden_state'),
            A_listfun('walsh_hadamard_transform', 'wht_shape', ['x', 'small_n', 'precision'],
                      [('len_x', 'Z'), ('small_n', 'Z')], stop_before='y', result='shape', lens={'x': 'len_x'}),
            A_default_arg('walsh_hadamard_transform', 'small_n', 'wht_default_small_n'),
            A_calls_default('structured_rotation', 'walsh_hadamard_transform', 'rotation_uses_default_block'),
            A_calls_default('inverse_structured_rotation', 'walsh_hadamard_transform', 'inverse_uses_default_block'),
            A_rotation_dim('rotation_dim'),
            A_rotation_pad('rotation_pad'),
            A_rotation_scale('rotation_scale'),
            A_inverse_scale('inverse_scale', 'inverse_take'),
            A_leaf_keys('structured_rotation_pytree', 'rot_pytree', 'structured_rotation', 1),
            A_leaf_keys('inverse_structured_rotation_pytree', 'inv_pytree', 'inverse_structured_rotation', 1),
        ],
    },
}
