"""Translator anchors (C15) for
  fedjax/core/federated_data.py            RepeatableIterator.__init__/__next__, SubsetFederatedData.shuffled_clients
  fedjax/core/in_memory_federated_data.py  InMemoryFederatedData.shuffled_clients
  fedjax/core/sqlite_federated_data.py     SQLiteFederatedData.shuffled_clients

RepeatableIterator is compiled statement by statement on the state
(first_pass : bool, iter : list A, buf : list A): iterators are the lists of items they
still produce, `next(it)` on the empty list raises StopIteration.

shuffled_clients has one shape in all three classes,
    rng = np.random.RandomState(seed)
    while True:
      for <target> in client_datasets.buffered_shuffle(<clients source>, buffer_size, rng):
        yield <the item>
which is checked structurally (fail-closed); what is emitted is "one pass = one
buffered_shuffle over the clients with the next (code, draws) of the one rng".
"""
import ast

from translate import Unsupported, dotted
from anchors.client_datasets_multi import _same_ast, _nodoc

FD = 'fedjax/core/federated_data.py'
IM = 'fedjax/core/in_memory_federated_data.py'
SQ = 'fedjax/core/sqlite_federated_data.py'


def _method(tree, cls, name):
  for n in tree.body:
    if isinstance(n, ast.ClassDef) and n.name == cls:
      for m in n.body:
        if isinstance(m, ast.FunctionDef) and m.name == name:
          return m
  raise Unsupported(f'{cls}.{name} not found')


# ---------------------------------------------------------------------------
# RepeatableIterator

ATTR = {'self._first_pass': ('first', 'bool'), 'self._iter': ('iter', 'list'), 'self._buf': ('buf', 'list')}
CONTAINER_TEST = 'any(isinstance(base, container) for container in (list, tuple, dict, str, bytes))'


def _attr(e):
  try:
    d = dotted(e)
  except Unsupported:
    return None
  return ATTR.get(d)


class RitStep:
  """exits: `return v` -> (Some v, state); bare `raise` inside `except StopIteration` -> (None, state)."""

  def pack(self):
    return '(mk_rit first iter buf)'

  def block(self, stmts, env, in_handler):
    if not stmts:
      raise Unsupported('__next__ falls off the end')
    s, rest = stmts[0], stmts[1:]
    if isinstance(s, ast.Try):
      if len(s.body) != 1 or s.orelse or s.finalbody or len(s.handlers) != 1 or in_handler:
        raise Unsupported('try shape')
      h = s.handlers[0]
      if not (isinstance(h.type, ast.Name) and h.type.id == 'StopIteration' and h.name is None):
        raise Unsupported('except clause')
      b = s.body[0]
      if not (isinstance(b, ast.Assign) and len(b.targets) == 1 and isinstance(b.targets[0], ast.Name) and
              _same_ast(b.value, ast.parse('next(self._iter)', mode='eval').body)):
        raise Unsupported('try body is not `x = next(self._iter)`')
      v = b.targets[0].id
      env2 = dict(env)
      env2[v] = 'elt'
      return (f'(match iter with [] => {self.block(h.body, env, True)} '
              f'| {v} :: iter => {self.block(rest, env2, False)} end)')
    if isinstance(s, ast.Raise):
      if s.exc is not None or not in_handler:
        raise Unsupported('raise')
      return f'(None, {self.pack()})'
    if isinstance(s, ast.Return):
      if not (isinstance(s.value, ast.Name) and env.get(s.value.id) == 'elt') or in_handler:
        raise Unsupported('return')
      return f'(Some {s.value.id}, {self.pack()})'
    if isinstance(s, ast.If):
      a = _attr(s.test)
      if a is None or a[1] != 'bool':
        raise Unsupported('if test')
      return (f'(if {a[0]} then {self.block(s.body + rest, env, in_handler)} '
              f'else {self.block(s.orelse + rest, env, in_handler)})')
    if isinstance(s, ast.Assign) and len(s.targets) == 1:
      a = _attr(s.targets[0])
      if a is None:
        raise Unsupported('assignment target')
      if a[1] == 'bool' and isinstance(s.value, ast.Constant) and isinstance(s.value.value, bool):
        return f'let {a[0]} := {"true" if s.value.value else "false"} in ' + self.block(rest, env, in_handler)
      if a[0] == 'iter' and _same_ast(s.value, ast.parse('iter(self._buf)', mode='eval').body):
        return 'let iter := buf in ' + self.block(rest, env, in_handler)
      raise Unsupported('assignment ' + ast.dump(s)[:100])
    if isinstance(s, ast.Expr) and isinstance(s.value, ast.Call) and isinstance(s.value.func, ast.Attribute) and \
        s.value.func.attr == 'append' and _attr(s.value.func.value) == ATTR['self._buf'] and \
        len(s.value.args) == 1 and isinstance(s.value.args[0], ast.Name) and env.get(s.value.args[0].id) == 'elt':
      return f'let buf := (buf ++ [{s.value.args[0].id}]) in ' + self.block(rest, env, in_handler)
    raise Unsupported('__next__ statement ' + ast.dump(s)[:120])


def A_repeatable():
  def emit(tree):
    nx = _method(tree, 'RepeatableIterator', '__next__')
    if [a.arg for a in nx.args.args] != ['self']:
      raise Unsupported('__next__ parameters')
    body = RitStep().block(_nodoc(nx.body), {}, False)
    init = _method(tree, 'RepeatableIterator', '__init__')
    if [a.arg for a in init.args.args] != ['self', 'base']:
      raise Unsupported('__init__ parameters')
    ib = _nodoc(init.body)
    if len(ib) != 1 or not isinstance(ib[0], ast.If) or \
        not _same_ast(ib[0].test, ast.parse(CONTAINER_TEST, mode='eval').body):
      raise Unsupported('__init__: container test')

    def branch(stmts):
      vals = {}
      for s in stmts:
        if isinstance(s, ast.Expr) and isinstance(s.value, ast.Constant):
          continue
        if not (isinstance(s, ast.Assign) and len(s.targets) == 1 and _attr(s.targets[0])):
          raise Unsupported('__init__ statement')
        name = _attr(s.targets[0])[0]
        v = s.value
        if name == 'first' and isinstance(v, ast.Constant) and isinstance(v.value, bool):
          vals[name] = 'true' if v.value else 'false'
        elif name == 'iter' and _same_ast(v, ast.parse('iter(base)', mode='eval').body):
          vals[name] = 'base'
        elif name == 'buf' and isinstance(v, ast.Name) and v.id == 'base':
          vals[name] = 'base'
        elif name == 'buf' and isinstance(v, ast.List) and not v.elts:
          vals[name] = '[]'
        else:
          raise Unsupported('__init__ assignment ' + ast.dump(s)[:100])
      if sorted(vals) != ['buf', 'first', 'iter']:
        raise Unsupported('__init__: attributes set ' + str(sorted(vals)))
      return f'mk_rit {vals["first"]} {vals["iter"]} {vals["buf"]}'
    it = _method(tree, 'RepeatableIterator', '__iter__')
    ib2 = _nodoc(it.body)
    if [a.arg for a in it.args.args] != ['self'] or len(ib2) != 1 or \
        not _same_ast(ib2[0], ast.parse('def f():\n  return self\n').body[0].body[0]):
      raise Unsupported('RepeatableIterator.__iter__ is not `return self`')
    return '\n'.join([
        '(* __iter__: return self *)',
        'Definition rit_iter_gen (s : rit (A:=A)) : rit (A:=A) := s.',
        '(* container = any(isinstance(base, c) for c in (list, tuple, dict, str, bytes)); iter(base) = base *)',
        'Definition rit_init_gen (container : bool) (base : list A) : rit (A:=A) :=',
        f'  if container then {branch(ib[0].body)} else {branch(ib[0].orelse)}.',
        'Definition rit_next_gen (s : rit (A:=A)) : option A * rit (A:=A) :=',
        '  let first := r_first s in let iter := r_iter s in let buf := r_buf s in ' + body + '.'])
  return emit


# ---------------------------------------------------------------------------
# shuffled_clients

def A_shuffled_clients(cls, coqname, source_call, yields):
  """source_call: the expression shuffled (e.g. `self.clients()`); yields: (loop target, yielded expression)."""
  want = ast.parse(
      'rng = np.random.RandomState(seed)\n'
      'while True:\n'
      f'  for {yields[0]} in client_datasets.buffered_shuffle({source_call}, buffer_size, rng):\n'
      f'    yield {yields[1]}\n').body

  def emit(tree):
    m = _method(tree, cls, 'shuffled_clients')
    if [a.arg for a in m.args.args] != ['self', 'buffer_size', 'seed']:
      raise Unsupported(f'{cls}.shuffled_clients parameters')
    body = _nodoc(m.body)
    if len(body) != len(want) or not all(_same_ast(a, b) for a, b in zip(body, want)):
      raise Unsupported(f'{cls}.shuffled_clients: not `rng = RandomState(seed); while True: for .. in '
                        f'buffered_shuffle({source_call}, buffer_size, rng): yield ..`')
    return '\n'.join([
        f'(* {cls}.shuffled_clients: one pass of the `while True` loop, given the next shuffle code and',
        '   randint draws of the single RandomState(seed) *)',
        f'Definition {coqname}_pass (buffer_size : Z) (code : list nat) (draws : list Z) (clients : list A) : sres A :=',
        '  buffered_shuffle buffer_size code draws clients false.'])
  return emit


# ---------------------------------------------------------------------------
# the two centralised-stream wrappers: their bodies are checked structurally

SRB_BODY = """rng = np.random.RandomState(seed)
datasets = (client_dataset for _, client_dataset in fd.shuffled_clients(
    client_buffer_size, rng.randint(1 << 32)))
yield from client_datasets.buffered_shuffle_batch_client_datasets(
    datasets, batch_size=batch_size, buffer_size=example_buffer_size, rng=rng)
"""
PBFD_BODY = """datasets = (client_dataset for _, client_dataset in fd.clients())
yield from client_datasets.padded_batch_client_datasets(
    datasets, hparams, **kwargs)
"""


def _fun(tree, name):
  for n in tree.body:
    if isinstance(n, ast.FunctionDef) and n.name == name:
      return n
  raise Unsupported(name + ' not found')


def A_wrappers():
  def emit(tree):
    srb = _fun(tree, 'shuffle_repeat_batch_federated_data')
    if [a.arg for a in srb.args.args] != ['fd', 'batch_size', 'client_buffer_size', 'example_buffer_size', 'seed']:
      raise Unsupported('shuffle_repeat_batch_federated_data parameters')
    want = ast.parse(SRB_BODY).body
    got = _nodoc(srb.body)
    if len(got) != len(want) or not all(_same_ast(a, b) for a, b in zip(got, want)):
      raise Unsupported('shuffle_repeat_batch_federated_data: unexpected body')
    pb = _fun(tree, 'padded_batch_federated_data')
    want = ast.parse(PBFD_BODY).body
    got = _nodoc(pb.body)
    if len(got) != len(want) or not all(_same_ast(a, b) for a, b in zip(got, want)):
      raise Unsupported('padded_batch_federated_data: unexpected body')
    return '\n'.join([
        '(* shuffle_repeat_batch_federated_data: ONE RandomState(seed); its first draw seeds the client',
        '   stream (fd.shuffled_clients(client_buffer_size, .)); the same rng then drives the example-level',
        '   buffered_shuffle_batch_client_datasets over the datasets of that stream.  What has been yielded',
        '   after `prefix` (first example_buffer_size + k items) of the item stream was consumed: *)',
        'Definition srb_prefix_gen (pre : list A -> list A) (batch_size example_buffer_size : Z) (code : list nat)',
        '    (draws : list Z) (prefix : list A) (take : nat) : option (list (list A)) :=',
        '  shuffle_repeat_prefix pre batch_size example_buffer_size code draws prefix take.',
        '(* padded_batch_federated_data: padded_batch_client_datasets over the datasets of fd.clients() *)',
        'Definition pbfd_gen (zero : A) (pre : list A -> list A) (batch_size buckets : Z) (clients : list (cds A)) : pres (A:=A) :=',
        '  padded_batch_client_datasets zero pre batch_size buckets clients.'])
  return emit


PRE = ('From FV Require Import Common.Batch Model.C03_Model Model.C15_Model.\n'
       'Section {0}.\nContext {{A : Type}}.\n')

MODULES = {
    'Gen_federated_data_c15': {
        'src': FD, 'preamble': PRE.format('Gen_federated_data_c15'), 'postamble': 'End Gen_federated_data_c15.\n',
        'items': [A_repeatable(), A_wrappers(),
                  A_shuffled_clients('SubsetFederatedData', 'subset_shuffled_clients', 'self.clients()',
                                     ('client_id, dataset', 'client_id, dataset'))],
    },
    'Gen_in_memory_federated_data_c15': {
        'src': IM, 'preamble': PRE.format('Gen_in_memory_federated_data_c15'),
        'postamble': 'End Gen_in_memory_federated_data_c15.\n',
        'items': [A_shuffled_clients('InMemoryFederatedData', 'in_memory_shuffled_clients', 'self.clients()',
                                     ('client_id, dataset', 'client_id, dataset'))],
    },
    'Gen_sqlite_federated_data_c15': {
        'src': SQ, 'preamble': PRE.format('Gen_sqlite_federated_data_c15'),
        'postamble': 'End Gen_sqlite_federated_data_c15.\n',
        'items': [A_shuffled_clients('SQLiteFederatedData', 'sqlite_shuffled_clients', 'self._read_clients()',
                                     ('k, v', 'k, self._client_dataset(k, v)'))],
    },
}
