"""Translator anchors for fedjax/training/federated_experiment.py (C09): where the
loop restarts, which rounds it runs, when a checkpoint / a periodic evaluation is
due, and the round number the final evaluation sees when no round is left.
Fail-closed; the order of effects is tied by the harness (tools/harness/c09.py)."""
import ast

from translate import Ctx, Unsupported, dotted, find_def

SRC = 'fedjax/training/federated_experiment.py'

NAMES = {
    'config.checkpoint_frequency': 'checkpoint_frequency',
    'config.eval_frequency': 'eval_frequency',
    'config.num_rounds': 'num_rounds',
}


class TruthCtx(Ctx):
  """`a and b` / `a or b` / `not a` where an operand is an int: python truthiness
  (nonzero).  Sound here because the value is only used as an `if` condition."""

  def expr(self, e, env, want=None):
    t, ty = self._expr(e, env)
    if want == 'bool' and ty == 'Z':
      return f'(negb ({t} =? 0))', 'bool'
    return super().expr(e, env, want)


def _is_name(e, n):
  return isinstance(e, ast.Name) and e.id == n


def _walk_assigns(fd, target):
  out = []
  for n in ast.walk(fd):
    if isinstance(n, ast.Assign) and len(n.targets) == 1:
      try:
        if dotted(n.targets[0]) == target:
          out.append(n)
      except Unsupported:
        pass
  return out


def emit_loop_control(tree):
  fd = find_def(tree, 'run_federated_experiment')
  ctx = TruthCtx(NAMES)
  # if latest: state, last_round_num = latest; start_round_num = <e1>  else: state = init_state; start_round_num = <e2>
  iff = [s for s in fd.body if isinstance(s, ast.If) and _is_name(s.test, 'latest')]
  if len(iff) != 1:
    raise Unsupported('expected exactly one `if latest:`')
  iff = iff[0]

  def branch_value(stmts, env):
    vals = [s for s in stmts if isinstance(s, ast.Assign) and _is_name(s.targets[0], 'start_round_num')]
    if len(vals) != 1:
      raise Unsupported('start_round_num must be assigned once in each branch of `if latest`')
    return ctx.expr(vals[0].value, env, 'Z')[0]
  unpack = [s for s in iff.body if isinstance(s, ast.Assign) and isinstance(s.targets[0], ast.Tuple)]
  if not (len(unpack) == 1 and [dotted(x) for x in unpack[0].targets[0].elts] == ['state', 'last_round_num'] and
          _is_name(unpack[0].value, 'latest')):
    raise Unsupported('state, last_round_num = latest expected')
  init = [s for s in iff.orelse if isinstance(s, ast.Assign) and _is_name(s.targets[0], 'state')]
  if not (len(init) == 1 and _is_name(init[0].value, 'init_state')):
    raise Unsupported('state = init_state expected in the else branch')
  some = branch_value(iff.body, {'last_round_num': 'Z'})
  none = branch_value(iff.orelse, {})
  if len(_walk_assigns(fd, 'start_round_num')) != 2:
    raise Unsupported('start_round_num assigned elsewhere')
  # client_sampler.set_round_num(start_round_num) directly after
  pos = fd.body.index(iff)
  nxt = fd.body[pos + 1]
  if not (isinstance(nxt, ast.Expr) and isinstance(nxt.value, ast.Call) and dotted(nxt.value.func) == 'client_sampler.set_round_num'
          and len(nxt.value.args) == 1):
    raise Unsupported('client_sampler.set_round_num(...) expected after `if latest`')
  seat = ctx.expr(nxt.value.args[0], {'start_round_num': 'Z'}, 'Z')[0]
  # round_num = <e> before the loop; for round_num in range(a, b)
  loops = [s for s in fd.body if isinstance(s, ast.For) and _is_name(s.target, 'round_num')]
  if len(loops) != 1:
    raise Unsupported('expected exactly one `for round_num in ...`')
  loop = loops[0]
  pre = [s for s in fd.body[:fd.body.index(loop)] if isinstance(s, ast.Assign) and _is_name(s.targets[0], 'round_num')]
  if len(pre) != 1:
    raise Unsupported('round_num must be assigned exactly once before the loop')
  before = ctx.expr(pre[0].value, {'start_round_num': 'Z'}, 'Z')[0]
  it = loop.iter
  if not (isinstance(it, ast.Call) and dotted(it.func) == 'range' and len(it.args) == 2 and not loop.orelse):
    raise Unsupported('range(a, b) expected')
  env = {'start_round_num': 'Z', 'num_rounds': 'Z'}
  ra = ctx.expr(it.args[0], env, 'Z')[0]
  rb = ctx.expr(it.args[1], env, 'Z')[0]
  for s in loop.body:
    for n in ast.walk(s):
      if isinstance(n, (ast.Break, ast.Continue)):
        raise Unsupported('break / continue in the round loop')
      if isinstance(n, ast.Assign) and any(_is_name(t, 'round_num') or _is_name(t, 'start_round_num') for t in n.targets):
        raise Unsupported('round_num / start_round_num assigned inside the loop')
  # should_save_checkpoint / should_run_eval
  env = {'checkpoint_frequency': 'Z', 'eval_frequency': 'Z', 'round_num': 'Z', 'start_round_num': 'Z'}

  def cond(name):
    a = [s for s in loop.body if isinstance(s, ast.Assign) and _is_name(s.targets[0], name)]
    if len(a) != 1:
      raise Unsupported(f'{name} must be assigned exactly once in the loop body')
    guard = [s for s in loop.body if isinstance(s, ast.If) and _is_name(s.test, name)]
    if len(guard) != 1 or guard[0].orelse:
      raise Unsupported(f'`if {name}:` expected')
    return ctx.expr(a[0].value, env, 'bool')[0], guard[0]
  save, gsave = cond('should_save_checkpoint')
  ev, _ = cond('should_run_eval')
  call = gsave.body[0].value if len(gsave.body) == 1 and isinstance(gsave.body[0], ast.Expr) else None
  if not (isinstance(call, ast.Call) and dotted(call.func) == 'checkpoint.save_checkpoint' and
          [dotted(a) for a in call.args] == ['config.root_dir', 'state', 'round_num', 'config.num_checkpoints_to_keep']
          and not call.keywords):
    raise Unsupported('checkpoint.save_checkpoint(config.root_dir, state, round_num, config.num_checkpoints_to_keep) expected')
  # ORDER inside the round loop (fail-closed): sample, apply, save the checkpoint, then evaluate
  def pos(pred, what):
    idx = [i for i, st in enumerate(loop.body) if pred(st)]
    if len(idx) != 1:
      raise Unsupported(f'round loop: expected exactly one `{what}`')
    return idx[0]
  p_sample = pos(lambda st: isinstance(st, ast.Assign) and _is_name(st.targets[0], 'clients') and
                 isinstance(st.value, ast.Call) and dotted(st.value.func) == 'client_sampler.sample', 'clients = client_sampler.sample()')
  p_apply = pos(lambda st: isinstance(st, ast.Assign) and isinstance(st.value, ast.Call) and
                dotted(st.value.func) == 'algorithm.apply' and [dotted(a) for a in st.value.args] == ['state', 'clients'] and
                isinstance(st.targets[0], ast.Tuple) and _is_name(st.targets[0].elts[0], 'state'), 'state, _ = algorithm.apply(state, clients)')
  p_save = loop.body.index(gsave)
  p_eval = pos(lambda st: isinstance(st, ast.If) and _is_name(st.test, 'should_run_eval'), 'if should_run_eval')
  if not p_sample < p_apply < p_save < p_eval:
    raise Unsupported('round loop: expected the order sample, apply, save checkpoint, evaluate')
  if fd.body.index(loop) > [i for i, st in enumerate(fd.body) if isinstance(st, ast.For) and isinstance(st.iter, ast.Call)
                            and dotted(st.iter.func) == 'final_eval_fn_map.items'][0]:
    raise Unsupported('final evaluation must follow the round loop')
  # final evaluation: eval_fn(state, round_num)
  fin = [s for s in fd.body if isinstance(s, ast.For) and isinstance(s.iter, ast.Call) and
         dotted(s.iter.func) == 'final_eval_fn_map.items']
  if len(fin) != 1:
    raise Unsupported('final evaluation loop not found')
  m = fin[0].body[0]
  if not (isinstance(m, ast.Assign) and _is_name(m.targets[0], 'metrics') and isinstance(m.value, ast.Call) and
          _is_name(m.value.func, 'eval_fn') and [dotted(a) for a in m.value.args] == ['state', 'round_num']):
    raise Unsupported('metrics = eval_fn(state, round_num) expected in the final evaluation')
  # metrics_path = os.path.join(config.root_dir, f'{eval_name}<suffix>')
  mp = [n for n in ast.walk(fin[0]) if isinstance(n, ast.Assign) and _is_name(n.targets[0], 'metrics_path')]
  if not (len(mp) == 1 and isinstance(mp[0].value, ast.Call) and dotted(mp[0].value.func) == 'os.path.join' and
          len(mp[0].value.args) == 2 and dotted(mp[0].value.args[0]) == 'config.root_dir' and
          isinstance(mp[0].value.args[1], ast.JoinedStr)):
    raise Unsupported("metrics_path = os.path.join(config.root_dir, f'{eval_name}...') expected")
  js = mp[0].value.args[1].values
  if not (len(js) == 2 and isinstance(js[0], ast.FormattedValue) and _is_name(js[0].value, 'eval_name') and
          js[0].format_spec is None and js[0].conversion == -1 and isinstance(js[1], ast.Constant) and
          isinstance(js[1].value, str)):
    raise Unsupported("f'{eval_name}<literal>' expected")
  tsv_suffix = '[' + '; '.join(str(b) for b in js[1].value.encode()) + ']'
  wr = [n for n in ast.walk(fin[0]) if isinstance(n, ast.With)]
  if not (len(wr) == 1 and isinstance(wr[0].items[0].context_expr, ast.Call) and
          dotted(wr[0].items[0].context_expr.func) == 'tf.io.gfile.GFile' and
          _is_name(wr[0].items[0].context_expr.args[0], 'metrics_path')):
    raise Unsupported('with tf.io.gfile.GFile(metrics_path, ...) expected in the final evaluation')
  return '\n'.join([
      'Definition start_round_num (last : option Z) : Z :=',
      f'  match last with Some last_round_num => {some} | None => {none} end.',
      '(* the round number the sampler is re-seated to *)',
      f'Definition sampler_round_num (start_round_num : Z) : Z := {seat}.',
      '(* value of round_num when the loop body never runs *)',
      f'Definition round_num_before_loop (start_round_num : Z) : Z := {before}.',
      f'Definition round_range (start_round_num num_rounds : Z) : list Z := py_range {ra} {rb} 1.',
      'Definition should_save_checkpoint (checkpoint_frequency round_num start_round_num : Z) : bool :=',
      f'  {save}.',
      'Definition should_run_eval (eval_frequency round_num start_round_num : Z) : bool :=',
      f'  {ev}.',
      '(* name (relative to root_dir) of the file a final evaluation writes *)',
      f'Definition metrics_file_name (eval_name : list Z) : list Z := eval_name ++ {tsv_suffix}.',
  ])


# ---- determinism recogniser (wave 5, item 4): nothing in this code may depend on the process (hash seed, object
# identity, clock, environment, pid, unseeded random numbers); fail-closed

def _forbid_process_dependence(tree, time_ok_in=()):
  """Raises Unsupported on hash(), id(), uuid, random, np.random, os.environ, os.getpid anywhere, and on any use of
  `time` outside the functions listed in time_ok_in."""
  def scan(node, fn):
    for ch in ast.iter_child_nodes(node):
      f = ch.name if isinstance(ch, ast.FunctionDef) else fn
      if isinstance(ch, ast.Call) and isinstance(ch.func, ast.Name) and ch.func.id in ('hash', 'id'):
        raise Unsupported(f'{ch.func.id}() in {fn or "module"}: depends on the process')
      if isinstance(ch, ast.Attribute):
        try:
          d = dotted(ch)
        except Unsupported:
          d = ''
        if d.startswith(('uuid.', 'random.', 'np.random.', 'numpy.random.', 'os.environ', 'os.getpid', 'secrets.')):
          raise Unsupported(f'{d} in {fn or "module"}: depends on the process')
        if d.startswith('time.') and fn not in time_ok_in:
          raise Unsupported(f'{d} in {fn or "module"}')
      scan(ch, f)
  scan(tree, None)


def emit_deterministic(tree):
  """run_federated_experiment reads the clock, but only into variables that are logged: every name that (transitively)
  holds a clock value may be used only in further such assignments and in arguments of logger.log / logging.info."""
  _forbid_process_dependence(tree, time_ok_in=('run_federated_experiment',))
  fd = find_def(tree, 'run_federated_experiment')

  def uses_clock(e, tainted):
    for n in ast.walk(e):
      if isinstance(n, ast.Attribute):
        try:
          if dotted(n).startswith('time.'):
            return True
        except Unsupported:
          pass
      if isinstance(n, ast.Name) and isinstance(n.ctx, ast.Load) and n.id in tainted:
        return True
    return False
  tainted = set()
  changed = True
  while changed:
    changed = False
    for n in ast.walk(fd):
      if isinstance(n, ast.Assign) and len(n.targets) == 1 and isinstance(n.targets[0], ast.Name) and \
          uses_clock(n.value, tainted) and n.targets[0].id not in tainted:
        tainted.add(n.targets[0].id)
        changed = True
  allowed_sinks = ('logger.log', 'logging.info')

  def check(node, in_sink):
    for ch in ast.iter_child_nodes(node):
      sink = in_sink
      if isinstance(ch, ast.Call):
        try:
          sink = sink or dotted(ch.func) in allowed_sinks
        except Unsupported:
          pass
      if isinstance(ch, ast.Assign) and len(ch.targets) == 1 and isinstance(ch.targets[0], ast.Name) and \
          ch.targets[0].id in tainted:
        continue                      # clock value flowing into another clock variable
      if not sink:
        if isinstance(ch, ast.Name) and isinstance(ch.ctx, ast.Load) and ch.id in tainted:
          raise Unsupported(f'clock-dependent value {ch.id} is used outside logging')
        if isinstance(ch, ast.Attribute):
          try:
            if dotted(ch).startswith('time.'):
              raise Unsupported('time.* used outside a duration assignment / logging')
          except Unsupported as ex:
            if 'time.*' in str(ex):
              raise
      check(ch, sink)
  check(fd, False)
  for bad in ('state', 'round_num', 'start_round_num', 'clients', 'metrics', 'should_save_checkpoint', 'should_run_eval'):
    if bad in tainted:
      raise Unsupported(f'{bad} depends on the clock')
  return 'Definition experiment_loop_is_process_independent : bool := true.'



MODULES = {
    'Gen_federated_experiment': {
        'src': SRC,
        'items': [emit_loop_control, emit_deterministic],
    },
}
