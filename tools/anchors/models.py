"""Translator anchors for fedjax/core/models.py: _evaluate_model_step, evaluate_model and the
ModelEvaluator client functions (C05).  Structural (tools/lib/pat.py), fail-closed.  Per metric, a
batch is (mask feature or None, per-row statistics); the Stat operations are section variables:
metric_zero (rank-K zero()), stat_merge, stat_reduce (reduce over the batch axis), stat_result."""
from translate import find_def
from lib.pat import match_def

MO = 'fedjax/core/models.py'


def emit_step(tree):
  """The mask is the batch's mask feature, or all-True of the batch length when the key is absent
  (KeyError branch); every metric is evaluated with that mask and merged into the running stat
  (tree_map over the dict of Stats = per metric)."""
  h = match_def(find_def(tree, '_evaluate_model_step'), '''
@functools.partial(jax.jit, static_argnums=0)
def _evaluate_model_step(H_model, H_params, H_batch, H_stat):
  try:
    H_mask = H_batch[client_datasets.EXAMPLE_MASK_KEY].astype(jnp.bool_)
  except KeyError:
    H_mask = jnp.ones([len(next(iter(H_batch.values())))], dtype=jnp.bool_)
  H_pred = H_model.apply_for_eval(H_params, H_batch)
  H_new = {H_k: metrics.evaluate_batch(H_metric, H_batch, H_pred, H_mask) for H_k, H_metric in H_model.eval_metrics.items()}
  return jax.tree_util.tree_map(lambda H_a, H_b: H_a.merge(H_b), H_stat, H_new, is_leaf=lambda H_v: isinstance(H_v, metrics.Stat))
''', '_evaluate_model_step')
  b, st, mk, nw = h['batch'], h['stat'], h['mask'], h['new']
  return (f'Definition evaluate_model_step ({b} : option (list bool) * list (list A)) ({st} : list A) : list A :=\n'
          f'  let {mk} := match fst {b} with Some m => m | None => repeat true (length (snd {b})) end in\n'
          f'  let {nw} := evaluate_batch metric_zero stat_reduce (snd {b}) (Some {mk}) in\n'
          f'  (fun {h["a"]} {h["b"]} => stat_merge {h["a"]} {h["b"]}) {st} {nw}.')


def emit_evaluate_model(tree):
  h = match_def(find_def(tree, 'evaluate_model'), '''
def evaluate_model(H_model, H_params, H_batches):
  H_stat = {H_k: H_metric.zero() for H_k, H_metric in H_model.eval_metrics.items()}
  for H_batch in H_batches:
    H_stat = _evaluate_model_step(H_model, H_params, H_batch, H_stat)
  return jax.tree_util.tree_map(lambda H_x: H_x.result(), H_stat, is_leaf=lambda H_v: isinstance(H_v, metrics.Stat))
''', 'evaluate_model')
  st, bs, b = h['stat'], h['batches'], h['batch']
  return (f'Definition evaluate_model_stat ({bs} : list (option (list bool) * list (list A))) : list A :=\n'
          f'  let {st} := metric_zero in\n'
          f'  fold_left (fun {st} {b} => evaluate_model_step {b} {st}) {bs} {st}.\n'
          f'Definition evaluate_model ({bs} : list (option (list bool) * list (list A))) : list R :=\n'
          f'  (fun {h["x"]} => stat_result {h["x"]}) (evaluate_model_stat {bs}).')


def emit_evaluator(tree):
  """ModelEvaluator.__init__: client_init starts from zero(), client_step is _evaluate_model_step on
  the stat component, client_final is result(); for_each_client runs them as a sequential fold per
  client (that is property C02)."""
  init = find_def(tree, 'ModelEvaluator.__init__')
  h = match_def(find_def(tree, 'ModelEvaluator.__init__.client_init'), '''
def client_init(H_shared, H_client):
  if H_shared is not None:
    H_params = H_shared
  else:
    H_params = H_client
  H_stat = {H_k: H_metric.zero() for H_k, H_metric in model.eval_metrics.items()}
  return H_params, H_stat
''', 'client_init')
  match_def(find_def(tree, 'ModelEvaluator.__init__.client_step'), '''
def client_step(H_state, H_batch):
  H_params, H_stat = H_state
  H_next = _evaluate_model_step(model, H_params, H_batch, H_stat)
  return H_params, H_next
''', 'client_step')
  match_def(find_def(tree, 'ModelEvaluator.__init__.client_final'), '''
def client_final(H_shared, H_state):
  del H_shared
  _, H_stat = H_state
  return {H_k: H_v.result() for H_k, H_v in H_stat.items()}
''', 'client_final')
  del init, h
  return ('Definition evaluator_client_init : list A := metric_zero.\n'
          'Definition evaluator_client_step (stat : list A) (batch : option (list bool) * list (list A)) : list A :=\n'
          '  evaluate_model_step batch stat.\n'
          'Definition evaluator_client_final (stat : list A) : list R := stat_result stat.\n'
          'Definition evaluator_client (batches : list (option (list bool) * list (list A))) : list R :=\n'
          '  evaluator_client_final (fold_left evaluator_client_step batches evaluator_client_init).')


MODULES = {
    'Gen_models': {
        'src': MO,
        'preamble': ('From FV Require Import Common.CMonoid gen.Gen_metrics.\n'
                     'Section eval_model.\n'
                     'Context {A R : Type} (metric_zero : list A) (stat_merge : list A -> list A -> list A)\n'
                     '        (stat_reduce : list (list A) -> list A) (stat_result : list A -> list R).\n'),
        'postamble': 'End eval_model.\n',
        'items': [emit_step, emit_evaluate_model, emit_evaluator],
    },
}
