"""Translator anchors for the multi-client functions of fedjax/core/client_datasets.py (C15).

`padded_batch_client_datasets` is a generator whose state lives in local variables
(preprocessor, features, buf, buf_size) and whose loop body contains `continue`,
`raise`, `yield`, `buf.append/clear` and a nested `while`.  This file adds a small,
fail-closed compiler for exactly that shape ("generator step"):

  * the assignments before `for dataset in datasets:`  ->  pbcd_init : pst  and
    pbcd_full_mask,
  * the loop body                                      ->  pbcd_step : ... -> pst -> cds A -> step_res
    (`yield e` appends to the output component of the state, `continue` / falling off
    the end returns SNext, `raise ValueError(..)` returns SRaise),
  * nested `while` loops                               ->  Fixpoints on explicit fuel,
  * the statements after the loop                      ->  pbcd_finish : ... -> pst -> pres.

Expressions go through the shared translator (`translate.Ctx`) extended with the
calls that occur here.  Anything outside the recognised forms raises Unsupported.
Proofs/C15_Proofs.v proves the generated functions equal to the hand-written model
(Model/C15_Model.v) that the theorems and the correspondence are about.
"""
import ast

from translate import Ctx, Unsupported, dotted
from anchors.client_datasets import _slice_examples, _np_ones_bool

CD = 'fedjax/core/client_datasets.py'

TY = {'Z': 'Z', 'bool': 'bool', 'optZ': '(option Z)', 'rows': '(list A)', 'pieces': '(list (list A))',
      'mask': '(list bool)', 'batch': '(batch A)', 'batches': '(list (batch A))', 'cds': '(cds A)',
      'elt': 'A', 'items': '(list A)', 'outs': '(list (list A))'}
# python lists the compilers know: type of the list -> type of its elements
LISTS = {'pieces': 'rows', 'items': 'elt'}

HPARAMS_PRELUDE = '''
if hparams is None:
  hparams = PaddedBatchHParams(**kwargs)
elif kwargs:
  hparams = hparams.replace(**kwargs)
'''


class MultiCtx(Ctx):
  """Expressions of padded_batch_client_datasets."""

  def _expr(self, e, env):
    if isinstance(e, ast.List) and not e.elts:
      return '[]', 'pieces'
    return super()._expr(e, env)

  def name(self, e, env):
    d = dotted(e)
    if d in ('dataset.preprocessor', 'dataset.raw_examples'):
      if env.get('dataset') != 'cds':
        raise Unsupported('dataset used outside the loop body')
      return ('(d_pre dataset)', 'Z') if d == 'dataset.preprocessor' else ('(d_rows dataset)', 'rows')
    return super().name(e, env)

  def compare(self, left, op, right, env):
    # identity of two preprocessor objects
    if isinstance(op, (ast.Is, ast.IsNot)) and not (isinstance(right, ast.Constant) and right.value is None):
      a, ta = self.expr(left, env)
      b, tb = self.expr(right, env)
      if ta != 'Z' or tb != 'Z':
        raise Unsupported('`is` between non-identities')
      r = f'({a} =? {b})'
      return r if isinstance(op, ast.Is) else f'(negb {r})'
    return super().compare(left, op, right, env)


def _set_of_raw(ctx, e, env):
  # set(dataset.raw_examples): the feature-name set, an identity in the model
  if len(e.args) != 1 or e.keywords or dotted(e.args[0]) != 'dataset.raw_examples':
    raise Unsupported('set(...) of something else than dataset.raw_examples')
  return '(d_feat dataset)', 'Z'


def _len_dataset(ctx, e, env):
  if len(e.args) != 1 or e.keywords or dotted(e.args[0]) != 'dataset':
    raise Unsupported('len(...) of something else than the dataset')
  return '(Z.of_nat (length (d_rows dataset)))', 'Z'


CALLS = {
    'slice_examples': _slice_examples,
    'np.ones': _np_ones_bool,
    'set': _set_of_raw,
    'len': _len_dataset,
    'preprocessor': ('pre {0}', ['rows'], 'rows'),
    'concat_examples': ('concat {0}', ['pieces'], 'rows'),
    'attach_mask': ('attach_mask {0} {1}', ['rows', 'mask'], 'batch'),
    'pad_examples': ('pad_examples zero {0} {1}', ['rows', 'Z'], 'batch'),
}
NAMES = {'hparams.batch_size': 'batch_size', 'hparams.num_batch_size_buckets': 'num_batch_size_buckets'}

STATE = ['preprocessor', 'features', 'buf', 'buf_size']      # + the output `out`


class GenStep:
  """CPS compiler of one generator segment.  `mode` selects the constructors used
  for the three exits: 'step' (SNext / SRaise / SFuel) or 'finish' (PDone / PValueError / PStuck)."""

  def __init__(self, prefix, ctx, mode):
    self.prefix, self.ctx, self.mode = prefix, ctx, mode
    self.aux, self.nloops, self.memo = [], 0, {}

  # -- exits
  def pack(self, env):
    def opt(v):
      return f'(Some {v})' if env[v] == 'Z' else v
    st = f'(mk_pst {opt("preprocessor")} {opt("features")} buf buf_size out)'
    return f'SNext {st}' if self.mode == 'step' else 'PDone out'

  def raised(self):
    return 'SRaise out' if self.mode == 'step' else 'PValueError out'

  def stuck(self):
    return 'SFuel' if self.mode == 'step' else 'PStuck'

  def expr(self, e, env, want=None):
    return self.ctx.expr(e, env, want)

  def yielded(self, e, env):
    return self.expr(e, env, 'batch')[0]

  # -- statements
  def block(self, stmts, env, k):
    if not stmts:
      return k(env)
    s, rest = stmts[0], stmts[1:]
    if isinstance(s, ast.Expr) and isinstance(s.value, ast.Constant):
      return self.block(rest, env, k)
    if isinstance(s, ast.Continue):
      if self.mode != 'step':
        raise Unsupported('continue outside the loop body')
      return self.pack(env)
    if isinstance(s, ast.Raise):
      if not (isinstance(s.exc, ast.Call) and dotted(s.exc.func) == 'ValueError'):
        raise Unsupported('raise of something else than ValueError(...)')
      return self.raised()
    if isinstance(s, ast.Assign):
      if len(s.targets) != 1 or not isinstance(s.targets[0], ast.Name):
        raise Unsupported('assignment target')
      n = s.targets[0].id
      v = s.value
      if isinstance(v, ast.Call) and not isinstance(v.func, ast.Call) and dotted(v.func) == '_pick_final_batch_size':
        if len(v.args) != 3 or v.keywords:
          raise Unsupported('_pick_final_batch_size arity')
        a, b, c = (self.expr(x, env, 'Z')[0] for x in v.args)
        env2 = dict(env)
        env2[n] = 'Z'
        return (f'(match pick {a} {b} {c} with Some {n} => {self.block(rest, env2, k)} '
                f'| None => {self.stuck()} end)')
      t, ty = self.expr(v, env)
      env2 = dict(env)
      env2[n] = ty
      return f'let {n} := {t} in ' + self.block(rest, env2, k)
    if isinstance(s, ast.AugAssign):
      if not isinstance(s.op, (ast.Add, ast.Sub)) or not isinstance(s.target, ast.Name):
        raise Unsupported('augmented assignment')
      n = s.target.id
      cur, _ = self.expr(s.target, env, 'Z')
      v, _ = self.expr(s.value, env, 'Z')
      op = '+' if isinstance(s.op, ast.Add) else '-'
      return f'let {n} := ({cur} {op} {v}) in ' + self.block(rest, env, k)
    if isinstance(s, ast.Expr) and isinstance(s.value, ast.Yield):
      v = self.yielded(s.value.value, env)
      return f'let out := (out ++ [{v}]) in ' + self.block(rest, env, k)
    if isinstance(s, ast.Expr) and isinstance(s.value, ast.Call) and isinstance(s.value.func, ast.Attribute) \
        and isinstance(s.value.func.value, ast.Name) and env.get(s.value.func.value.id) in LISTS:
      lst, meth, call = s.value.func.value.id, s.value.func.attr, s.value
      if meth == 'append' and len(call.args) == 1 and not call.keywords:
        v, _ = self.expr(call.args[0], env, LISTS[env[lst]])
        return f'let {lst} := ({lst} ++ [{v}]) in ' + self.block(rest, env, k)
      if meth == 'clear' and not call.args and not call.keywords:
        return f'let {lst} := [] in ' + self.block(rest, env, k)
      raise Unsupported('list method ' + meth)
    if isinstance(s, ast.If):
      test = s.test
      # `x is None` / `x is not None` on an optional state variable refines its type
      if (isinstance(test, ast.Compare) and len(test.ops) == 1 and isinstance(test.ops[0], (ast.Is, ast.IsNot)) and
          isinstance(test.comparators[0], ast.Constant) and test.comparators[0].value is None and
          isinstance(test.left, ast.Name)):
        x = test.left.id
        if env.get(x) != 'optZ':
          raise Unsupported('`is None` on a non-optional')
        some_env = dict(env)
        some_env[x] = 'Z'
        body_some, body_none = (s.orelse, s.body) if isinstance(test.ops[0], ast.Is) else (s.body, s.orelse)
        a = self.block(body_some + rest, some_env, k)
        b = self.block(body_none + rest, env, k)
        return f'(match {x} with Some {x} => {a} | None => {b} end)'
      # truthiness of a list
      if isinstance(test, ast.Name) and env.get(test.id) in LISTS:
        a = self.block(s.body + rest, env, k)
        b = self.block(s.orelse + rest, env, k)
        return f'(match {test.id} with _ :: _ => {a} | [] => {b} end)'
      c, _ = self.expr(test, env, 'bool')
      a = self.block(s.body + rest, env, k)
      b = self.block(s.orelse + rest, env, k)
      return f'(if {c} then {a} else {b})'
    if isinstance(s, ast.While):
      if s.orelse:
        raise Unsupported('while-else')
      mod = self.modified(s.body)
      for v in mod:
        if v not in env:
          raise Unsupported(f'loop variable {v} not initialised before the loop')
      used = self.used(s)
      params = [v for v in env if v in used or v in mod]
      tup = '(' + ', '.join(mod) + ')'
      key = (id(s), tuple((v, env[v]) for v in params))
      if key in self.memo:       # the same source loop reached along another path: one Fixpoint
        loop = self.memo[key]
      else:
        self.nloops += 1
        loop = f'{self.prefix}_loop{self.nloops}'
        self.memo[key] = loop
        c, _ = self.expr(s.test, env, 'bool')
        ret = ' * '.join(TY[env[v]] for v in mod)
        sub = GenStep(self.prefix, self.ctx, self.mode)
        body = sub.block(s.body, env, lambda e: f'{loop} fuel {" ".join(params)}')
        if sub.aux:
          raise Unsupported('nested while inside while')
        if 'SRaise' in body or 'SNext' in body or 'PDone' in body:
          raise Unsupported('continue / raise inside while')
        ps = ' '.join(f'({v} : {TY[env[v]]})' for v in params)
        self.aux.append(
            f'Fixpoint {loop} (fuel : nat) {ps} {{struct fuel}} : option ({ret}) :=\n'
            f'  match fuel with O => None | S fuel =>\n'
            f'  if {c} then {body}\n  else Some {tup} end.')
      after = self.block(rest, env, k)
      return (f'(match {loop} {self.prefix}_fuel {" ".join(params)} with Some {tup} => {after} '
              f'| None => {self.stuck()} end)')
    raise Unsupported('statement ' + ast.dump(s)[:160])

  def modified(self, stmts):
    out = []

    def add(n):
      if n not in out:
        out.append(n)
    for s in stmts:
      if isinstance(s, ast.Assign) and isinstance(s.targets[0], ast.Name):
        add(s.targets[0].id)
      elif isinstance(s, ast.AugAssign) and isinstance(s.target, ast.Name):
        add(s.target.id)
      elif isinstance(s, ast.Expr) and isinstance(s.value, ast.Yield):
        add('out')
      elif isinstance(s, ast.Expr) and isinstance(s.value, ast.Call) and isinstance(s.value.func, ast.Attribute) \
          and isinstance(s.value.func.value, ast.Name):
        add(s.value.func.value.id)
      elif isinstance(s, (ast.If, ast.While)):
        for n in self.modified(s.body) + self.modified(s.orelse):
          add(n)
      elif isinstance(s, (ast.Raise, ast.Continue)):
        pass      # rejected inside `while` by the exit check in block()
      else:
        raise Unsupported('statement ' + ast.dump(s)[:120])
    return out

  def used(self, node):
    names = set()
    callees = {id(n.func) for n in ast.walk(node) if isinstance(n, ast.Call)}
    for n in ast.walk(node):
      if isinstance(n, ast.Name) and id(n) not in callees:
        names.add(n.id)
      if isinstance(n, ast.Attribute):
        try:
          d = dotted(n)
        except Unsupported:
          continue
        if d in NAMES:
          names.add(NAMES[d])
        if d.startswith('dataset.'):
          names.add('dataset')
    if any(isinstance(n, ast.Yield) for n in ast.walk(node)):
      names.add('out')
    return names


def _same_ast(a, b):
  return ast.dump(a) == ast.dump(b)


# ===========================================================================
# buffered_shuffle_batch_client_datasets: gen_items() loop body and the batching loop

ITEM_LOOP = "for i in range(len(dataset)):\n  yield (dataset.raw_examples, i)\n"
BATCH_EXPR = "preprocessor(concat_examples([slice_examples(e, slice(i, i + 1)) for e, i in buf]))"


class ItemsStep(GenStep):
  """Loop body of gen_items(): state (preprocessor, features, items)."""

  def pack(self, env):
    def opt(v):
      return f'(Some {v})' if env[v] == 'Z' else v
    return f'GNext {opt("preprocessor")} {opt("features")} items'

  def raised(self):
    return 'GRaise items'

  def stuck(self):
    raise Unsupported('loop on fuel inside gen_items')

  def block(self, stmts, env, k):
    if stmts:
      s, rest = stmts[0], stmts[1:]
      # `yield preprocessor`: the first value of the generator (consumed by next(it)), not an item;
      # its position (right after `preprocessor = dataset.preprocessor`) is checked by the anchor
      if isinstance(s, ast.Expr) and isinstance(s.value, ast.Yield) and isinstance(s.value.value, ast.Name) \
          and s.value.value.id == 'preprocessor':
        if env.get('preprocessor') != 'Z':
          raise Unsupported('yield preprocessor before it is known')
        return self.block(rest, env, k)
      if isinstance(s, ast.For):
        if not _same_ast(s, ast.parse(ITEM_LOOP).body[0]):
          raise Unsupported('gen_items: unexpected inner loop')
        return 'let items := (items ++ (d_rows dataset)) in ' + self.block(rest, env, k)
    return super().block(stmts, env, k)


def _len_of_list(ctx, e, env):
  if len(e.args) != 1 or e.keywords or not isinstance(e.args[0], ast.Name) or env.get(e.args[0].id) not in LISTS:
    raise Unsupported('len(...) of something else than a known list')
  return f'(Z.of_nat (length {e.args[0].id}))', 'Z'


class BatchStep(GenStep):
  """Batching loop of buffered_shuffle_batch_client_datasets: state (buf, out)."""

  def pack(self, env):
    return '(buf, out)'

  def raised(self):
    raise Unsupported('raise in the batching loop')

  def stuck(self):
    raise Unsupported('loop on fuel in the batching loop')

  def yielded(self, e, env):
    if not _same_ast(e, ast.parse(BATCH_EXPR, mode='eval').body) or env.get('buf') != 'items':
      raise Unsupported('batching loop: unexpected yielded expression')
    return '(pre buf)'


# ===========================================================================
# buffered_shuffle: loop body on the state (buf, draws, out); None = IndexError

class ShufStep:
  """Statements: tuple assignment whose sources / targets are element names or
  `buf[<int expr>]` (right-hand sides left to right, then the stores left to right),
  `x = rng.randint(buffer_size)` (next oracle draw), `if <int comparison>:`, `yield <name>`."""

  def __init__(self):
    self.ctx = Ctx({}, {})

  def idx(self, e, env):
    return self.ctx.expr(e, {k: v for k, v in env.items() if v == 'Z'}, 'Z')[0]

  def is_sub(self, e):
    return isinstance(e, ast.Subscript) and isinstance(e.value, ast.Name) and e.value.id == 'buf'

  def block(self, stmts, env, k):
    if not stmts:
      return k(env)
    s, rest = stmts[0], stmts[1:]
    if isinstance(s, ast.Assign) and len(s.targets) == 1 and isinstance(s.targets[0], ast.Tuple):
      tg, vs = s.targets[0].elts, s.value
      if not isinstance(vs, ast.Tuple) or len(vs.elts) != len(tg):
        raise Unsupported('tuple assignment shape')
      env2 = dict(env)

      def stores(j):
        if j == len(tg):
          return self.block(rest, env2, k)
        t = tg[j]
        if isinstance(t, ast.Name):
          env2[t.id] = 'elt'
          return f'let {t.id} := rhs{j} in ' + stores(j + 1)
        if self.is_sub(t):
          return f'(match py_set buf {self.idx(t.slice, env)} rhs{j} with None => None | Some buf => {stores(j + 1)} end)'
        raise Unsupported('assignment target ' + ast.dump(t)[:80])

      def loads(j):
        if j == len(tg):
          return stores(0)
        v = vs.elts[j]
        if isinstance(v, ast.Name) and env.get(v.id) == 'elt':
          return f'let rhs{j} := {v.id} in ' + loads(j + 1)
        if self.is_sub(v):
          return f'(match py_get buf {self.idx(v.slice, env)} with None => None | Some rhs{j} => {loads(j + 1)} end)'
        raise Unsupported('assignment source ' + ast.dump(v)[:80])
      return loads(0)
    if isinstance(s, ast.Assign) and len(s.targets) == 1 and isinstance(s.targets[0], ast.Name) and \
        _same_ast(s.value, ast.parse('rng.randint(buffer_size)', mode='eval').body):
      n = s.targets[0].id
      env2 = dict(env)
      env2[n] = 'Z'
      return f'let {n} := hd 0 draws in let draws := tl draws in ' + self.block(rest, env2, k)
    if isinstance(s, ast.If):
      c = self.ctx.expr(s.test, {a: b for a, b in env.items() if b == 'Z'}, 'bool')[0]
      return f'(if {c} then {self.block(s.body + rest, env, k)} else {self.block(s.orelse + rest, env, k)})'
    if isinstance(s, ast.Expr) and isinstance(s.value, ast.Yield) and isinstance(s.value.value, ast.Name) \
        and env.get(s.value.value.id) == 'elt':
      return f'let out := (out ++ [{s.value.value.id}]) in ' + self.block(rest, env, k)
    raise Unsupported('buffered_shuffle statement ' + ast.dump(s)[:120])


SHUF_PROLOGUE = "it = iter(source)\nbuf = list(itertools.islice(it, buffer_size))\nrng.shuffle(buf)\n"
SHUF_EPILOGUE = "for i in buf:\n  yield i\n"


def _top_def(tree, name):
  for n in tree.body:
    if isinstance(n, ast.FunctionDef) and n.name == name:
      return n
  raise Unsupported(name + ' not found')


def _nodoc(body):
  return [s for s in body if not (isinstance(s, ast.Expr) and isinstance(s.value, ast.Constant))]


def A_buffered_shuffle():
  def emit(tree):
    fd = _top_def(tree, 'buffered_shuffle')
    if [a.arg for a in fd.args.args] != ['source', 'buffer_size', 'rng']:
      raise Unsupported('buffered_shuffle parameters')
    body = _nodoc(fd.body)
    pro = ast.parse(SHUF_PROLOGUE).body
    if len(body) != len(pro) + 2 or not all(_same_ast(a, b) for a, b in zip(body, pro)):
      raise Unsupported('buffered_shuffle: unexpected prologue')
    loop, epi = body[len(pro):]
    if not (isinstance(loop, ast.For) and isinstance(loop.target, ast.Name) and loop.target.id == 'i' and
            isinstance(loop.iter, ast.Name) and loop.iter.id == 'it' and not loop.orelse):
      raise Unsupported('buffered_shuffle: loop header')
    if not _same_ast(epi, ast.parse(SHUF_EPILOGUE).body[0]):
      raise Unsupported('buffered_shuffle: unexpected epilogue')
    step = ShufStep().block(loop.body, {'buffer_size': 'Z', 'i': 'elt'}, lambda env: 'Some (buf, draws, out)')
    return '\n'.join([
        '(* it = iter(source); buf = list(itertools.islice(it, buffer_size)): (buf, rest of it) *)',
        'Definition bshuf_fill (buffer_size : Z) (source : list A) : list A * list A :=',
        '  (firstn (Z.to_nat buffer_size) source, skipn (Z.to_nat buffer_size) source).',
        '(* rng.shuffle(buf): the oracle is the Lehmer code of the permutation *)',
        'Definition bshuf_shuffle (code : list nat) (buf : list A) : list A := apply_code code buf.',
        '(* body of `for i in it:` *)',
        'Definition bshuf_step (buffer_size : Z) (st : list A * list Z * list A) (i : A) : option (list A * list Z * list A) :=',
        "  let '(buf, draws, out) := st in " + step + '.',
        '(* for i in buf: yield i *)',
        'Definition bshuf_drain (buf out : list A) : list A := out ++ buf.'])
  return emit


SB_TAIL = """it = gen_items()
try:
  preprocessor = next(it)
except StopIteration:
  return
buf = []
"""


def A_shuffle_batch():
  def emit(tree):
    fd = _top_def(tree, 'buffered_shuffle_batch_client_datasets')
    if [a.arg for a in fd.args.args] != ['datasets', 'batch_size', 'buffer_size', 'rng']:
      raise Unsupported('buffered_shuffle_batch_client_datasets parameters')
    body = _nodoc(fd.body)
    if not body or not isinstance(body[0], ast.FunctionDef) or body[0].name != 'gen_items' or body[0].args.args:
      raise Unsupported('gen_items not found')
    gi = _nodoc(body[0].body)
    want = ast.parse('preprocessor = None\nfeatures = None\n').body
    if len(gi) != 3 or not all(_same_ast(a, b) for a, b in zip(gi, want)) or not isinstance(gi[2], ast.For):
      raise Unsupported('gen_items: shape')
    loop = gi[2]
    if not (isinstance(loop.target, ast.Name) and loop.target.id == 'dataset' and isinstance(loop.iter, ast.Name) and
            loop.iter.id == 'datasets' and not loop.orelse):
      raise Unsupported('gen_items: loop header')
    # `yield preprocessor` exactly once, right after the first assignment of the None-branch
    ys = [n for n in ast.walk(loop) if isinstance(n, ast.Yield) and isinstance(n.value, ast.Name)]
    first = loop.body[0] if loop.body else None
    if len(ys) != 1 or not (isinstance(first, ast.If) and len(first.body) == 2 and
                            _same_ast(first.body[0], ast.parse('preprocessor = dataset.preprocessor').body[0]) and
                            isinstance(first.body[1], ast.Expr) and first.body[1].value is ys[0]):
      raise Unsupported('gen_items: position of `yield preprocessor`')
    ctx = MultiCtx(NAMES, CALLS)
    g = ItemsStep('gi', ctx, 'step')
    env = {'preprocessor': 'optZ', 'features': 'optZ', 'items': 'items', 'dataset': 'cds'}
    gi_step = g.block(loop.body, env, g.pack)
    if g.aux:
      raise Unsupported('gen_items: while loop')
    # ---- the consumer
    rest = body[1:]
    tail = ast.parse(SB_TAIL).body
    if len(rest) != len(tail) + 2 or not all(_same_ast(a, b) for a, b in zip(rest, tail)):
      raise Unsupported('buffered_shuffle_batch_client_datasets: unexpected statements after gen_items')
    bloop, fin = rest[len(tail):]
    if not (isinstance(bloop, ast.For) and isinstance(bloop.target, ast.Name) and bloop.target.id == 'item' and
            _same_ast(bloop.iter, ast.parse('buffered_shuffle(it, buffer_size, rng)', mode='eval').body) and
            not bloop.orelse):
      raise Unsupported('batching loop header')
    calls = dict(CALLS)
    calls['len'] = _len_of_list
    b = BatchStep('bl', MultiCtx(NAMES, calls), 'step')
    benv = {'batch_size': 'Z', 'buf': 'items', 'out': 'outs', 'item': 'elt'}
    bl_step = b.block(bloop.body, benv, b.pack)
    fin_t = b.block([fin], {'batch_size': 'Z', 'buf': 'items', 'out': 'outs'}, lambda env: 'out')
    if b.aux:
      raise Unsupported('batching loop: while loop')
    return '\n'.join([
        '(* gen_items(): body of `for dataset in datasets:` *)',
        'Definition gi_step_gen (preprocessor features : option Z) (items : list A) (dataset : cds A) : gi_res (A:=A) :=',
        '  ' + gi_step + '.',
        '(* body of `for item in buffered_shuffle(it, buffer_size, rng):` *)',
        'Definition bl_step_gen (batch_size : Z) (st : list A * list (list A)) (item : A) : list A * list (list A) :=',
        "  let '(buf, out) := st in " + bl_step + '.',
        '(* the final `if buf: yield ...` *)',
        'Definition bl_finish_gen (batch_size : Z) (buf : list A) (out : list (list A)) : list (list A) :=',
        '  ' + fin_t + '.'])
  return emit



def A_padded_multi(qual):
  def emit(tree):
    fd = None
    for n in tree.body:
      if isinstance(n, ast.FunctionDef) and n.name == qual:
        fd = n
    if fd is None:
      raise Unsupported(qual + ' not found')
    body = [s for s in fd.body if not (isinstance(s, ast.Expr) and isinstance(s.value, ast.Constant))]
    want = ast.parse(HPARAMS_PRELUDE).body[0]
    if not body or not _same_ast(body[0], want):
      raise Unsupported(qual + ': unexpected hparams prelude')
    body = body[1:]
    ctx = MultiCtx(NAMES, CALLS)
    # ---- initial assignments
    env = {'batch_size': 'Z', 'num_batch_size_buckets': 'Z'}
    init = {}
    while body and isinstance(body[0], ast.Assign):
      s = body.pop(0)
      if len(s.targets) != 1 or not isinstance(s.targets[0], ast.Name):
        raise Unsupported('initial assignment target')
      t, ty = ctx.expr(s.value, env)
      init[s.targets[0].id] = (t, ty)
      env[s.targets[0].id] = ty
    if sorted(init) != sorted(STATE + ['full_mask']):
      raise Unsupported(f'{qual}: state variables {sorted(init)}')
    if [init[v][1] for v in STATE] != ['optZ', 'optZ', 'pieces', 'Z'] or init['full_mask'][1] != 'mask':
      raise Unsupported(f'{qual}: state variable types')
    if len(body) != 2 or not isinstance(body[0], ast.For) or not isinstance(body[1], ast.If):
      raise Unsupported(f'{qual}: expected `for dataset in datasets:` followed by the final `if`')
    loop, fin = body
    if loop.orelse or not isinstance(loop.target, ast.Name) or loop.target.id != 'dataset' or \
        not isinstance(loop.iter, ast.Name) or loop.iter.id != 'datasets':
      raise Unsupported(f'{qual}: loop header')
    out = []
    out.append(f'Definition pbcd_init : pst (A:=A) := mk_pst {init["preprocessor"][0]} {init["features"][0]} '
               f'{init["buf"][0]} {init["buf_size"][0]} [].')
    out.append(f'Definition pbcd_full_mask (batch_size : Z) : list bool := {init["full_mask"][0]}.')
    unpack = ('let preprocessor := p_pre st in let features := p_feat st in let buf := p_buf st in '
              'let buf_size := p_bufsize st in let out := p_out st in ')
    # ---- loop body
    senv = dict(env)
    senv.update({'dataset': 'cds', 'out': 'batches'})
    g = GenStep('pbcd', ctx, 'step')
    if 'full_mask' in g.modified(loop.body):
      raise Unsupported('full_mask reassigned in the loop')
    step = g.block(loop.body, senv, g.pack)
    out.append('Section pbcd_sec.\nVariable pbcd_fuel : nat.')
    out += g.aux
    out.append('Definition pbcd_step (batch_size : Z) (full_mask : list bool) (st : pst (A:=A)) (dataset : cds A) '
               ': step_res (A:=A) :=\n  ' + unpack + step + '.')
    out.append('End pbcd_sec.')
    # ---- epilogue
    fenv = dict(env)
    fenv.update({'out': 'batches'})
    h = GenStep('pbcd_fin', ctx, 'finish')
    fin_t = h.block([fin], fenv, h.pack)
    if h.aux:
      raise Unsupported('loop in the epilogue')
    out.append('Definition pbcd_finish (batch_size num_batch_size_buckets : Z) (full_mask : list bool) (st : pst (A:=A)) '
               ': pres (A:=A) :=\n  ' + unpack + fin_t + '.')
    return '\n'.join(out)
  return emit


MODULES = {
    'Gen_client_datasets_multi': {
        'src': CD,
        'preamble': ('From FV Require Import Common.Batch Model.C03_Model Model.C15_Model.\n'
                     'Section Gen_client_datasets_multi.\nContext {A : Type} (zero : A) (pre : list A -> list A).\n'),
        'postamble': 'End Gen_client_datasets_multi.\n',
        'items': [A_padded_multi('padded_batch_client_datasets'), A_buffered_shuffle(), A_shuffle_batch()],
    },
}
