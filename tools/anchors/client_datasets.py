"""Translator anchors for fedjax/core/client_datasets.py (C03, C04, C15)."""
import ast
from translate import (A_intfun, A_stmts, A_const, Ctx, Unsupported, dotted, emit_genloop, find_def, _assign_to)

CD = 'fedjax/core/client_datasets.py'

def _slice_examples(ctx, e, env):
  if len(e.args) != 2:
    raise Unsupported('slice_examples arity')
  src, _ = ctx.expr(e.args[0], env, 'rows')
  sl = e.args[1]
  if not (isinstance(sl, ast.Call) and dotted(sl.func) == 'slice'):
    raise Unsupported('slice_examples index is not slice(...)')
  if len(sl.args) == 2:
    a, _ = ctx.expr(sl.args[0], env, 'Z')
    b, _ = ctx.expr(sl.args[1], env, 'Z')
  elif len(sl.args) == 1:
    a = '0'
    b, _ = ctx.expr(sl.args[0], env, 'Z')
  else:
    raise Unsupported('slice(...) arity')
  return f'(py_slice {src} {a} {b})', 'rows'


def _np_ones_bool(ctx, e, env):
  # np.ones([n], dtype=np.bool_)
  if len(e.args) != 1 or not isinstance(e.args[0], ast.List) or len(e.args[0].elts) != 1:
    raise Unsupported('np.ones shape')
  kw = {k.arg: k.value for k in e.keywords}
  if set(kw) != {'dtype'} or dotted(kw['dtype']) != 'np.bool_':
    raise Unsupported('np.ones dtype')
  n, _ = ctx.expr(e.args[0].elts[0], env, 'Z')
  return f'(repeat true (Z.to_nat {n}))', 'mask'


class BatchCtx(Ctx):
  """Adds the dict-display form `{**processed, EXAMPLE_MASK_KEY: m}`."""

  def _expr(self, e, env):
    if isinstance(e, ast.Dict) and len(e.keys) == 2 and e.keys[0] is None and \
        isinstance(e.keys[1], ast.Name) and e.keys[1].id == 'EXAMPLE_MASK_KEY':
      rows, _ = self.expr(e.values[0], env, 'rows')
      m, _ = self.expr(e.values[1], env, 'mask')
      return f'(attach_mask {rows} {m})', 'batch'
    return super()._expr(e, env)


def A_batchloop(qual, coqname, params, elem_ty, names):
  calls = {
      'slice_examples': _slice_examples,
      'np.ones': _np_ones_bool,
      'self._client_dataset.preprocessor': ('pre {0}', ['rows'], 'rows'),
      'pad_examples': ('pad_examples zero {0} {1}', ['rows', 'Z'], 'batch'),
  }

  def emit(tree):
    fd = find_def(tree, qual)
    text = emit_genloop(fd, coqname, params, BatchCtx(names, calls), elem_ty)
    return text
  return emit


# ---------------------------------------------------------------------------
# Wave 2: statement compiler for the numpy / list code of pad_examples, attach_mask,
# BatchPreprocessor.__call__ (C03) and ShuffleRepeatBatchView.__iter__ (C04).
#
# Types added to the translator's subset (TY2):
#   rows   one abstract column of examples (list A); an Examples dict is modelled by
#          its rows, so `for k, v in examples.items():` binds v to that column and k
#          to an opaque key that may only be used in `result[k] = ...`
#   mask   list bool          batch  Batch.batch A (rows + mask)
#   idxs   list nat (np.int32 index arrays)       rng  the number of rng.shuffle calls
#          made so far on a fresh RandomState (the k-th call returns `shuf k buf`)
#   fns    list (rows -> rows)                    outs list (list nat), the yielded batches
# Forms added (everything else raises Unsupported):
#   np.arange(n) <op> c                      -> map (fun j_ => j_ <op>? c) (py_range 0 n 1)
#   np.zeros((size,) + v.shape[1:], v.dtype) -> np_zeros zero size
#   np.zeros((n,), dtype=np.int32)           -> np_zeros 0%nat n
#   np.arange(n, dtype=np.int32)             -> np_arange n
#   a[i:j] (load, idxs)                      -> py_slice a i j
#   a[:k] = v  /  a[i:j] = v                 -> np_assign_prefix / np_set_slice (option)
#   a.size, a.shape[0]                       -> Z.of_nat (length a)
#   X is None or e                           -> match X with None => true | Some X => e end
#   rng = np.random.RandomState(self._seed)  -> rng := 0%nat ;  rng.shuffle(buf) -> buf := shuf rng buf; rng := S rng
#   {k: v[indices] for k, v in <raw>.items()}-> indices   (rows are identified with their index)
#   {k: v[index] for k, v in examples.items()}-> py_slice examples (fst index) (snd index)   (index : slice(a, b))
#   slice stores are accepted only into arrays allocated by np.zeros in the same function
#   (a store into a parameter / a dataset column would be an in-place mutation of the dataset)
#   for f in FNS: x = f(x)                   -> x := fold_left (fun x f => f x) FNS x
#   while (no yield inside)                  -> Fixpoint on fuel returning option (tuple of the assigned variables)
#   while (with yield; generator's main loop)-> Fixpoint on fuel returning gres (GMore when the fuel runs out)
#   yield e                                  -> out := out ++ [e]
#   raise ValueError(...)                    -> None ;  bare `return` in a generator -> GDone out

TY2 = {'Z': 'Z', 'bool': 'bool', 'optZ': '(option Z)', 'rows': 'rows', 'mask': 'mask', 'batch': 'batch',
       'idxs': '(list nat)', 'rng': 'nat', 'fns': '(list (rows -> rows))', 'outs': '(list (list nat))',
       'fn': '(rows -> rows)', 'slice': '(Z * Z)'}


def _dotted_or_none(e):
  try:
    return dotted(e)
  except Unsupported:
    return None


def _is_none_test(e):
  return (isinstance(e, ast.Compare) and len(e.ops) == 1 and isinstance(e.ops[0], (ast.Is, ast.IsNot)) and
          isinstance(e.comparators[0], ast.Constant) and e.comparators[0].value is None)


_CMPOPS = {ast.Lt: '<?', ast.LtE: '<=?', ast.Gt: '>?', ast.GtE: '>=?', ast.Eq: '=?'}


def _np_zeros2(ctx, e, env):
  kw = {k.arg: k.value for k in e.keywords}
  # np.zeros((size,) + v.shape[1:], v.dtype)
  if len(e.args) == 2 and not kw:
    sh, dt = e.args
    ok = (isinstance(sh, ast.BinOp) and isinstance(sh.op, ast.Add) and isinstance(sh.left, ast.Tuple) and
          len(sh.left.elts) == 1 and isinstance(sh.right, ast.Subscript) and
          isinstance(sh.right.value, ast.Attribute) and sh.right.value.attr == 'shape' and
          isinstance(sh.right.slice, ast.Slice) and sh.right.slice.step is None and sh.right.slice.upper is None and
          isinstance(sh.right.slice.lower, ast.Constant) and sh.right.slice.lower.value == 1 and
          isinstance(dt, ast.Attribute) and dt.attr == 'dtype' and
          ast.dump(dt.value) == ast.dump(sh.right.value.value))
    if not ok:
      raise Unsupported('np.zeros: expected ((size,) + v.shape[1:], v.dtype)')
    _, vt = ctx.expr(dt.value, env)
    if vt != 'rows':
      raise Unsupported('np.zeros: v is not a column')
    n, _ = ctx.expr(sh.left.elts[0], env, 'Z')
    return f'(np_zeros zero {n})', 'rows'
  # np.zeros((n,), dtype=np.int32)
  if len(e.args) == 1 and set(kw) == {'dtype'} and dotted(kw['dtype']) == 'np.int32' and \
      isinstance(e.args[0], ast.Tuple) and len(e.args[0].elts) == 1:
    n, _ = ctx.expr(e.args[0].elts[0], env, 'Z')
    return f'(np_zeros 0%nat {n})', 'idxs'
  raise Unsupported('np.zeros form')


def _np_arange_idx(ctx, e, env):
  kw = {k.arg: k.value for k in e.keywords}
  if len(e.args) != 1 or set(kw) != {'dtype'} or dotted(kw['dtype']) != 'np.int32':
    raise Unsupported('np.arange form')
  n, _ = ctx.expr(e.args[0], env, 'Z')
  return f'(np_arange {n})', 'idxs'


def _random_state(ctx, e, env):
  if len(e.args) != 1 or e.keywords or dotted(e.args[0]) != 'self._seed':
    raise Unsupported('RandomState(...) argument')
  return '0%nat', 'rng'


class NpCtx(BatchCtx):
  """Expressions of pad_examples / __call__ / ShuffleRepeatBatchView.__iter__."""

  def _expr(self, e, env):
    # elementwise comparison of np.arange(n) with an int: the mask expression
    if isinstance(e, ast.Compare) and len(e.ops) == 1 and isinstance(e.left, ast.Call) and \
        _dotted_or_none(e.left.func) == 'np.arange':
      if len(e.left.args) != 1 or e.left.keywords or type(e.ops[0]) not in _CMPOPS:
        raise Unsupported('np.arange(...) comparison form')
      n, _ = self.expr(e.left.args[0], env, 'Z')
      c, _ = self.expr(e.comparators[0], env, 'Z')
      return f'(map (fun j_ : Z => (j_ {_CMPOPS[type(e.ops[0])]} {c})) (py_range 0 {n} 1))', 'mask'
    if isinstance(e, ast.Subscript):
      if isinstance(e.slice, ast.Slice):
        base, ty = self.expr(e.value, env)
        sl = e.slice
        if ty != 'idxs' or sl.step is not None or sl.lower is None or sl.upper is None:
          raise Unsupported('slice load form')
        a, _ = self.expr(sl.lower, env, 'Z')
        b, _ = self.expr(sl.upper, env, 'Z')
        return f'(py_slice {base} {a} {b})', 'idxs'
      if isinstance(e.value, ast.Attribute) and e.value.attr == 'shape' and isinstance(e.slice, ast.Constant) \
          and e.slice.value == 0:
        base, ty = self.expr(e.value.value, env)
        if ty != 'idxs':
          raise Unsupported('.shape[0] of a non-array')
        return f'(Z.of_nat (length {base}))', 'Z'
      raise Unsupported('subscript ' + ast.dump(e)[:120])
    if isinstance(e, ast.Attribute) and e.attr == 'size' and isinstance(e.value, ast.Name) and \
        env.get(e.value.id) == 'idxs':
      return f'(Z.of_nat (length {e.value.id}))', 'Z'
    if isinstance(e, ast.BoolOp) and isinstance(e.op, ast.Or) and len(e.values) == 2 and _is_none_test(e.values[0]) \
        and isinstance(e.values[0].ops[0], ast.Is):
      x, ty = self.expr(e.values[0].left, env)
      if ty != 'optZ' or x not in env:
        raise Unsupported('`is None or ...` on a non-optional name')
      env2 = dict(env)
      env2[x] = 'Z'
      r, _ = self.expr(e.values[1], env2, 'bool')
      return f'(match {x} with None => true | Some {x} => {r} end)', 'bool'
    if isinstance(e, ast.DictComp):
      # {k: v[indices] for k, v in self._client_dataset.raw_examples.items()}
      g = e.generators
      ok = (len(g) == 1 and not g[0].ifs and not g[0].is_async and isinstance(g[0].target, ast.Tuple) and
            [getattr(t, 'id', None) for t in g[0].target.elts] == ['k', 'v'] and
            isinstance(g[0].iter, ast.Call) and not g[0].iter.args and not g[0].iter.keywords and
            isinstance(e.key, ast.Name) and e.key.id == 'k' and isinstance(e.value, ast.Subscript) and
            isinstance(e.value.value, ast.Name) and e.value.value.id == 'v' and isinstance(e.value.slice, ast.Name))
      if not ok:
        raise Unsupported('dict comprehension form')
      src, ix = _dotted_or_none(g[0].iter.func), e.value.slice.id
      if src == 'self._client_dataset.raw_examples.items' and env.get(ix) == 'idxs':
        return ix, 'idxs'
      # slice_examples: {k: v[index] for k, v in examples.items()} with index = slice(a, b)
      if src is not None and src.endswith('.items') and env.get(src[:-6]) == 'rows' and env.get(ix) == 'slice':
        return f'(py_slice {src[:-6]} (fst {ix}) (snd {ix}))', 'rows'
      raise Unsupported('dict comprehension form')
    return super()._expr(e, env)


class StFn:
  """CPS statement compiler.  mode 'fun': result type `option <ret>` (Return e -> Some e,
  raise -> None);  mode 'gen': generator, result type gres (yield appends to `out`)."""

  def __init__(self, prefix, ctx, mode, ret=None):
    self.prefix, self.ctx, self.mode, self.ret = prefix, ctx, mode, ret
    self.aux, self.nloops, self.fuels = [], 0, []
    self.fresh = set()     # names bound to an array allocated by np.zeros in this function

  def expr(self, e, env, want=None):
    return self.ctx.expr(e, env, want)

  def nm(self, n):
    return self.ctx.names.get(n, n)

  def err(self):
    return 'GErr' if self.mode == 'gen' else 'None'

  def block(self, stmts, env, k):
    if not stmts:
      return k(env)
    s, rest = stmts[0], stmts[1:]
    if isinstance(s, ast.Expr) and isinstance(s.value, ast.Constant):
      return self.block(rest, env, k)
    # if EXAMPLE_MASK_KEY in examples: raise ValueError(...)   -- abstract rows carry no mask key
    if isinstance(s, ast.If) and isinstance(s.test, ast.Compare) and len(s.test.ops) == 1 and \
        isinstance(s.test.ops[0], ast.In):
      ok = (isinstance(s.test.left, ast.Name) and s.test.left.id == 'EXAMPLE_MASK_KEY' and
            isinstance(s.test.comparators[0], ast.Name) and env.get(s.test.comparators[0].id) == 'rows' and
            not s.orelse and len(s.body) == 1 and self._is_value_error(s.body[0]) and self.mode == 'fun')
      if not ok:
        raise Unsupported('`in` test other than the mask-key guard')
      return self.block(rest, env, k)
    if isinstance(s, ast.Raise):
      if not self._is_value_error(s) or self.mode != 'fun':
        raise Unsupported('raise form')
      return 'None'
    if isinstance(s, ast.Return):
      if self.mode == 'inner':
        raise Unsupported('return inside a while loop')
      if self.mode == 'gen':
        if s.value is not None:
          raise Unsupported('return with a value in a generator')
        return 'GDone out'
      if s.value is None:
        raise Unsupported('bare return')
      if isinstance(s.value, ast.Name) and env.get(s.value.id) == 'result1':
        return f'Some (attach_mask {s.value.id}_rows {s.value.id}_mask)'
      t, _ = self.expr(s.value, env, self.ret)
      return f'Some {t}'
    if isinstance(s, ast.Assign):
      if len(s.targets) != 1:
        raise Unsupported('chained assignment')
      t, v = s.targets[0], s.value
      if isinstance(t, ast.Subscript):
        return self.store(t, v, rest, env, k)
      if not isinstance(t, ast.Name):
        raise Unsupported('assignment to something else than a local name (e.g. an attribute of self)')
      n = t.id
      if isinstance(v, ast.Dict):
        # result = {EXAMPLE_MASK_KEY: <mask>}
        if not (len(v.keys) == 1 and isinstance(v.keys[0], ast.Name) and v.keys[0].id == 'EXAMPLE_MASK_KEY'):
          raise Unsupported('dict display form')
        m, _ = self.expr(v.values[0], env, 'mask')
        env2 = dict(env)
        env2[n] = 'result0'
        return f'let {n}_mask := {m} in ' + self.block(rest, env2, k)
      val, ty = self.expr(v, env)
      if ty not in TY2:
        raise Unsupported(f'assignment of type {ty}')
      if isinstance(v, ast.Call) and _dotted_or_none(v.func) == 'np.zeros':
        self.fresh.add(n)
      else:
        self.fresh.discard(n)
      env2 = dict(env)
      env2[n] = ty
      return f'let {n} := {val} in ' + self.block(rest, env2, k)
    if isinstance(s, ast.AugAssign):
      if not isinstance(s.op, (ast.Add, ast.Sub)) or not isinstance(s.target, ast.Name):
        raise Unsupported('augmented assignment')
      cur, _ = self.expr(s.target, env, 'Z')
      val, _ = self.expr(s.value, env, 'Z')
      op = '+' if isinstance(s.op, ast.Add) else '-'
      return f'let {s.target.id} := ({cur} {op} {val}) in ' + self.block(rest, env, k)
    if isinstance(s, ast.Expr) and isinstance(s.value, ast.Yield):
      if self.mode != 'gen' or s.value.value is None:
        raise Unsupported('yield')
      val, _ = self.expr(s.value.value, env, 'idxs')
      return f'let out := (out ++ [{val}]) in ' + self.block(rest, env, k)
    if isinstance(s, ast.Expr) and isinstance(s.value, ast.Call):
      c = s.value
      f = _dotted_or_none(c.func)
      # rng.shuffle(buf)
      if isinstance(c.func, ast.Attribute) and c.func.attr == 'shuffle' and isinstance(c.func.value, ast.Name) and \
          env.get(c.func.value.id) == 'rng' and len(c.args) == 1 and not c.keywords and \
          isinstance(c.args[0], ast.Name) and env.get(c.args[0].id) == 'idxs':
        r, b = c.func.value.id, c.args[0].id
        return f'let {b} := (shuf {r} {b}) in let {r} := (S {r}) in ' + self.block(rest, env, k)
      # assert_consistent_rows(out): one abstract column is always consistent
      if f == 'assert_consistent_rows' and len(c.args) == 1 and not c.keywords and \
          isinstance(c.args[0], ast.Name) and env.get(c.args[0].id) == 'rows':
        return self.block(rest, env, k)
      raise Unsupported('expression statement ' + ast.dump(s)[:120])
    if isinstance(s, ast.If):
      test = s.test
      neg = isinstance(test, ast.UnaryOp) and isinstance(test.op, ast.Not)
      inner = test.operand if neg else test
      d = _dotted_or_none(inner) if isinstance(inner, (ast.Name, ast.Attribute)) else None
      if d is not None and env.get(self.nm(d)) == 'fns':   # truthiness of a tuple of functions
        a = self.block(s.body + rest, env, k)
        b = self.block(s.orelse + rest, env, k)
        if neg:
          a, b = b, a
        return f'(match {self.nm(d)} with _ :: _ => {a} | [] => {b} end)'
      c, _ = self.expr(test, env, 'bool')
      a = self.block(s.body + rest, env, k)
      b = self.block(s.orelse + rest, env, k)
      return f'(if {c} then {a} else {b})'
    if isinstance(s, ast.For):
      return self.for_(s, rest, env, k)
    if isinstance(s, ast.While):
      return self.while_(s, rest, env, k)
    raise Unsupported('statement ' + ast.dump(s)[:160])

  @staticmethod
  def _is_value_error(s):
    return isinstance(s, ast.Raise) and isinstance(s.exc, ast.Call) and _dotted_or_none(s.exc.func) == 'ValueError'

  def store(self, t, v, rest, env, k):
    if not isinstance(t.value, ast.Name):
      raise Unsupported('subscript store target')
    a = t.value.id
    if isinstance(t.slice, ast.Slice):
      sl = t.slice
      if sl.step is not None or sl.upper is None:
        raise Unsupported('slice store form')
      ty = env.get(a)
      if ty not in ('rows', 'idxs'):
        raise Unsupported('slice store into ' + str(ty))
      if a not in self.fresh:
        raise Unsupported(f'slice store into {a}, which is not a fresh np.zeros array of this function')
      val, _ = self.expr(v, env, ty)
      hi, _ = self.expr(sl.upper, env, 'Z')
      if sl.lower is None:
        op = f'np_assign_prefix {a} {hi} {val}'
      else:
        lo, _ = self.expr(sl.lower, env, 'Z')
        op = f'np_set_slice {a} {lo} {hi} {val}'
      return f'(match {op} with Some {a} => {self.block(rest, env, k)} | None => {self.err()} end)'
    # result[k] = padded   (k the opaque feature key of the enclosing items() loop)
    if isinstance(t.slice, ast.Name) and env.get(t.slice.id) == 'key' and env.get(a) == 'result0':
      val, _ = self.expr(v, env, 'rows')
      env2 = dict(env)
      env2[a] = 'result1'
      return f'let {a}_rows := {val} in ' + self.block(rest, env2, k)
    raise Unsupported('subscript store form')

  def for_(self, s, rest, env, k):
    if s.orelse:
      raise Unsupported('for-else')
    # for k, v in examples.items(): ...   (one abstract column)
    if isinstance(s.target, ast.Tuple) and len(s.target.elts) == 2 and all(isinstance(x, ast.Name) for x in s.target.elts) \
        and isinstance(s.iter, ast.Call) and not s.iter.args and not s.iter.keywords and \
        isinstance(s.iter.func, ast.Attribute) and s.iter.func.attr == 'items' and \
        isinstance(s.iter.func.value, ast.Name) and env.get(s.iter.func.value.id) == 'rows':
      kn, vn = (x.id for x in s.target.elts)
      if kn in env or vn in env:
        raise Unsupported('loop variable shadows a name')
      for n in ast.walk(ast.Module(body=s.body, type_ignores=[])):
        if isinstance(n, (ast.For, ast.While, ast.Return, ast.Raise, ast.Break, ast.Continue, ast.Yield)):
          raise Unsupported('control flow inside the items() loop')
      env2 = dict(env)
      env2[kn], env2[vn] = 'key', 'rows'

      def after(e):
        e = dict(e)
        e.pop(kn, None)
        return self.block(rest, e, k)
      return f'let {vn} := {s.iter.func.value.id} in ' + self.block(s.body, env2, after)
    # for f in FNS: x = f(x)
    if isinstance(s.target, ast.Name) and isinstance(s.iter, (ast.Name, ast.Attribute)):
      it = self.nm(dotted(s.iter))
      if env.get(it) != 'fns' or len(s.body) != 1 or not isinstance(s.body[0], ast.Assign) or \
          len(s.body[0].targets) != 1 or not isinstance(s.body[0].targets[0], ast.Name):
        raise Unsupported('for loop form')
      f, tgt, call = s.target.id, s.body[0].targets[0].id, s.body[0].value
      if env.get(tgt) != 'rows' or f in env or not isinstance(call, ast.Call) or call.keywords or \
          len(call.args) != 1 or not isinstance(call.func, ast.Name):
        raise Unsupported('for loop body form')
      env2 = dict(env)
      env2[f] = 'fn'
      if env2.get(call.func.id) != 'fn':
        raise Unsupported('for loop body does not call the loop variable')
      arg, _ = self.expr(call.args[0], env2, 'rows')
      return (f'let {tgt} := (fold_left (fun ({tgt} : rows) ({f} : rows -> rows) => ({call.func.id} {arg})) {it} {tgt}) in '
              + self.block(rest, env, k))
    raise Unsupported('for loop form')

  # -- while loops
  def modified(self, stmts):
    out = []

    def add(n):
      if n not in out:
        out.append(n)
    for s in stmts:
      if isinstance(s, ast.Assign) and len(s.targets) == 1 and isinstance(s.targets[0], ast.Name):
        add(s.targets[0].id)
      elif isinstance(s, ast.Assign) and len(s.targets) == 1 and isinstance(s.targets[0], ast.Subscript) and \
          isinstance(s.targets[0].value, ast.Name):
        add(s.targets[0].value.id)
      elif isinstance(s, ast.AugAssign) and isinstance(s.target, ast.Name):
        add(s.target.id)
      elif isinstance(s, ast.Expr) and isinstance(s.value, ast.Yield):
        add('out')
      elif isinstance(s, ast.Expr) and isinstance(s.value, ast.Call) and isinstance(s.value.func, ast.Attribute) and \
          s.value.func.attr == 'shuffle' and isinstance(s.value.func.value, ast.Name) and \
          len(s.value.args) == 1 and isinstance(s.value.args[0], ast.Name):
        add(s.value.args[0].id)
        add(s.value.func.value.id)
      elif isinstance(s, (ast.If, ast.While)):
        for n in self.modified(s.body) + self.modified(s.orelse):
          add(n)
      else:
        raise Unsupported('statement inside while: ' + ast.dump(s)[:120])
    return out

  def used(self, node):
    names = set()
    for n in ast.walk(node):
      if isinstance(n, ast.Name):
        names.add(n.id)
      if isinstance(n, ast.Attribute):
        d = _dotted_or_none(n)
        if d in self.ctx.names:
          names.add(self.ctx.names[d])
    return names

  def while_(self, s, rest, env, k):
    if s.orelse:
      raise Unsupported('while-else')
    has_yield = any(isinstance(n, ast.Yield) for n in ast.walk(s))
    mod = self.modified(s.body)
    if has_yield:
      # the generator's main loop: everything after it must fall off the end
      if self.mode != 'gen' or rest:
        raise Unsupported('yielding loop must be the last statement of a generator')
      local = [v for v in mod if v not in env]       # (re)initialised in every iteration
      used = self.used(s)
      params = [v for v in env if (v in used or v in mod) and env[v] in TY2]
      self.nloops += 1
      loop = f'{self.prefix}_loop{self.nloops}'
      fuel = f'{self.prefix}_fuel{self.nloops}'
      self.fuels.append(fuel)
      c, _ = self.expr(s.test, env, 'bool')

      def again(e):
        for v in params:
          if e.get(v) != env[v]:
            raise Unsupported(f'loop variable {v} changes type')
        return f'{loop} fuel {" ".join(params)}'
      body = self.block(s.body, env, again)
      ps = ' '.join(f'({v} : {TY2[env[v]]})' for v in params)
      self.aux.append(
          f'Fixpoint {loop} (fuel : nat) {ps} {{struct fuel}} : gres (list nat) :=\n'
          f'  match fuel with O => GMore out | S fuel =>\n'
          f'  if {c} then {body}\n  else GDone out end.')
      del local
      return f'{loop} {fuel} {" ".join(params)}'
    # variables first assigned inside the body are loop-local lets (a use before the
    # assignment, or after the loop, is an unknown name -> Unsupported)
    used = self.used(s)
    params = [v for v in env if (v in used or v in mod) and env[v] in TY2]
    live = [v for v in mod if v in env]
    tup = '(' + ', '.join(live) + ')'
    self.nloops += 1
    loop = f'{self.prefix}_loop{self.nloops}'
    fuel = f'{self.prefix}_fuel{self.nloops}'
    self.fuels.append(fuel)
    c, _ = self.expr(s.test, env, 'bool')
    sub = StFn(self.prefix, self.ctx, 'inner')
    sub.fresh = self.fresh

    def again(e):
      for v in params:
        if e.get(v) != env[v]:
          raise Unsupported(f'loop variable {v} changes type')
      return f'{loop} fuel {" ".join(params)}'
    body = sub.block(s.body, env, again)
    if sub.aux:
      raise Unsupported('nested while inside while')
    ret = ' * '.join(TY2[env[v]] for v in live)
    ps = ' '.join(f'({v} : {TY2[env[v]]})' for v in params)
    self.aux.append(
        f'Fixpoint {loop} (fuel : nat) {ps} {{struct fuel}} : option ({ret}) :=\n'
        f'  match fuel with O => None | S fuel =>\n'
        f'  if {c} then {body}\n  else Some {tup} end.')
    after = self.block(rest, env, k)
    return f'(match {loop} {fuel} {" ".join(params)} with Some {tup} => {after} | None => {self.err()} end)'


def _closed(emit):
  """Any error of the emitter on an unforeseen syntax tree is a translation failure
  of this module only (never a crash of the whole translator run)."""
  def wrapped(tree):
    try:
      return emit(tree)
    except Unsupported:
      raise
    except Exception as ex:   # pylint: disable=broad-except
      raise Unsupported(f'emitter error {type(ex).__name__}: {ex}')
  return wrapped


def _strip_doc(body):
  return [s for s in body if not (isinstance(s, ast.Expr) and isinstance(s.value, ast.Constant))]


def A_rowsfun(qual, coqname, params, ret, names=None, calls=None):
  """A plain function over abstract rows: `option <ret>`."""
  def emit(tree):
    fd = find_def(tree, qual)
    got = [a.arg for a in fd.args.args if a.arg != 'self']
    want = [n for n, _ in params if not n.startswith('self_')]
    if got != want:
      raise Unsupported(f'{qual}: parameters {got}, expected {want}')
    f = StFn(coqname, NpCtx(names, calls), 'fun', ret)
    env = {n: t for n, t in params}

    def off_end(e):
      raise Unsupported(f'{qual}: control reaches the end of the function without return')
    body = f.block(_strip_doc(fd.body), env, off_end)
    if f.aux:
      raise Unsupported(f'{qual}: loop in a rows function')
    ps = ' '.join(f'({n} : {TY2[t]})' for n, t in params)
    return f'Definition {coqname} {ps} : option {TY2[ret]} :=\n  {body}.'
  return _closed(emit)


def A_generator(qual, coqname, params, names=None, calls=None):
  """A generator method whose yields are index arrays: `gres (list nat)`; every
  while loop runs on its own fuel variable (Section variables <coqname>_fuel<i>)."""
  def emit(tree):
    fd = find_def(tree, qual)
    if [a.arg for a in fd.args.args] != ['self']:
      raise Unsupported(f'{qual}: parameters')
    f = StFn(coqname, NpCtx(names, calls), 'gen')
    env = {n: t for n, t in params}
    env['out'] = 'outs'
    body = f.block(_strip_doc(fd.body), env, lambda e: 'GDone out')
    ps = ' '.join(f'({n} : {TY2[t]})' for n, t in params)
    out = [f'Section {coqname}_sec.']
    out += [f'Variable {v} : nat.' for v in sorted(f.fuels)]
    out += f.aux
    out.append(f'Definition {coqname} {ps} : gres (list nat) :=\n  let out := @nil (list nat) in {body}.')
    out.append(f'End {coqname}_sec.')
    return '\n'.join(out)
  return _closed(emit)


_MUTATORS = {'append', 'extend', 'clear', 'pop', 'popitem', 'update', 'setdefault', 'sort', 'reverse', 'shuffle',
             'remove', 'insert', 'add', 'discard', 'fill', 'resize', 'put', 'itemset', 'setflags', '__setitem__',
             '__setattr__', '__delattr__', '__delitem__'}


def _root_is_self(e):
  while isinstance(e, (ast.Attribute, ast.Subscript)):
    e = e.value
  return isinstance(e, ast.Name) and e.id == 'self'


def A_pure_iter(quals):
  """Syntactic side condition for "iterating the same view again gives identical batches /
  never mutates the dataset": the anchored __iter__ methods never assign, delete or
  augmented-assign anything reachable from `self` (view attributes, the client dataset,
  its raw examples), declare no global / nonlocal, and call no known in-place mutator
  on something reachable from `self`.  Emits only a comment; fails closed otherwise."""
  def emit(tree):
    for qual in quals:
      fd = find_def(tree, qual)
      for n in ast.walk(fd):
        targets = []
        if isinstance(n, ast.Assign):
          targets = n.targets
        elif isinstance(n, (ast.AugAssign, ast.AnnAssign)):
          targets = [n.target]
        elif isinstance(n, ast.Delete):
          targets = n.targets
        elif isinstance(n, (ast.Global, ast.Nonlocal)):
          raise Unsupported(f'{qual}: global / nonlocal')
        elif isinstance(n, ast.NamedExpr):
          targets = [n.target]
        for t in targets:
          for x in ast.walk(t):
            if isinstance(x, (ast.Attribute, ast.Subscript)) and _root_is_self(x):
              raise Unsupported(f'{qual}: writes to state reachable from self: {ast.unparse(t)}')
        if isinstance(n, ast.Call) and isinstance(n.func, ast.Attribute) and n.func.attr in _MUTATORS and \
            _root_is_self(n.func.value):
          raise Unsupported(f'{qual}: in-place call {ast.unparse(n.func)} on state reachable from self')
        if isinstance(n, ast.Call) and _dotted_or_none(n.func) in ('setattr', 'delattr'):
          raise Unsupported(f'{qual}: setattr / delattr')
    return '(* checked syntactically: ' + ', '.join(quals) + ' do not write to anything reachable from self *)'
  return _closed(emit)


def A_plumbing(qual, params, kwarg, expected, drop_assign_to=None):
  """Attribute / argument plumbing pinned VERBATIM: the signature and the statements of
  `qual` (docstring removed; the statement group assigning `drop_assign_to`, which is
  translated by its own anchor, removed) must be exactly `expected`.  The reading of these
  statements (dataclass `replace(**kwargs)` overrides every given field; `len(client_dataset)`
  is ClientDataset.__len__; attributes are only copied) is part of the trusted base; any
  edit is a broken tie.  Emits a comment."""
  def emit(tree):
    fd = find_def(tree, qual)
    got = [a.arg for a in fd.args.args]
    if got != params or (fd.args.kwarg.arg if fd.args.kwarg else None) != kwarg or fd.args.vararg or \
        fd.args.kwonlyargs or fd.args.posonlyargs or fd.decorator_list:
      raise Unsupported(f'{qual}: signature {got}')
    body = _strip_doc(fd.body)
    if drop_assign_to:
      grp = _assign_to(fd, drop_assign_to)
      body = [s for s in body if all(s is not g for g in grp)]
    want = ast.parse(expected).body
    if [ast.dump(s) for s in body] != [ast.dump(s) for s in want]:
      raise Unsupported(f'{qual}: body is not the pinned plumbing: ' + ' ; '.join(ast.unparse(x) for x in body)[:300])
    return f'(* pinned verbatim: {qual} *)'
  return _closed(emit)


def _hparams_entry(cls, view):
  return (f'if hparams is None:\n  hparams = {cls}(**kwargs)\nelif kwargs:\n  hparams = hparams.replace(**kwargs)\n'
          f'return {view}(self, hparams)\n')


def _num_examples_call(ctx, e, env):
  kw = {k.arg: k.value for k in e.keywords}
  if len(e.args) != 1 or not set(kw) <= {'validate'} or \
      ('validate' in kw and not (isinstance(kw['validate'], ast.Constant) and isinstance(kw['validate'].value, bool))):
    raise Unsupported('num_examples(...) form')
  r, _ = ctx.expr(e.args[0], env, 'rows')
  return f'(Z.of_nat (length {r}))', 'Z'


def _isinstance_slice(ctx, e, env):
  if len(e.args) != 2 or e.keywords or not isinstance(e.args[0], ast.Name) or env.get(e.args[0].id) != 'slice' or \
      _dotted_or_none(e.args[1]) != 'slice':
    raise Unsupported('isinstance(...) form')
  return 'true', 'bool'


def _slice_examples2(ctx, e, env):
  if len(e.args) == 2 and isinstance(e.args[1], ast.Name) and env.get(e.args[1].id) == 'slice' and not e.keywords:
    r, _ = ctx.expr(e.args[0], env, 'rows')
    return f'(py_slice {r} (fst {e.args[1].id}) (snd {e.args[1].id}))', 'rows'
  return _slice_examples(ctx, e, env)


def _client_dataset_ctor(ctx, e, env):
  # ClientDataset(<raw examples>, self.preprocessor): the new dataset's raw examples; the preprocessor is carried over
  if len(e.args) != 2 or e.keywords or _dotted_or_none(e.args[1]) != 'self.preprocessor':
    raise Unsupported('ClientDataset(...) form')
  return ctx.expr(e.args[0], env, 'rows')


def _len_first_column(ctx, e, env):
  # len(next(iter(examples.values()))): the row count of the first column
  a = e.args[0] if len(e.args) == 1 and not e.keywords else None
  ok = (isinstance(a, ast.Call) and _dotted_or_none(a.func) == 'next' and len(a.args) == 1 and not a.keywords and
        isinstance(a.args[0], ast.Call) and _dotted_or_none(a.args[0].func) == 'iter' and len(a.args[0].args) == 1 and
        isinstance(a.args[0].args[0], ast.Call) and not a.args[0].args[0].args and
        isinstance(a.args[0].args[0].func, ast.Attribute) and a.args[0].args[0].func.attr == 'values')
  if not ok:
    raise Unsupported('len(...) form')
  r, _ = ctx.expr(a.args[0].args[0].func.value, env, 'rows')
  return f'(Z.of_nat (length {r}))', 'Z'


def A_consistent_rows(qual, coqname):
  """assert_consistent_rows over the list of the columns' row counts (dict order):
  sizes = {k: v.shape[0] ...}; empty -> ValueError; first (name, size); every other v with
  <cond(v, size)> -> ValueError.  The condition is translated as written."""
  head = ("sizes = {k: v.shape[0] for k, v in examples.items()}\n"
          "if not sizes:\n  raise ValueError('No features in examples')\n"
          "it = iter(sizes.items())\nname, size = next(it)\n")

  def emit(tree):
    fd = find_def(tree, qual)
    if [a.arg for a in fd.args.args] != ['examples']:
      raise Unsupported(f'{qual}: parameters')
    body = _strip_doc(fd.body)
    want = ast.parse(head).body
    if len(body) != len(want) + 1 or [ast.dump(x) for x in body[:len(want)]] != [ast.dump(x) for x in want]:
      raise Unsupported(f'{qual}: prelude is not the recognised form')
    loop = body[-1]
    ok = (isinstance(loop, ast.For) and not loop.orelse and isinstance(loop.target, ast.Tuple) and
          [getattr(t, 'id', None) for t in loop.target.elts] == ['k', 'v'] and isinstance(loop.iter, ast.Name) and
          loop.iter.id == 'it' and len(loop.body) == 1 and isinstance(loop.body[0], ast.If) and not loop.body[0].orelse and
          len(loop.body[0].body) == 1 and StFn._is_value_error(loop.body[0].body[0]))
    if not ok:
      raise Unsupported(f'{qual}: loop is not `for k, v in it: if <cond>: raise ValueError(...)`')
    c, _ = NpCtx().expr(loop.body[0].test, {'v': 'Z', 'size': 'Z'}, 'bool')
    return (f'Definition {coqname} (sizes : list Z) : option unit :=\n'
            f'  match sizes with [] => None | size :: it =>\n'
            f'  if forallb (fun v : Z => negb {c}) it then Some tt else None end.')
  return _closed(emit)


def A_dataclass_defaults(cls, prefix, fields):
  """The fields of an hparams dataclass, in order, with their annotations and DEFAULT values
  (`fields`: [(name, annotation source, coq type or None when the field must have no default)])."""
  def emit(tree):
    cd = find_def(tree, cls)
    if not isinstance(cd, ast.ClassDef) or [ast.unparse(d) for d in cd.decorator_list] != ['dataclasses.dataclass']:
      raise Unsupported(f'{cls}: not a plain @dataclasses.dataclass')
    body = _strip_doc(cd.body)
    if len(body) != len(fields) or not all(isinstance(x, ast.AnnAssign) and isinstance(x.target, ast.Name) for x in body):
      raise Unsupported(f'{cls}: fields')
    out = []
    for x, (name, ann, ty) in zip(body, fields):
      if x.target.id != name or ast.unparse(x.annotation) != ann:
        raise Unsupported(f'{cls}: field {x.target.id}: {ast.unparse(x.annotation)}')
      if ty is None:
        if x.value is not None:
          raise Unsupported(f'{cls}.{name} has a default')
        continue
      if x.value is None:
        raise Unsupported(f'{cls}.{name} has no default')
      t, _ = Ctx().expr(x.value, {}, ty)
      out.append(f'Definition {prefix}_{name}_default : {TY2[ty]} := {t}.')
    return '\n'.join(out)
  return _closed(emit)


_NONDET_CALLS = {'hash', 'id', 'set', 'frozenset', 'vars', 'dir', 'globals', 'locals', 'input', 'open'}
_NONDET_PREFIXES = ('time.', 'os.', 'uuid.', 'random.', 'np.random.', 'numpy.random.', 'secrets.', 'datetime.', 'threading.',
                    'sys.')


def A_no_nondeterminism(quals, allowed=()):
  """Syntactic side condition for "deterministic / identical on re-iteration / identical in another
  process": the anchored functions call nothing whose result depends on the process (hash order, object
  identity, clock, environment, process-wide or unseeded RNG).  `allowed`: exact call sources that are
  modelled (e.g. the RandomState seeded from self._seed).  Emits a comment; fails closed otherwise."""
  def emit(tree):
    for qual in quals:
      fd = find_def(tree, qual)
      for n in ast.walk(fd):
        if isinstance(n, (ast.Import, ast.ImportFrom, ast.Global, ast.Nonlocal)):
          raise Unsupported(f'{qual}: import / global inside the function')
        if isinstance(n, ast.Call):
          d = _dotted_or_none(n.func)
          src = ast.unparse(n)
          if src in allowed or d is None:
            continue
          if d in _NONDET_CALLS or d.startswith(_NONDET_PREFIXES):
            raise Unsupported(f'{qual}: call whose result may differ between runs / processes: {src[:80]}')
    return '(* checked syntactically: no hash / id / clock / environment / unseeded RNG in ' + ', '.join(quals) + ' *)'
  return _closed(emit)


def A_paddedloop_checked(qual, coqname, params, names):
  """PaddedBatchView.__iter__ once more, with pad_examples bound to the TRANSLATED
  gen_pad_examples (option batch): the elements are `option batch`."""
  class OptCtx(BatchCtx):
    def _expr(self, e, env):
      t, ty = super()._expr(e, env)
      if isinstance(e, ast.Dict) and ty == 'batch':
        return f'(Some {t})', 'optbatch'
      return t, ty
  calls = {
      'slice_examples': _slice_examples,
      'np.ones': _np_ones_bool,
      'self._client_dataset.preprocessor': ('pre {0}', ['rows'], 'rows'),
      'pad_examples': ('gen_pad_examples {0} {1}', ['rows', 'Z'], 'optbatch'),   # same Section: zero is bound
  }

  def emit(tree):
    fd = find_def(tree, qual)
    return emit_genloop(fd, coqname, params, OptCtx(names, calls), 'optbatch')
  return _closed(emit)


MODULES = {
    'Gen_client_datasets': {
        'src': CD,
        'preamble': ('From FV Require Import Common.Batch.\n'
                     'Section Gen_client_datasets.\nContext {A : Type} (zero : A) (pre : list A -> list A).\n'
                     'Notation rows := (list A).\nNotation mask := (list bool).\nNotation batch := (batch A).\n'),
        'postamble': 'End Gen_client_datasets.\n',
        'items': [
            A_intfun('_pick_final_batch_size', 'pick_final_batch_size',
                     [('data_size', 'Z'), ('batch_size', 'Z'), ('num_batch_size_buckets', 'Z')]),
            A_stmts('ShuffleRepeatBatchView.__init__',
                    lambda fd: _assign_to(fd, 'self._num_steps'),
                    'shuffle_num_steps',
                    [('data_size', 'Z'), ('batch_size', 'Z'), ('num_epochs', 'optZ'),
                     ('num_steps_hp', 'optZ'), ('drop_remainder', 'bool')],
                    'optZ', 'num_steps',
                    names={'self._data_size': 'data_size', 'hparams.batch_size': 'batch_size',
                           'hparams.num_epochs': 'num_epochs', 'hparams.num_steps': 'num_steps_hp',
                           'hparams.drop_remainder': 'drop_remainder',
                           'self._num_steps': 'num_steps'}),
            A_batchloop('BatchView.__iter__', 'batch_view_iter',
                        [('raw', 'rows'), ('data_size', 'Z'), ('batch_size', 'Z'), ('drop_remainder', 'bool')],
                        'rows',
                        names={'self._data_size': 'data_size', 'self._batch_size': 'batch_size',
                               'self._drop_remainder': 'drop_remainder',
                               'self._client_dataset.raw_examples': 'raw'}),
            A_batchloop('PaddedBatchView.__iter__', 'padded_batch_view_iter',
                        [('raw', 'rows'), ('data_size', 'Z'), ('batch_size', 'Z'), ('final_batch_size', 'Z')],
                        'batch',
                        names={'self._data_size': 'data_size', 'self._batch_size': 'batch_size',
                               'self._final_batch_size': 'final_batch_size',
                               'self._client_dataset.raw_examples': 'raw'}),
        ],
    },
    # ---- wave 2 (C03): pad_examples, attach_mask, BatchPreprocessor.__call__, and the padded
    # loop once more with the translated pad_examples plugged in
    'Gen_client_datasets_pad': {
        'src': CD,
        'preamble': ('From FV Require Import Common.Batch Common.NpArr.\n'
                     'Section Gen_client_datasets_pad.\nContext {A : Type} (zero : A) (pre : list A -> list A).\n'
                     'Notation rows := (list A).\nNotation mask := (list bool).\nNotation batch := (batch A).\n'
                     'Notation optbatch := (option (Batch.batch A)).\n'),
        'postamble': 'End Gen_client_datasets_pad.\n',
        'items': [
            A_rowsfun('pad_examples', 'gen_pad_examples', [('examples', 'rows'), ('size', 'Z')], 'batch',
                      calls={'num_examples': ('Z.of_nat (length {0})', ['rows'], 'Z'), 'np.zeros': _np_zeros2}),
            A_rowsfun('attach_mask', 'gen_attach_mask', [('examples', 'rows'), ('mask', 'mask')], 'batch'),
            A_rowsfun('slice_examples', 'gen_slice_examples', [('examples', 'rows'), ('index', 'slice')], 'rows'),
            A_rowsfun('BatchPreprocessor.__call__', 'gen_preprocessor_call',
                      [('self_fns', 'fns'), ('examples', 'rows')], 'rows',
                      names={'self._fns': 'self_fns'}, calls={'dict': ('{0}', ['rows'], 'rows')}),
            # the dataset object: length and slicing (translated), constructor and view entry points (pinned)
            A_rowsfun('ClientDataset.__len__', 'gen_dataset_len', [('self_raw_examples', 'rows')], 'Z',
                      names={'self.raw_examples': 'self_raw_examples'}, calls={'num_examples': _num_examples_call}),
            A_rowsfun('ClientDataset.__getitem__', 'gen_dataset_getitem',
                      [('self_raw_examples', 'rows'), ('index', 'slice')], 'rows',
                      names={'self.raw_examples': 'self_raw_examples'},
                      calls={'isinstance': _isinstance_slice, 'slice_examples': _slice_examples2,
                             'ClientDataset': _client_dataset_ctor}),
            A_plumbing('ClientDataset.__init__', ['self', 'raw_examples', 'preprocessor'], None,
                       'assert_consistent_rows(raw_examples)\nself.raw_examples = raw_examples\n'
                       'self.preprocessor = preprocessor\n'),
            A_rowsfun('num_examples', 'gen_num_examples', [('examples', 'rows'), ('validate', 'bool')], 'Z',
                      calls={'len': _len_first_column}),
            A_consistent_rows('assert_consistent_rows', 'gen_assert_consistent_rows'),
            A_dataclass_defaults('BatchHParams', 'hp_batch', [('batch_size', 'int', None), ('drop_remainder', 'bool', 'bool')]),
            A_dataclass_defaults('PaddedBatchHParams', 'hp_padded',
                                 [('batch_size', 'int', None), ('num_batch_size_buckets', 'int', 'Z')]),
            A_plumbing('BatchPreprocessor.__init__', ['self', 'fns'], None, 'self._fns = tuple(fns)\n'),
            A_plumbing('BatchPreprocessor.append', ['self', 'fn'], None, 'return BatchPreprocessor(self._fns + (fn,))\n'),
            A_plumbing('ClientDataset.all_examples', ['self'], None, 'return self.preprocessor(self.raw_examples)\n'),
            A_plumbing('ClientDataset.batch', ['self', 'hparams'], 'kwargs', _hparams_entry('BatchHParams', 'BatchView')),
            A_plumbing('ClientDataset.padded_batch', ['self', 'hparams'], 'kwargs',
                       _hparams_entry('PaddedBatchHParams', 'PaddedBatchView')),
            A_plumbing('BatchView.__init__', ['self', 'client_dataset', 'hparams'], None,
                       'self._client_dataset = client_dataset\nself._batch_size = hparams.batch_size\n'
                       'self._drop_remainder = hparams.drop_remainder\nself._data_size = len(client_dataset)\n'),
            A_plumbing('PaddedBatchView.__init__', ['self', 'client_dataset', 'hparams'], None,
                       'self._client_dataset = client_dataset\nself._data_size = len(client_dataset)\n'
                       'self._batch_size = hparams.batch_size\n'
                       'self._final_batch_size = _pick_final_batch_size(\n'
                       '    self._data_size, self._batch_size, hparams.num_batch_size_buckets)\n'),
            A_pure_iter(['BatchView.__iter__', 'PaddedBatchView.__iter__']),
            A_no_nondeterminism(['BatchView.__iter__', 'PaddedBatchView.__iter__', 'BatchView.__init__',
                                 'PaddedBatchView.__init__', '_pick_final_batch_size', 'pad_examples', 'attach_mask',
                                 'slice_examples', 'num_examples', 'assert_consistent_rows', 'BatchPreprocessor.__call__',
                                 'BatchPreprocessor.__init__', 'ClientDataset.__init__', 'ClientDataset.__len__',
                                 'ClientDataset.__getitem__', 'ClientDataset.all_examples', 'ClientDataset.batch',
                                 'ClientDataset.padded_batch']),
            A_paddedloop_checked('PaddedBatchView.__iter__', 'padded_batch_view_iter_checked',
                                 [('raw', 'rows'), ('data_size', 'Z'), ('batch_size', 'Z'), ('final_batch_size', 'Z')],
                                 names={'self._data_size': 'data_size', 'self._batch_size': 'batch_size',
                                        'self._final_batch_size': 'final_batch_size',
                                        'self._client_dataset.raw_examples': 'raw'}),
        ],
    },
    # ---- wave 2 (C04): the whole generator ShuffleRepeatBatchView.__iter__
    'Gen_client_datasets_shuffle': {
        'src': CD,
        'preamble': ('From FV Require Import Common.NpArr.\n'
                     'Section Gen_client_datasets_shuffle.\nVariable shuf : nat -> list nat -> list nat.\n'),
        'postamble': 'End Gen_client_datasets_shuffle.\n',
        'items': [
            A_plumbing('ClientDataset.__init__', ['self', 'raw_examples', 'preprocessor'], None,
                       'assert_consistent_rows(raw_examples)\nself.raw_examples = raw_examples\n'
                       'self.preprocessor = preprocessor\n'),
            A_plumbing('ClientDataset.__len__', ['self'], None, 'return num_examples(self.raw_examples, validate=False)\n'),
            A_plumbing('ClientDataset.__getitem__', ['self', 'index'], None,
                       'if not isinstance(index, slice):\n'
                       "  raise ValueError(f'Only slicing is supported, got index {index!r}')\n"
                       'return ClientDataset(slice_examples(self.raw_examples, index), self.preprocessor)\n'),
            A_dataclass_defaults('ShuffleRepeatBatchHParams', 'hp_shuffle',
                                 [('batch_size', 'int', None), ('num_epochs', 'Optional[int]', 'optZ'),
                                  ('num_steps', 'Optional[int]', 'optZ'), ('drop_remainder', 'bool', 'bool'),
                                  ('seed', 'Optional[int]', 'optZ'), ('skip_shuffle', 'bool', 'bool')]),
            A_plumbing('ClientDataset.shuffle_repeat_batch', ['self', 'hparams'], 'kwargs',
                       _hparams_entry('ShuffleRepeatBatchHParams', 'ShuffleRepeatBatchView')),
            A_plumbing('ShuffleRepeatBatchView.__init__', ['self', 'client_dataset', 'hparams'], None,
                       'self._client_dataset = client_dataset\nself._data_size = len(client_dataset)\n'
                       'self._batch_size = hparams.batch_size\nself._seed = hparams.seed\n'
                       'self._skip_shuffle = hparams.skip_shuffle\n', drop_assign_to='self._num_steps'),
            A_pure_iter(['ShuffleRepeatBatchView.__iter__']),
            A_no_nondeterminism(['ShuffleRepeatBatchView.__iter__', 'ShuffleRepeatBatchView.__init__',
                                 'ClientDataset.shuffle_repeat_batch'],
                                allowed=('np.random.RandomState(self._seed)',)),
            A_generator('ShuffleRepeatBatchView.__iter__', 'srb_iter',
                        [('data_size', 'Z'), ('batch_size', 'Z'), ('self_num_steps', 'optZ'), ('skip_shuffle', 'bool')],
                        names={'self._data_size': 'data_size', 'self._batch_size': 'batch_size',
                               'self._num_steps': 'self_num_steps', 'self._skip_shuffle': 'skip_shuffle'},
                        calls={'np.arange': _np_arange_idx, 'np.zeros': _np_zeros2,
                               'np.random.RandomState': _random_state,
                               'self._client_dataset.preprocessor': ('{0}', ['idxs'], 'idxs')}),
        ],
    },
}
