"""Translator anchors for fedjax/core/client_datasets.py (C03, C04, C15)."""
import ast
from translate import (A_intfun, A_stmts, A_const, Ctx, Unsupported, dotted, emit_genloop, find_def, _assign_to)

CD = 'fedjax/core/client_datasets.py'

def _slice_examples(ctx, e, env):
  if len(e.args) != 2:
    raise Unsupported('slice_examples arity')
  src, _ = ctx.expr(e.args[0], env, 'rows')
  sl = e.args[1]
  if not (isinstance(sl, ast.Call) and dotted(sl.func) == 'slice'):
    raise Unsupported('slice_examples index is not slice(...)')
  if len(sl.args) == 2:
    a, _ = ctx.expr(sl.args[0], env, 'Z')
    b, _ = ctx.expr(sl.args[1], env, 'Z')
  elif len(sl.args) == 1:
    a = '0'
    b, _ = ctx.expr(sl.args[0], env, 'Z')
  else:
    raise Unsupported('slice(...) arity')
  return f'(py_slice {src} {a} {b})', 'rows'


def _np_ones_bool(ctx, e, env):
  # np.ones([n], dtype=np.bool_)
  if len(e.args) != 1 or not isinstance(e.args[0], ast.List) or len(e.args[0].elts) != 1:
    raise Unsupported('np.ones shape')
  kw = {k.arg: k.value for k in e.keywords}
  if set(kw) != {'dtype'} or dotted(kw['dtype']) != 'np.bool_':
    raise Unsupported('np.ones dtype')
  n, _ = ctx.expr(e.args[0].elts[0], env, 'Z')
  return f'(repeat true (Z.to_nat {n}))', 'mask'


class BatchCtx(Ctx):
  """Adds the dict-display form `{**processed, EXAMPLE_MASK_KEY: m}`."""

  def _expr(self, e, env):
    if isinstance(e, ast.Dict) and len(e.keys) == 2 and e.keys[0] is None and \
        isinstance(e.keys[1], ast.Name) and e.keys[1].id == 'EXAMPLE_MASK_KEY':
      rows, _ = self.expr(e.values[0], env, 'rows')
      m, _ = self.expr(e.values[1], env, 'mask')
      return f'(attach_mask {rows} {m})', 'batch'
    return super()._expr(e, env)


def A_batchloop(qual, coqname, params, elem_ty, names):
  calls = {
      'slice_examples': _slice_examples,
      'np.ones': _np_ones_bool,
      'self._client_dataset.preprocessor': ('pre {0}', ['rows'], 'rows'),
      'pad_examples': ('pad_examples zero {0} {1}', ['rows', 'Z'], 'batch'),
  }

  def emit(tree):
    fd = find_def(tree, qual)
    text = emit_genloop(fd, coqname, params, BatchCtx(names, calls), elem_ty)
    return text
  return emit


MODULES = {
    'Gen_client_datasets': {
        'src': CD,
        'preamble': ('From FV Require Import Common.Batch.\n'
                     'Section Gen_client_datasets.\nContext {A : Type} (zero : A) (pre : list A -> list A).\n'
                     'Notation rows := (list A).\nNotation mask := (list bool).\nNotation batch := (batch A).\n'),
        'postamble': 'End Gen_client_datasets.\n',
        'items': [
            A_intfun('_pick_final_batch_size', 'pick_final_batch_size',
                     [('data_size', 'Z'), ('batch_size', 'Z'), ('num_batch_size_buckets', 'Z')]),
            A_stmts('ShuffleRepeatBatchView.__init__',
                    lambda fd: _assign_to(fd, 'self._num_steps'),
                    'shuffle_num_steps',
                    [('data_size', 'Z'), ('batch_size', 'Z'), ('num_epochs', 'optZ'),
                     ('num_steps_hp', 'optZ'), ('drop_remainder', 'bool')],
                    'optZ', 'num_steps',
                    names={'self._data_size': 'data_size', 'hparams.batch_size': 'batch_size',
                           'hparams.num_epochs': 'num_epochs', 'hparams.num_steps': 'num_steps_hp',
                           'hparams.drop_remainder': 'drop_remainder',
                           'self._num_steps': 'num_steps'}),
            A_batchloop('BatchView.__iter__', 'batch_view_iter',
                        [('raw', 'rows'), ('data_size', 'Z'), ('batch_size', 'Z'), ('drop_remainder', 'bool')],
                        'rows',
                        names={'self._data_size': 'data_size', 'self._batch_size': 'batch_size',
                               'self._drop_remainder': 'drop_remainder',
                               'self._client_dataset.raw_examples': 'raw'}),
            A_batchloop('PaddedBatchView.__iter__', 'padded_batch_view_iter',
                        [('raw', 'rows'), ('data_size', 'Z'), ('batch_size', 'Z'), ('final_batch_size', 'Z')],
                        'batch',
                        names={'self._data_size': 'data_size', 'self._batch_size': 'batch_size',
                               'self._final_batch_size': 'final_batch_size',
                               'self._client_dataset.raw_examples': 'raw'}),
        ],
    },
}


