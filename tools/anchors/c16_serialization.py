"""Translator anchors for C16: the STRUCTURE of fedjax/core/serialization.py (ext-type
codes, the order and conditions of the isinstance chain, the steps of
_ndarray_to_bytes, tuple layouts, decoders) and the effect sequence of
checkpoint.save_checkpoint, emitted as tables over Common/SerTags.v that
Model/C16_Model.v interprets.  Fail-closed: every statement must have exactly the
recognised shape."""
import ast
from lib.c20tr import _T, _unsupported, _body, D, A_classconsts

SER = 'fedjax/core/serialization.py'
CK = 'fedjax/training/checkpoint.py'
CODES = ['ndarray', 'native_complex', 'npscalar', 'bytes_ndarray']


def _is_call(e, name, nargs=None):
  return isinstance(e, ast.Call) and D(e.func) == name and (nargs is None or len(e.args) == nargs)


def _isinstance(e, var):
  """isinstance(var, T) -> dotted T or tuple of dotted; None if not that shape."""
  if _is_call(e, 'isinstance', 2) and not e.keywords and D(e.args[0]) == var:
    t = e.args[1]
    if isinstance(t, ast.Tuple):
      return tuple(D(x) for x in t.elts)
    return D(t)
  return None


def _chain(stmt):
  """if/elif/.. chain -> [(test, body)], final else body (or [])"""
  out = []
  while True:
    out.append((stmt.test, stmt.body))
    if len(stmt.orelse) == 1 and isinstance(stmt.orelse[0], ast.If):
      stmt = stmt.orelse[0]
    else:
      return out, stmt.orelse


def _ext_pack(tree):
  T = _T()
  fd = T.find_def(tree, '_msgpack_ext_pack')
  if [a.arg for a in fd.args.args] != ['x']:
    _unsupported('_msgpack_ext_pack: parameters changed')
  b = _body(fd)
  if not b or not isinstance(b[0], ast.If):
    _unsupported('_msgpack_ext_pack: does not start with the isinstance chain')
  branches, els = _chain(b[0])
  if els:
    _unsupported('_msgpack_ext_pack: chain has an else branch')
  rows = []
  for test, body in branches:
    # test
    if isinstance(test, ast.BoolOp) and isinstance(test.op, ast.And) and len(test.values) == 2 and \
        _isinstance(test.values[0], 'x') == 'np.ndarray' and isinstance(test.values[1], ast.Compare) and \
        D(test.values[1].left) == 'x.dtype' and len(test.values[1].ops) == 1 and isinstance(test.values[1].ops[0], ast.Eq) and \
        D(test.values[1].comparators[0]) == 'object':
      t = 'TestNdarrayObject'
    elif _isinstance(test, 'x') == ('np.ndarray', 'jax.Array'):
      t = 'TestNdarrayOrJax'
    elif _isinstance(test, 'x') == 'np.generic':
      t = 'TestNpGeneric'
    elif _isinstance(test, 'x') == 'complex':
      t = 'TestComplex'
    else:
      _unsupported('_msgpack_ext_pack: unrecognised branch condition ' + ast.dump(test)[:160])
    # body: return msgpack.ExtType(_MsgpackExtType.<code>, <enc>)
    if not (len(body) == 1 and isinstance(body[0], ast.Return) and _is_call(body[0].value, 'msgpack.ExtType', 2)):
      _unsupported('_msgpack_ext_pack: branch body is not `return msgpack.ExtType(code, payload)`')
    code, enc = body[0].value.args
    cd = D(code) or ''
    if not cd.startswith('_MsgpackExtType.') or cd.split('.')[1] not in CODES:
      _unsupported('_msgpack_ext_pack: unknown ext code ' + cd)
    if _is_call(enc, '_bytes_ndarray_to_bytes', 1) and D(enc.args[0]) == 'x':
      e = 'EncBytesNdarray'
    elif _is_call(enc, '_ndarray_to_bytes', 1) and D(enc.args[0]) == 'x':
      e = 'EncNdarray'
    elif _is_call(enc, '_ndarray_to_bytes', 1) and _is_call(enc.args[0], 'np.asarray', 1) and D(enc.args[0].args[0]) == 'x':
      e = 'EncNdarrayOfAsarray'
    elif _is_call(enc, 'msgpack.packb', 1) and not enc.keywords and isinstance(enc.args[0], ast.Tuple) and \
        [D(v) for v in enc.args[0].elts] == ['x.real', 'x.imag']:
      e = 'EncComplexTuple'
    else:
      _unsupported('_msgpack_ext_pack: unrecognised payload ' + ast.dump(enc)[:160])
    rows.append(f'({t}, EXT_{cd.split(".")[1]}, {e})')
  rest = [s for s in b[1:] if not (isinstance(s, ast.Expr) and _is_call(s.value, 'print'))]
  if not (len(rest) == 1 and isinstance(rest[0], ast.Return) and D(rest[0].value) == 'x'):
    _unsupported('_msgpack_ext_pack: does not fall through to `return x`')
  return ('(* _msgpack_ext_pack: first matching branch wins; no match -> x is returned unchanged and msgpack raises TypeError *)\n'
          'Definition pack_dispatch : list (pack_test * Z * pack_enc) :=\n  [' + ';\n   '.join(rows) + '].')


def _ext_unpack(tree):
  T = _T()
  fd = T.find_def(tree, '_msgpack_ext_unpack')
  if [a.arg for a in fd.args.args] != ['code', 'data']:
    _unsupported('_msgpack_ext_unpack: parameters changed')
  b = _body(fd)
  if len(b) != 2 or not isinstance(b[0], ast.If):
    _unsupported('_msgpack_ext_unpack: expected the code chain and a final return')
  branches, els = _chain(b[0])
  if els:
    _unsupported('_msgpack_ext_unpack: chain has an else branch')
  rows = []
  for test, body in branches:
    ok = isinstance(test, ast.Compare) and D(test.left) == 'code' and len(test.ops) == 1 and isinstance(test.ops[0], ast.Eq)
    cd = D(test.comparators[0]) if ok else ''
    if not ok or not cd.startswith('_MsgpackExtType.') or cd.split('.')[1] not in CODES:
      _unsupported('_msgpack_ext_unpack: unrecognised branch condition')
    if len(body) == 1 and isinstance(body[0], ast.Return) and _is_call(body[0].value, '_ndarray_from_bytes', 1) and D(body[0].value.args[0]) == 'data':
      d = 'DecNdarray'
    elif len(body) == 1 and isinstance(body[0], ast.Return) and _is_call(body[0].value, '_object_ndarray_from_bytes', 1) and D(body[0].value.args[0]) == 'data':
      d = 'DecObjectNdarray'
    elif len(body) == 2 and isinstance(body[0], ast.Assign) and D(body[0].targets[0]) == 'ar' and \
        _is_call(body[0].value, '_ndarray_from_bytes', 1) and D(body[0].value.args[0]) == 'data' and isinstance(body[1], ast.Return) and \
        isinstance(body[1].value, ast.Subscript) and D(body[1].value.value) == 'ar' and isinstance(body[1].value.slice, ast.Tuple) and \
        not body[1].value.slice.elts:
      d = 'DecScalarOfNdarray'
    elif len(body) == 2 and isinstance(body[0], ast.Assign) and D(body[0].targets[0]) == 'complex_tuple' and \
        _is_call(body[0].value, 'msgpack.unpackb', 1) and D(body[0].value.args[0]) == 'data' and not body[0].value.keywords and \
        isinstance(body[1], ast.Return) and _is_call(body[1].value, 'complex', 2) and \
        [ast.unparse(a) for a in body[1].value.args] == ['complex_tuple[0]', 'complex_tuple[1]']:
      d = 'DecComplex'
    else:
      _unsupported('_msgpack_ext_unpack: unrecognised branch body for ' + cd)
    rows.append(f'(EXT_{cd.split(".")[1]}, {d})')
  if not (isinstance(b[1], ast.Return) and _is_call(b[1].value, 'msgpack.ExtType', 2) and
          [D(a) for a in b[1].value.args] == ['code', 'data']):
    _unsupported('_msgpack_ext_unpack: does not fall through to `return msgpack.ExtType(code, data)`')
  return ('(* _msgpack_ext_unpack: unknown codes come back as a raw msgpack.ExtType *)\n'
          'Definition unpack_dispatch : list (Z * unpack_dec) :=\n  [' + ';\n   '.join(rows) + '].')


def _packb_tuple(stmts, what):
  """`tpl = <tuple>` then `return msgpack.packb(tpl, use_bin_type=True)` -> tuple node"""
  if not (len(stmts) == 2 and isinstance(stmts[0], ast.Assign) and D(stmts[0].targets[0]) == 'tpl' and
          isinstance(stmts[0].value, ast.Tuple) and isinstance(stmts[1], ast.Return) and
          _is_call(stmts[1].value, 'msgpack.packb', 1) and D(stmts[1].value.args[0]) == 'tpl'):
    _unsupported(what + ': does not end with tpl = (...); return msgpack.packb(tpl, use_bin_type=True)')
  kw = {k.arg: k.value for k in stmts[1].value.keywords}
  if set(kw) != {'use_bin_type'} or not (isinstance(kw['use_bin_type'], ast.Constant) and kw['use_bin_type'].value is True):
    _unsupported(what + ': packb is not called with use_bin_type=True only')
  return stmts[0].value


def _ndarray_to_bytes(tree):
  T = _T()
  fd = T.find_def(tree, '_ndarray_to_bytes')
  if [a.arg for a in fd.args.args] != ['arr']:
    _unsupported('_ndarray_to_bytes: parameters changed')
  b = _body(fd)
  steps = []
  i = 0
  while i < len(b) and isinstance(b[i], ast.If):
    s = b[i]
    if s.orelse or len(s.body) != 1:
      _unsupported('_ndarray_to_bytes: conditional step with else / several statements')
    t, body = s.test, s.body[0]
    if _isinstance(t, 'arr') == 'jax.Array' and isinstance(body, ast.Assign) and D(body.targets[0]) == 'arr' and \
        _is_call(body.value, 'np.array', 1) and D(body.value.args[0]) == 'arr' and not body.value.keywords:
      steps.append('StepJaxToNumpy')
    elif isinstance(body, ast.Raise):
      flags = [D(v) for v in t.values] if isinstance(t, ast.BoolOp) and isinstance(t.op, ast.Or) else [D(t)]
      if any(f not in ('arr.dtype.hasobject', 'arr.dtype.isalignedstruct') for f in flags):
        _unsupported('_ndarray_to_bytes: unrecognised rejection guard')
      if not (_is_call(body.exc, 'ValueError')):
        _unsupported('_ndarray_to_bytes: guard does not raise ValueError')
      steps.append(f'StepReject {"true" if "arr.dtype.hasobject" in flags else "false"} '
                   f'{"true" if "arr.dtype.isalignedstruct" in flags else "false"}')
    elif isinstance(t, ast.UnaryOp) and isinstance(t.op, ast.Not) and D(t.operand) == 'arr.dtype.isnative' and \
        isinstance(body, ast.Assign) and D(body.targets[0]) == 'arr' and \
        ast.unparse(body.value) == "arr.astype(arr.dtype.newbyteorder('='))":
      steps.append('StepToNative')
    else:
      _unsupported('_ndarray_to_bytes: unrecognised step ' + ast.unparse(s)[:120])
    i += 1
  tup = _packb_tuple(b[i:], '_ndarray_to_bytes')
  fields = []
  for e in tup.elts:
    u = ast.unparse(e)
    if u == 'arr.shape':
      fields.append('FShape')
    elif u == 'arr.dtype.name':
      fields.append('FName')
    elif u == "arr.tobytes('C')":
      fields.append('FBytesC')
    else:
      _unsupported('_ndarray_to_bytes: unrecognised tuple field ' + u)
  return ('Definition ndarray_to_bytes_steps : list ntb_step := [' + '; '.join(f'({s})' if ' ' in s else s for s in steps) + '].\n'
          'Definition ndarray_tuple_fields : list ser_field := [' + '; '.join(fields) + '].')


def _bytes_ndarray_to_bytes(tree):
  T = _T()
  fd = T.find_def(tree, '_bytes_ndarray_to_bytes')
  b = _body(fd)
  if len(b) != 5 or [a.arg for a in fd.args.args] != ['x']:
    _unsupported('_bytes_ndarray_to_bytes: expected 5 statements')
  if not (isinstance(b[0], ast.Assign) and D(b[0].targets[0]) == 'shape' and D(b[0].value) == 'x.shape'):
    _unsupported('_bytes_ndarray_to_bytes: shape = x.shape expected')
  if not (isinstance(b[1], ast.Assign) and D(b[1].targets[0]) == 'flat' and ast.unparse(b[1].value) == 'list(x.flatten())'):
    _unsupported('_bytes_ndarray_to_bytes: flat = list(x.flatten()) expected')
  g = b[2]
  if not (isinstance(g, ast.If) and not g.orelse and len(g.body) == 1 and isinstance(g.body[0], ast.Raise) and
          _is_call(g.body[0].exc, 'ValueError') and
          ast.unparse(g.test) == 'not all((isinstance(v, bytes) for v in flat))'):
    _unsupported('_bytes_ndarray_to_bytes: the guard is not `if not all(isinstance(v, bytes) for v in flat): raise ValueError`')
  tup = _packb_tuple(b[3:], '_bytes_ndarray_to_bytes')
  if [D(e) for e in tup.elts] != ['shape', 'flat']:
    _unsupported('_bytes_ndarray_to_bytes: tuple is not (shape, flat)')
  return ('Definition bytes_ndarray_checks_every_element : bool := true.\n'
          'Definition bytes_tuple_fields : list ser_field := [FShape; FFlat].')


def _from_bytes(tree):
  T = _T()
  out = []
  fd = T.find_def(tree, '_ndarray_from_bytes')
  b = _body(fd)
  ok = len(b) == 2 and isinstance(b[0], ast.Assign) and isinstance(b[0].targets[0], ast.Tuple) and \
      ast.unparse(b[0].value) == 'msgpack.unpackb(data, raw=True)'
  if not ok:
    _unsupported('_ndarray_from_bytes: first statement is not `a, b, c = msgpack.unpackb(data, raw=True)`')
  names = [D(x) for x in b[0].targets[0].elts]
  r = b[1]
  want = "np.frombuffer({buf}, dtype=_dtype_from_name({name}), count=-1, offset=0).reshape({shape}, order='C')"
  if not isinstance(r, ast.Return):
    _unsupported('_ndarray_from_bytes: no return')
  u = ast.unparse(r.value)
  role = {}
  import itertools
  for perm in itertools.permutations(names):
    if len(perm) == 3 and u == want.format(shape=perm[0], name=perm[1], buf=perm[2]):
      role = {perm[0]: 'FShape', perm[1]: 'FName', perm[2]: 'FBytesC'}
  if not role:
    _unsupported("_ndarray_from_bytes: return is not np.frombuffer(buf, dtype=_dtype_from_name(name), count=-1, offset=0).reshape(shape, order='C')")
  out.append('Definition ndarray_unpack_fields : list ser_field := [' + '; '.join(role[n] for n in names) + '].')
  fd = T.find_def(tree, '_object_ndarray_from_bytes')
  b = _body(fd)
  ok = len(b) == 2 and isinstance(b[0], ast.Assign) and isinstance(b[0].targets[0], ast.Tuple) and \
      ast.unparse(b[0].value) == 'msgpack.unpackb(data, raw=True)' and len(b[0].targets[0].elts) == 2
  names = [D(x) for x in b[0].targets[0].elts] if ok else []
  role = {}
  if ok and isinstance(b[1], ast.Return):
    u = ast.unparse(b[1].value)
    for perm in itertools.permutations(names):
      if u == f'np.array({perm[1]}, dtype=object).reshape({perm[0]})':
        role = {perm[0]: 'FShape', perm[1]: 'FFlat'}
  if not role:
    _unsupported('_object_ndarray_from_bytes: not `shape, flat = unpackb(data, raw=True); return np.array(flat, dtype=object).reshape(shape)`')
  out.append('Definition bytes_unpack_fields : list ser_field := [' + '; '.join(role[n] for n in names) + '].')
  # _dtype_from_name
  fd = T.find_def(tree, '_dtype_from_name')
  u = ast.unparse(ast.Module(body=_body(fd), type_ignores=[]))
  if u != "if name == b'bfloat16':\n    return jax.numpy.bfloat16\nelse:\n    return np.dtype(name)":
    _unsupported('_dtype_from_name: changed')
  out.append('Definition dtype_from_name_is_numpy_lookup_plus_bfloat16 : bool := true.')
  return '\n'.join(out)


def _api(tree):
  T = _T()
  fd = T.find_def(tree, 'msgpack_serialize')
  b = _body(fd)
  if not (len(b) == 1 and isinstance(b[0], ast.Return) and
          ast.unparse(b[0].value) == 'msgpack.packb(pytree, default=_msgpack_ext_pack, strict_types=True)'):
    _unsupported('msgpack_serialize: not msgpack.packb(pytree, default=_msgpack_ext_pack, strict_types=True)')
  fd = T.find_def(tree, 'msgpack_deserialize')
  b = _body(fd)
  if not (len(b) == 1 and isinstance(b[0], ast.Return) and
          ast.unparse(b[0].value) == 'msgpack.unpackb(encoded_pytree, ext_hook=_msgpack_ext_unpack, raw=False)'):
    _unsupported('msgpack_deserialize: not msgpack.unpackb(encoded_pytree, ext_hook=_msgpack_ext_unpack, raw=False)')
  # determinism: nothing in the module may depend on object identity, hashing, time, the environment or randomness
  for node in ast.walk(tree):
    if isinstance(node, ast.Call) and isinstance(node.func, ast.Name) and node.func.id in ('hash', 'id'):
      _unsupported(f'serialization.py calls {node.func.id}(): result may differ between processes')
    if isinstance(node, ast.Attribute) and isinstance(node.value, ast.Name) and node.value.id in ('time', 'uuid', 'random', 'secrets', 'datetime'):
      _unsupported(f'serialization.py uses {node.value.id}.{node.attr}')
    if isinstance(node, ast.Attribute) and D(node) in ('os.environ', 'np.random', 'os.getpid'):
      _unsupported(f'serialization.py uses {D(node)}')
  out = ['(* strict_types=True: tuples (and subclasses) are not packed natively but handed to `default` *)',
         'Definition serialization_has_no_process_dependent_input : bool := true.',
         'Definition serialize_strict_types : bool := true.']
  for nm, mode, fn in (('save_state', 'wb', 'pickle.dump(state, f)'), ('load_state', 'rb', 'return pickle.load(f)')):
    fd = T.find_def(tree, nm)
    w = [s for s in _body(fd) if isinstance(s, ast.With)]
    if len(w) != 1 or ast.unparse(w[0].items[0].context_expr) != f"tf.io.gfile.GFile(path, '{mode}')" or \
        len(w[0].body) != 1 or ast.unparse(w[0].body[0]) != fn:
      _unsupported(f'{nm}: not a single pickle call on GFile(path, {mode!r})')
  out.append('Definition state_files_are_pickle_dump_load_of_the_whole_state : bool := true.')
  return '\n'.join(out)


def _save_checkpoint(tree):
  T = _T()
  fd = T.find_def(tree, 'save_checkpoint')
  if [a.arg for a in fd.args.args] != ['root_dir', 'state', 'round_num', 'keep']:
    _unsupported('save_checkpoint: parameters changed')
  b = [ast.unparse(s) for s in _body(fd)]
  want_prefix = ["base_path = os.path.join(root_dir, _CHECKPOINT_PREFIX)",
                 "checkpoint_path = f'{base_path}{round_num:08d}'"]
  if b[:2] != want_prefix:
    _unsupported('save_checkpoint: path computation changed')
  effects = []
  names = {'checkpoint_path': 'PFinal'}
  for u, s in zip(b[2:], _body(fd)[2:]):
    if u == "tmp_path = checkpoint_path + '.tmp'":
      names['tmp_path'] = 'PTmp'
    elif isinstance(s, ast.Expr) and _is_call(s.value, 'serialization.save_state', 2) and D(s.value.args[0]) == 'state' and \
        D(s.value.args[1]) in names and not s.value.keywords:
      effects.append(f'EffSaveState {names[D(s.value.args[1])]}')
    elif isinstance(s, ast.Expr) and _is_call(s.value, 'tf.io.gfile.rename', 2) and all(D(a) in names for a in s.value.args):
      kw = {k.arg: k.value for k in s.value.keywords}
      if set(kw) - {'overwrite'} or ('overwrite' in kw and not isinstance(kw['overwrite'], ast.Constant)):
        _unsupported('save_checkpoint: rename keywords')
      ov = bool(kw['overwrite'].value) if 'overwrite' in kw else False
      effects.append(f'EffRename {names[D(s.value.args[0])]} {names[D(s.value.args[1])]} {"true" if ov else "false"}')
    elif u == 'remove_checkpoint_paths = _get_checkpoint_paths(base_path)[:-keep]':
      names['remove_checkpoint_paths'] = 'REMOVE'
    elif u == 'for path in remove_checkpoint_paths:\n    tf.io.gfile.remove(path)' and 'remove_checkpoint_paths' in names:
      effects.append('EffRemoveAllButLastKeep')
    else:
      _unsupported('save_checkpoint: unrecognised statement: ' + u[:100])
  fdl = T.find_def(tree, 'load_latest_checkpoint')
  ul = [ast.unparse(s) for s in _body(fdl)]
  if ul != ["base_path = os.path.join(root_dir, _CHECKPOINT_PREFIX)",
            "all_checkpoint_paths = _get_checkpoint_paths(base_path)",
            "if all_checkpoint_paths:\n    latest_checkpoint_path = all_checkpoint_paths[-1]\n    latest_round_num = int(latest_checkpoint_path.split(base_path)[-1])\n"
            "    latest_state = serialization.load_state(latest_checkpoint_path)\n    return (latest_state, latest_round_num)"]:
    _unsupported('load_latest_checkpoint: changed')
  return ('(* save_checkpoint: the file-system effects in source order; any other statement (an early return, ...) is refused *)\n'
          'Definition save_checkpoint_effects : list ck_effect := [' + '; '.join(f'({e})' if ' ' in e else e for e in effects) + '].\n'
          '(* load_latest_checkpoint: the LAST of the round-sorted checkpoint paths, None when there is none *)\n'
          'Definition load_latest_takes_last_of_sorted : bool := true.')


def _sqlite(tree):
  """Builder row = (client_id, zlib(msgpack(examples)), num_examples(examples, validate=True)) inserted in
  iteration order; reader parses with msgpack_deserialize(zlib.decompress(.)) and iterates ORDER BY rowid."""
  T = _T()
  fd = T.find_def(tree, 'decompress_and_deserialize')
  if [ast.unparse(x) for x in _body(fd)] != ['data = zlib.decompress(data)', 'return serialization.msgpack_deserialize(data)']:
    _unsupported('decompress_and_deserialize: changed')
  am = T.find_def(tree, 'SQLiteFederatedDataBuilder.add_many')
  pp = T.find_def(am, 'prepare_parameters')
  if [ast.unparse(x) for x in _body(pp)] != ['client_id = ce[0]', 'examples = ce[1]',
                                             'num_examples = client_datasets.num_examples(examples, validate=True)',
                                             'data = zlib.compress(serialization.msgpack_serialize(examples))',
                                             'return (client_id, data, num_examples)']:
    _unsupported('SQLiteFederatedDataBuilder.add_many.prepare_parameters: changed')
  rest = [ast.unparse(x) for x in _body(am) if not isinstance(x, ast.FunctionDef)]
  if rest != ['client_ids_datas_num_examples = map(prepare_parameters, client_ids_examples)',
              "self._connection.executemany('INSERT INTO federated_data VALUES (?, ?, ?);', client_ids_datas_num_examples)",
              'self._connection.commit()']:
    _unsupported('SQLiteFederatedDataBuilder.add_many: changed')
  cls = T.find_def(tree, 'SQLiteFederatedData')
  cols = {}
  for meth, col in (('client_ids', 'client_id'), ('client_sizes', 'client_id, num_examples'), ('_read_clients', 'client_id, data')):
    src = ast.unparse(T.find_def(cls, meth))
    if f"SELECT {col} FROM federated_data WHERE " not in src or 'ORDER BY rowid;' not in src:
      _unsupported(f'SQLiteFederatedData.{meth}: does not select {col} ORDER BY rowid')
  # every query runs on a FRESH cursor (connection.execute): lazy listings must not share a result set
  for node in ast.walk(cls):
    if isinstance(node, ast.Attribute) and node.attr in ('_cursor', 'cursor'):
      _unsupported('SQLiteFederatedData: a cursor is stored / shared between queries')
    if isinstance(node, ast.Call) and isinstance(node.func, ast.Attribute) and node.func.attr in ('execute', 'executemany') and \
        D(node.func.value) != 'self._connection':
      _unsupported('SQLiteFederatedData: a query is not issued through self._connection.execute')
  # argument plumbing of the derived views: every SQLiteFederatedData(...) built inside the class hands each constructor
  # parameter the like-named local / attribute (connection, parse_examples, start, stop, preprocess_client, preprocess_batch)
  init_params = [a.arg for a in T.find_def(cls, '__init__').args.args if a.arg != 'self']
  if init_params != ['connection', 'parse_examples', 'start', 'stop', 'preprocess_client', 'preprocess_batch']:
    _unsupported('SQLiteFederatedData.__init__: parameters changed')
  built = 0
  for meth in ('new', 'slice', 'preprocess_client', 'preprocess_batch'):
    for node in ast.walk(T.find_def(cls, meth)):
      if isinstance(node, ast.Call) and D(node.func) == 'SQLiteFederatedData':
        built += 1
        bound = list(zip(init_params, node.args)) + [(k.arg, k.value) for k in node.keywords]
        for pname, e in bound:
          src = ast.unparse(e)
          if src not in (pname, 'self._' + pname, f'self._{pname}.append(fn)'):
            _unsupported(f'SQLiteFederatedData.{meth}: constructor parameter {pname} receives `{src}`')
  if built != 4:
    _unsupported('SQLiteFederatedData: expected the four derived-view constructions (new, slice, preprocess_client, preprocess_batch)')
  for attr in init_params:
    if f'self._{attr} = {attr}' not in ast.unparse(T.find_def(cls, '__init__')):
      _unsupported(f'SQLiteFederatedData.__init__: self._{attr} is not set from {attr}')
  cd = ast.unparse(T.find_def(cls, '_client_dataset'))
  if 'self._preprocess_client(client_id, self._parse_examples(data))' not in cd:
    _unsupported('SQLiteFederatedData._client_dataset: examples are not parse_examples(data)')
  new = ast.unparse(T.find_def(cls, 'new'))
  if 'parse_examples: Callable[[bytes], client_datasets.Examples]=decompress_and_deserialize' not in new:
    _unsupported('SQLiteFederatedData.new: default parser is not decompress_and_deserialize')
  # schema: CREATE TABLE column order, the tuple handed to INSERT ... VALUES (?, ?, ?), the columns of each SELECT
  import re
  COL = {'client_id': 'ColId', 'data': 'ColData', 'num_examples': 'ColCount'}
  init = T.find_def(tree, 'SQLiteFederatedDataBuilder.__init__')
  create = [n.value for n in ast.walk(init) if isinstance(n, ast.Constant) and isinstance(n.value, str) and 'CREATE TABLE' in n.value]
  if len(create) != 1:
    _unsupported('SQLiteFederatedDataBuilder.__init__: expected one CREATE TABLE statement')
  m = re.search(r'CREATE TABLE federated_data \((.*)\)', create[0], re.S)
  cols = [c.split()[0] for c in m.group(1).split(',')] if m else []
  if sorted(cols) != sorted(COL) or 'client_id BLOB NOT NULL PRIMARY KEY' not in create[0]:
    _unsupported('SQLiteFederatedDataBuilder.__init__: table columns changed')
  ret = [x for x in _body(pp) if isinstance(x, ast.Return)][0].value
  tup = [D(e) for e in ret.elts]
  if sorted(tup) != sorted(COL):
    _unsupported('prepare_parameters: returned tuple is not a permutation of (client_id, data, num_examples)')
  sel = {}
  for meth in ('client_ids', 'client_sizes', '_read_clients'):
    src = ast.unparse(T.find_def(cls, meth))
    mm = re.search(r'SELECT (.*?) FROM federated_data', src)
    sel[meth] = [c.strip() for c in mm.group(1).split(',')]
    if any(c not in COL for c in sel[meth]):
      _unsupported(f'SQLiteFederatedData.{meth}: unknown column selected')
  lst = lambda names: '[' + '; '.join(COL[n] for n in names) + ']'
  schema = (f'Definition table_columns : list db_col := {lst(cols)}.\n'
            f'Definition builder_tuple : list db_col := {lst(tup)}.\n'
            f'Definition select_ids_cols : list db_col := {lst(sel["client_ids"])}.\n'
            f'Definition select_sizes_cols : list db_col := {lst(sel["client_sizes"])}.\n'
            f'Definition select_clients_cols : list db_col := {lst(sel["_read_clients"])}.\n')
  return (schema +
          '(* row = (client_id, zlib(msgpack_serialize(examples)), num_examples(examples)); rows are inserted in\n'
          '   iteration order and read back ORDER BY rowid through msgpack_deserialize(zlib.decompress(.)) *)\n'
          'Definition sqlite_row_is_id_blob_count : bool := true.\n'
          'Definition sqlite_reads_in_rowid_order : bool := true.\n'
          '(* every query method issues self._connection.execute(...): a fresh cursor per query, so a lazy\n'
          '   listing is not disturbed by other queries on the same object *)\n'
          'Definition sqlite_fresh_cursor_per_query : bool := true.\n'
          '(* new / slice / preprocess_client / preprocess_batch pass every constructor parameter on to the like-named one *)\n'
          'Definition sqlite_views_forward_constructor_arguments : bool := true.')


MODULES = {
    'Gen_serialization': {
        'src': SER,
        'preamble': 'From FV Require Import Common.SerTags.\n',
        'items': [
            A_classconsts('_MsgpackExtType', [(c, 'EXT_' + c) for c in CODES]),
            _ext_pack, _ext_unpack, _ndarray_to_bytes, _bytes_ndarray_to_bytes, _from_bytes, _api,
        ],
    },
    'Gen_c16_sqlite': {
        'src': 'fedjax/core/sqlite_federated_data.py',
        'preamble': 'From FV Require Import Common.SerTags.\n',
        'items': [_sqlite],
    },
    'Gen_c16_checkpoint': {
        'src': CK,
        'preamble': 'From FV Require Import Common.SerTags.\n',
        'items': [_save_checkpoint],
    },
}
